"""C14 — constants inhabit the type they report (+ the value layer of the codec, reused by C05).

Case kinds (field "k" of a spec; "e" is a constant-building expression in the spec syntax of
harness/bridge.py, which records the constructor / helper / std class used):

  val    build the value with the real constructors; observe `type_()`, the serialised form
         `_to_serial_root().model_dump_json()`, the value decoded back from it
         (`sops.Value.model_validate(...).deserialize()`), and — spec cross-validation, not an
         implementation observable — the verdict of the Python reference checker `j_inhabits` on the
         serialised value and the serialised reported type.  Lean stream `val.all`.
  load   `Const(v).port_kind(OutPort(node, 0))`, `dfg.load(v)`: type / signature / port kinds of the
         LoadConst built, and the link const-out-0 -> load-in-0.  Lean stream `const.load`.
  dec    a serialised value with 1-2 structural mutations (missing required member, unknown tag,
         wrong JSON kind): accept / reject and the decoded value.  Lean stream `val.dec`.
  inh    the reference checker and the Lean `inhabits` on the serialised forms of a value and of ANOTHER type.  Stream
         `val.inhabits` (cross-validates the two transcriptions of the Rust rules; oracle-free).

The oracle is written from the property text and the Rust rules (`SumType::check_type`,
`Value::get_type/validate`, `SumType::new` normalisation), independently of the Lean model: it works
on the JSON the implementation emits and on the recipe (which helper, which arguments).
"""
from __future__ import annotations

import copy
import json
from pathlib import Path

import bridge as B
from core import Failure
from sexp import A, dumps

PROP = "C14"
TITLE = "Constants inhabit the type they report"
LEAN_TARGETS = ["HugrVerif.Props.C14"]
DRIVE_TARGETS = ["HugrVerif.Drive.Val"]
RULE = (
    "values are generated type-first: a random constant type to depth 5 (unit sums, general sums with 0-3 rows of 0-3 "
    "types, function types, opaque / user extension types, std int<0..6> / float64 / string / array<n,t> / List<t> / "
    "static_array<t> incl. nested arrays of sums), then an expression of that type built with a randomly chosen "
    "applicable constructor (Sum / Tuple / Some / None_ / Left / Right / UnitSum / bool_value / Unit, IntVal (values "
    "inside and outside the width's range) / FloatVal (incl. inf, nan, -0.0) / StringVal / ArrayVal / ListVal / "
    "StaticArrayVal, Function over a Dfg built with the real builder, Extension constants with arbitrary JSON payloads); "
    "40% of the cases then get one argument fault in a general Sum(tag, typ, vals) (tag out of range, field dropped / "
    "added / of another type, row type changed, unit-sum written as general sum or back), so that both sides of the "
    "conditional claim are exercised; widths outside 0..6 and non-copyable static-array elements (ValueError) are "
    "included as mirrored behaviour without an oracle claim. Non-trivial = the expression has at least one nested "
    "constructor (depth >= 2) or is a std collection / function constant; distinct by full spec."
)
TRUSTED = [
    "translator harness/props/C14.py: the six std type definitions and extension names of std/_json_defs/*.json -> Gen/StdValDefs.lean",
    "pydantic model_dump_json / model_validate are the encoder / structural decoder (floats: non-finite -> null, literal text otherwise)",
    "the body document of a function constant and the inner signature of its root operation are taken from the real builder "
    "(the document codec belongs to C02/C05); the model carries them as given",
    "Python reference checker j_inhabits (harness/props/C14.py) transcribes the same Rust rules as Lean `Value.inhabits`; the two are "
    "compared on every case (streams val.all, val.inhabits)",
]
ASSUMPTIONS = [
    "general Sum(tag, typ, vals): the claim is conditional on well-formed arguments (tag in range, field types = tagged row)",
    "helpers: fields are themselves well-typed constants; UnitSum(tag, size) with tag < size",
    "typ of a general Sum is a sum type (anything else cannot be serialised by the implementation: outside the fragment)",
    "nothing is claimed for integer widths outside 0..6, integer values outside the width's range, or non-finite floats (mirrored only)",
]

# ----------------------------------------------------------------------------- translation (tie b)

STD_TYPES = [
    # lean name, json file (under std/_json_defs), type name
    ("int", "arithmetic/int/types", "int"),
    ("float64", "arithmetic/float/types", "float64"),
    ("string", "prelude", "string"),
    ("array", "collections/array", "array"),
    ("list", "collections/list", "List"),
    ("staticArray", "collections/static_array", "static_array"),
]


def _lean_str(s: str) -> str:
    out = []
    for c in s:
        if c == "\\":
            out.append("\\\\")
        elif c == '"':
            out.append('\\"')
        elif c == "\n":
            out.append("\\n")
        elif c == "\t":
            out.append("\\t")
        elif c == "\r":
            out.append("\\r")
        elif ord(c) < 32:
            out.append("\\x%02x" % ord(c))
        else:
            out.append(c)
    return '"' + "".join(out) + '"'


def _lean_bound(b: str) -> str:
    return {"C": ".copyable", "A": ".any"}[b]


def _lean_param(p: dict) -> str:
    tp = p["tp"]
    if tp == "Type":
        return f"(.type {_lean_bound(p['b'])})"
    if tp == "BoundedNat":
        return "(.boundedNat none)" if p.get("bound") is None else f"(.boundedNat (some {int(p['bound'])}))"
    if tp == "String":
        return ".string"
    if tp == "List":
        return f"(.list {_lean_param(p['param'])})"
    if tp == "Tuple":
        return "(.tuple [" + ", ".join(_lean_param(x) for x in p["params"]) + "])"
    if tp == "Extensions":
        return ".extensions"
    raise ValueError(f"unknown type parameter {p!r}")


def _lean_defbound(b: dict) -> str:
    if b["b"] == "Explicit":
        return f"(.explicit {_lean_bound(b['bound'])})"
    if b["b"] == "FromParams":
        return "(.fromParams [" + ", ".join(str(int(i)) for i in b["indices"]) + "])"
    raise ValueError(f"unknown bound {b!r}")


def translate(repo, gen_dir) -> list[str]:
    """Regenerate Gen/StdValDefs.lean from the bundled standard extension files: the six type
    definitions the std constant classes instantiate, and the names of the extensions owning them."""
    problems: list[str] = []
    base = Path(repo) / "hugr-py" / "src" / "hugr" / "std" / "_json_defs"
    lines = [
        "-- GENERATED by harness/props/C14.py translate() from hugr-py/src/hugr/std/_json_defs — do not edit",
        "import HugrVerif.Tys",
        "namespace HugrVerif.Gen.StdValDefs",
        "",
    ]
    for lean, file, tname in STD_TYPES:
        try:
            doc = json.loads((base / (file + ".json")).read_text())
            td = doc["types"][tname]
            if td.get("extension", doc["name"]) != doc["name"]:
                problems.append(f"{file}: type {tname} names extension {td.get('extension')!r} != {doc['name']!r}")
            lines += [
                f"/-- `{doc['name']}`.types[`{tname}`] -/",
                f"def {lean} : TypeDefRef :=",
                f"  {{ ext := {_lean_str(doc['name'])}, name := {_lean_str(td['name'])},",
                f"    description := {_lean_str(td['description'])},",
                "    params := [" + ", ".join(_lean_param(p) for p in td["params"]) + "],",
                f"    bound := {_lean_defbound(td['bound'])} }}",
                f"/-- `Extension.name` of the file `{file}.json` -/",
                f"def {lean}Ext : String := {_lean_str(doc['name'])}",
                "",
            ]
        except Exception as e:  # noqa: BLE001
            problems.append(f"cannot translate {file}.json type {tname}: {e!r}")
    lines.append("end HugrVerif.Gen.StdValDefs")
    text = "\n".join(lines) + "\n"
    out = Path(gen_dir) / "StdValDefs.lean"
    if not problems and (not out.exists() or out.read_text() != text):
        out.write_text(text)
    return problems


# ============================================================================ reference (spec level)
# Types as specs; `t_canon` identifies a unit sum with the general sum of that many empty rows (the
# Rust side normalises sums when built or read: `SumType::new`; Python `Sum.__eq__` compares rows).


def t_canon(t):
    if isinstance(t, str):
        return t
    k = t[0]
    if k == "@unit":
        return ["@sum", [[] for _ in range(t[1])]]
    if k == "@sum":
        return ["@sum", [[t_canon(x) for x in row] for row in t[1]]]
    if k == "@fn":
        return ["@fn", [t_canon(x) for x in t[1]], [t_canon(x) for x in t[2]], list(t[3])]
    if k == "@poly":
        return ["@poly", t[1], [t_canon(x) for x in t[2]], [t_canon(x) for x in t[3]], list(t[4])]
    if k == "@ext":
        return ["@ext", t[1], [a_canon(a) for a in t[2]]]
    if k == "@opaque":
        return ["@opaque", t[1], t[2], [a_canon(a) for a in t[3]], t[4]]
    return t


def a_canon(a):
    if a[0] == "@ty":
        return ["@ty", t_canon(a[1])]
    if a[0] == "@seq":
        return ["@seq", [a_canon(x) for x in a[1]]]
    return a


def t_same(a, b):
    return t_canon(a) == t_canon(b)


def _named(t):
    """`t_canon` with an extension type and its opaque form identified (by extension, name and arguments)."""
    if isinstance(t, list):
        if t and t[0] == "@ext":
            return ["@named", t[1][1], t[1][2], [_named(a) for a in t[2]]]
        if t and t[0] == "@opaque":
            return ["@named", t[4], t[1], [_named(a) for a in t[3]]]
        return [_named(x) for x in t]
    return t


def t_same_modulo_form(a, b):
    """The two types differ at most in the FORM of an extension type (definition-backed vs opaque): the wire format
    knows only the opaque form, so such a pair is one type for the specification (given consistent bounds) while the
    Python objects compare unequal — neither 'well-formed' nor 'ill-formed' is claimed for it."""
    return _named(t_canon(a)) == _named(t_canon(b))


def t_variant(t, tag):
    if isinstance(t, list) and t[0] == "@unit":
        return [] if 0 <= tag < t[1] else None
    if isinstance(t, list) and t[0] == "@sum":
        return t[1][tag] if 0 <= tag < len(t[1]) else None
    return None


def is_rowvar(t):
    return isinstance(t, list) and t[0] == "@rowvar"


def ref_type(e):
    """The type the property says the expression's value has (from the recipe, not the implementation)."""
    if e == "@unit":
        return ["@unit", 1]
    k = e[0]
    tys = lambda xs: [ref_type(x) for x in xs]  # noqa: E731
    if k == "@vsum":
        return e[2]
    if k == "@vtuple":
        return ["@sum", [tys(e[1])]]
    if k == "@some":
        return ["@sum", [[], tys(e[1])]]
    if k == "@none":
        return ["@sum", [[], list(e[1])]]
    if k == "@left":
        return ["@sum", [tys(e[1]), list(e[2])]]
    if k == "@right":
        return ["@sum", [list(e[1]), tys(e[2])]]
    if k == "@unitsum":
        return ["@unit", e[2]]
    if k == "@bool":
        return ["@unit", 2]
    if k == "@fndfg":
        return ["@fn", list(e[1]), B.fn_outs(e), list(e[3]) if len(e) > 3 else []]
    if k == "@vfn":
        return ["@fn", list(e[1]), list(e[2]), list(e[3])]
    if k == "@vext":
        return e[2]
    if k == "@int":
        return B.std_type("int", ["@nat", e[2]])
    if k == "@float":
        return B.std_type("float64")
    if k == "@string":
        return B.std_type("string")
    if k == "@array":
        return B.std_type("array", ["@nat", len(e[1])], ["@ty", e[2]])
    if k == "@list":
        return B.std_type("list", ["@ty", e[2]])
    if k == "@sarray":
        return B.std_type("static_array", ["@ty", e[2]])
    raise ValueError(e)


HELPER_TAG = {"@vtuple": 0, "@some": 1, "@none": 0, "@left": 0, "@right": 1}


def ref_tag(e):
    if e == "@unit":
        return 0
    k = e[0]
    if k in HELPER_TAG:
        return HELPER_TAG[k]
    if k == "@unitsum":
        return e[1]
    if k == "@bool":
        return 1 if e[1] else 0
    if k == "@vsum":
        return e[1]
    return None


def children(e):
    if e == "@unit":
        return []
    k = e[0]
    if k == "@vsum":
        return e[3]
    if k in ("@vtuple", "@some", "@left", "@array", "@list", "@sarray"):
        return e[1]
    if k == "@right":
        return e[2]
    return []


def all_wf(xs):
    """three-valued conjunction: False dominates, then None (undetermined)"""
    xs = list(xs)
    if any(x is False for x in xs):
        return False
    return None if any(x is None for x in xs) else True


def ref_wf(e):
    """Well-formed arguments, recursively (the hypothesis of the claim): general sums have their tag
    in range and fields of the tagged row's types; helper fields are well-formed; UnitSum tag < size;
    an extension constant's type is a single type.  Elements of std collections are constants of
    their own (the claim about them is `embedded completely`, checked separately)."""
    if e == "@unit":
        return True
    k = e[0]
    if k == "@vsum":
        row = t_variant(e[2], e[1])
        if row is None or len(row) != len(e[3]):
            return False
        if not all(t_same(ref_type(x), t) for x, t in zip(e[3], row)):
            if all(t_same_modulo_form(ref_type(x), t) for x, t in zip(e[3], row)):
                return None  # undetermined (see t_same_modulo_form): no claim either way
            return False
        return all_wf(ref_wf(x) for x in e[3])
    if k in ("@vtuple", "@some", "@left", "@right"):
        return all_wf(ref_wf(x) for x in children(e))
    if k == "@unitsum":
        return e[1] < e[2]
    if k == "@vext":
        return not is_rowvar(e[2])
    if k == "@fndfg" and len(e) > 4 and e[4] == "loop":
        return False  # the specification gives a function constant a type only for DFG / FuncDefn roots
    return True


def depth(e):
    return 1 + max([depth(c) for c in children(e)], default=0)


# ============================================================================ reference (JSON level)
# `j_inhabits(value_json, type_json)`: the Rust rules on the serialised forms.


def jt_norm(t):
    """`SumType::new`: a general sum whose rows are all empty is the unit sum (size <= 255)."""
    if not isinstance(t, dict):
        return t
    k = t.get("t")
    if k == "Sum":
        if t.get("s") == "Unit":
            return {"t": "Sum", "s": "Unit", "size": t["size"]}
        rows = [[jt_norm(x) for x in row] for row in t["rows"]]
        if all(len(r) == 0 for r in rows) and len(rows) <= 255:
            return {"t": "Sum", "s": "Unit", "size": len(rows)}
        return {"t": "Sum", "s": "General", "rows": rows}
    if k == "G":
        return {"t": "G", "input": [jt_norm(x) for x in t["input"]], "output": [jt_norm(x) for x in t["output"]],
                "runtime_reqs": list(t.get("runtime_reqs", []))}
    if k == "Opaque":
        return {**t, "args": [ja_norm(a) for a in t["args"]]}
    return t


def ja_norm(a):
    if a.get("tya") == "Type":
        return {**a, "ty": jt_norm(a["ty"])}
    if a.get("tya") == "Sequence":
        return {**a, "elems": [ja_norm(x) for x in a["elems"]]}
    return a


def j_variant(typ, tag):
    """`SumType::get_variant`"""
    if typ.get("s") == "Unit":
        return [] if 0 <= tag < typ["size"] else None
    rows = typ["rows"]
    return rows[tag] if 0 <= tag < len(rows) else None


def j_fn_type(doc):
    """`mono_fn_type`: the signature of the root (a DFG's signature; a monomorphic FuncDefn's body)."""
    root = doc["nodes"][0]
    if root["op"] == "DFG":
        s = root["signature"]
    elif root["op"] == "FuncDefn" and not root["signature"]["params"]:
        s = root["signature"]["body"]
    else:
        return None
    return {"t": "G", "input": s["input"], "output": s["output"], "runtime_reqs": s.get("runtime_reqs", [])}


def j_body_sig(doc):
    """The signature of the body of a function constant as the property asks for it: `mono_fn_type` where the
    specification defines it; for a body rooted at a TailLoop the signature of the loop's body (inputs ->
    Sum(just_inputs, just_outputs) + rest)."""
    root = doc["nodes"][0]
    if root["op"] == "TailLoop":
        ji, jo, rest = root["just_inputs"], root["just_outputs"], root["rest"]
        return {"t": "G", "input": ji + rest, "output": [{"t": "Sum", "s": "General", "rows": [ji, jo]}] + rest,
                "runtime_reqs": root.get("extension_delta", [])}
    return j_fn_type(doc)


def j_type_of(v):
    """`Value::get_type`"""
    k = v["v"]
    if k == "Sum":
        return {"t": "Sum", **{x: y for x, y in v["typ"].items() if x != "t"}}
    if k == "Tuple":
        return {"t": "Sum", "s": "General", "rows": [[j_type_of(x) for x in v["vs"]]]}
    if k == "Function":
        return j_fn_type(v["hugr"])
    if k == "Extension":
        return v["typ"]
    raise ValueError(k)


def j_validate(v):
    """`Value::validate` on every nested value; for sums `SumType::check_type`."""
    k = v["v"]
    if k == "Sum":
        row = j_variant(v["typ"], v["tag"])  # InvalidTag
        if row is None:
            return False
        if any(t.get("t") == "R" for t in row):  # VariantNotConcrete
            return False
        if len(row) != len(v["vs"]):  # WrongVariantLength
            return False
        for t, x in zip(row, v["vs"]):  # InvalidValueType
            if jt_norm(j_type_of(x)) != jt_norm(t):
                return False
        return all(j_validate(x) for x in v["vs"])
    if k == "Tuple":
        return all(j_validate(x) for x in v["vs"])
    if k == "Function":
        return j_fn_type(v["hugr"]) is not None
    if k == "Extension":
        return v["typ"].get("t") != "R"  # a value's type is a single type
    return False


def j_inhabits(v, t):
    return j_validate(v) and jt_norm(j_type_of(v)) == jt_norm(t)


# ============================================================================ generation


def _subexprs(e, path=()):
    yield path, e
    for i, c in enumerate(children(e)):
        yield from _subexprs(c, path + (i,))


def _replace(e, path, new):
    if not path:
        return new
    e = copy.copy(e)
    k = e[0]
    idx = 3 if k == "@vsum" else 2 if k == "@right" else 1
    e[idx] = list(e[idx])
    e[idx][path[0]] = _replace(e[idx][path[0]], path[1:], new)
    return e


def _generalise(e):
    """Write a helper-built sum in its general `Sum(tag, typ, vals)` form (same value)."""
    if e == "@unit" or e[0] in ("@vtuple", "@some", "@none", "@left", "@right", "@unitsum", "@bool"):
        return ["@vsum", ref_tag(e), ref_type(e), list(children(e))]
    return e


def _fault(rng, e):
    """One argument fault in one general sum somewhere in the expression (or the general form written
    with the other spelling of a unit sum, which is NOT a fault)."""
    sums = [(p, x) for p, x in _subexprs(e) if x == "@unit" or x[0] in ("@vsum", "@vtuple", "@some", "@none", "@left", "@right", "@unitsum", "@bool")]
    if not sums:
        return e
    path, s = rng.choice(sums)
    s = _generalise(s)
    _, tag, typ, vals = s
    vals = list(vals)
    rows = [[] for _ in range(typ[1])] if typ[0] == "@unit" else [list(r) for r in typ[1]]
    k = rng.randrange(8)
    if k == 0:
        tag = len(rows) + rng.randint(0, 2)
    elif k == 1 and vals:
        vals.pop(rng.randrange(len(vals)))
    elif k == 2:
        vals.insert(rng.randint(0, len(vals)), B.gen_value_of(rng, B.gen_vtype(rng, 1), 1))
    elif k == 3 and vals:
        i = rng.randrange(len(vals))
        vals[i] = B.gen_value_of(rng, B.gen_vtype(rng, 1), 1)
    elif k == 4 and tag < len(rows) and rows[tag]:
        i = rng.randrange(len(rows[tag]))
        rows[tag][i] = B.gen_vtype(rng, 1)
        typ = ["@sum", rows]
    elif k == 5 and len(rows) > 1:
        # another row changes: still well-formed
        j = rng.choice([i for i in range(len(rows)) if i != tag] or [0])
        rows[j] = rows[j] + [B.gen_vtype(rng, 1)]
        typ = ["@sum", rows]
    elif k == 6 and tag < len(rows) and rows[tag]:
        # a unit-sum element of the row written the other way: still well-formed
        i = rng.randrange(len(rows[tag]))
        t = rows[tag][i]
        if isinstance(t, list) and t[0] == "@unit":
            rows[tag][i] = ["@sum", [[] for _ in range(t[1])]]
        elif isinstance(t, list) and t[0] == "@sum" and all(not r for r in t[1]):
            rows[tag][i] = ["@unit", len(t[1])]
        typ = ["@sum", rows]
    else:
        # the sum type itself written the other way
        if typ[0] == "@unit":
            typ = ["@sum", rows]
        elif all(not r for r in rows):
            typ = ["@unit", len(rows)]
    return _replace(e, path, ["@vsum", tag, typ, vals])


def _gen_expr(rng, depth):
    e = B.gen_value(rng, depth)
    if rng.random() < 0.4:
        e = _fault(rng, e)
    return e


FIXED = [
    "@unit", ["@bool", True], ["@bool", False], ["@vtuple", []], ["@some", []], ["@none", []],
    ["@unitsum", 0, 1], ["@unitsum", 2, 2], ["@unitsum", 0, 0], ["@unitsum", 255, 256], ["@unitsum", 299, 300],
    ["@some", [["@vtuple", []]]], ["@vtuple", [["@vtuple", []], "@unit"]],
    ["@vsum", 0, ["@sum", [[["@sum", [[], []]]]]], [["@bool", True]]],
    ["@vsum", 0, ["@sum", [[["@unit", 2]]]], [["@vsum", 1, ["@sum", [[], []]], []]]],
    ["@vsum", 1, ["@sum", [[]]], []], ["@vsum", 0, ["@sum", []], []],
    ["@left", [], []], ["@right", [], []],
    ["@vext", "c", ["@rowvar", 0, "@A"], ["@json", None], []],
    ["@vtuple", [["@vext", "c", ["@rowvar", 0, "@A"], ["@json", None], []]]],
    ["@fndfg", [], [], []], ["@fndfg", ["@qubit", ["@unit", 2]], [1, 0], []], ["@fndfg", ["@usize"], [0], ["e", "ext.β"]],
    # bodies rooted at a FuncDefn (valid) and at a standalone TailLoop (the builder allows it; the specification has no
    # type for it: only "the signature of its body" is asked of it)
    ["@fndfg", [], [], [], "func"], ["@fndfg", ["@qubit", ["@unit", 2]], [1, 0], [], "func"],
    ["@fndfg", [["@unit", 2]], [0], [], "loop"], ["@fndfg", ["@qubit", ["@unit", 2]], [0, 1], [], "loop"],
    ["@vtuple", [["@fndfg", [["@unit", 2]], [0], [], "loop"]]],
    ["@array", [], "@qubit"], ["@list", [], ["@fn", [], [], []]], ["@sarray", [], ["@unit", 2], ""],
    ["@sarray", [], "@qubit", "n"],
    ["@array", [["@array", [["@some", [["@int", 3, 2]]]], ["@sum", [[], [B.std_type("int", ["@nat", 2])]]]]],
     B.std_type("array", ["@nat", 1], ["@ty", ["@sum", [[], [B.std_type("int", ["@nat", 2])]]]])],
]


def _widths():
    out = []
    for w in list(range(0, 7)) + [7, 9, -1, 64]:
        for v in (0, 1, -1, 2 ** (2**w if 0 <= w <= 6 else 3) - 1, 2 ** (2**w if 0 <= w <= 6 else 3), -(2**63), 2**70):
            out.append(["@int", v, w])
    return out


def _mutate_json(rng, j):
    """1-2 structural mutations whose verdict does not depend on pydantic's lax scalar coercions."""
    j = copy.deepcopy(j)

    def nodes(x, acc):
        if isinstance(x, dict) and "v" in x and isinstance(x.get("v"), str):
            if x["v"] != "Function":
                acc.append(x)
            for key in ("vs",):
                for y in x.get(key, []) if isinstance(x.get(key), list) else []:
                    nodes(y, acc)
        return acc

    for _ in range(rng.randint(1, 2)):
        ns = nodes(j, [])
        if not ns:
            break
        n = rng.choice(ns)
        k = rng.randrange(7)
        keys = [x for x in n if x != "v"]
        if k == 0 and keys:
            del n[rng.choice(keys)]
        elif k == 1:
            n["v"] = rng.choice(["Sum", "Tuple", "Extension", "Nope", "Function"])
        elif k == 2 and "vs" in n:
            n["vs"] = {"a": 1}
        elif k == 3 and "typ" in n:
            n["typ"] = rng.choice([None, [], {"t": "Q"}, {"s": "Unit", "size": 2}, {"t": "Sum", "s": "Unit"}, {"t": "Sum", "s": "Other"}])
        elif k == 4 and "value" in n:
            n["value"] = rng.choice([None, {"c": "x"}, {"v": 1}, {"c": "x", "v": None, "extra": 0}, []])
        elif k == 5:
            n["extra_member"] = [1, 2]
        elif k == 6 and "extensions" in n:
            n["extensions"] = rng.choice([None, {"a": 1}, ["x", "y"]])
    return j


def cases(rng, tier):
    if tier == "quick":
        n_val, n_load, n_dec, n_inh = 8000, 1000, 1200, 1000
    elif tier == "thorough":
        n_val, n_load, n_dec, n_inh = 150000, 15000, 25000, 15000
    else:  # search: oracle-only hunt
        n_val, n_load, n_dec, n_inh = 30000, 4000, 0, 0
    for e in FIXED + _widths():
        yield {"k": "val", "e": e}
        yield {"k": "load", "e": e}
    for i in range(n_val):
        yield {"k": "val", "e": _gen_expr(rng, rng.choice([2, 3, 3, 4, 4, 5]))}
    for i in range(n_load):
        sp = {"k": "load", "e": _gen_expr(rng, rng.choice([1, 2, 3, 4]))}
        if rng.random() < 0.25:
            sp["prev"] = _gen_expr(rng, rng.choice([1, 2, 3]))
        yield sp
    for i in range(n_dec):
        e = B.gen_value(rng, rng.choice([1, 2, 3]))
        try:
            j = json.loads(B.build_value(e)._to_serial_root().model_dump_json())
        except Exception:  # noqa: BLE001
            continue
        yield {"k": "dec", "j": _mutate_json(rng, j) if rng.random() < 0.85 else j}
    for i in range(n_inh):
        e = _gen_expr(rng, rng.choice([1, 2, 3]))
        r = rng.random()
        if r < 0.5:
            # the reported type with one place rewritten
            t = ref_type(e)
            t = _perturb_type(rng, t)
        else:
            t = B.gen_vtype(rng, 2)
        yield {"k": "inh", "e": e, "t": t}


def _respell(t):
    """The other spelling of an extension type: an opaque type without arguments as an instance of a
    definition with that name / extension / explicit bound, a std type in its opaque form (same
    serialised type, different hugr-py class)."""
    if isinstance(t, list) and t[0] == "@opaque" and not t[3]:
        return ["@ext", ["@def", t[4], t[1], "", [], ["@explicit", t[2]]], []]
    if isinstance(t, list) and t[0] == "@ext" and t[1][5][0] == "@explicit" and all(a[0] != "@ty" for a in t[2]):
        return ["@opaque", t[1][2], t[1][5][1], t[2], t[1][1]]
    if isinstance(t, list) and t[0] == "@sum":
        return ["@sum", [[_respell(x) for x in r] for r in t[1]]]
    return t


def _perturb_type(rng, t):
    if rng.random() < 0.25:
        return _respell(t)
    if isinstance(t, list) and t[0] == "@unit":
        return rng.choice([["@sum", [[] for _ in range(t[1])]], ["@unit", t[1] + 1], t])
    if isinstance(t, list) and t[0] == "@sum":
        rows = [list(r) for r in t[1]]
        if rows and rng.random() < 0.7:
            i = rng.randrange(len(rows))
            if rows[i] and rng.random() < 0.7:
                j = rng.randrange(len(rows[i]))
                rows[i][j] = _perturb_type(rng, rows[i][j])
            else:
                rows[i] = rows[i] + ["@qubit"]
            return ["@sum", rows]
        if all(not r for r in rows):
            return ["@unit", len(rows)]
        return ["@sum", rows + [[]]]
    return rng.choice([t, t, "@qubit"])


# ============================================================================ implementation adapter


def _dump(obj):
    return json.loads(obj.model_dump_json())


def _build(e):
    """-> (value, None) | (None, observation)"""
    try:
        return B.build_value(e), None
    except ValueError:
        return None, "(error ValueError)"
    except Exception:  # noqa: BLE001
        return None, "(error Exception)"


def _ok(x):
    return [A("ok"), x]


def _err(s):
    return [A("error"), A(s)]


def _obs_val(e):
    import hugr._serialization.ops as sops

    v, bad = _build(e)
    if v is None:
        return bad
    try:
        t = v.type_()
        tsx = B.spec_to_sx(B.type_to_spec(t))
    except Exception:  # noqa: BLE001
        return "(error Exception)"
    j = None
    try:
        j = _dump(v._to_serial_root())
        enc = _ok(B.cjson_sx(j))
    except Exception:  # noqa: BLE001
        enc = _err("enc")
    if j is None:
        rt = _err("enc")
        inh = A("-")
    else:
        try:
            back = sops.Value.model_validate(j).deserialize()
            rt = _ok(B.value_to_sx(B.value_to_spec(back, body=False)))
        except Exception:  # noqa: BLE001
            rt = _err("validation")
        try:
            tj = _dump(t._to_serial_root())
            inh = A("true" if j_inhabits(j, tj) else "false")
        except Exception:  # noqa: BLE001
            inh = A("-")
    return dumps([A("all"), [A("type"), tsx], [A("enc"), enc], [A("rt"), rt], [A("inh"), inh]])


def _kind_sx(k):
    from hugr import tys

    if isinstance(k, tys.ConstKind):
        return [A("const"), B.spec_to_sx(B.type_to_spec(k.ty))]
    if isinstance(k, tys.ValueKind):
        return [A("value"), B.spec_to_sx(B.type_to_spec(k.ty))]
    return A(type(k).__name__)


def _try_kind(f):
    from hugr.ops import IncompleteOp, InvalidPort

    try:
        return _kind_sx(f())
    except InvalidPort:
        return A("InvalidPort")
    except IncompleteOp:
        return A("IncompleteOp")
    except Exception:  # noqa: BLE001
        return A("Exception")


def _load(e, prev=None):
    """Run `dfg.load(value)`; -> dict of the real objects or an observation string.  With `prev`: the Const
    node first held the value `prev`, was inspected (static port, serialisation), and then got `e` assigned to
    its `val` before being loaded: what the node offers must follow the value it holds at the time."""
    from hugr import ops
    from hugr.build.dfg import Dfg
    from hugr.hugr.node_port import OutPort

    v, bad = _build(e)
    if v is None:
        return bad
    d = Dfg()
    try:
        n_before = len(d.hugr)
        vp = _build(prev)[0] if prev is not None else None
        if vp is not None:
            cn = d.add_const(vp)
            for f in (lambda: d.hugr[cn].op.port_kind(OutPort(cn, 0)), lambda: d.hugr.to_json(), lambda: d.hugr[cn].op.num_out,
                      lambda: d.hugr.port_kind(OutPort(cn, 0)), lambda: d.hugr.port_type(OutPort(cn, 0)),
                      lambda: d.hugr.render_dot()):
                try:
                    f()
                except Exception:  # noqa: BLE001
                    pass
            # the node gets its final constant in one of three ways: the value assigned in place, the operation replaced
            # (what a constant-folding pass does), or the node deleted and a new constant added (which reuses the index)
            mode = len(repr(e)) % 3
            if mode == 0:
                d.hugr[cn].op.val = v
            elif mode == 1:
                d.hugr[cn].op = ops.Const(v)
            else:
                d.hugr.delete_node(cn)
                cn = d.add_const(v)
            load_node = d.load(cn)
        else:
            load_node = d.load(v)
    except Exception:  # noqa: BLE001
        return "(error Exception)"
    h = d.hugr
    load_op = h[load_node].op
    consts = [n for n in h if isinstance(h[n].op, ops.Const)]
    return {"v": v, "h": h, "load_node": load_node, "load_op": load_op, "consts": consts, "new": len(h) - n_before}


def _obs_load(e, prev=None):
    from hugr.hugr.node_port import InPort, OutPort

    r = _load(e, prev)
    if isinstance(r, str):
        return r
    h, load_node, load_op = r["h"], r["load_node"], r["load_op"]
    if len(r["consts"]) != 1:
        return "(error no-unique-const)"
    cn = r["consts"][0]
    cop = h[cn].op
    try:
        ty = B.spec_to_sx(B.type_to_spec(load_op.type_))
        sig = load_op.outer_signature()
        sigsx = [A("sig"), [B.spec_to_sx(B.type_to_spec(x)) for x in sig.input], [B.spec_to_sx(B.type_to_spec(x)) for x in sig.output]]
    except Exception:  # noqa: BLE001
        ty, sigsx = A("IncompleteOp"), A("IncompleteOp")
    links = [(s.offset, t.offset) for s, ts in h.outgoing_links(cn) for t in ts if t.node == load_node]
    link = [A("link"), links[0][0], links[0][1]] if len(links) == 1 else [A("link"), A("none")]
    return dumps([
        A("load"),
        [A("constkind"), _try_kind(lambda: cop.port_kind(OutPort(cn, 0)))],
        [A("type"), ty], sigsx,
        [A("in"), _try_kind(lambda: load_op.port_kind(InPort(load_node, 0)))],
        [A("out"), _try_kind(lambda: load_op.port_kind(OutPort(load_node, 0)))],
        link,
        [A("badconst"), _try_kind(lambda: cop.port_kind(OutPort(cn, 1))), _try_kind(lambda: cop.port_kind(InPort(cn, 0)))],
        [A("badload"), _try_kind(lambda: load_op.port_kind(InPort(load_node, 1))), _try_kind(lambda: load_op.port_kind(OutPort(load_node, 1)))],
    ])


def _obs_dec(j):
    import hugr._serialization.ops as sops
    from pydantic import ValidationError

    try:
        m = sops.Value.model_validate(j)
    except ValidationError:
        return "(error validation)"
    except Exception:  # noqa: BLE001
        return "(error Exception)"
    try:
        back = m.deserialize()
        return dumps(_ok(B.value_to_sx(B.value_to_spec(back, body=False))))
    except ValidationError:
        return "(error validation)"
    except Exception:  # noqa: BLE001
        return "(error Exception)"


def _obs_inh(e, t):
    v, bad = _build(e)
    if v is None:
        return bad
    try:
        j = _dump(v._to_serial_root())
        tj = _dump(B.build_type(t)._to_serial_root())
    except Exception:  # noqa: BLE001
        return "(error Exception)"
    return dumps([A("inh"), A("true" if j_inhabits(j, tj) else "false")])


def run_impl(spec):
    k = spec["k"]
    if k == "val":
        return _obs_val(spec["e"])
    if k == "load":
        return _obs_load(spec["e"], spec.get("prev"))
    if k == "dec":
        return _obs_dec(spec["j"])
    if k == "inh":
        return _obs_inh(spec["e"], spec["t"])
    raise ValueError(k)


def _has_loop_fn(e):
    if isinstance(e, list):
        if e and e[0] == "@fndfg" and len(e) > 4 and e[4] == "loop":
            return True
        return any(_has_loop_fn(x) for x in e)
    return False


def payload(spec):
    k = spec["k"]
    if "e" in spec and _has_loop_fn(spec["e"]):
        return None  # a body rooted at a TailLoop is no function constant of the specification: oracle only
    try:
        if k == "val":
            return "val.all", B.value_sexp(spec["e"])
        if k == "load":
            return "const.load", B.value_sexp(spec["e"])
        if k == "dec":
            return "val.dec", dumps(B.cjson_sx(spec["j"]))
        if k == "inh":
            return "val.inhabits", dumps([B.value_to_sx(spec["e"]), B.spec_to_sx(spec["t"])])
    except Exception:  # noqa: BLE001  (the real builder of a function recipe failed: no model stream)
        return None
    raise ValueError(k)


def compare(spec, impl_obs, model_obs):
    if impl_obs == model_obs:
        return True
    if spec["k"] == "inh" and impl_obs.startswith("(error"):
        # the Lean side judges the model value; when the implementation cannot serialise there is nothing to compare
        return True
    return False


# ============================================================================ oracle

SITE = {
    "@vsum": "val.Sum", "@vtuple": "val.Tuple", "@some": "val.Some", "@none": "val.None_", "@left": "val.Left",
    "@right": "val.Right", "@unitsum": "val.UnitSum", "@bool": "val.bool_value", "@vfn": "val.Function",
    "@fndfg": "val.Function", "@vext": "val.Extension", "@int": "std.int.IntVal", "@float": "std.float.FloatVal",
    "@string": "std.prelude.StringVal", "@array": "std.collections.array.ArrayVal",
    "@list": "std.collections.list.ListVal", "@sarray": "std.collections.static_array.StaticArrayVal",
}


def _site(e):
    return "val.Unit" if e == "@unit" else SITE[e[0]]


def _spec_to_tjson(t):
    """Type spec -> the JSON the specification's writer gives (written here, not via hugr-py), for the types
    that occur in std constants' arguments; falls back to None for forms not needed."""
    return None


STD_KEY = {"@int": "int", "@float": "float64", "@string": "string", "@array": "array", "@list": "list", "@sarray": "static_array"}


def _check_std(e, v, j, fails):
    """Std constants: the serialised type is the matching std type (checked against the extension file),
    the defining extension is listed, the elements are embedded completely with the element type."""
    site = _site(e)
    key = STD_KEY[e[0]]
    _, td, ext_name = B.std_def(key)
    typ = j.get("typ", {})
    if j.get("v") != "Extension" or typ.get("t") != "Opaque" or typ.get("extension") != ext_name or typ.get("id") != td["name"]:
        fails.append(Failure(site, "std-type-wrong-definition", json.dumps(typ)[:300]))
        return
    args = typ.get("args", [])
    # arguments match the definition's parameters in number and kind
    want_kind = {"BoundedNat": "BoundedNat", "Type": "Type", "String": "String"}
    if len(args) != len(td["params"]) or any(a.get("tya") != want_kind.get(p["tp"]) for a, p in zip(args, td["params"])):
        fails.append(Failure(site, "std-type-args-mismatch-definition", json.dumps(args)[:300]))
        return
    if ext_name not in j.get("extensions", []):
        fails.append(Failure(site, "std-defining-extension-not-listed", json.dumps(j.get("extensions"))))
    k = e[0]
    if k == "@int":
        if args[0].get("n") != e[2]:
            fails.append(Failure(site, "int-width", f"reported {args[0].get('n')} for width {e[2]}"))
        return
    if k in ("@float", "@string"):
        return
    # collections
    elems = e[1]
    try:
        ety = _dump(B.build_type(e[2])._to_serial_root())
        ejs = [_dump(B.build_value(x)._to_serial_root()) for x in elems]
    except Exception:  # noqa: BLE001
        return
    if k == "@array":
        if args[0].get("n") != len(elems):
            fails.append(Failure(site, "array-size", f"size {args[0].get('n')} for {len(elems)} elements"))
        targ = args[1]
    else:
        targ = args[0]
    if jt_norm(targ.get("ty")) != jt_norm(ety):
        fails.append(Failure(site, "collection-element-type", json.dumps(targ)[:300]))
    # the bound written on the collection type is the one its definition gives it for this element type (computed by an
    # independent reference over the type expression: a sum is copyable only if EVERY row is) — seeded change C14-13
    try:
        from props.C11 import ref_bound

        db = td["bound"]
        want_b = db["bound"] if db["b"] == "Explicit" else ("A" if any(
            td["params"][i]["tp"] == "Type" and ref_bound(e[2]) == "@A" for i in db["indices"]) else "C")
        if typ.get("bound") != want_b:
            fails.append(Failure(site, "std-type-bound-not-the-definition's", f"{typ.get('bound')} written, {want_b} by the definition"))
    except Exception:  # noqa: BLE001
        pass
    payload = j.get("value", {}).get("v")
    inner = payload.get("value") if k == "@sarray" and isinstance(payload, dict) else payload
    if not isinstance(inner, dict) or "values" not in inner or "typ" not in inner:
        fails.append(Failure(site, "payload-shape", json.dumps(payload)[:300]))
        return
    if inner["typ"] != ety:
        fails.append(Failure(site, "payload-element-type", json.dumps(inner["typ"])[:300]))
    if not isinstance(inner["values"], list) or len(inner["values"]) != len(elems):
        fails.append(Failure(site, "payload-element-count", f"{len(inner.get('values', []))} for {len(elems)}"))
        return
    import hugr._serialization.ops as sops

    for i, (got, want) in enumerate(zip(inner["values"], ejs)):
        if B.cjson(got) != B.cjson(want):
            fails.append(Failure(site, "payload-element-not-the-value", f"element {i}"))
            return
        try:  # complete: decodes on its own as a value
            sops.Value.model_validate(got).deserialize()
        except Exception as ex:  # noqa: BLE001
            fails.append(Failure(site, "payload-element-incomplete", f"element {i}: {type(ex).__name__}"))
            return


def _check_node(e, fails):
    """Claims about ONE constructor application (children are checked on their own)."""
    import hugr._serialization.ops as sops

    site = _site(e)
    v, bad = _build(e)
    if v is None:
        return
    k = "@unit" if e == "@unit" else e[0]
    try:
        t = v.type_()
        tspec = B.type_to_spec(t)
        j = _dump(v._to_serial_root())
        tj = _dump(t._to_serial_root())
    except Exception:  # noqa: BLE001
        return  # cannot be serialised (e.g. typ of a general Sum is not a sum): outside the claim
    want_t = ref_type(e)
    # (1) the reported type is the type the serialised form inhabits  <=>  the arguments are well-formed
    wf = ref_wf(e)
    inh = j_inhabits(j, tj)
    if wf is True and not inh:
        fails.append(Failure(site, "reported-type-not-inhabited", f"type {json.dumps(tj)[:200]}"))
    if wf is False and inh and k == "@vsum":
        fails.append(Failure(site, "ill-formed-arguments-accepted", ""))
    # (2) helpers build the corresponding sum type with the right tag
    if k in ("@vtuple", "@some", "@none", "@left", "@right", "@unitsum", "@bool", "@unit"):
        if not t_same(tspec, want_t):
            fails.append(Failure(site, "helper-wrong-sum-type", f"{B.spec_sexp(tspec)[:200]} expected {B.spec_sexp(want_t)[:200]}"))
        tag = getattr(v, "tag", None)
        if tag != ref_tag(e):
            fails.append(Failure(site, "helper-wrong-tag", f"{tag} expected {ref_tag(e)}"))
        if k != "@vtuple":
            if j.get("v") != "Sum" or j.get("tag") != ref_tag(e):
                fails.append(Failure(site, "helper-serialised-tag", json.dumps(j)[:200]))
        vals = getattr(v, "vals", [])
        if len(vals) != len(children(e)):
            fails.append(Failure(site, "helper-fields", f"{len(vals)} fields for {len(children(e))}"))
    # (3) a function constant has the signature of its body
    if k in ("@fndfg", "@vfn"):
        if tspec != want_t:
            fails.append(Failure(site, "function-type-not-body-signature", f"{B.spec_sexp(tspec)[:200]}"))
        ft = j_body_sig(j.get("hugr", {"nodes": [{"op": "?"}]}))
        if ft is None or jt_norm(ft) != jt_norm(tj):
            fails.append(Failure(site, "function-type-not-serialised-body-signature", ""))
    # (4) std constants
    if k in STD_KEY:
        if not t_same(tspec, want_t):
            fails.append(Failure(site, "std-wrong-type", f"{B.spec_sexp(tspec)[:200]} expected {B.spec_sexp(want_t)[:200]}"))
        _check_std(e, v, j, fails)
    # (5) general Sum / Extension report what they were given
    if k in ("@vsum", "@vext") and tspec != want_t:
        fails.append(Failure(site, "reported-type-not-the-given-one", ""))
    # (6) codec: the decoded value re-encodes to the same document and reports the same type
    try:
        back = sops.Value.model_validate(j).deserialize()
        j2 = _dump(back._to_serial_root())
        tj2 = _dump(back.type_()._to_serial_root())
    except Exception as ex:  # noqa: BLE001
        fails.append(Failure(site, "serialised-form-does-not-decode", type(ex).__name__))
        return
    if k not in ("@fndfg", "@vfn"):
        if B.cjson(j2) != B.cjson(j):
            fails.append(Failure(site, "roundtrip-changes-encoding", ""))
    if jt_norm(tj2) != jt_norm(tj):
        fails.append(Failure(site, "roundtrip-changes-type", ""))


def _oracle_val(e):
    fails: list[Failure] = []
    v, bad = _build(e)
    if v is None:
        return fails
    seen = set()
    for _, x in _subexprs(e):
        key = json.dumps(x, sort_keys=True)
        if key in seen:
            continue
        seen.add(key)
        _check_node(x, fails)
        if fails:
            break
    return fails


def _oracle_load(e, prev=None):
    from hugr import ops, tys
    from hugr.hugr.node_port import InPort, OutPort

    fails: list[Failure] = []
    r = _load(e, prev)
    if isinstance(r, str):
        return fails
    h, load_node, load_op, v = r["h"], r["load_node"], r["load_op"], r["v"]
    try:
        want = B.type_to_spec(v.type_())
    except Exception:  # noqa: BLE001
        return fails
    if not t_same(want, ref_type(e)) and (e == "@unit" or e[0] not in ("@vsum", "@vext")):
        return fails  # reported type itself wrong: the `val` cases report it
    if len(r["consts"]) != 1 or not isinstance(load_op, ops.LoadConst):
        fails.append(Failure("DfBase.load", "no-const-or-loadconst", ""))
        return fails
    cn = r["consts"][0]
    cop = h[cn].op
    if cop.val is not v and cop.val != v:
        fails.append(Failure("DfBase.load", "const-holds-another-value", ""))
    try:
        ck = cop.port_kind(OutPort(cn, 0))
    except Exception as ex:  # noqa: BLE001
        fails.append(Failure("Const.port_kind", "raises", type(ex).__name__))
        return fails
    if not isinstance(ck, tys.ConstKind) or B.type_to_spec(ck.ty) != want:
        fails.append(Failure("Const.port_kind", "static-port-not-the-reported-type", repr(ck)[:200]))
    try:
        hk = h.port_kind(OutPort(cn, 0))  # the same question asked of the graph (seeded change C14-14: memoised per index)
    except Exception as ex:  # noqa: BLE001
        fails.append(Failure("Hugr.port_kind", "raises", type(ex).__name__))
        return fails
    if not isinstance(hk, tys.ConstKind) or B.type_to_spec(hk.ty) != want:
        fails.append(Failure("Hugr.port_kind", "static-port-not-the-reported-type", repr(hk)[:200]))
    try:
        lt = B.type_to_spec(load_op.type_)
        sig = load_op.outer_signature()
        ok = load_op.port_kind(OutPort(load_node, 0))
        ik = load_op.port_kind(InPort(load_node, 0))
    except Exception as ex:  # noqa: BLE001
        fails.append(Failure("DfBase.load", "loadconst-incomplete", type(ex).__name__))
        return fails
    if lt != want:
        fails.append(Failure("DfBase.load", "loadconst-type-not-the-reported-type", B.spec_sexp(lt)[:200]))
    if [B.type_to_spec(x) for x in sig.output] != [want] or list(sig.input):
        fails.append(Failure("LoadConst.outer_signature", "does-not-produce-the-type", ""))
    if not isinstance(ok, tys.ValueKind) or B.type_to_spec(ok.ty) != want:
        fails.append(Failure("LoadConst.port_kind", "output-not-a-value-of-the-type", repr(ok)[:200]))
    if not isinstance(ik, tys.ConstKind) or B.type_to_spec(ik.ty) != want:
        fails.append(Failure("LoadConst.port_kind", "static-input-not-the-type", repr(ik)[:200]))
    links = [(s.offset, t.node, t.offset) for s, ts in h.outgoing_links(cn) for t in ts]
    if links != [(0, load_node, 0)]:
        fails.append(Failure("DfBase.load", "const-not-linked-to-load", repr(links)))
    # the serialised nodes agree
    try:
        doc = _dump(h._to_serial())
        cj = next(n for n in doc["nodes"] if n["op"] == "Const")
        lj = next(n for n in doc["nodes"] if n["op"] == "LoadConstant")
        if not j_inhabits(cj["v"], lj["datatype"]) and ref_wf(e) is True:
            fails.append(Failure("DfBase.load", "serialised-constant-does-not-inhabit-loaded-type", ""))
    except StopIteration:
        fails.append(Failure("DfBase.load", "serialised-nodes-missing", ""))
    except Exception:  # noqa: BLE001
        pass
    return fails


def oracle(spec):
    k = spec["k"]
    if k == "val":
        return _oracle_val(spec["e"])
    if k == "load":
        return _oracle_load(spec["e"], spec.get("prev"))
    return []


# ============================================================================ bookkeeping


def nontrivial(spec, obs):
    if obs.startswith("(error"):
        return False
    k = spec["k"]
    if k in ("val", "load", "inh"):
        e = spec["e"]
        return depth(e) >= 2 or (e != "@unit" and e[0] in ("@fndfg", "@array", "@list", "@sarray"))
    return True


def stats(spec, obs, counters):
    k = spec["k"]
    counters[f"kind.{k}"] += 1
    if k == "dec":
        counters["dec.accepted" if obs.startswith("(ok") else "dec.rejected"] += 1
        return
    e = spec["e"]
    counters[f"{k}.depth.{min(depth(e), 7)}"] += 1
    if obs.startswith("(error"):
        counters[f"{k}.{obs}"] += 1
    if k == "val":
        for _, x in _subexprs(e):
            counters["ctor." + ("@unit" if x == "@unit" else x[0])] += 1
            if x != "@unit" and x[0] == "@int":
                counters[f"int.width.{x[2] if 0 <= x[2] <= 6 else 'outside'}"] += 1
        counters["val.wellformed" if ref_wf_all(e) else "val.illformed"] += 1
        if "(inh true)" in obs:
            counters["val.inhabits.true"] += 1
        elif "(inh false)" in obs:
            counters["val.inhabits.false"] += 1
    if k == "inh":
        counters["inh.true" if "true" in obs else "inh.false"] += 1


def ref_wf_all(e):
    return all_wf(ref_wf(x) for _, x in _subexprs(e)) is True


def shrink(spec, pred):
    """Tree shrinking: replace the expression by a sub-expression, drop children, simplify payloads."""
    if spec["k"] not in ("val", "load"):
        return spec
    cur = spec
    improved = True
    budget = 600
    while improved and budget > 0:
        improved = False
        e = cur["e"]
        cands = []
        for path, x in _subexprs(e):
            if path:
                cands.append(x)  # a sub-expression alone
        for path, x in _subexprs(e):
            if path and x != "@unit":
                cands.append(_replace(e, path, "@unit"))  # a child replaced by the simplest constant
        for path, x in _subexprs(e):
            cs = children(x)
            for i in range(len(cs)):
                if x[0] in ("@vtuple", "@some", "@list", "@sarray"):
                    y = copy.copy(x)
                    y[1] = cs[:i] + cs[i + 1:]
                    cands.append(_replace(e, path, y))
            if x != "@unit" and x[0] == "@vext" and x[3][1] is not None:
                cands.append(_replace(e, path, ["@vext", "c", x[2], ["@json", None], []]))
            # simplify the type arguments of helpers / element types of empty collections
            if x != "@unit" and x[0] in ("@none", "@left", "@right"):
                ti = {"@none": 1, "@left": 2, "@right": 1}[x[0]]
                row = x[ti]
                for i in range(len(row)):
                    y = copy.copy(x)
                    y[ti] = row[:i] + row[i + 1:]
                    cands.append(_replace(e, path, y))
                    for simple in ("@qubit", ["@unit", 2]):
                        if row[i] != simple:
                            y = copy.copy(x)
                            y[ti] = row[:i] + [simple] + row[i + 1:]
                            cands.append(_replace(e, path, y))
            if x != "@unit" and x[0] in ("@array", "@list", "@sarray") and x[2] != ["@unit", 2]:
                y = copy.copy(x)
                y[2] = ["@unit", 2]
                cands.append(_replace(e, path, y))
        cands.sort(key=lambda c: len(json.dumps(c)))
        for c in cands:
            budget -= 1
            if budget <= 0:
                break
            if len(json.dumps(c)) >= len(json.dumps(e)):
                continue
            s = {**cur, "e": c}
            try:
                if pred(s):
                    cur = s
                    improved = True
                    break
            except Exception:  # noqa: BLE001
                continue
    return cur
