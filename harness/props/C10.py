"""C10 — extension definitions round-trip; the bundled standard library matches the spec.

Case kinds (field "k" of a spec):

  ext     an extension-building program (`Extension(name, version, reqs)` followed by `add_type_def`,
          `add_op_def`, `register_op`, `add_extension_value` calls) run on the real classes; observed: the
          extension built (owners, requirement lists as sets), the document `to_json()` gives (compared as a
          JSON value, the two set-typed requirement lists as sets), `Extension.from_json` of it dumped
          structurally, and its re-serialisation.  Lean stream `ext.roundtrip`.
          With "mut": the document gets one structural fault before it is loaded (missing member, null
          signature without `binary`, key != name, ...): accept / reject class.  Lean stream `ext.load`.
  file    one relative file name from the union of hugr-py/src/hugr/std/_json_defs/**/*.json and
          specification/std_extensions/**: the bundled file is loaded with `_load_extension`, dumped and
          re-serialised (stream `ext.load`); the oracle compares the two files byte for byte.
  fileset the two sets of relative file names (oracle only).
  helper  a typed helper of hugr.std (`int_t(w)`, `FLOAT_T`, `STRING_T`, `Array`, `List`, `StaticArray`, the
          constants `IntVal` .. `StaticArrayVal` through the type they report, `DivMod`, `Not`): which definition
          of which extension it denotes, the arguments it builds, the declared parameters, and whether the
          arguments fit them.  Lean stream `std.helper` (definitions from the regenerated Gen/StdDefs.lean).

The oracle is written from the property text: it works on the real objects and on the JSON the implementation
emits, never on the Lean model.  Requirement lists that come out of Python sets are always compared as sets.
"""
from __future__ import annotations

import copy
import json
import os
from pathlib import Path

import bridge as B
from core import Failure
from sexp import A, dumps

PROP = "C10"
TITLE = "Extension definitions round-trip; bundled standard library matches the spec"
LEAN_TARGETS = ["HugrVerif.Props.C10"]
DRIVE_TARGETS = ["HugrVerif.Drive.Ext"]
RULE = (
    "extension programs: name / semver version (with prerelease and build parts) / 0-3 requirements (repeats allowed), "
    "then 0-5 type definitions (explicit or from-params bounds, 0-3 parameters of every kind), 0-6 operation definitions "
    "(polymorphic signatures over random rows incl. nested function types with their own requirement lists, user and std "
    "extension types, plain FunctionType signatures, binary-computed signatures with and without type scheme, "
    "OpDefSig(None, False) -> ValueError, definitions registered through register_op with class docstrings), misc dicts "
    "with nested JSON (floats, big integers, null, non-ASCII keys), descriptions incl. non-ASCII / quotes / newlines, "
    "0-3 values (sums, tuples, std constants, extension constants, function constants); names repeat with probability "
    "0.15 so that dict overwrite is exercised; 12% of the programs get one structural fault in the emitted document "
    "before loading. Plus one case per bundled / specified std extension file, the file-set case, and every typed helper "
    "(int_t 0..6 and out-of-range widths, FLOAT_T, STRING_T, Array / List / StaticArray over random element types, the "
    "six constant classes, DivMod widths, Not). Non-trivial = an extension case with at least one operation definition "
    "carrying a type scheme or one value, a file case, or a helper case; distinct by full spec."
)
TRUSTED = [
    "translator harness/props/C10.py: file contents of std/_json_defs/**/*.json and specification/std_extensions/** as Lean "
    "string literals (UTF-8 decoded; a file that is not valid UTF-8 is a translator problem) -> Gen/StdExtFiles.lean; names "
    "and declared parameters of every type / operation definition of the bundled documents -> Gen/StdDefs.lean; every "
    "bundled document as a JSON term (json.loads, members in file order) -> Gen/StdExtDocs.lean (the kernel checks that "
    "each term loads and yields exactly the StdDefs entry; that the term is the parse of the string literal is the "
    "translator's, cross-checked by the `file` cases, which send json.loads of the same file to the model)",
    "pydantic model_dump_json / model_validate_json are the encoder / structural decoder; semver parsing and printing of "
    "the version string belongs to the semver package (the model carries the version as text)",
    "value layer: `decVal (encVal v)` re-encodes to the same document for the values of the extension — hypothesis `ValRT` "
    "of the round-trip theorem (the value codec belongs to C05/C14), checked on every generated value by the driver",
    "Python reference `_arg_fits` (harness/props/C10.py) transcribes hugr-core/src/types/type_param.rs:407-458 like Lean "
    "`argFits`; the two are compared on every helper case",
]
ASSUMPTIONS = [
    "extensions without lowering functions (OpDef.lower_funcs empty): the field is not modelled",
    "a definition object is attached to one extension only (adding the same Python object to a second extension re-owns it)",
    "types in signatures and values can be serialised at all (a malformed extension type whose bound raises cannot)",
    "misc holds JSON values (finite floats; NaN / infinity are written as null by pydantic)",
]

REPO = Path(os.environ.get("HUGR_REPO", "/repo"))
BUNDLED = REPO / "hugr-py" / "src" / "hugr" / "std" / "_json_defs"
SPECDIR = REPO / "specification" / "std_extensions"


# ----------------------------------------------------------------------------- translation (tie b)


def lstr(s: str) -> str:
    out = ['"']
    for ch in s:
        o = ord(ch)
        if ch == '"':
            out.append('\\"')
        elif ch == "\\":
            out.append("\\\\")
        elif ch == "\n":
            out.append("\\n")
        elif ch == "\t":
            out.append("\\t")
        elif ch == "\r":
            out.append("\\r")
        elif o < 32 or o > 126:
            out.append("\\u{%x}" % o)
        else:
            out.append(ch)
    out.append('"')
    return "".join(out)


def _files(root: Path, only_json: bool) -> dict[str, Path]:
    out = {}
    if root.is_dir():
        for p in sorted(root.rglob("*")):
            if p.is_file() and (not only_json or p.suffix == ".json"):
                out[p.relative_to(root).as_posix()] = p
    return out


def bundled_files(repo: Path = REPO) -> dict[str, Path]:
    """JSON files shipped inside the Python package (what `_load_extension` can read)."""
    return _files(repo / "hugr-py" / "src" / "hugr" / "std" / "_json_defs", True)


def spec_files(repo: Path = REPO) -> dict[str, Path]:
    """every file under specification/std_extensions"""
    return _files(repo / "specification" / "std_extensions", False)


def _ident(name: str) -> str:
    import re

    s = re.sub(r"[^A-Za-z0-9]", "_", name.removesuffix(".json"))
    return s if s and not s[0].isdigit() else "f_" + s


def _lean_bound(b) -> str:
    return {"C": ".copyable", "A": ".any"}[b]


def _lean_param(p: dict) -> str:
    tp = p["tp"]
    if tp == "Type":
        return f"(.type {_lean_bound(p['b'])})"
    if tp == "BoundedNat":
        return "(.boundedNat none)" if p.get("bound") is None else f"(.boundedNat (some {int(p['bound'])}))"
    if tp == "String":
        return ".string"
    if tp == "List":
        return f"(.list {_lean_param(p['param'])})"
    if tp == "Tuple":
        return "(.tuple [" + ", ".join(_lean_param(x) for x in p["params"]) + "])"
    if tp == "Extensions":
        return ".extensions"
    raise ValueError(f"unknown type parameter {p!r}")


def _write_if_changed(path: Path, text: str):
    if not path.exists() or path.read_text() != text:
        path.write_text(text)


HEADER = "-- GENERATED by harness/props/C10.py translate() from /repo on every run. Do not edit.\n"


def translate(repo: Path, gen_dir: Path) -> list[str]:
    problems: list[str] = []
    bf, sf = bundled_files(repo), spec_files(repo)
    if not bf:
        problems.append("no bundled extension files found under hugr-py/src/hugr/std/_json_defs")
    if not sf:
        problems.append("no files found under specification/std_extensions")

    # ---- file contents
    taken: dict[str, str] = {}

    def ident(name):
        if name not in taken:
            i, base, k = _ident(name), _ident(name), 1
            while i in taken.values():
                k += 1
                i = f"{base}_{k}"
            taken[name] = i
        return taken[name]

    def content(p: Path):
        raw = p.read_bytes()
        try:
            return raw.decode("utf-8")
        except UnicodeDecodeError:
            problems.append(f"{p}: not valid UTF-8")
            return None

    out = [HEADER, "namespace HugrVerif.Gen.StdExtFiles", ""]
    have_b, have_s = [], []
    for name in sorted(set(bf) | set(sf)):
        i = ident(name)
        if name in bf:
            c = content(bf[name])
            if c is not None:
                out.append(f"/-- hugr-py/src/hugr/std/_json_defs/{name} -/")
                out.append(f"def bundled_{i} : String := {lstr(c)}")
                have_b.append(name)
        if name in sf:
            c = content(sf[name])
            if c is not None:
                out.append(f"/-- specification/std_extensions/{name} -/")
                out.append(f"def spec_{i} : String := {lstr(c)}")
                have_s.append(name)
    out.append("")
    out.append("/-- relative names of the JSON files bundled with the Python package, sorted -/")
    out.append("def bundledNames : List String := [" + ", ".join(lstr(n) for n in sorted(bf)) + "]")
    out.append("/-- relative names of the files under specification/std_extensions, sorted -/")
    out.append("def specNames : List String := [" + ", ".join(lstr(n) for n in sorted(sf)) + "]")
    out.append("def bundled : List (String × String) := ["
               + ", ".join(f"({lstr(n)}, bundled_{ident(n)})" for n in have_b) + "]")
    out.append("def spec : List (String × String) := ["
               + ", ".join(f"({lstr(n)}, spec_{ident(n)})" for n in have_s) + "]")
    out.append("end HugrVerif.Gen.StdExtFiles")
    out.append("")
    out.append("namespace HugrVerif.Props.C10.gen")
    out.append("open HugrVerif.Gen.StdExtFiles")
    for name in sorted(set(have_b) & set(have_s)):
        i = ident(name)
        out.append(f"/-- `{name}`: the bundled file is, character for character, the specified one. -/")
        out.append(f"theorem bundled_eq_spec_{i} : bundled_{i} = spec_{i} := rfl")
    out.append("/-- the package bundles exactly the files of the specification directory -/")
    out.append("theorem same_file_set : bundledNames = specNames := by decide")
    out.append("/-- hence the two tables (name, content) are equal -/")
    out.append("theorem bundled_eq_spec_all : bundled = spec := rfl")
    out.append("end HugrVerif.Props.C10.gen")
    _write_if_changed(gen_dir / "StdExtFiles.lean", "\n".join(out) + "\n")

    # ---- definitions (names + declared parameters) of the bundled documents
    defs = [HEADER, "import HugrVerif.Ext", "namespace HugrVerif.Gen.StdDefs", "open HugrVerif HugrVerif.Ext", ""]
    entries = []
    for name in sorted(bf):
        p = bf[name]
        try:
            doc = json.loads(p.read_text())
            tys_ = [
                f"⟨{lstr(t['name'])}, [" + ", ".join(_lean_param(x) for x in t["params"]) + "]⟩"
                for t in doc["types"].values()
            ]
            ops_ = []
            for o in doc["operations"].values():
                sig = o.get("signature")
                ps = "none" if sig is None else "some [" + ", ".join(_lean_param(x) for x in sig["params"]) + "]"
                ops_.append(f"({lstr(o['name'])}, {ps})")
            entries.append(
                f"  -- {name}\n  {{ name := {lstr(doc['name'])},\n    types := [" + ", ".join(tys_) + "],\n    ops := ["
                + ",\n      ".join(ops_) + "] }"
            )
        except Exception as e:  # noqa: BLE001
            problems.append(f"{name}: cannot translate definitions: {e!r}"[:300])
    defs.append("/-- every bundled extension document: name, type definitions and operation definitions with their")
    defs.append("    declared parameters -/")
    defs.append("def table : List ExtSig := [\n" + ",\n".join(entries) + "]")
    defs.append("end HugrVerif.Gen.StdDefs")
    _write_if_changed(gen_dir / "StdDefs.lean", "\n".join(defs) + "\n")

    # ---- the bundled documents as JSON terms, each with the kernel-checked theorem that it loads
    docs = [HEADER, "import HugrVerif.Ext", "import HugrVerif.Gen.StdDefs", "namespace HugrVerif.Gen.StdExtDocs",
            "open HugrVerif", ""]
    thms = ["namespace HugrVerif.Props.C10.gen", "open HugrVerif HugrVerif.Ext HugrVerif.Gen", ""]
    listed = []
    for name in sorted(bf):
        p = bf[name]
        i = ident(name)
        try:
            doc = json.loads(p.read_text())
            term = lterm(doc)
        except Exception as e:  # noqa: BLE001
            problems.append(f"{name}: cannot translate document: {e!r}"[:300])
            continue
        docs.append(f"/-- hugr-py/src/hugr/std/_json_defs/{name} as a JSON value (object members in file order) -/")
        docs.append(f"def doc_{i} : Json := {term}")
        listed.append((name, i))
        thms.append(f"/-- `{name}` loads (`_load_extension`), and the loaded extension holds exactly the definitions")
        thms.append("    `StdDefs.table` lists for it (names and declared parameters). -/")
        thms.append(f"theorem bundled_loads_{i} : loadsFrom StdDefs.table {DOC_FUEL} StdExtDocs.doc_{i} = true := by decide +kernel")
    docs.append("def docs : List (String × Json) := [" + ", ".join(f"({lstr(n)}, doc_{i})" for n, i in listed) + "]")
    docs.append("end HugrVerif.Gen.StdExtDocs")
    docs.append("")
    thms.append("/-- every bundled document loads and yields its `StdDefs.table` entry -/")
    thms.append("theorem bundled_loads_all : StdExtDocs.docs.all (fun nd => loadsFrom StdDefs.table "
                f"{DOC_FUEL} nd.2) = true := by")
    thms.append("  simp only [StdExtDocs.docs, List.all_cons, List.all_nil, Bool.and_true, Bool.and_self"
                + "".join(f", bundled_loads_{i}" for _, i in listed) + "]")
    thms.append("end HugrVerif.Props.C10.gen")
    _write_if_changed(gen_dir / "StdExtDocs.lean", "\n".join(docs + thms) + "\n")
    return problems


DOC_FUEL = 64


def lterm(j) -> str:
    """JSON value -> Lean `Json` term (object members in document order)"""
    if j is None:
        return "Json.null"
    if j is True:
        return "Json.bool true"
    if j is False:
        return "Json.bool false"
    if isinstance(j, int):
        return f"Json.int {j}" if j >= 0 else f"Json.int ({j})"
    if isinstance(j, float):
        if j.is_integer() and abs(j) < 1e15:
            return lterm(int(j))
        return f"Json.num {lstr(repr(j))}"
    if isinstance(j, str):
        return f"Json.str {lstr(j)}"
    if isinstance(j, list):
        return "Json.arr [" + ", ".join(lterm(x) for x in j) + "]"
    if isinstance(j, dict):
        return "Json.obj [" + ", ".join(f"({lstr(k)}, {lterm(v)})" for k, v in j.items()) + "]"
    raise TypeError(type(j))


# ----------------------------------------------------------------------------- generation

EXT_NAMES = ["my.ext", "e", "arithmetic.int.types", "ext.β", "x-y_z"]
VERSIONS = ["0.1.0", "1.2.3", "0.0.0", "10.20.30", "1.0.0-rc.1", "2.1.0-alpha.beta+build.7", "0.3.1+exp.sha.5114f85"]
DEF_NAMES = ["T", "U", "op", "Not", "int", "é", "名", "a.b", "idivmod_u"]
DESCS = ["", "a description", "dé\"sc\\", "line1\nline2", "名前", "tab\there"]
MISC_VALUES = [
    None, True, False, 0, -5, 7, 2**70, 2.5, -0.125, 1e16, 2.0, "", "s", "naïve \"q\"", [], {}, [1, [2, [3]]],
    {"a": [1, "x", None], "b": {"c": []}}, {"é": -3, "z": {"y": {"x": True}}},
]
MISC_KEYS = ["k", "commutative", "é", "", "a b", "z"]
CLS_DOCS = [None, "", "Class docstring.", "dé\"sc"]


def _gen_misc(rng):
    if rng.random() < 0.4:
        return {}
    return {k: copy.deepcopy(rng.choice(MISC_VALUES)) for k in rng.sample(MISC_KEYS, rng.randint(1, 3))}


def _gen_sig_poly(rng, ename):
    """a polymorphic signature; half of the time over serialisable types only"""
    if rng.random() < 0.5:
        row = lambda: [B.gen_vtype(rng, 2) for _ in range(rng.randint(0, 3))]  # noqa: E731
        params = [rng.choice([["@ptype", "@A"], ["@ptype", "@C"], B.gen_param(rng, 1)]) for _ in range(rng.choice([0, 0, 1, 2]))]
        reqs = [rng.choice(B.EXTS + [ename]) for _ in range(rng.choice([0, 0, 1, 2, 3]))]
        return ["@poly", params, row(), row(), reqs]
    p = B.gen_poly(rng, 2)
    if rng.random() < 0.3:
        p[4] = p[4] + [ename]
    return p


def _gen_value(rng):
    for _ in range(20):
        e = B.gen_value(rng, 2)
        try:
            B.build_value(e)._to_serial_root()
            return e
        except Exception:  # noqa: BLE001  StaticArray over a non-copyable type etc.
            continue
    return "@unit"


def _pick_name(rng, used):
    if used and rng.random() < 0.15:
        return rng.choice(used)
    n = rng.choice(DEF_NAMES)
    used.append(n)
    return n


def gen_program(rng):
    name = rng.choice(EXT_NAMES)
    steps = []
    tnames, onames, vnames = [], [], []
    for _ in range(rng.choice([0, 1, 1, 2, 2, 3, 4, 5])):
        td = B.gen_typedef(rng)
        steps.append(["type", _pick_name(rng, tnames), rng.choice(DESCS), td[4], td[5]])
    for _ in range(rng.choice([0, 1, 2, 2, 3, 3, 4, 5, 6])):
        r = rng.random()
        n = _pick_name(rng, onames)
        if r < 0.55:
            sig = _gen_sig_poly(rng, name)
            asfn = (not sig[1]) and rng.random() < 0.5
            steps.append(["op", n, rng.choice(DESCS), _gen_misc(rng), sig, rng.random() < 0.25, asfn])
        elif r < 0.72:
            steps.append(["op", n, rng.choice(DESCS), _gen_misc(rng), None, True, False])
        elif r < 0.735:
            steps.append(["op", n, rng.choice(DESCS), _gen_misc(rng), None, False, False])  # ValueError
        else:
            rs = rng.random()
            if rs < 0.4:
                rsig = ["sig", rng.choice([None, _gen_sig_poly(rng, name)]), rng.random() < 0.5]
                if rsig[1] is None and not rsig[2] and rng.random() < 0.9:
                    rsig[2] = True
            elif rs < 0.6:
                rsig = None
            else:
                rsig = _gen_sig_poly(rng, name)
            steps.append([
                "regop", rng.choice(["MyOp", "_NotOp", "Cls"]), rng.choice(CLS_DOCS),
                None if rng.random() < 0.4 else n, rsig,
                None if rng.random() < 0.6 else rng.choice(DESCS), None if rng.random() < 0.5 else _gen_misc(rng),
            ])
    for _ in range(rng.choice([0, 0, 1, 1, 2, 3])):
        steps.append(["value", _pick_name(rng, vnames), _gen_value(rng)])
    if rng.random() < 0.5:
        rng.shuffle(steps)
    reqs = [rng.choice(B.EXTS + ["prelude"]) for _ in range(rng.choice([0, 0, 1, 2, 3]))]
    spec = {"k": "ext", "name": name, "version": rng.choice(VERSIONS), "reqs": reqs, "steps": steps, "mut": None}
    movable = [st[1] for st in steps if st[0] == "op" and st[4] is not None and st[4][0] == "@poly"]
    if movable and rng.random() < 0.2:
        spec["moved"] = rng.sample(movable, rng.randint(1, len(movable)))
    return spec


MUTATIONS = [
    ["del", "version"], ["del", "name"], ["del", "runtime_reqs"], ["del", "types"], ["del", "values"], ["del", "operations"],
    ["op", "del", "extension"], ["op", "del", "name"], ["op", "del", "description"], ["op", "del", "misc"],
    ["op", "del", "signature"], ["op", "del", "binary"], ["op", "del", "lower_funcs"], ["op", "set", "misc", None],
    ["op", "set", "signature", None], ["op", "set", "name", "other"], ["op", "set", "binary", [True]], ["op", "set", "misc", [1]],
    ["op", "set", "extension", "someone.else"], ["op", "set", "unknown_member", 1],
    ["type", "del", "bound"], ["type", "del", "params"], ["type", "set", "name", "other"], ["type", "bound-del", "b"],
    ["type", "set", "bound", {"b": "Nope"}], ["type", "set", "extension", "someone.else"],
    ["value", "del", "typed_value"], ["value", "set", "name", "other"], ["value", "set", "extension", "someone.else"],
    ["set", "runtime_reqs", ["a", "a", "b"]], ["set", "name", 5], ["set", "types", []], ["set", "unknown_member", {}],
]


def _helper_cases(rng, n_random):
    out = []
    for w in list(range(0, 7)) + [7, 8, 64, -1]:
        out.append(["int_t", w])
        out.append(["intval", w])
        out.append(["divmod", w])
    out += ["float_t", "string_t", "floatval", "stringval", "not"]
    for _ in range(n_random):
        t = B.gen_vtype(rng, 3)
        k = rng.choice(["array", "list", "sarray", "arrayval", "listval", "sarrayval"])
        out.append([k, t, rng.choice([0, 1, 2, 5, 2**40])] if k in ("array", "arrayval") else [k, t])
    for t in ("@qubit", "@usize", ["@unit", 2], ["@sum", [["@qubit"], []]], ["@var", 0, "@A"], ["@var", 1, "@C"]):
        out += [["array", t, 3], ["list", t], ["sarray", t], ["sarrayval", t]]
    return [{"k": "helper", "h": h} for h in out]


_INT = ["@ext", ["@def", "arithmetic.int.types", "int", "integral value of a given bit width", [["@pnat", 7]], ["@explicit", "@C"]],
        [["@nat", 5]]]


def corpus():
    """fixed regression cases, run first"""
    return [
        # the owner already among the requirements (twice), a repeated requirement of the extension itself
        {"k": "ext", "name": "my.ext", "version": "1.2.3-rc.1+b7", "reqs": ["prelude", "a", "prelude"], "mut": None, "steps": [
            ["op", "op", "desc", {"k": [1, 2.5, None, {"z": True}]},
             ["@poly", [["@ptype", "@A"]], ["@qubit", _INT], [["@unit", 2], ["@fn", ["@usize"], [], ["z", "y"]]], ["my.ext", "x", "my.ext"]],
             False, False]]},
        # the same name added twice (dict overwrite), binary with and without type scheme, a plain FunctionType
        {"k": "ext", "name": "e", "version": "0.1.0", "reqs": [], "mut": None, "steps": [
            ["op", "o", "first", {}, ["@poly", [], ["@qubit"], ["@qubit"], []], False, True],
            ["op", "o", "second", {"m": 1}, None, True, False],
            ["op", "p", "", {}, ["@poly", [], [], [], ["other"]], True, False],
            ["type", "T", "", [["@ptype", "@A"], ["@pnat", 3]], ["@from", 0]],
            ["type", "T", "again", [], ["@explicit", "@C"]]]},
        # register_op: class name / docstring defaults, a given description is not used, OpDefSig passed through
        {"k": "ext", "name": "logic", "version": "0.1.0", "reqs": [], "mut": None, "steps": [
            ["regop", "_NotOp", "Logical NOT.", None, ["@poly", [], [["@unit", 2]], [["@unit", 2]], []], None, None],
            ["regop", "Cls", "doc", "And", None, "given", {"commutative": True}],
            ["regop", "Cls", None, "Or", ["sig", None, True], None, None]]},
        # values: std constants come back as plain extension constants, a function constant
        {"k": "ext", "name": "x-y_z", "version": "0.0.0", "reqs": ["ext.β"], "mut": None, "steps": [
            ["value", "TRUE", ["@bool", True]], ["value", "i", ["@int", 7, 5]],
            ["value", "arr", ["@array", [["@int", 1, 3], ["@int", 2, 3]], ["@ext", _INT[1], [["@nat", 3]]]]],
            ["value", "f", ["@fndfg", ["@qubit", ["@unit", 2]], [1, 0], []]]]},
        # OpDefSig(None, False)
        {"k": "ext", "name": "e", "version": "0.1.0", "reqs": [], "mut": None, "steps": [["op", "o", "", {}, None, False, False]]},
        # faults in the document
        {"k": "ext", "name": "e", "version": "0.1.0", "reqs": [], "mut": ["op", "set", "signature", None],
         "steps": [["op", "o", "", {}, ["@poly", [], [], [], []], False, False]]},
        {"k": "ext", "name": "e", "version": "0.1.0", "reqs": [], "mut": ["op", "set", "name", "other"],
         "steps": [["op", "o", "", {}, None, True, False]]},
    ]


def file_names():
    return sorted(set(bundled_files()) | set(spec_files()))


def _generated(rng, tier):
    n_ext, n_help = {"quick": (300, 40), "thorough": (10000, 400)}.get(tier, (6000, 100))
    yield from _helper_cases(rng, n_help)
    for _ in range(n_ext):
        p = gen_program(rng)
        if rng.random() < 0.12:
            p["mut"] = copy.deepcopy(rng.choice(MUTATIONS))
        yield p


def cases(rng, tier):
    if tier != "search":
        yield {"k": "fileset"}
        for n in file_names():
            yield {"k": "file", "name": n}
    try:
        gen = list(_generated(rng, tier))
    except Exception:  # noqa: BLE001
        # the shared generators read the bundled std definitions; when a bundled file cannot be read at all the
        # file cases above carry the report
        gen = []
    yield from gen


# ----------------------------------------------------------------------------- running programs on the real classes


def _opt(x):
    return A("none") if x is None else x


MOVED_FROM = "verif.moved.from"


def _build_poly(s):
    return None if s is None else B.build_type(s)


def build(spec, serialise_between=False):
    """run the program on the real classes -> Extension (optionally serialising the extension after
    every step: the property speaks about the extension as it is at the time of each call)"""
    from hugr import ext, tys

    e = ext.Extension(spec["name"], ext.Version.parse(spec["version"]), set(spec["reqs"]))
    for st in spec["steps"]:
        if serialise_between:
            try:
                e.to_json()
            except Exception:  # noqa: BLE001
                pass
        k = st[0]
        if k == "type":
            _, n, d, params, bound = st
            b = ext.ExplicitBound(B._mk_b(bound[1])) if bound[0] == "@explicit" else ext.FromParamsBound(list(bound[1:]))
            e.add_type_def(ext.TypeDef(name=n, description=d, params=[B.build_param(p) for p in params], bound=b))
        elif k == "op":
            _, n, d, misc, sig, binary, asfn = st
            pf = _build_poly(sig)
            if asfn and pf is not None and not pf.params:
                pf = pf.body  # a plain FunctionType: OpDefSig wraps it in PolyFuncType([], ...)
            od = ext.OpDef(n, ext.OpDefSig(pf, binary), d, copy.deepcopy(misc))
            if n in spec.get("moved", ()):
                # the definition was first registered with another extension and is moved over
                other = ext.Extension(MOVED_FROM, ext.Version(0, 1, 0))
                other.add_op_def(od)
                od = other.operations.pop(n)
            e.add_op_def(od)
        elif k == "regop":
            _, cls, doc, n, rsig, d, misc = st
            if isinstance(rsig, list) and rsig and rsig[0] == "sig":
                sig = ext.OpDefSig(_build_poly(rsig[1]), rsig[2])
            else:
                sig = _build_poly(rsig)
            c = type(cls, (), {"__doc__": doc})
            e.register_op(n, sig, d, copy.deepcopy(misc))(c)
            assert c.const_op_def is e.operations[cls if n is None else n]
        elif k == "value":
            e.add_extension_value(ext.ExtensionValue(st[1], B.build_value(st[2])))
        else:
            raise ValueError(st)
    _ = tys
    return e


def _sorted_set(xs):
    return sorted(set(xs))


def canon_doc(doc):
    """the document with its two set-typed requirement lists sorted (F29)"""
    doc = copy.deepcopy(doc)
    if isinstance(doc, dict):
        if isinstance(doc.get("runtime_reqs"), list) and all(isinstance(x, str) for x in doc["runtime_reqs"]):
            doc["runtime_reqs"] = _sorted_set(doc["runtime_reqs"])
        ops = doc.get("operations")
        if isinstance(ops, dict):
            for o in ops.values():
                sig = o.get("signature") if isinstance(o, dict) else None
                body = sig.get("body") if isinstance(sig, dict) else None
                if isinstance(body, dict) and isinstance(body.get("runtime_reqs"), list) and all(
                    isinstance(x, str) for x in body["runtime_reqs"]
                ):
                    body["runtime_reqs"] = _sorted_set(body["runtime_reqs"])
    return doc


def _owner(d):
    return A("none") if d._extension is None else d._extension.name


def _sig_sx(pf):
    if pf is None:
        return A("none")
    s = B.type_to_spec(pf)
    return [A("poly"), B.spec_to_sx(s[1]), B.spec_to_sx(s[2]), B.spec_to_sx(s[3]), _sorted_set(s[4])]


def dump(e):
    """structural dump of an extension (Bridge/Ext.lean `extObs`)"""
    from hugr import ext

    types = [A("types")]
    for k, td in e.types.items():
        b = td.bound
        bs = [A("explicit"), A(B._b(b.bound)[1:])] if isinstance(b, ext.ExplicitBound) else [A("from"), *b.indices]
        types.append([k, [A("typedef"), _owner(td), td.name, td.description,
                          [B.spec_to_sx(B.param_to_spec(p)) for p in td.params], bs]])
    ops = [A("ops")]
    for k, od in e.operations.items():
        ops.append([k, [A("opdef"), _owner(od), od.name, od.description, B.cjson_sx(od.misc),
                        _sig_sx(od.signature.poly_func), bool(od.signature.binary)]])
    vals = [A("values")]
    for k, v in e.values.items():
        vals.append([k, [A("value"), _owner(v), v.name, B.value_to_sx(B.value_to_spec(v.val, body=False))]])
    return [A("ext"), e.name, str(e.version), _sorted_set(e.runtime_reqs), types, ops, vals]


def _err(s):
    return [A("error"), A(s)]


def _load_class(ex):
    import pydantic

    if isinstance(ex, pydantic.ValidationError):
        return "validation"
    if isinstance(ex, AssertionError):
        return "AssertionError"
    if isinstance(ex, ValueError):
        return "ValueError"
    return "Exception"


def _doc_obs(e):
    try:
        s = e.to_json()
    except Exception:  # noqa: BLE001
        return _err("tojson"), None
    return [A("doc"), B.cjson_sx(canon_doc(json.loads(s)))], s


def _load_obs(text):
    from hugr import ext

    try:
        e2 = ext.Extension.from_json(text)
    except Exception as ex:  # noqa: BLE001
        return _err(_load_class(ex)), A("-")
    return dump(e2), _doc_obs(e2)[0]


def apply_mutation(doc, mut):
    """one structural fault; returns False when it does not apply (no such definition)"""
    def first(d):
        return next(iter(d.values()), None) if isinstance(d, dict) else None

    if mut[0] == "del":
        doc.pop(mut[1], None)
        return True
    if mut[0] == "set":
        doc[mut[1]] = copy.deepcopy(mut[2])
        return True
    tbl = {"op": "operations", "type": "types", "value": "values"}[mut[0]]
    d = first(doc.get(tbl))
    if d is None:
        return False
    if mut[1] == "del":
        d.pop(mut[2], None)
    elif mut[1] == "set":
        d[mut[2]] = copy.deepcopy(mut[3])
    elif mut[1] == "bound-del":
        d["bound"].pop(mut[2], None)
    return True


def _mutated_doc(spec):
    """(document after the fault, or None when the program / fault does not apply)"""
    try:
        e = build(spec)
        doc = json.loads(e.to_json())
    except Exception:  # noqa: BLE001
        return None
    if not apply_mutation(doc, spec["mut"]):
        return None
    return doc


def _file_doc(name):
    p = bundled_files().get(name)
    if p is None:
        return None
    try:
        return json.loads(p.read_text())
    except Exception:  # noqa: BLE001
        return None


def _helper_obj(h):
    """(kind, definition, args) of the real helper; raises what the helper raises"""
    from hugr.std.collections.array import Array, ArrayVal
    from hugr.std.collections.list import List, ListVal
    from hugr.std.collections.static_array import StaticArray, StaticArrayVal
    from hugr.std.float import FLOAT_T, FloatVal
    from hugr.std.int import IntVal, _DivModDef, int_t
    from hugr.std.logic import Not
    from hugr.std.prelude import STRING_T, StringVal

    k = h if isinstance(h, str) else h[0]
    if k == "int_t":
        t = int_t(h[1])
    elif k == "intval":
        t = IntVal(1, h[1]).to_value().typ
    elif k == "float_t":
        t = FLOAT_T
    elif k == "floatval":
        t = FloatVal(1.5).to_value().typ
    elif k == "string_t":
        t = STRING_T
    elif k == "stringval":
        t = StringVal("s").to_value().typ
    elif k == "array":
        t = Array(B.build_type(h[1]), h[2])
    elif k == "arrayval":
        t = ArrayVal([], B.build_type(h[1])).to_value().typ  # the size is the number of elements: 0
    elif k == "list":
        t = List(B.build_type(h[1]))
    elif k == "listval":
        t = ListVal([], B.build_type(h[1])).to_value().typ
    elif k == "sarray":
        t = StaticArray(B.build_type(h[1]))
    elif k == "sarrayval":
        t = StaticArrayVal([], B.build_type(h[1]), "n").to_value().typ
    elif k == "divmod":
        # a second helper object with other parameters is instantiated first in the same process: what a helper denotes
        # must not depend on which other parameterisations were used before (seeded change C10-14)
        try:
            _DivModDef(width=(h[1] + 1) % 7 if isinstance(h[1], int) else 5).ext_op  # noqa: B018
        except Exception:  # noqa: BLE001
            pass
        op = _DivModDef(width=h[1])
        eo = op.ext_op  # the definition-backed operation the helper stands for (what is serialised)
        return "op", eo.op_def(), eo.args
    elif k == "not":
        return "op", Not.ext_op.op_def(), Not.ext_op.args
    else:
        raise ValueError(h)
    return "type", t.type_def, t.args


_helper_real = _helper_obj


# ---- reference transcription of check_type_arg (hugr-core/src/types/type_param.rs:407-458), on hugr-py objects


def _bound_contains(b, o):
    from hugr.tys import TypeBound

    return b == TypeBound.Any or o == TypeBound.Copyable


def _param_contains(p, q):
    from hugr import tys

    if isinstance(p, tys.TypeTypeParam) and isinstance(q, tys.TypeTypeParam):
        return _bound_contains(p.bound, q.bound)
    if isinstance(p, tys.BoundedNatParam) and isinstance(q, tys.BoundedNatParam):
        return p.upper_bound is None or (q.upper_bound is not None and p.upper_bound >= q.upper_bound)
    if isinstance(p, tys.StringParam) and isinstance(q, tys.StringParam):
        return True
    if isinstance(p, tys.ListParam) and isinstance(q, tys.ListParam):
        return _param_contains(p.param, q.param)
    if isinstance(p, tys.TupleParam) and isinstance(q, tys.TupleParam):
        return len(p.params) == len(q.params) and all(_param_contains(a, b) for a, b in zip(p.params, q.params))
    return isinstance(p, tys.ExtensionsParam) and isinstance(q, tys.ExtensionsParam)


def _arg_fits(a, p):
    from hugr import tys

    if isinstance(a, tys.VariableArg):
        return _param_contains(p, a.param)
    if isinstance(a, tys.TypeTypeArg) and isinstance(p, tys.TypeTypeParam):
        try:
            return _bound_contains(p.bound, a.ty.type_bound())
        except Exception:  # noqa: BLE001
            return p.bound == tys.TypeBound.Any
    if isinstance(a, tys.SequenceArg) and isinstance(p, tys.ListParam):
        def el(x):
            if isinstance(x, tys.VariableArg) and isinstance(p.param, tys.TypeTypeParam):
                d = x.param
                if isinstance(d, tys.ListParam) and isinstance(d.param, tys.TypeTypeParam) and _bound_contains(
                    p.param.bound, d.param.bound
                ):
                    return True
            return _arg_fits(x, p.param)

        return all(el(x) for x in a.elems)
    if isinstance(a, tys.SequenceArg) and isinstance(p, tys.TupleParam):
        return len(a.elems) == len(p.params) and all(_arg_fits(x, q) for x, q in zip(a.elems, p.params))
    if isinstance(a, tys.BoundedNatArg) and isinstance(p, tys.BoundedNatParam):
        return a.n >= 0 and (a.n == 0 or p.upper_bound is None or a.n < p.upper_bound)
    if isinstance(a, tys.StringArg) and isinstance(p, tys.StringParam):
        return True
    return isinstance(a, tys.ExtensionsArg) and isinstance(p, tys.ExtensionsParam)


def _args_fit(args, params):
    return len(args) == len(params) and all(_arg_fits(a, p) for a, p in zip(args, params))


def _def_params(kind, d):
    if kind == "type":
        return d.params
    pf = d.signature.poly_func
    return None if pf is None else pf.params


# ----------------------------------------------------------------------------- implementation observation


def run_impl(spec):
    k = spec["k"]
    try:
        if k == "fileset":
            return "-"
        if k == "file":
            doc = _file_doc(spec["name"])
            if doc is None:
                return "(nofile)"
            r, rd = _load_file_obs(spec["name"])
            return dumps([A("load"), r, rd])
        if k == "helper":
            try:
                kind, d, args = _helper_real(spec["h"])
            except ValueError:
                return dumps(_err("ValueError"))
            ps = _def_params(kind, d)
            psx = A("missing") if ps is None else [A("params")] + [B.spec_to_sx(B.param_to_spec(p)) for p in ps]
            return dumps([
                A("helper"), d.get_extension().name, A(kind), d.name, [B.spec_to_sx(B.arg_to_spec(a)) for a in args],
                psx, ps is not None and _args_fit(args, ps),
            ])
        if spec.get("mut") is not None:
            doc = _mutated_doc(spec)
            if doc is None:
                return "(inapplicable)"
            r, rd = _load_obs(json.dumps(doc))
            return dumps([A("load"), r, rd])
        try:
            e = build(spec)
        except ValueError:
            return dumps(_err("ValueError"))
        d, s = _doc_obs(e)
        if s is None:
            return dumps([A("rt"), dump(e), d, A("-"), A("-")])
        r, rd = _load_obs(s)
        return dumps([A("rt"), dump(e), d, r, rd])
    except Exception as ex:  # noqa: BLE001
        return f"(harness-exception {type(ex).__name__})"


def _dotted(name):
    return name.removesuffix(".json").replace("/", ".")


def _load_file_obs(name):
    """the bundled file through the package's own loader"""
    try:
        from hugr.std import _load_extension

        e2 = _load_extension(_dotted(name))
    except Exception as ex:  # noqa: BLE001
        return _err(_load_class(ex)), A("-")
    return dump(e2), _doc_obs(e2)[0]


# ----------------------------------------------------------------------------- model payload


def _sig_payload(s):
    return A("none") if s is None else B.spec_to_sx(s)


def _misc_payload(m):
    return [A("o")] + [[k, B.cjson_sx(v)] for k, v in m.items()]


def program_sx(spec):
    out = [A("ext"), spec["name"], spec["version"], list(spec["reqs"])]
    for st in spec["steps"]:
        k = st[0]
        if k == "type":
            out.append([A("type"), st[1], st[2], [B.spec_to_sx(p) for p in st[3]], B.spec_to_sx(st[4])])
        elif k == "op":
            sig = st[4]
            if st[1] in spec.get("moved", ()) and sig is not None:
                sig = [*sig[:4], [*sig[4], MOVED_FROM]]  # what the first registration left in the signature
            out.append([A("op"), st[1], st[2], _misc_payload(st[3]), _sig_payload(sig), bool(st[5])])
        elif k == "regop":
            rsig = st[4]
            if isinstance(rsig, list) and rsig and rsig[0] == "sig":
                sx = [A("sig"), _sig_payload(rsig[1]), bool(rsig[2])]
            else:
                sx = _sig_payload(rsig)
            out.append([A("regop"), st[1], _opt(st[2]), _opt(st[3]), sx, _opt(st[5]),
                        A("none") if st[6] is None else _misc_payload(st[6])])
        elif k == "value":
            out.append([A("value"), st[1], B.value_to_sx(st[2])])
    return out


def _helper_payload(h):
    k = h if isinstance(h, str) else h[0]
    if k in ("int_t", "intval"):
        return [A("int_t"), h[1]]
    if k in ("float_t", "floatval"):
        return A("float_t")
    if k in ("string_t", "stringval"):
        return A("string_t")
    if k == "array":
        return [A("array"), B.spec_to_sx(h[1]), h[2]]
    if k == "arrayval":
        return [A("array"), B.spec_to_sx(h[1]), 0]
    if k in ("list", "listval"):
        return [A("list"), B.spec_to_sx(h[1])]
    if k in ("sarray", "sarrayval"):
        return [A("sarray"), B.spec_to_sx(h[1])]
    if k == "divmod":
        return [A("divmod"), h[1]]
    if k == "not":
        return A("not")
    raise ValueError(h)


def payload(spec):
    k = spec["k"]
    if k == "fileset":
        return None
    if k == "file":
        doc = _file_doc(spec["name"])
        if doc is None:
            return None
        return "ext.load", dumps(B.json_to_sx(doc))
    if k == "helper":
        return "std.helper", dumps(_helper_payload(spec["h"]))
    if spec.get("mut") is not None:
        doc = _mutated_doc(spec)
        if doc is None:
            return None
        return "ext.load", dumps(B.json_to_sx(B.cjson(doc)))
    return "ext.roundtrip", dumps(program_sx(spec))


# ----------------------------------------------------------------------------- oracle (from the property text)


def _ser_sig(pf):
    """serialised signature with its requirement list as a set"""
    if pf is None:
        return None
    j = json.loads(pf._to_serial().model_dump_json())
    j["body"]["runtime_reqs"] = _sorted_set(j["body"].get("runtime_reqs", []))
    return j


def _ser_val(v):
    return json.loads(v._to_serial_root().model_dump_json())


def _check_owned(e, site, fails):
    """every operation definition held by `e` reports `e` as its owner and names it among its requirements"""
    for k, od in e.operations.items():
        if od._extension is not e:
            fails.append(Failure(site, "op-def-owner", f"operation {k!r}: owner is {getattr(od._extension, 'name', None)!r}"))
            return
        pf = od.signature.poly_func
        if pf is not None and e.name not in pf.body.runtime_reqs:
            fails.append(Failure(site, "op-def-requirement", f"operation {k!r}: {e.name!r} not in {pf.body.runtime_reqs!r}"))
            return


def _check_same(e, e2, site, fails):
    """`e2` (reloaded) preserves everything the property lists of `e`"""
    def bad(cls, detail=""):
        fails.append(Failure(site, cls, detail))

    if e2.name != e.name:
        return bad("name", f"{e2.name!r} != {e.name!r}")
    if str(e2.version) != str(e.version):
        return bad("version", f"{e2.version!s} != {e.version!s}")
    if set(e2.runtime_reqs) != set(e.runtime_reqs):
        return bad("requirements", f"{sorted(e2.runtime_reqs)} != {sorted(e.runtime_reqs)}")
    if set(e2.types) != set(e.types):
        return bad("type-defs-lost", f"{sorted(e2.types)} != {sorted(e.types)}")
    for k, td in e.types.items():
        t2 = e2.types[k]
        if (t2.name, t2.description, t2.params, t2.bound) != (td.name, td.description, td.params, td.bound):
            return bad("type-def", f"type {k!r}: {t2!r} != {td!r}")
    if set(e2.operations) != set(e.operations):
        return bad("op-defs-lost", f"{sorted(e2.operations)} != {sorted(e.operations)}")
    for k, od in e.operations.items():
        o2 = e2.operations[k]
        if o2.name != od.name:
            return bad("op-def-name", k)
        if o2.description != od.description:
            return bad("op-def-description", f"operation {k!r}: {o2.description!r} != {od.description!r}")
        if o2.misc != od.misc:
            return bad("op-def-misc", f"operation {k!r}: {o2.misc!r} != {od.misc!r}")
        if bool(o2.signature.binary) != bool(od.signature.binary):
            return bad("op-def-binary", f"operation {k!r}")
        if _ser_sig(o2.signature.poly_func) != _ser_sig(od.signature.poly_func):
            return bad("op-def-signature", f"operation {k!r}")
    if set(e2.values) != set(e.values):
        return bad("values-lost", f"{sorted(e2.values)} != {sorted(e.values)}")
    for k, v in e.values.items():
        v2 = e2.values[k]
        if v2.name != v.name or _ser_val(v2.val) != _ser_val(v.val):
            return bad("value", f"value {k!r}")
    return None


def _roundtrip_checks(e, fails, site_prefix=""):
    from hugr import ext

    try:
        s = e.to_json()
    except Exception as ex:  # noqa: BLE001
        # only a violation when every part can be serialised on its own
        try:
            for od in e.operations.values():
                if od.signature.poly_func is not None:
                    od.signature.poly_func._to_serial()
            for v in e.values.values():
                v.val._to_serial_root()
        except Exception:  # noqa: BLE001  a type / value outside the serialisable fragment
            return
        fails.append(Failure(site_prefix + "Extension.to_json", "raises", repr(ex)[:200]))
        return
    try:
        e2 = ext.Extension.from_json(s)
    except Exception as ex:  # noqa: BLE001
        fails.append(Failure(site_prefix + "Extension.from_json", "raises", repr(ex)[:200]))
        return
    n = len(fails)
    _check_same(e, e2, site_prefix + "Extension.from_json", fails)
    if len(fails) > n:
        return
    _check_owned(e2, site_prefix + "Extension.from_json", fails)
    try:
        s2 = e2.to_json()
    except Exception as ex:  # noqa: BLE001
        fails.append(Failure(site_prefix + "Extension.to_json", "raises-on-reloaded", repr(ex)[:200]))
        return
    if canon_doc(json.loads(s2)) != canon_doc(json.loads(s)):
        fails.append(Failure(site_prefix + "Extension.to_json", "reserialises-differently", ""))
        return
    # loading is a function of the document: a look-alike document of ANOTHER extension (same definitions, the
    # operation signatures not naming their own extension, as in the specification's files) loaded right after
    # gives that other extension, requirements included
    try:
        base = json.loads(s)
        me, other = base["name"], base["name"] + ".twin"

        def spec_style(doc, new_name):
            d = copy.deepcopy(doc)

            def rename(x):
                if isinstance(x, dict):
                    return {k: (new_name if k == "extension" and v == me else rename(v)) for k, v in x.items()}
                if isinstance(x, list):
                    return [rename(v) for v in x]
                return x

            d = rename(d)
            d["name"] = new_name
            for od in d.get("operations", {}).values():
                sig = od.get("signature")
                if isinstance(sig, dict) and isinstance(sig.get("body"), dict):
                    sig["body"]["runtime_reqs"] = [r for r in sig["body"].get("runtime_reqs", []) if r != me]
            return d

        def own_added(doc, name):
            d = copy.deepcopy(doc)
            for od in d.get("operations", {}).values():
                sig = od.get("signature")
                if isinstance(sig, dict) and isinstance(sig.get("body"), dict):
                    sig["body"]["runtime_reqs"] = sorted(set(sig["body"].get("runtime_reqs", [])) | {name})
            return d

        d_me, d_other = spec_style(base, me), spec_style(base, other)
        got_me = json.loads(ext.Extension.from_json(json.dumps(d_me)).to_json())
        got_other = json.loads(ext.Extension.from_json(json.dumps(d_other)).to_json())
    except Exception as ex:  # noqa: BLE001
        fails.append(Failure(site_prefix + "Extension.from_json", "raises-on-a-look-alike-document", repr(ex)[:200]))
        return
    if canon_doc(got_me) != canon_doc(own_added(d_me, me)):
        fails.append(Failure(site_prefix + "Extension.from_json", "spec-style-document-loads-differently", ""))
    elif canon_doc(got_other) != canon_doc(own_added(d_other, other)):
        fails.append(Failure(site_prefix + "Extension.from_json", "result-depends-on-documents-loaded-before",
                             "the same definitions under another extension name, loaded right after"))


def _oracle_file(name):
    fails: list[Failure] = []
    bf, sf = bundled_files(), spec_files()
    site = f"std/_json_defs/{name}"
    if name not in bf:
        return [Failure(site, "missing-in-package", "specified but not bundled")]
    if name not in sf:
        fails.append(Failure(site, "missing-in-specification", "bundled but not specified"))
    elif bf[name].read_bytes() != sf[name].read_bytes():
        a, b = bf[name].read_bytes(), sf[name].read_bytes()
        i = next((i for i, (x, y) in enumerate(zip(a, b)) if x != y), min(len(a), len(b)))
        fails.append(Failure(site, "differs-from-specification", f"first difference at byte {i}"))
    try:
        from hugr.std import _load_extension  # importing hugr.std already loads the prelude

        e = _load_extension(_dotted(name))
    except Exception as ex:  # noqa: BLE001
        fails.append(Failure("_load_extension", "raises", f"{name}: {ex!r}"[:200]))
        return fails
    # the loaded extension holds the definitions the file lists
    try:
        doc = json.loads(bf[name].read_text())
        if (e.name, list(e.types), list(e.operations), list(e.values)) != (
            doc["name"], list(doc["types"]), list(doc["operations"]), list(doc["values"])
        ) or str(e.version) != doc["version"] or set(e.runtime_reqs) != set(doc["runtime_reqs"]):
            fails.append(Failure("_load_extension", "definitions-differ-from-file", name))
    except Exception as ex:  # noqa: BLE001
        fails.append(Failure("_load_extension", "raises", f"{name}: {ex!r}"[:200]))
    _check_owned(e, "_load_extension", fails)
    _roundtrip_checks(e, fails)
    return fails


def _oracle_fileset():
    b, s = set(bundled_files()), set(spec_files())
    if b != s:
        return [Failure("std/_json_defs", "file-set-differs",
                        f"only bundled: {sorted(b - s)}; only specified: {sorted(s - b)}")]
    return []


_LOADED: dict = {}


def _fresh_ext(ext_name):
    """the extension of that name loaded from the bundled files, independently of the std modules' globals"""
    if not _LOADED:
        for n in bundled_files():
            try:
                from hugr.std import _load_extension

                e = _load_extension(_dotted(n))
                _LOADED[e.name] = (e, json.loads(bundled_files()[n].read_text()))
            except Exception:  # noqa: BLE001
                continue
    return _LOADED.get(ext_name)


HELPER_SITE = {
    "int_t": "std.int.int_t", "intval": "std.int.IntVal", "divmod": "std.int.DivMod", "float_t": "std.float.FLOAT_T",
    "floatval": "std.float.FloatVal", "string_t": "std.prelude.STRING_T", "stringval": "std.prelude.StringVal",
    "array": "std.collections.array.Array", "arrayval": "std.collections.array.ArrayVal",
    "list": "std.collections.list.List", "listval": "std.collections.list.ListVal",
    "sarray": "std.collections.static_array.StaticArray", "sarrayval": "std.collections.static_array.StaticArrayVal",
    "not": "std.logic.Not",
}
# the definition the property says each helper denotes: (extension, kind, name)
HELPER_DEF = {
    "int_t": ("arithmetic.int.types", "type", "int"), "intval": ("arithmetic.int.types", "type", "int"),
    "divmod": ("arithmetic.int", "op", "idivmod_u"), "float_t": ("arithmetic.float.types", "type", "float64"),
    "floatval": ("arithmetic.float.types", "type", "float64"), "string_t": ("prelude", "type", "string"),
    "stringval": ("prelude", "type", "string"), "array": ("collections.array", "type", "array"),
    "arrayval": ("collections.array", "type", "array"), "list": ("collections.list", "type", "List"),
    "listval": ("collections.list", "type", "List"), "sarray": ("collections.static_array", "type", "static_array"),
    "sarrayval": ("collections.static_array", "type", "static_array"), "not": ("logic", "op", "Not"),
}


def _claimed(h):
    """is the helper use inside what the property claims (widths 0..6, serialisable copyable elements ...)"""
    k = h if isinstance(h, str) else h[0]
    if k in ("int_t", "intval", "divmod"):
        return 0 <= h[1] <= 6
    return True


def _oracle_helper(h):
    k = h if isinstance(h, str) else h[0]
    site = HELPER_SITE[k]
    try:
        kind, d, args = _helper_real(h)
    except ValueError:
        return []  # StaticArray over a non-copyable element type: the documented rejection
    except Exception as ex:  # noqa: BLE001
        return [Failure(site, "raises", repr(ex)[:200])]
    fails = []
    ename, ekind, dname = HELPER_DEF[k]
    try:
        owner = d.get_extension().name
    except Exception:  # noqa: BLE001
        owner = None
    if (owner, kind, d.name) != (ename, ekind, dname):
        return [Failure(site, "denotes-other-definition", f"{(owner, kind, d.name)} != {(ename, ekind, dname)}")]
    got = _fresh_ext(ename)
    if got is None:
        return [Failure(site, "extension-not-bundled", ename)]
    e, doc = got
    table, jtable = (e.types, doc["types"]) if kind == "type" else (e.operations, doc["operations"])
    if dname not in table or dname not in jtable:
        return [Failure(site, "definition-missing", f"{ename}.{dname}")]
    ld = table[dname]
    ps = _def_params(kind, ld)
    if _def_params(kind, d) != ps:
        return [Failure(site, "definition-differs-from-loaded", f"{ename}.{dname}")]
    jps = jtable[dname]["params"] if kind == "type" else (jtable[dname].get("signature") or {}).get("params")
    if ps is None or jps is None:
        return [Failure(site, "definition-has-no-parameters", f"{ename}.{dname}")]
    if len(args) != len(ps) or len(ps) != len(jps):
        return [Failure(site, "parameter-count", f"{len(args)} arguments for {len(jps)} parameters")]
    if not _claimed(h):
        return fails
    for i, (a, p, jp) in enumerate(zip(args, ps, jps)):
        kinds = {"Type": "TypeTypeArg", "BoundedNat": "BoundedNatArg", "String": "StringArg", "List": "SequenceArg",
                 "Tuple": "SequenceArg", "Extensions": "ExtensionsArg"}
        if type(a).__name__ not in (kinds.get(jp["tp"]), "VariableArg"):
            return [Failure(site, "parameter-kind", f"argument {i}: {type(a).__name__} for {jp['tp']}")]
        if not _arg_fits(a, p):
            return [Failure(site, "argument-does-not-fit", f"argument {i}: {a!r} for {p!r}")]
    if k in ("divmod", "int_t", "intval") and [B.arg_to_spec(a) for a in args] != [["@nat", h[1]]]:
        return [Failure(site, "helper-parameters-differ-from-the-requested-ones", f"width {h[1]}: {args!r}")]
    return fails


def oracle(spec):
    k = spec["k"]
    if k == "fileset":
        return _oracle_fileset()
    if k == "file":
        return _oracle_file(spec["name"])
    if k == "helper":
        return _oracle_helper(spec["h"])
    if spec.get("mut") is not None:
        return []
    fails: list[Failure] = []
    try:
        e = build(spec)
    except Exception:  # noqa: BLE001  OpDefSig(None, False): nothing built
        return fails
    _check_owned(e, "Extension.add_op_def", fails)
    if fails:
        return fails
    _roundtrip_checks(e, fails)
    if fails:
        return fails
    # a SHALLOW COPY of one of the extension's definitions is added to a second extension (the copy shares its signature
    # object with the original): the first extension still holds definitions that name it, and still round-trips
    # (seeded change C10-16: the previous owner's name stripped from the shared signature)
    try:
        from hugr import ext as _ext

        e4 = build(spec)
        owned = [od for od in e4.operations.values() if od.signature.poly_func is not None]
        if owned:
            other = _ext.Extension("verif.second.home", _ext.Version(0, 1, 0))
            other.add_op_def(copy.copy(owned[0]))
            _check_owned(e4, "Extension.add_op_def (a copy added to a second extension)", fails)
            if not fails:
                _roundtrip_checks(e4, fails, "after-a-copy-was-added-elsewhere:")
            if fails:
                return fails
    except Exception:  # noqa: BLE001
        pass
    # the same program with the extension serialised after every step
    try:
        e3 = build(spec, serialise_between=True)
    except Exception:  # noqa: BLE001
        return fails
    _roundtrip_checks(e3, fails, "after-earlier-serialisation:")
    if fails:
        return fails
    # … and edited in place after a serialisation (no add_* call involved): the next serialisation shows the edits
    try:
        before = json.loads(e3.to_json())
    except Exception:  # noqa: BLE001  a part outside the serialisable fragment (judged by _roundtrip_checks)
        return fails
    try:
        want = copy.deepcopy(before)
        e3.version = e3.version.bump_minor()
        want["version"] = str(e3.version)
        e3.runtime_reqs.add("verif.late")
        want["runtime_reqs"] = sorted(set(want.get("runtime_reqs", [])) | {"verif.late"})
        for name, od in list(e3.operations.items())[:2]:
            od.description = od.description + " (edited)"
            od.misc = {**od.misc, "verif.late": [1, None]}
            want["operations"][name]["description"] += " (edited)"
            want["operations"][name]["misc"] = {**want["operations"][name].get("misc", {}), "verif.late": [1, None]}
        for name, td in list(e3.types.items())[:1]:
            td.description = td.description + " (edited)"
            want["types"][name]["description"] += " (edited)"
        got = json.loads(e3.to_json())
    except Exception as ex:  # noqa: BLE001
        fails.append(Failure("Extension.to_json", "raises-after-in-place-edit", repr(ex)[:200]))
        return fails
    if canon_doc(got) != canon_doc(want):
        fails.append(Failure("Extension.to_json", "stale-after-in-place-edit", "version / requirements / descriptions / misc edited after a serialisation"))
    return fails


# ----------------------------------------------------------------------------- bookkeeping


def nontrivial(spec, obs):
    k = spec["k"]
    if k in ("file", "helper"):
        return True
    if k != "ext" or spec.get("mut") is not None:
        return False
    return obs.startswith("(rt") and any(
        (st[0] == "op" and st[4] is not None) or st[0] == "value" or (st[0] == "regop" and st[4] is not None)
        for st in spec["steps"]
    )


def stats(spec, obs, counters):
    k = spec["k"]
    counters[f"kind.{k}" + (".mutated" if spec.get("mut") else "")] += 1
    if k == "ext":
        steps = spec["steps"]
        counters["steps.total"] += len(steps)
        for st in steps:
            counters[f"step.{st[0]}"] += 1
            if st[0] == "type":
                counters[f"type.bound.{st[4][0][1:]}"] += 1
            if st[0] == "op":
                counters["op.sig." + ("none" if st[4] is None else "poly") + (".binary" if st[5] else "")] += 1
                counters["op.misc.nonempty"] += bool(st[3])
        names = [(st[0] if st[0] != "regop" else "op", st[1] if st[0] != "regop" else (st[3] or st[1])) for st in steps]
        counters["programs.with-overwrite"] += len(set(names)) < len(names)
        if spec.get("mut") is None:
            counters["outcome." + ("ValueError" if obs.startswith("(error ValueError") else "tojson-raises" if "(error tojson)" in obs else "roundtrip")] += 1
        else:
            counters["outcome.load." + ("rejected" if obs.startswith("(load (error") else "inapplicable" if obs == "(inapplicable)" else "accepted")] += 1
    if k == "helper":
        counters["helper.fits"] += obs.endswith(" true)")


def shrink(spec, pred):
    from core import ddmin

    if spec["k"] != "ext":
        return spec
    steps = ddmin(spec["steps"], lambda s: pred({**spec, "steps": s}))
    s = {**spec, "steps": steps}
    for key, val in (("reqs", []), ("version", "0.1.0")):
        c = {**s, key: val}
        try:
            if c != s and pred(c):
                s = c
        except Exception:  # noqa: BLE001
            pass
    # simplify single steps
    for i, st in enumerate(list(s["steps"])):
        for cand in _simpler_steps(st):
            c = {**s, "steps": s["steps"][:i] + [cand] + s["steps"][i + 1:]}
            try:
                if pred(c):
                    s = c
                    break
            except Exception:  # noqa: BLE001
                continue
    return s


def _simpler_steps(st):
    if st[0] == "op":
        if st[3]:
            yield [*st[:3], {}, *st[4:]]
        if st[4] is not None:
            yield [*st[:4], ["@poly", [], [], [], []], st[5], False]
        if st[2]:
            yield [st[0], st[1], "", *st[3:]]
    if st[0] == "type":
        yield [st[0], st[1], "", [], ["@explicit", "@C"]]
    if st[0] == "value":
        yield ["value", st[1], "@unit"]
