"""C16 — Node handles enumerate exactly their operation's value outputs.

Case kinds (field "k" of a spec):

  get      one index expression on a handle with known count n (or unknown, n = null)
             via = graph   handle returned by Hugr.add_node(op, parent, num_outs=n)
                   builder a Dfg builder whose outputs were set (ToNode protocol path)   (n known)
             x   = ["int", i] | ["slice", s, e, st] | ["tuple", i...] | ["iter"] | ["outputs"] | ["wire"]
  pyslice  list(range(n))[s:e:st] of REAL Python against the specification Py.Slice.range (st != 0)
  pyitem   range(n)[i] of real Python against Py.Slice.item
  ports    equality / hash of two ports (or the nodes in them) differing in metadata, count, idx, offset, class
  build    a small random builder program; every returned handle is observed
"""
from __future__ import annotations

import itertools

from core import Failure, ddmin
from sexp import A, dumps

PROP = "C16"
TITLE = "Node handles enumerate exactly their operation's value outputs"
LEAN_TARGETS = ["HugrVerif.Props.C16"]
DRIVE_TARGETS = ["HugrVerif.Drive.Handle"]
RULE = (
    "get: EVERY (n, index expression) with n in 0..6 and unknown (thorough: 0..12), every int in [-9,9] "
    "(thorough [-16,16]), every slice with bounds in {None} u [-9,9] (thorough +-16) and step in {None,1,2,3}, "
    "plus non-positive steps (model only), tuples, iter/outputs/wire; handles come from Hugr.add_node(num_outs=n) and, "
    "for a sample, from a Dfg builder after set_outputs. pyslice/pyitem: real Python range slicing against the Lean "
    "specification Py.Slice.range for steps +-1..3 on the same bounds. ports: pairs of ports over 2 node indices, "
    "offsets {-1,0,1}, both classes, varying metadata and _num_out_ports. build: random builder programs "
    "(add_node with explicit count, add_op/add/extend with Custom, Noop, MakeTuple, UnpackTuple, Tag; call on defined and "
    "declared functions, also row-polymorphic ones instantiated at rows of length 0..3; load; insert_nested/cfg/conditional/tail_loop; nested Dfg/Cfg/Conditional/TailLoop builders) "
    "with type rows of length 0..4. Non-trivial = a get/pyslice case whose result is an error or a non-empty port list, "
    "a ports case, a build case returning at least one handle with >= 1 output; distinct by full spec."
)
TRUSTED = [
    "CPython list/range slicing is the reference for `range(n)[s:e:k]`; the Lean specification Py.Slice.range is compared "
    "to it on every enumerated (n, s, e, k)",
    "generators are observed fully consumed (first exception wins); laziness of the error is not modelled",
    "builder stream: the model only covers how the handle's count is attached (add_node / add_op / _update_port_count); "
    "the expected count of each operation comes from the generated program text, not from a Lean builder model",
]
ASSUMPTIONS = [
    "index expressions are ints, slices of ints/None, or tuples of ints (bool/other objects are outside the quantifier)",
    "nothing is claimed for slice steps <= 0 (the statement excludes them)",
]

TY = ["B", "U", "Q"]  # Bool, Unit, Qubit


# ----------------------------------------------------------------------------- generation


def _bounds(lim):
    return [None] + list(range(-lim, lim + 1))


def _get_cases(nmax, lim):
    ns = [None] + list(range(nmax + 1))
    bs = _bounds(lim)
    for n in ns:
        for x in (["iter"], ["outputs"], ["wire"]):
            yield {"k": "get", "n": n, "via": "graph", "x": x}
        for i in range(-lim, lim + 1):
            yield {"k": "get", "n": n, "via": "graph", "x": ["int", i]}
        for s in bs:
            for e in bs:
                for st in (None, 1, 2, 3):
                    yield {"k": "get", "n": n, "via": "graph", "x": ["slice", s, e, st]}
        # outside the statement (model/correspondence only): zero and negative steps
        small = [None, -(n or 0) - 1, -1, 0, 1, (n or 0), (n or 0) + 2]
        for s in small:
            for e in small:
                for st in (0, -1, -2):
                    yield {"k": "get", "n": n, "via": "graph", "x": ["slice", s, e, st]}
        m = n or 0
        yield {"k": "get", "n": n, "via": "graph", "x": ["tuple"]}
        probe = sorted({-m - 1, -m, -1, 0, 1, m - 1, m})
        for i in probe:
            yield {"k": "get", "n": n, "via": "graph", "x": ["tuple", i]}
            for j in probe:
                yield {"k": "get", "n": n, "via": "graph", "x": ["tuple", i, j]}


def _pyslice_cases(nmax, lim):
    bs = _bounds(lim)
    for n in range(nmax + 1):
        for i in range(-lim, lim + 1):
            yield {"k": "pyitem", "n": n, "i": i}
        for s in bs:
            for e in bs:
                for st in (1, 2, 3, -1, -2, -3):
                    yield {"k": "pyslice", "n": n, "s": s, "e": e, "st": st}


def _ports_cases():
    metas = [[], [["a", "1"]]]
    for da, db in itertools.product("oi", repeat=2):
        for ia, ib in ((3, 3), (3, 4)):
            for oa, ob in itertools.product((-1, 0, 1), repeat=2):
                for ca, cb in ((None, None), (None, 2), (0, 5)):
                    for ma, mb in ((0, 0), (0, 1)):
                        yield {"k": "ports", "a": [da, ia, oa, ca, metas[ma]], "b": [db, ib, ob, cb, metas[mb]]}


def _row(rng, lo=0, hi=4):
    return [rng.choice(TY) for _ in range(rng.randint(lo, hi))]


def _rand_step(rng, depth):
    r = rng.random()
    kinds = [
        "addnode", "add_op", "add", "extend", "special", "load", "call", "insert_nested", "nested",
        "insert_cfg", "cfg", "insert_conditional", "conditional", "insert_tail_loop", "tail_loop", "load_function",
    ]
    if depth >= 2:
        kinds = [k for k in kinds if k not in ("nested",)]
    op = rng.choice(kinds)
    st: dict = {"op": op}
    if op == "addnode":
        st["cnt"] = rng.choice([None, 0, 1, 2, 3, 4, 5, 7])
        st["outs"] = _row(rng)
    elif op in ("add_op", "add"):
        st["ins"] = _row(rng, 0, 3)
        st["outs"] = _row(rng)
        st["wire"] = rng.choice([None, rng.randint(0, 9)])  # use an earlier handle itself as a Wire
        st["meta"] = rng.random() < 0.3
    elif op == "extend":
        st["coms"] = [{"ins": _row(rng, 0, 2), "outs": _row(rng)} for _ in range(rng.randint(0, 3))]
    elif op == "special":
        st["what"] = rng.choice(["noop", "maketuple", "unpack", "tag", "not"])
        st["row"] = _row(rng)
    elif op == "load":
        st["val"] = rng.choice(["true", "unit", "tuple", "node"])
    elif op == "call":
        st["decl"] = rng.random() < 0.4
        st["declare_first"] = rng.random() < 0.5
        st["ins"] = _row(rng, 0, 3)
        st["outs"] = _row(rng)
        if rng.random() < 0.35:
            # the callee is polymorphic over a row of types, instantiated at a row of length 0..3: the call's
            # outputs are those of the INSTANTIATION
            st["poly"] = _row(rng, 0, 3)
    elif op == "load_function":
        st["ins"] = _row(rng, 0, 2)
        st["outs"] = _row(rng)
    elif op in ("insert_nested", "nested"):
        st["ins"] = _row(rng, 0, 3)
        st["outs"] = _row(rng)
        st["body"] = [_rand_step(rng, depth + 1) for _ in range(rng.randint(0, 2))] if op == "nested" else []
    elif op in ("insert_cfg", "cfg"):
        st["ins"] = _row(rng, 0, 3)
        st["shape"] = rng.choice(["single", "branch"])
        st["outs"] = _row(rng)
        st["extra"] = _row(rng, 0, 2)
    elif op in ("insert_conditional", "conditional"):
        st["rows"] = [_row(rng, 0, 2) for _ in range(rng.randint(1, 3))]
        st["other"] = _row(rng, 0, 2)
        st["outs"] = _row(rng)
    elif op in ("insert_tail_loop", "tail_loop"):
        st["just_in"] = _row(rng, 0, 2)
        st["rest"] = _row(rng, 0, 3)
        st["just_out"] = _row(rng, 0, 3)
    return st


def _rand_program(rng):
    return {
        "k": "build",
        "root": rng.choice(["dfg", "func"]),
        "ins": _row(rng, 0, 3),
        "steps": [_rand_step(rng, 0) for _ in range(rng.randint(1, 6))],
    }


def _rand_recycle(rng):
    ops, live = [], []
    nxt = 1
    free = []
    for _ in range(rng.randint(3, 14)):
        if live and rng.random() < 0.4:
            i = rng.choice(live)
            live.remove(i)
            free.append(i)
            ops.append(["del", i, rng.random() < 0.5])
        else:
            k = rng.choice([None, None, 0, 1, 2, 3, 5])
            if free:
                i = free.pop()
            else:
                i = nxt
                nxt += 1
            live.append(i)
            ops.append(["add", k])
    return {"k": "recycle", "ops": ops}


def _run_recycle(spec):
    """Returns, per add, the observation of the returned handle."""
    from hugr import ops as hops
    from hugr.hugr import Hugr
    from hugr.hugr.node_port import Node

    h = Hugr()
    handles = {}
    out = []
    for op in spec["ops"]:
        if op[0] == "add":
            n = h.add_node(hops.Custom("x", extension="v"), num_outs=op[1])
            handles[n.idx] = n
            out.append((op[1], n))
        else:
            # delete through the handle that add_node returned, or through a bare Node(idx)
            n = handles.pop(op[1])
            h.delete_node(n if op[2] else Node(op[1]))
    return out


def cases(rng, tier):
    if tier == "quick":
        nmax, lim, nprog, nsample = 6, 9, 250, 600
    elif tier == "thorough":
        nmax, lim, nprog, nsample = 12, 16, 20000, 6000
    else:  # search: oracle only
        nmax, lim, nprog, nsample = 8, 10, 3000, 2000
    # builder programs first: in `search` mode the caller stops at the first failure
    for _ in range(nprog):
        yield _rand_program(rng)
    # graph-level histories with deletions and index reuse: every handle add_node returns knows
    # exactly the count requested for THIS node (none when no count was given)
    for _ in range(max(nprog // 2, 100)):
        yield _rand_recycle(rng)
    yield from _ports_cases()
    allget = list(_get_cases(nmax, lim))
    yield from allget
    # the same expressions through a builder object (ToNode protocol) for a random sample
    known = [c for c in allget if c["n"] is not None]
    for c in rng.sample(known, min(nsample, len(known))):
        yield {**c, "via": "builder"}
    if tier != "search":
        yield from _pyslice_cases(nmax, lim)


def exhaustive(tier):
    return True  # the (n, index expression) scope named in RULE is enumerated completely in both tiers


def corpus():
    out = []
    # the expressions of tests/test_nodes.py and the unpacking idioms named in the property text
    for n, x in [
        (3, ["int", -1]), (3, ["int", 3]), (3, ["int", -8]), (3, ["slice", None, 0, None]), (3, ["slice", 0, 999, None]),
        (3, ["slice", 999, 1000, None]), (3, ["slice", -3, None, None]), (3, ["slice", -4, None, None]),
        (0, ["slice", None, 10, None]), (0, ["slice", 10, None, None]), (2, ["slice", None, 2, None]),
        (None, ["int", 0]), (None, ["int", -1]), (None, ["iter"]), (None, ["slice", 1, 3, None]),
        (3, ["slice", 5, 0, -1]),  # outside the statement: the handle raises where range(3)[5:0:-1] == [2, 1]
    ]:
        out.append({"k": "get", "n": n, "via": "graph", "x": x})
    return out


# ----------------------------------------------------------------------------- implementation adapters

_HANDLES: dict = {}


def _types():
    from hugr import tys

    return {"B": tys.Bool, "U": tys.Unit, "Q": tys.Qubit}


def _tr(row):
    t = _types()
    return [t[c] for c in row]


def _custom(name, ins, outs):
    from hugr import ops, tys

    return ops.Custom(name, tys.FunctionType(_tr(ins), _tr(outs)), extension="c16")


def _handle(n, via):
    """A handle with count n (None: unknown); cached (handles are immutable)."""
    key = (n, via)
    if key not in _HANDLES:
        from hugr import ops
        from hugr.build.dfg import Dfg
        from hugr.hugr.base import Hugr

        if via == "graph":
            h = Hugr()
            for _ in range((n or 0) % 3):
                h.add_node(ops.Custom("pad"))
            hd = h.add_node(_custom("x", [], ["B"] * (n or 0)), h.root, num_outs=n)
        elif via == "builder":
            d = Dfg()
            src = d.hugr.add_node(_custom("src", [], ["B"] * n), d.parent_node)
            d.set_outputs(*[src.out(i) for i in range(n)])
            hd = d
        else:
            raise ValueError(via)
        _HANDLES[key] = hd
    return _HANDLES[key]


def _port_obs(p):
    from hugr.hugr.node_port import InPort, OutPort

    d = "o" if type(p) is OutPort else "i" if type(p) is InPort else "?"
    return [A(d), p.node.idx, p.offset]


def _exc(e):
    if isinstance(e, IndexError):
        return "IndexError"
    if isinstance(e, ValueError):
        return "ValueError"
    return "Exception"


def _eval_get(hd, x):
    """('port', p) | ('ports', [p...]) | ('err', class)"""
    try:
        kind = x[0]
        if kind == "int":
            return ("port", hd[x[1]])
        if kind == "slice":
            return ("ports", list(hd[slice(x[1], x[2], x[3])]))
        if kind == "tuple":
            return ("ports", list(hd[tuple(x[1:])]))
        if kind == "iter":
            return ("ports", list(iter(hd)))
        if kind == "outputs":
            return ("ports", list(hd.outputs()))
        if kind == "wire":
            return ("port", hd.out_port())
        raise ValueError(kind)
    except Exception as e:  # noqa: BLE001
        return ("err", _exc(e))


def _get_obs(res):
    if res[0] == "err":
        return res[1]
    if res[0] == "port":
        return dumps([A("ok"), _port_obs(res[1])])
    return dumps([A("ok")] + [_port_obs(p) for p in res[1]])


def _mk_port(desc):
    from hugr.hugr.node_port import InPort, Node, OutPort

    d, idx, off, cnt, meta = desc
    node = Node(idx, dict((k, v) for k, v in meta), cnt)
    return (OutPort if d == "o" else InPort)(node, off)


# ---- builder programs


class _Ctx:
    def __init__(self):
        self.handles = []  # (how, site, handle-object, expected count | None, hugr)
        self.wirechecks = []  # (hugr, target inport, source handle)
        self.fn = 0
        self.skipped = 0


def _mk(d, row, name="mk"):
    """Wires of the given types inside region d (explicit .out(i): independent of handle indexing)."""
    if not row:
        return []
    n = d.hugr.add_node(_custom(name, [], row), d.parent_node)
    return [n.out(i) for i in range(len(row))]


def _sum_wire(d, rows):
    from hugr import ops, tys

    st = tys.Sum([_tr(r) for r in rows])
    n = d.hugr.add_node(ops.Custom("mksum", tys.FunctionType([], [st]), extension="c16"), d.parent_node)
    return n.out(0), st


def _run_step(ctx, root, d, st):
    from hugr import ops, tys, val
    from hugr.build.cfg import Cfg
    from hugr.build.cond_loop import Conditional, TailLoop
    from hugr.build.dfg import Dfg

    op = st["op"]
    rec = lambda how, site, h, k: ctx.handles.append((how, site, h, k, d.hugr))  # noqa: E731
    if op == "addnode":
        n = d.hugr.add_node(_custom("n", [], st["outs"]), d.parent_node, num_outs=st["cnt"])
        rec("addnode" if st["cnt"] is not None else "addnode-none", "Hugr.add_node", n, st["cnt"])
    elif op in ("add_op", "add"):
        ins = list(st["ins"])
        wires = _mk(d, ins)
        w = st.get("wire")
        src = None
        if w is not None:
            cands = [h for (_, _, h, k, hg) in ctx.handles if k and hg is d.hugr and _same_region(d, h)]
            if cands:
                src = cands[w % len(cands)]
                try:
                    ty = d.hugr.port_type(src.to_node().out(0))
                    code = next((c for c, t in _types().items() if t == ty), None)
                except Exception:  # noqa: BLE001
                    code = None
                if code is None:
                    src = None
                else:
                    ins = [code] + ins
                    wires = [src] + wires
        o = _custom("op", ins, st["outs"])
        md = {"m": 1} if st.get("meta") else None
        if op == "add_op":
            n = d.add_op(o, *wires, metadata=md)
        else:
            n = d.add(o(*wires), metadata=md)
        rec("addop", "Dfg." + op, n, len(st["outs"]))
        if src is not None:
            ctx.wirechecks.append((d.hugr, n.inp(0), src))
    elif op == "extend":
        coms = [_custom("e", c["ins"], c["outs"])(*_mk(d, c["ins"])) for c in st["coms"]]
        ns = d.extend(*coms)
        if len(ns) != len(coms):
            ctx.handles.append(("addop", "Dfg.extend", None, -1, d.hugr))
        for n, c in zip(ns, st["coms"]):
            rec("addop", "Dfg.extend", n, len(c["outs"]))
    elif op == "special":
        what, row = st["what"], st["row"]
        if what == "noop":
            (w,) = _mk(d, ["B"])
            rec("addop", "Dfg.add", d.add(ops.Noop()(w)), 1)
        elif what == "maketuple":
            rec("addop", "Dfg.add", d.add(ops.MakeTuple()(*_mk(d, row))), 1)
        elif what == "unpack":
            t = d.hugr.add_node(
                ops.Custom("mkt", tys.FunctionType([], [tys.Tuple(*_tr(row))]), extension="c16"), d.parent_node
            )
            rec("addop", "Dfg.add", d.add(ops.UnpackTuple()(t.out(0))), len(row))
        elif what == "tag":
            rows = [row, ["B"]]
            rec("addop", "Dfg.add_op", d.add_op(ops.Tag(0, tys.Sum([_tr(r) for r in rows])), *_mk(d, row)), 1)
        elif what == "not":
            from hugr.std.logic import Not

            (w,) = _mk(d, ["B"])
            rec("addop", "Dfg.add", d.add(Not(w)), 1)
    elif op == "load":
        v = st["val"]
        if v == "node":
            c = d.add_const(val.TRUE)
            rec("addop", "Dfg.load", d.load(c), 1)
        else:
            value = {"true": val.TRUE, "unit": val.Unit, "tuple": val.Tuple(val.TRUE, val.FALSE)}[v]
            rec("addop", "Dfg.load", d.load(value), 1)
    elif op in ("call", "load_function"):
        ctx.fn += 1
        name = f"f{ctx.fn}"
        ins, outs = st["ins"], st["outs"]
        if op == "call" and st.get("poly") is not None and hasattr(root, "declare_function"):
            rv = tys.RowVariable(0, tys.TypeBound.Any)
            row = st["poly"]
            f = root.declare_function(
                name,
                tys.PolyFuncType(
                    [tys.ListParam(tys.TypeTypeParam(tys.TypeBound.Any))],
                    tys.FunctionType([*_tr(ins), rv], [*_tr(outs), rv]),
                ),
            )
            h = d.call(
                f,
                *_mk(d, ins + row),
                instantiation=tys.FunctionType(_tr(ins + row), _tr(outs + row)),
                type_args=[tys.SequenceArg([tys.TypeTypeArg(t) for t in _tr(row)])],
            )
            rec("call", "Dfg.call(polymorphic)", h, len(outs) + len(row))
            return
        elif st.get("decl") and hasattr(root, "declare_function"):
            f = root.declare_function(name, tys.PolyFuncType([], tys.FunctionType(_tr(ins), _tr(outs))))
        elif st.get("declare_first"):
            fb = root.define_function(name, _tr(ins))
            fb.declare_outputs(_tr(outs))
            f = fb
            if op == "call":
                rec("call", "Dfg.call", d.call(f, *_mk(d, ins)), len(outs))
            fb.set_outputs(*_mk(fb, outs))
            if op == "call":
                return
        else:
            fb = root.define_function(name, _tr(ins), _tr(outs))
            fb.set_outputs(*_mk(fb, outs))
            f = fb
        if op == "call":
            rec("call", "Dfg.call", d.call(f, *_mk(d, ins)), len(outs))
        else:
            # not in the statement's list: returns a handle without a count (recorded, never flagged)
            rec("addnode-none", "Dfg.load_function", d.load_function(f), None)
    elif op in ("insert_nested", "nested"):
        ins, outs = st["ins"], st["outs"]
        if op == "nested":
            b = d.add_nested(*_mk(d, ins))
            for s2 in st["body"]:
                _run_step(ctx, root, b, s2)
            b.set_outputs(*_mk(b, outs))
            ctx.handles.append(("container", "Dfg.set_outputs(nested)", b, len(outs), d.hugr))
        else:
            b = Dfg(*_tr(ins))
            b.set_outputs(*_mk(b, outs))
            ctx.handles.append(("container", "Dfg.set_outputs", b, len(outs), b.hugr))
            rec("inserted", "Dfg.insert_nested", d.insert_nested(b, *_mk(d, ins)), len(outs))
    elif op in ("insert_cfg", "cfg"):
        ins, outs = st["ins"], st["outs"]
        c = d.add_cfg(*_mk(d, ins)) if op == "cfg" else Cfg(*_tr(ins))
        entry = c.add_entry()
        if st["shape"] == "single":
            entry.set_single_succ_outputs(*_mk(entry, outs))
            c.branch_exit(entry.parent_node.out(0))
        else:
            extra = st["extra"]
            sw, _ = _sum_wire(entry, [["B"], []])
            entry.set_block_outputs(sw, *_mk(entry, extra))
            for i in range(2):
                b = c.add_successor(entry.parent_node.out(i))
                b.set_single_succ_outputs(*_mk(b, outs))
                c.branch_exit(b.parent_node.out(0))
        ctx.handles.append(("container", "Cfg.branch_exit" + ("(nested)" if op == "cfg" else ""), c, len(outs), c.hugr))
        if op == "insert_cfg":
            rec("inserted", "Dfg.insert_cfg", d.insert_cfg(c, *_mk(d, ins)), len(outs))
    elif op in ("insert_conditional", "conditional"):
        rows, other, outs = st["rows"], st["other"], st["outs"]
        if op == "conditional":
            sw, _ = _sum_wire(d, rows)
            c = d.add_conditional(sw, *_mk(d, other))
        else:
            c = Conditional(tys.Sum([_tr(r) for r in rows]), _tr(other))
        for i in range(len(rows)):
            case = c.add_case(i)
            case.set_outputs(*_mk(case, outs))
        ctx.handles.append(
            ("container", "Case.set_outputs->Conditional" + ("(nested)" if op == "conditional" else ""), c, len(outs), c.hugr)
        )
        if op == "insert_conditional":
            sw, _ = _sum_wire(d, rows)
            rec("inserted", "Dfg.insert_conditional", d.insert_conditional(c, sw, *_mk(d, other)), len(outs))
    elif op in ("insert_tail_loop", "tail_loop"):
        ji, rest, jo = st["just_in"], st["rest"], st["just_out"]
        if op == "tail_loop":
            t = d.add_tail_loop(_mk(d, ji), _mk(d, rest))
        else:
            t = TailLoop(_tr(ji), _tr(rest))
        sw, _ = _sum_wire(t, [ji, jo])
        t.set_loop_outputs(sw, *_mk(t, rest))
        k = len(jo) + len(rest)
        ctx.handles.append(("container", "TailLoop.set_outputs" + ("(nested)" if op == "tail_loop" else ""), t, k, t.hugr))
        if op == "insert_tail_loop":
            rec("inserted", "Dfg.insert_tail_loop", d.insert_tail_loop(t, _mk(d, ji), _mk(d, rest)), k)
    else:
        raise ValueError(op)


def _same_region(d, h):
    try:
        return d.hugr[h.to_node()].parent == d.parent_node
    except Exception:  # noqa: BLE001
        return False


def _run_program(spec):
    """Execute the program on the real builders. Returns the context (handles in creation order)."""
    from hugr.build.dfg import Dfg
    from hugr.build.function import Module

    ctx = _Ctx()
    if spec["root"] == "func":
        root = Module()
        d = root.define_function("main", _tr(spec["ins"]))
    else:
        root = d = Dfg(*_tr(spec["ins"]))
    for st in spec["steps"]:
        _run_step(ctx, root, d, st)
    return ctx


def _handle_obs(h, k):
    """Same shape as Drive.Handle.obsHandle."""
    node = h.to_node()
    cnt = node._num_out_ports
    try:
        ps = list(h)
        own = all(type(p).__name__ == "OutPort" and p.node.idx == node.idx for p in ps)
        it = [A("ok"), own] + [p.offset for p in ps]
    except Exception as e:  # noqa: BLE001
        it = A(_exc(e))

    def probe(i):
        try:
            return h[i].offset
        except Exception as e:  # noqa: BLE001
            return A(_exc(e))

    return [cnt if cnt is not None else A("none"), it, probe(-1), probe(k if k is not None else 0)]


def run_impl(spec):
    k = spec["k"]
    if k == "get":
        try:
            hd = _handle(spec["n"], spec["via"])
        except Exception as e:  # noqa: BLE001
            return "handle-construction-raised " + type(e).__name__
        return _get_obs(_eval_get(hd, spec["x"]))
    if k == "pyslice":
        return dumps(list(range(spec["n"]))[spec["s"] : spec["e"] : spec["st"]])
    if k == "pyitem":
        try:
            return dumps([A("ok"), range(spec["n"])[spec["i"]]])
        except IndexError:
            return "IndexError"
    if k == "ports":
        p, q = _mk_port(spec["a"]), _mk_port(spec["b"])
        eq = bool(p == q)
        neq = bool(p.node == q.node)
        return dumps(
            [eq, (hash(p) == hash(q)) if eq else A("-"), neq, (hash(p.node) == hash(q.node)) if neq else A("-")]
        )
    if k == "recycle":
        try:
            res = _run_recycle(spec)
        except Exception as e:  # noqa: BLE001
            return "recycle-raised " + type(e).__name__
        return dumps([_handle_obs(n, req) for req, n in res])
    if k == "build":
        try:
            ctx = _run_program(spec)
        except Exception as e:  # noqa: BLE001
            return "build-raised " + type(e).__name__
        return dumps([_handle_obs(h, kk) if h is not None else A("missing") for (_, _, h, kk, _) in ctx.handles])
    raise ValueError(k)


# ----------------------------------------------------------------------------- model payload


def payload(spec):
    k = spec["k"]
    o = lambda v: A("none") if v is None else v  # noqa: E731
    if k == "get":
        try:
            hd = _handle(spec["n"], spec["via"])
        except Exception:  # noqa: BLE001
            return None
        idx = hd.to_node().idx
        x = spec["x"]
        if x[0] == "int":
            e = [A("int"), x[1]]
        elif x[0] == "slice":
            e = [A("slice"), o(x[1]), o(x[2]), o(x[3])]
        else:
            e = [A(x[0])] + list(x[1:])
        return "handle.get", dumps([o(spec["n"]), idx, e])
    if k == "pyslice":
        return "pyslice", dumps([spec["n"], o(spec["s"]), o(spec["e"]), spec["st"]])
    if k == "pyitem":
        return "pyitem", dumps([spec["n"], spec["i"]])
    if k == "ports":
        enc = lambda d: [A(d[0]), d[1], d[2], o(d[3]), [[a, b] for a, b in d[4]]]  # noqa: E731
        return "handle.ports", dumps([enc(spec["a"]), enc(spec["b"])])
    if k == "recycle":
        try:
            res = _run_recycle(spec)
        except Exception:  # noqa: BLE001
            return None
        items = [[A("addnode" if req is not None else "addnode-none"), n.idx, req if req is not None else 0] for req, n in res]
        return "handle.build", dumps(items)
    if k == "build":
        try:
            ctx = _run_program(spec)
        except Exception:  # noqa: BLE001
            return None
        items = []
        for how, _, h, kk, _ in ctx.handles:
            if h is None:
                return None
            items.append([A(how), h.to_node().idx, kk if kk is not None else 0])
        return "handle.build", dumps(items)
    raise ValueError(k)


# ----------------------------------------------------------------------------- oracle


def _is_out(p, idx, off):
    from hugr.hugr.node_port import OutPort

    return type(p) is OutPort and type(p.offset) is int and p.node.idx == idx and p.offset == off


def _oracle_get(spec):
    n, x = spec["n"], spec["x"]
    try:
        hd = _handle(n, spec["via"])
    except Exception as e:  # noqa: BLE001
        site = "Hugr.add_node" if spec["via"] == "graph" else "Dfg.set_outputs"
        return [Failure(site, "handle-construction-raised", f"n={n}: {type(e).__name__}: {e}")]
    idx = hd.to_node().idx
    res = _eval_get(hd, x)
    kind = x[0]
    site = {"int": "Node.__getitem__(int)", "slice": "Node.__getitem__(slice)", "iter": "Node.__iter__",
            "outputs": "Node.outputs", "wire": "Node.out_port", "tuple": "Node.__getitem__(tuple)"}[kind]
    want = None  # ('port', j) | ('ports', [j]) | ('err', cls) | None = nothing claimed
    if kind == "wire":
        want = ("port", 0)
    elif kind == "int":
        i = x[1]
        if n is None:
            want = ("port", i) if i >= 0 else ("err", "IndexError")
        else:
            try:
                want = ("port", range(n)[i])
            except IndexError:
                want = ("err", "IndexError")
    elif kind in ("iter", "outputs"):
        want = ("err", "ValueError") if n is None else ("ports", list(range(n)))
    elif kind == "slice":
        s, e, st = x[1:]
        if st is None or st > 0:
            if n is None:
                if s is None and e is None and st is None:
                    want = ("err", "ValueError")  # `node[:]` is "asked to iterate"
            elif (s is not None and s < -n) or (e is not None and e < -n):
                want = ("err", "IndexError")
            else:
                want = ("ports", list(range(n))[s:e:st])
    if want is None:
        return []
    ok = False
    if want[0] == "err":
        ok = res == want
    elif want[0] == "port":
        ok = res[0] == "port" and _is_out(res[1], idx, want[1])
    else:
        ok = res[0] == "ports" and len(res[1]) == len(want[1]) and all(_is_out(p, idx, j) for p, j in zip(res[1], want[1]))
    if ok:
        return []
    cls = {"err": "wrong-or-missing-exception", "port": "wrong-port", "ports": "wrong-port-list"}[want[0]]
    if res[0] == "err" and want[0] != "err":
        cls = "unexpected-exception"
    return [Failure(site, cls, f"n={n} x={x} expected={want} got={_get_obs(res)}")]


def _oracle_ports(spec):
    a, b = spec["a"], spec["b"]
    p, q = _mk_port(a), _mk_port(b)
    fails = []
    if a[0] == b[0]:  # same class: identity is (node index, offset) only
        same = a[1] == b[1] and a[2] == b[2]
        if bool(p == q) != same:
            fails.append(Failure("Port.__eq__", "eq-not-by-index-and-offset", f"{a} {b}"))
        elif same and hash(p) != hash(q):
            fails.append(Failure("Port.__hash__", "equal-ports-hash-differently", f"{a} {b}"))
    if bool(p.node == q.node) != (a[1] == b[1]):
        fails.append(Failure("Node.__eq__", "eq-not-by-index", f"{a} {b}"))
    elif a[1] == b[1] and hash(p.node) != hash(q.node):
        fails.append(Failure("Node.__hash__", "equal-nodes-hash-differently", f"{a} {b}"))
    return fails


def _oracle_build(spec):
    from hugr.hugr.node_port import OutPort

    try:
        ctx = _run_program(spec)
    except Exception as e:  # noqa: BLE001
        # the generated programs are valid uses of the builder API: a raise is a failure of some builder call
        return [Failure("builder", "program-raised", f"{type(e).__name__}: {e}")]
    fails = []
    for how, site, h, k, hg in ctx.handles:
        if h is None:
            fails.append(Failure(site, "wrong-number-of-handles", ""))
            continue
        if site == "Dfg.load_function":
            continue  # not in the statement's list
        node = h.to_node()
        idx = node.idx
        if k is None:
            # handle without a known count: non-negative indexing, ValueError on iteration
            try:
                if not _is_out(h[2], idx, 2):
                    fails.append(Failure(site, "unknown-count-nonneg-index", ""))
            except Exception as e:  # noqa: BLE001
                fails.append(Failure(site, "unknown-count-nonneg-index", repr(e)))
            try:
                list(h)
                fails.append(Failure(site, "unknown-count-iterates", ""))
            except ValueError:
                pass
            except Exception as e:  # noqa: BLE001
                fails.append(Failure(site, "unknown-count-iterates", repr(e)))
            continue
        try:
            ps = list(h)
        except Exception as e:  # noqa: BLE001
            fails.append(Failure(site, "iteration-raises", f"expected {k} outputs, got {type(e).__name__}"))
            continue
        if len(ps) != k or not all(_is_out(p, idx, j) for j, p in enumerate(ps)):
            fails.append(Failure(site, "iteration-not-the-value-outputs", f"expected {k} outputs of node {idx}, got {ps}"))
            continue
        # the operation stored in the graph has that many value outputs (signature), for explicit counts the
        # count is whatever was passed
        if how != "addnode":
            try:
                op = hg[node].op
                sig_n = len(op.outer_signature().output) if hasattr(op, "outer_signature") else op.num_out
                if sig_n != k:
                    fails.append(Failure(site, "generator-expectation-differs-from-signature", f"{sig_n} vs {k}"))
            except Exception:  # noqa: BLE001
                pass
        for i, want in ((-1, k - 1 if k else None), (k, None), (-k - 1, None), (-k, 0 if k else None), (k - 1, k - 1 if k else None)):
            try:
                got = h[i]
                if want is None or not _is_out(got, idx, want):
                    fails.append(Failure(site, "index-wrong", f"h[{i}] with {k} outputs gave {got}"))
                    break
            except IndexError:
                if want is not None:
                    fails.append(Failure(site, "index-wrong", f"h[{i}] with {k} outputs raised IndexError"))
                    break
            except Exception as e:  # noqa: BLE001
                fails.append(Failure(site, "index-wrong", f"h[{i}] raised {type(e).__name__}"))
                break
        try:
            if h.out_port() != OutPort(node, 0) or not _is_out(h.out_port(), idx, 0):
                fails.append(Failure(site, "wire-not-output-0", ""))
        except Exception as e:  # noqa: BLE001
            fails.append(Failure(site, "wire-not-output-0", repr(e)))
    for hg, inport, src in ctx.wirechecks:
        try:
            linked = list(hg.linked_ports(inport))
            if len(linked) != 1 or not _is_out(linked[0], src.to_node().idx, 0):
                fails.append(Failure("Dfg.add_op", "node-as-wire-not-output-0", f"{linked}"))
        except Exception as e:  # noqa: BLE001
            fails.append(Failure("Dfg.add_op", "node-as-wire-not-output-0", repr(e)))
    return fails


def _oracle_recycle(spec):
    from core import Failure

    fails = []
    try:
        res = _run_recycle(spec)
    except Exception as e:  # noqa: BLE001
        return [Failure("Hugr.add_node", "raises-on-valid-history", type(e).__name__)]
    for pos, (req, n) in enumerate(res):
        if req is None:
            try:
                list(n)
                fails.append(Failure("Hugr.add_node", "handle-without-count-iterates", f"add #{pos}"))
            except ValueError:
                pass
            except Exception as e:  # noqa: BLE001
                fails.append(Failure("Hugr.add_node", "handle-without-count-wrong-error", type(e).__name__))
            try:
                if n[7].offset != 7:
                    fails.append(Failure("Hugr.add_node", "handle-without-count-index", f"add #{pos}"))
            except Exception as e:  # noqa: BLE001
                fails.append(Failure("Hugr.add_node", "handle-without-count-index", type(e).__name__))
        else:
            try:
                got = [p.offset for p in n]
            except Exception as e:  # noqa: BLE001
                got = type(e).__name__
            if got != list(range(req)):
                fails.append(Failure("Hugr.add_node", "handle-count-not-requested", f"add #{pos}: {got} vs {req}"))
        if fails:
            break
    return fails


def oracle(spec):
    k = spec["k"]
    if k == "get":
        return _oracle_get(spec)
    if k == "ports":
        return _oracle_ports(spec)
    if k == "build":
        return _oracle_build(spec)
    if k == "recycle":
        return _oracle_recycle(spec)
    return []  # pyslice / pyitem validate the Lean specification, not the implementation


# ----------------------------------------------------------------------------- bookkeeping


def nontrivial(spec, obs):
    k = spec["k"]
    if k in ("get", "pyitem"):
        return obs != "(ok)"
    if k == "pyslice":
        return obs != "()"
    if k == "ports":
        return True
    if k == "recycle":
        return any(o[0] == "del" for o in spec["ops"])
    return "(ok true 0" in obs or "(ok false" in obs


def stats(spec, obs, counters):
    k = spec["k"]
    counters[f"kind.{k}"] += 1
    if k == "get":
        counters[f"get.{spec['x'][0]}"] += 1
        counters["get.n." + ("unknown" if spec["n"] is None else "known")] += 1
        counters["get.via." + spec["via"]] += 1
        counters["get.outcome." + (obs if not obs.startswith("(") else "ok")] += 1
        if spec["x"][0] == "slice":
            st = spec["x"][3]
            counters["get.slice.step." + ("pos" if st is None or st > 0 else "nonpos(model only)")] += 1
    elif k == "recycle":
        counters["recycle.adds"] += sum(o[0] == "add" for o in spec["ops"])
        counters["recycle.deletes"] += sum(o[0] == "del" for o in spec["ops"])
    elif k == "build":
        counters["build.handles"] += obs.count("(ok") + obs.count("ValueError")
        for st in spec["steps"]:
            counters["build.step." + st["op"]] += 1
        if obs.startswith("build-raised"):
            counters["build.raised"] += 1


def shrink(spec, pred):
    if spec["k"] == "recycle":
        return {**spec, "ops": ddmin(spec["ops"], lambda o: pred({**spec, "ops": o}))}
    if spec["k"] != "build":
        return spec
    steps = ddmin(spec["steps"], lambda s: pred({**spec, "steps": s}))
    s = {**spec, "steps": steps}
    if not pred(s):
        return spec
    # drop nested bodies, then shorten rows
    changed = True
    while changed:
        changed = False
        for i, st in enumerate(s["steps"]):
            for key, val_ in list(st.items()):
                if isinstance(val_, list) and val_:
                    for cand in ([], val_[:-1]) if key != "rows" else ([val_[0]],) if len(val_) > 1 else ():
                        st2 = {**st, key: cand}
                        s2 = {**s, "steps": s["steps"][:i] + [st2] + s["steps"][i + 1 :]}
                        try:
                            if pred(s2):
                                s, changed = s2, True
                                break
                        except Exception:  # noqa: BLE001
                            pass
                    if changed:
                        break
            if changed:
                break
    if s["ins"] and pred({**s, "ins": []}):
        s = {**s, "ins": []}
    return s
