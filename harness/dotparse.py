"""Statement-level parser for the DOT text `graphviz.Digraph.source` produces (trusted glue of C20).

`parse(text)` gives a generic tree

    {"strict": bool, "kind": "digraph"|"graph", "name": str|None, "stmts": [STMT]}
    STMT = {"t": "attr", "k": str, "v": str}                      ID '=' ID
         | {"t": "node", "id": str, "attrs": {k: VAL}}
         | {"t": "edge", "ends": [str, ...], "attrs": {k: VAL}}   endpoints as `node[:port[:compass]]`
         | {"t": "sub", "name": str|None, "stmts": [STMT]}
    VAL  = str | Html(str)        (the text between the outer `<` `>` of an HTML string)

The lexer follows the DOT scanner: double-quoted strings (`\\"` is a quote, `\\\\` stays two characters,
backslash-newline is a continuation), HTML strings with `<`/`>` nesting, bare identifiers.

`render_out(tree)` turns the tree of a HUGR rendering into the `RenderOut` dump of
`lean/HugrVerif/Bridge/Render.lean`, reading the node labels with `parse_label` (the values substituted
into render.py's HTML templates: display name, port cells, metadata lines, colours).
"""
from __future__ import annotations

import html as _html
import re


class DotError(Exception):
    pass


class Html(str):
    """An HTML-string value."""

    __slots__ = ()


_PUNCT = "{}[]=;,:"


def tokens(text: str):
    """[(kind, value)] with kind in {'p' punctuation, 'id' bare identifier, 'q' quoted, 'h' html, 'op' edge operator}."""
    out = []
    i, n = 0, len(text)
    while i < n:
        c = text[i]
        if c in " \t\r\n\f\v":
            i += 1
        elif c == "/" and text.startswith("//", i):
            j = text.find("\n", i)
            i = n if j < 0 else j + 1
        elif c == "/" and text.startswith("/*", i):
            j = text.find("*/", i + 2)
            if j < 0:
                raise DotError("unterminated comment")
            i = j + 2
        elif c in _PUNCT:
            out.append(("p", c))
            i += 1
        elif c == "-" and i + 1 < n and text[i + 1] in ">-":
            out.append(("op", text[i : i + 2]))
            i += 2
        elif c == '"':
            i += 1
            buf = []
            while True:
                if i >= n:
                    raise DotError("unterminated string")
                c = text[i]
                if c == '"':
                    i += 1
                    break
                if c == "\\" and i + 1 < n:
                    d = text[i + 1]
                    if d == '"':
                        buf.append('"')
                    elif d == "\n":
                        pass
                    else:
                        buf.append(c + d)
                    i += 2
                else:
                    buf.append(c)
                    i += 1
            out.append(("q", "".join(buf)))
        elif c == "<":
            depth, j = 1, i + 1
            while j < n and depth:
                if text[j] == "<":
                    depth += 1
                elif text[j] == ">":
                    depth -= 1
                j += 1
            if depth:
                raise DotError("unterminated HTML string")
            out.append(("h", text[i + 1 : j - 1]))
            i = j
        else:
            j = i
            while j < n and text[j] not in " \t\r\n\f\v" + _PUNCT + '"<>' and not (
                text[j] == "-" and j + 1 < n and text[j + 1] in ">-" and j > i
            ):
                j += 1
            if j == i:
                raise DotError(f"unexpected character {c!r} at {i}")
            out.append(("id", text[i:j]))
            i = j
    return out


class _P:
    def __init__(self, toks):
        self.t = toks
        self.i = 0

    def peek(self, k=0):
        return self.t[self.i + k] if self.i + k < len(self.t) else (None, None)

    def next(self):
        tok = self.peek()
        if tok[0] is None:
            raise DotError("unexpected end of input")
        self.i += 1
        return tok

    def expect(self, kind, val=None):
        tok = self.next()
        if tok[0] != kind or (val is not None and tok[1] != val):
            raise DotError(f"expected {kind} {val!r}, got {tok!r}")
        return tok

    def is_id(self, tok):
        return tok[0] in ("id", "q", "h")

    def value(self):
        tok = self.next()
        if tok[0] == "h":
            return Html(tok[1])
        if tok[0] in ("id", "q"):
            return tok[1]
        raise DotError(f"expected an identifier, got {tok!r}")

    def graph(self):
        strict = False
        tok = self.next()
        if tok == ("id", "strict"):
            strict = True
            tok = self.next()
        if tok[0] != "id" or tok[1] not in ("digraph", "graph"):
            raise DotError(f"expected digraph, got {tok!r}")
        kind = tok[1]
        name = None
        if self.peek() != ("p", "{"):
            name = self.value()
        stmts = self.block()
        if self.peek()[0] is not None:
            raise DotError("trailing input after the graph")
        return {"strict": strict, "kind": kind, "name": name, "stmts": stmts}

    def block(self):
        self.expect("p", "{")
        stmts = []
        while self.peek() != ("p", "}"):
            if self.peek() == ("p", ";"):
                self.next()
                continue
            stmts.append(self.stmt())
        self.expect("p", "}")
        return stmts

    def attr_list(self):
        attrs = {}
        while self.peek() == ("p", "["):
            self.next()
            while self.peek() != ("p", "]"):
                if self.peek()[1] in (",", ";") and self.peek()[0] == "p":
                    self.next()
                    continue
                k = self.value()
                self.expect("p", "=")
                v = self.value()
                if k in attrs:
                    raise DotError(f"attribute {k} given twice")
                attrs[k] = v
            self.next()
        return attrs

    def endpoint(self):
        parts = [self.value()]
        while self.peek() == ("p", ":"):
            self.next()
            parts.append(self.value())
        return ":".join(parts)

    def stmt(self):
        tok = self.peek()
        if tok == ("id", "subgraph"):
            self.next()
            name = None
            if self.peek() != ("p", "{"):
                name = self.value()
            return {"t": "sub", "name": name, "stmts": self.block()}
        if tok == ("p", "{"):
            return {"t": "sub", "name": None, "stmts": self.block()}
        if not self.is_id(tok):
            raise DotError(f"unexpected token {tok!r}")
        if self.peek(1) == ("p", "="):
            k = self.value()
            self.next()
            return {"t": "attr", "k": k, "v": self.value()}
        if tok[0] == "id" and tok[1] in ("graph", "node", "edge") and self.peek(1) == ("p", "["):
            self.next()
            return {"t": "default", "of": tok[1], "attrs": self.attr_list()}
        first = self.endpoint()
        if self.peek()[0] == "op":
            ends = [first]
            while self.peek()[0] == "op":
                self.next()
                ends.append(self.endpoint())
            return {"t": "edge", "ends": ends, "attrs": self.attr_list()}
        return {"t": "node", "id": first, "attrs": self.attr_list()}


def parse(text: str):
    return _P(tokens(text)).graph()


# ----------------------------------------------------------------------------- node labels

_TABLE = re.compile(
    r'\s*<TABLE BORDER="([^"]*)" CELLBORDER="0" CELLSPACING="1" CELLPADDING="1"\s+BGCOLOR="([^"]*)" COLOR="([^"]*)">'
)
_NAME = re.compile(r'<FONT POINT-SIZE="([^"]*)" FACE="([^"]*)"\s+COLOR="([^"]*)"><B>')
_CELL = re.compile(
    r'<TD BGCOLOR="([^"]*)" COLOR="([^"]*)" PORT="([^"]*)" BORDER="([^"]*)">'
    r'<FONT POINT-SIZE="([^"]*)" FACE="([^"]*)" COLOR="([^"]*)">([^<]*)</FONT></TD>'
)
_NAME_END = "</FONT></TD></TR>"


def _cells(part: str):
    return [
        {"port": m.group(3), "text": m.group(8), "bg": m.group(1), "border": m.group(2), "font": m.group(7)}
        for m in _CELL.finditer(part)
    ]


def parse_label(html: str):
    """The values substituted into `_HTML_LABEL_TEMPLATE`: colours, the cells of the row before the name
    row (inputs) and of the row after it (outputs), the display name and the metadata lines."""
    mt = _TABLE.match(html)
    if not mt:
        raise DotError("node label does not start with the label table")
    mn = _NAME.search(html)
    if not mn:
        raise DotError("node label has no name row")
    end = html.rfind(_NAME_END)
    if end < mn.end():
        raise DotError("node label has no end of the name row")
    region = html[mn.end() : end]
    k = region.find("</B>")
    if k < 0:
        raise DotError("node label has no </B>")
    name, data = region[:k], region[k + 4 :]
    if data == "":
        meta = []
    elif data.startswith("<BR/><BR/>"):
        meta = data[len("<BR/><BR/>") :].split("<BR/>")
    else:
        raise DotError("unexpected text after the display name")
    # text inside an HTML-like label: "<", ">" must appear as entities (a raw one is markup, and a raw "&" that does
    # not start an entity is an error for Graphviz' label parser)
    for txt in [name, *meta]:
        if "<" in txt or ">" in txt or re.search(r"&(?!(?:[A-Za-z][A-Za-z0-9]*|#[0-9]+|#x[0-9A-Fa-f]+);)", txt):
            raise DotError("label text is not escaped: " + txt[:60])
    name, meta = _html.unescape(name), [_html.unescape(x) for x in meta]
    return {
        "name": name,
        "in": _cells(html[: mn.start()]),
        "out": _cells(html[end:]),
        "meta": meta,
        "fill": mt.group(2),
        "border": mt.group(3),
        "font": mn.group(3),
    }


# ----------------------------------------------------------------------------- RenderOut dump


def _plain(attrs):
    return {k: ("<" + v + ">" if isinstance(v, Html) else v) for k, v in attrs.items()}


def _item(st):
    if st["t"] == "node":
        attrs = dict(st["attrs"])
        label = attrs.pop("label", None)
        if not isinstance(label, Html):
            raise DotError(f"node {st['id']} has no HTML label")
        d = {"id": st["id"], **parse_label(label), "attrs": _plain(attrs)}
        return {"node": d}
    if st["t"] == "sub":
        body, attrs = [], {}
        for s in st["stmts"]:
            if s["t"] == "attr":
                attrs[s["k"]] = "<" + s["v"] + ">" if isinstance(s["v"], Html) else s["v"]
            elif s["t"] in ("node", "sub"):
                body.append(_item(s))
            else:
                raise DotError(f"unexpected {s['t']} statement inside a subgraph")
        return {"cluster": st["name"], "attrs": attrs, "body": body}
    raise DotError(f"unexpected statement {st['t']}")


def render_out(tree):
    """The `RenderOut` dump (see Bridge/Render.lean) of a parsed rendering."""
    if tree["kind"] != "digraph" or tree["strict"]:
        raise DotError("not a non-strict digraph")
    graph, items, edges = {}, [], []
    for st in tree["stmts"]:
        if st["t"] == "attr":
            graph[st["k"]] = st["v"]
        elif st["t"] in ("node", "sub"):
            if edges:
                raise DotError("node statement after an edge statement")
            items.append(_item(st))
        elif st["t"] == "edge":
            if len(st["ends"]) != 2:
                raise DotError("edge chain")
            attrs = dict(st["attrs"])
            label = attrs.pop("label", None)
            edges.append({"src": st["ends"][0], "dst": st["ends"][1], "label": label, "attrs": _plain(attrs)})
        else:
            raise DotError(f"unexpected statement {st['t']}")
    out = {"name": tree["name"] or "", "graph": graph, "edges": edges}
    if len(items) == 1:
        out["root"] = items[0]
    else:
        out["roots"] = items
    return out


def items_of(out):
    return [out["root"]] if "root" in out else out.get("roots", [])


def node_stmts(items):
    """All node statements below `items`, in document order."""
    res = []
    for it in items:
        if "node" in it:
            res.append(it["node"])
        else:
            res.extend(node_stmts(it["body"]))
    return res
