/-
  Line-protocol driver: runs the executable definitions of the models.
  request:  <case-id> TAB <stream> TAB <payload>
  reply:    <case-id> TAB <observation>
  Run with `lake env lean --run Driver.lean`.
-/
import HugrVerif.Drive.All

open HugrVerif

def dispatch (stream : String) (payload : String) : String :=
  match Sexp.parse payload with
  | none => "!parse-error"
  | some p =>
    match stream with
    | "bimap.run" => Drive.BiMap.handle p
    | _ => "!unknown-stream"

partial def loop (h : IO.FS.Stream) (out : IO.FS.Stream) : IO Unit := do
  let line ← h.getLine
  if line.isEmpty then return ()
  let line := if line.endsWith "\n" then (line.dropEnd 1).toString else line
  match line.splitOn "\t" with
  | [cid, stream, payload] =>
    out.putStrLn (cid ++ "\t" ++ dispatch stream payload)
  | _ => out.putStrLn ("?\t!bad-line")
  loop h out

def main : IO Unit := do
  let stdin ← IO.getStdin
  let stdout ← IO.getStdout
  loop stdin stdout
  stdout.flush
