/-
  The constants of the envelope model, instantiated from the terms regenerated on every run from
  hugr-py/src/hugr/envelope.py (`Gen.Envelope.py*`) and hugr-core/src/envelope/header.rs
  (`Gen.Envelope.rs*`).  `GenWF` (proved by `decide` in Props/C09) states that the look-ups below
  never take their fallback branch.
-/
import HugrVerif.Envelope
import HugrVerif.Gen.Envelope

namespace HugrVerif.Envelope
open HugrVerif.Gen.Envelope

def lookupCode (tbl : List (String × Nat)) (name : String) : Nat :=
  match tbl.lookup name with
  | some c => c
  | none => 256  -- not a byte: excluded by `GenWF`

def formatOfName (name : String) : Option Format :=
  Format.all.find? (fun f => f.pyName == name)

def configOf (d : String × Option Int) : Config :=
  { format := match formatOfName d.1 with
      | some f => f
      | none => .json  -- excluded by `GenWF`
    zstd := d.2 }

/-- Python names ↔ Rust variant names of the formats (by their documentation). -/
def Format.rsName : Format → String
  | .module => "Model"
  | .moduleWithExts => "ModelWithExtensions"
  | .json => "PackageJson"

/-- The generated tables are complete and hold bytes only. -/
def GenWF : Prop :=
  pyFormats.map (·.1) = Format.all.map Format.pyName ∧
  (∀ p ∈ pyFormats, p.2 < 256) ∧
  (∀ b ∈ pyMagic, b < 256) ∧
  pyFlagsBase < 256 ∧ pyZstdSetMask < 256 ∧ pyZstdReadMask < 256 ∧
  (∀ n ∈ pyAsciiPrintable, (formatOfName n).isSome) ∧
  (formatOfName pyTextDefault.1).isSome ∧ (formatOfName pyBinaryDefault.1).isSome

instance : Decidable GenWF := by unfold GenWF; infer_instance

/-- envelope.py -/
def py : Consts where
  magic := pyMagic.map UInt8.ofNat
  code f := UInt8.ofNat (lookupCode pyFormats f.pyName)
  asciiPrintable f := pyAsciiPrintable.contains f.pyName
  flagsBase := UInt8.ofNat pyFlagsBase
  zstdSet := UInt8.ofNat pyZstdSetMask
  zstdRead := UInt8.ofNat pyZstdReadMask
  minLen := pyMinLen
  magicLen := pyMagicSlice
  fmtIdx := pyFormatIdx
  flagsIdx := pyFlagsIdx
  payloadStart := pyPayloadStart
  textDefault := configOf pyTextDefault
  binaryDefault := configOf pyBinaryDefault

/-- header.rs, read with the layout of the Python model (`EnvelopeHeader::read` consumes the magic,
    one format byte, one flags byte in this order, so the indices are `rsMagicLen`, `+1`, `+2`). -/
def rs : Consts where
  magic := rsMagic.map UInt8.ofNat
  code f := UInt8.ofNat (lookupCode rsFormats f.rsName)
  asciiPrintable f := rsAsciiPrintable.contains f.rsName
  flagsBase := UInt8.ofNat rsFlagsBase
  zstdSet := UInt8.ofNat rsZstdSetMask
  zstdRead := UInt8.ofNat rsZstdReadMask
  minLen := rsMagicLen + 2
  magicLen := rsMagicLen
  fmtIdx := rsMagicLen
  flagsIdx := rsMagicLen + 1
  payloadStart := rsMagicLen + 2
  textDefault := { format := .json, zstd := none }
  binaryDefault := { format := .json, zstd := none }

/-- A concrete environment (used for the non-vacuity examples of Props/C09, which also prove that it
    satisfies the hypotheses of the round-trip theorems, and by the driver): packages and strings
    are byte lists, "compression" prepends the level's low byte and a marker (neither the identity
    nor level-independent), "UTF-8" accepts bytes < 0x80. -/
def toyEnv : Env (List UInt8) (List UInt8) where
  dumpJson p := .ok p
  utf8enc s := s
  utf8dec b := if b.all (· < 0x80) then some b else none
  loadJson b := .ok b
  encModel p := .ok p
  encExts _ := .ok []
  compress x l := .ok (UInt8.ofNat l.toNat :: 0xB5 :: x)
  decompress
    | _ :: _ :: x => .ok x
    | _ => .error .other

end HugrVerif.Envelope
