/-
  L2/L3: the operation layer — `hugr/ops.py`, the op models of `hugr/_serialization/ops.py`, and
  `Hugr.port_kind / port_type` of `hugr/hugr/base.py`.  Import-free apart from `Json`/`Tys`/`Val`.

  PART A  the executable model, mirroring the Python statement by statement (incl. evaluation order
          of the argument expressions, which decides *which* exception is raised first);
  PART B  the codec: `encOp` (`_to_serial(parent)` + `model_dump`) and `decOp` (pydantic structural
          validation as configured + `deserialize()`);
  PART C  the SPECIFICATION (`HasSig`, `HasInner`, `PortHasKind`), transcribed from
          `specification/hugr.md` and `hugr-core/src/ops/*.rs` — not from the Python.

  The model follows the REPAIRED code (F05–F09, F31, F35 `LoadFunc.num_out`, F36 `ExtOp` description):
  see the comments marked `[F..]`.

  One constructor per Python op class that can sit in a HUGR.  `None` fields (`_types`, `_outputs`,
  …) model incompleteness: every accessor going through `_check_complete` yields `.incompleteOp`.
  The sugar tag classes `Some / Left / Right / Continue / Break` only run `Tag.__init__` with
  particular arguments and are functions building `Op.tag` (`Op.tagSome`, `Op.tagLeft`, …).
  The dataclass fields `num_out` (`field(default=…)`) are never assigned by the library and are
  modelled by the constant they default to.
-/
import HugrVerif.Tys
import HugrVerif.Val

namespace HugrVerif

/-- `tys.FunctionType` as a signature (input row, output row, runtime requirements). -/
structure Sig where
  inp : List Ty
  out : List Ty
  reqs : List String

/-- `tys.PolyFuncType`. -/
structure Poly where
  params : List TypeParam
  body : Sig

namespace Sig
def toTy (s : Sig) : Ty := .function s.inp s.out s.reqs
/-- `FunctionType.empty()` -/
def empty : Sig := ⟨[], [], []⟩
/-- what decoding an encoded signature gives back -/
def norm (s : Sig) : Sig := ⟨Ty.normRow s.inp, Ty.normRow s.out, s.reqs⟩
end Sig

namespace Poly
def toTy (p : Poly) : Ty := .poly p.params p.body.inp p.body.out p.body.reqs
def norm (p : Poly) : Poly := ⟨p.params, p.body.norm⟩
end Poly

/-- A `tys.Sum` *object* held by an operation (`Tag.sum_ty`, `Conditional.sum_ty`,
    `DataflowBlock._sum`): a general sum or a `UnitSum`. -/
inductive SumTy where
  | general (rows : List (List Ty))
  | unit (size : Nat)

namespace SumTy
/-- `variant_rows` (`UnitSum.__init__`: `[[]] * size`) -/
def rows : SumTy → List (List Ty)
  | .general rs => rs
  | .unit n => List.replicate n []
def toTy : SumTy → Ty
  | .general rs => .sum rs
  | .unit n => .unitSum n
/-- `isinstance(t, tys.Sum)` -/
def ofTy? : Ty → Option SumTy
  | .sum rs => some (.general rs)
  | .unitSum n => some (.unit n)
  | _ => none
end SumTy

/-- `tys.Kind` -/
inductive Kind where
  | value (t : Ty)
  | const (t : Ty)
  | function (p : Poly)
  | cf
  | order

/-- `Direction` of a port (`InPort` / `OutPort`). -/
inductive Dir where
  | inc | out
deriving DecidableEq, Repr

/-- Exception classes raised by the operation layer. -/
inductive OpErr where
  | incompleteOp      -- `IncompleteOp`
  | invalidPort       -- `InvalidPort`
  | valueError        -- `ValueError` (order port has no type; unpacking a row of the wrong length; …)
  | indexError        -- `IndexError` (row index out of range; `type_bound()` of a malformed extension type)
  | noConcreteFunc    -- `NoConcreteFunc`
  | assertion         -- `AssertionError`
  | validationError   -- pydantic `ValidationError` while serialising (a polymorphic type used as a type)
  | noMethod          -- the class does not have the method at all (`AttributeError`)
deriving DecidableEq, Repr

/-- The part of an `ext.OpDef` an `ExtOp` refers to. -/
structure OpDefRef where
  /-- `_extension.name`, if the definition belongs to an extension -/
  ext : Option String
  name : String
  description : String
  /-- `signature.poly_func` -/
  polyFunc : Option Poly

inductive Op where
  | input (types : List Ty)
  | output (types : Option (List Ty))
  | custom (opName : String) (sig : Sig) (description : String) (ext : String) (args : List TypeArg)
  | extOp (d : OpDefRef) (sig : Option Sig) (args : List TypeArg)
  | makeTuple (types : Option (List Ty))
  | unpackTuple (types : Option (List Ty))
  | noop (type : Option Ty)
  | tag (tag : Int) (sumTy : SumTy)
  | dfg (inputs : List Ty) (outputs : Option (List Ty)) (delta : List String)
  | cfg (inputs : List Ty) (outputs : Option (List Ty))
  | dataflowBlock (inputs : List Ty) (sum : Option SumTy) (otherOutputs : Option (List Ty)) (delta : List String)
  | exitBlock (cfgOutputs : Option (List Ty))
  | const (v : Value)
  | loadConst (typ : Option Ty)
  | conditional (sumTy : SumTy) (otherInputs : List Ty) (outputs : Option (List Ty))
  | case (inputs : List Ty) (outputs : Option (List Ty))
  | tailLoop (justInputs rest : List Ty) (justOutputs : Option (List Ty)) (delta : List String)
  | funcDefn (name : String) (inputs : List Ty) (params : List TypeParam) (outputs : Option (List Ty))
  | funcDecl (name : String) (sig : Poly)
  | module
  | call (sig : Poly) (inst : Sig) (args : List TypeArg)
  | callIndirect (sig : Option Sig)
  | loadFunc (sig : Poly) (inst : Sig) (args : List TypeArg)
  | aliasDecl (name : String) (b : Bound)
  | aliasDefn (name : String) (defn : Ty)

instance : Inhabited Op := ⟨.module⟩

namespace Op

/-! ## PART A — the model -/

/-! ### sugar tag operations (`ops.py:559-611`) -/
/-- `Some(*tys)`: `Tag(1, Option(*tys))` -/
def tagSome (tys : List Ty) : Op := .tag 1 (.general [[], tys])
/-- `Left(Either(l, r))`: `Tag(0, either)` -/
def tagLeft (l r : List Ty) : Op := .tag 0 (.general [l, r])
/-- `Right(Either(l, r))`: `Tag(1, either)` -/
def tagRight (l r : List Ty) : Op := .tag 1 (.general [l, r])
/-- `Continue` is `Left`, `Break` is `Right` (only `__repr__` differs). -/
def tagContinue (l r : List Ty) : Op := tagLeft l r
def tagBreak (l r : List Ty) : Op := tagRight l r

/-- `_check_complete` -/
def need {α : Type} : Option α → Except OpErr α
  | .some a => .ok a
  | .none => .error .incompleteOp

/-- Python `row[i]` -/
def index {α : Type} (l : List α) (i : Int) : Except OpErr α :=
  match Ty.pyIndex l i with
  | .some a => .ok a
  | .none => .error .indexError

/-- `_sig_port_type` (`ops.py:74-82`) -/
def sigPortType (sig : Sig) (dir : Dir) (off : Int) : Except OpErr Ty :=
  if off = -1 then .error .valueError
  else match dir with
    | .inc => index sig.inp off
    | .out => index sig.out off

/-- `isinstance(op, DataflowOp)`: the classes deriving from the `DataflowOp` protocol
    (the structural check needs `outer_signature`, `port_type`, `__call__`, which no other class has). -/
def isDataflowOp : Op → Bool
  | .input _ | .output _ | .custom .. | .extOp .. | .makeTuple _ | .unpackTuple _ | .noop _
  | .tag .. | .dfg .. | .cfg .. | .loadConst _ | .conditional .. | .tailLoop .. | .callIndirect _
  | .loadFunc .. => true
  | _ => false

/-- `outer_signature()`; `.noMethod` for the classes that are not `DataflowOp`s. -/
def outerSig : Op → Except OpErr Sig
  | .input ts => .ok ⟨[], ts, []⟩
  | .output ts? => do let ts ← need ts?; pure ⟨ts, [], []⟩
  | .custom _ sig _ _ _ => .ok sig
  | .extOp d sig? _ =>
    match sig? with
    | .some s => .ok s
    | .none =>
      match d.polyFunc with
      | .none => .error .valueError          -- "Polymorphic signature must be cached."
      | .some p => .ok p.body
  -- `AsExtOp.outer_signature`: `self.ext_op.outer_signature()`, `ext_op = op_def().instantiate(
  -- type_args(), cached_signature())`; `instantiate` adds the defining extension (`prelude`) to the
  -- cached signature's requirements, which already are `["prelude"]`.
  | .makeTuple ts? => do let ts ← need ts?; pure ⟨ts, [Ty.tuple ts], ["prelude"]⟩
  -- [F31] the override `MakeTuple(self.types).outer_signature().flip()` (which lost the requirement)
  -- is removed: the inherited `AsExtOp.outer_signature` applies as for `MakeTuple`.
  | .unpackTuple ts? => do let ts ← need ts?; pure ⟨[Ty.tuple ts], ts, ["prelude"]⟩
  | .noop t? => do let t ← need t?; pure ⟨[t], [t], ["prelude"]⟩
  | .tag tg s => do let r ← index s.rows tg; pure ⟨r, [s.toTy], []⟩
  | .dfg i o? d => do let o ← need o?; pure ⟨i, o, d⟩
  | .cfg i o? => do let o ← need o?; pure ⟨i, o, []⟩
  | .loadConst t? => do let t ← need t?; pure ⟨[], [t], []⟩
  | .conditional s oi o? => do let o ← need o?; pure ⟨s.toTy :: oi, o, []⟩
  | .tailLoop ji rest jo? _ => do let jo ← need jo?; pure ⟨ji ++ rest, jo ++ rest, []⟩
  | .callIndirect s? => do let s ← need s?; pure ⟨s.toTy :: s.inp, s.out, []⟩
  | .loadFunc _ inst _ => .ok ⟨[], [inst.toTy], []⟩
  | _ => .error .noMethod

/-- `inner_signature()` of the `DfParentOp`s. -/
def innerSig : Op → Except OpErr Sig
  | .dfg i o? d => do let o ← need o?; pure ⟨i, o, d⟩
  | .dataflowBlock i s? oo? _ => do
    let s ← need s?
    let oo ← need oo?
    pure ⟨i, s.toTy :: oo, []⟩
  | .case i o? => do let o ← need o?; pure ⟨i, o, []⟩
  | .tailLoop ji rest jo? _ => do
    let jo ← need jo?
    pure ⟨ji ++ rest, Ty.sum [ji, jo] :: rest, []⟩
  | .funcDefn _ i _ o? => do let o ← need o?; pure ⟨i, o, []⟩
  | _ => .error .noMethod

/-- `_inputs()` of the `DfParentOp`s. -/
def inputs : Op → Except OpErr (List Ty)
  | .dfg i _ _ => .ok i
  | .dataflowBlock i _ _ _ => .ok i
  | .case i _ => .ok i
  | .tailLoop ji rest _ _ => .ok (ji ++ rest)
  | .funcDefn _ i _ _ => .ok i
  | _ => .error .noMethod

/-- `num_out` -/
def numOut : Op → Except OpErr Nat
  | .input ts => .ok ts.length
  | .output _ => .ok 0
  | .custom _ sig _ _ _ => .ok sig.out.length
  | .extOp d sig? args => do let s ← outerSig (.extOp d sig? args); pure s.out.length
  | .makeTuple _ => .ok 1
  | .unpackTuple ts? => do let ts ← need ts?; pure ts.length
  | .noop _ => .ok 1
  | .tag .. => .ok 1
  | .dfg _ o? _ => do let o ← need o?; pure o.length
  | .cfg _ o? => do let o ← need o?; pure o.length
  | .dataflowBlock _ s? _ _ => do let s ← need s?; pure s.rows.length
  | .exitBlock _ => .ok 0
  | .const _ => .ok 1
  | .loadConst _ => .ok 1
  | .conditional _ _ o? => do let o ← need o?; pure o.length
  | .case .. => .ok 0
  | .tailLoop _ rest jo? _ => do let jo ← need jo?; pure (jo.length + rest.length)
  | .funcDefn .. => .ok 1
  | .funcDecl .. => .ok 1
  | .module => .ok 0
  -- [F08] `len(self.instantiation.output)` (was: the polymorphic body's)
  | .call _ inst _ => .ok inst.out.length
  | .callIndirect s? => do let s ← need s?; pure s.out.length
  | .loadFunc .. => .ok 1        -- [F35] a property returning 1 (the class attribute was a `dataclasses.Field`)
  | .aliasDecl .. => .ok 0
  | .aliasDefn .. => .ok 0

/-- `Call._function_port_offset()`  [F08]: `len(self.instantiation.input)`. -/
def functionPortOffset : Op → Except OpErr Nat
  | .call _ inst _ => .ok inst.inp.length
  | _ => .error .noMethod

/-- `DataflowOp.port_type` (`_sig_port_type(self.outer_signature(), port)`: the signature is
    computed first, so an incomplete op reports `IncompleteOp` even for the order port). -/
def portType (op : Op) (dir : Dir) (off : Int) : Except OpErr Ty :=
  if op.isDataflowOp then do
    let s ← outerSig op
    sigPortType s dir off
  else .error .noMethod

/-- `DataflowOp.port_kind` (the default of the protocol). -/
def dfPortKind (op : Op) (dir : Dir) (off : Int) : Except OpErr Kind :=
  if off = -1 then .ok .order
  else do let t ← portType op dir off; pure (.value t)

/-- `port_kind(port)` per class. -/
def portKind (op : Op) (dir : Dir) (off : Int) : Except OpErr Kind :=
  match op with
  | .dataflowBlock .. | .exitBlock _ => .ok .cf
  | .const v => if dir = .out ∧ off = 0 then .ok (.const v.typeOf) else .error .invalidPort
  | .loadConst t? =>
    -- [F09] the order port is reported
    if off = -1 then .ok .order
    else if off = 0 then do
      let t ← need t?
      match dir with
      | .inc => pure (.const t)
      | .out => pure (.value t)
    else .error .invalidPort
  | .case .. | .module | .aliasDecl .. | .aliasDefn .. => .error .invalidPort
  | .funcDefn _ i ps o? =>
    if dir = .out ∧ off = 0 then do let o ← need o?; pure (.function ⟨ps, ⟨i, o, []⟩⟩)
    else .error .invalidPort
  | .funcDecl _ p => if dir = .out ∧ off = 0 then .ok (.function p) else .error .invalidPort
  | .call p inst _ =>
    -- [F09] the order port is reported; [F08] the function port follows the instantiated inputs
    if off = -1 then .ok .order
    else if dir = .inc ∧ off = (inst.inp.length : Int) then .ok (.function p)
    else do let t ← sigPortType inst dir off; pure (.value t)
  | .loadFunc p inst _ =>
    -- [F09]
    if off = -1 then .ok .order
    else if off = 0 then
      match dir with
      | .inc => .ok (.function p)
      | .out => .ok (.value inst.toTy)
    else .error .invalidPort
  | op => dfPortKind op dir off

/-- `Hugr.port_kind` (`base.py:579-587`): delegates to the node's operation. -/
def hugrPortKind (op : Op) (dir : Dir) (off : Int) : Except OpErr Kind := portKind op dir off

/-- `Hugr.port_type` (`base.py:589-605`). -/
def hugrPortType (op : Op) (dir : Dir) (off : Int) : Except OpErr (Option Ty) :=
  if op.isDataflowOp then do let t ← portType op dir off; pure (.some t)
  else match op, dir with
    | .call p inst args, .out => do
      match ← hugrPortKind (.call p inst args) .out off with
      | .value t => pure (.some t)
      | _ => pure .none
    | _, _ => .ok .none

/-- `Conditional.nth_inputs(n)` -/
def nthInputs : Op → Int → Except OpErr (List Ty)
  | .conditional s oi _, n => do let r ← index s.rows n; pure (r ++ oi)
  | _, _ => .error .noMethod

/-- `DataflowBlock.nth_outputs(n)`: `[*self.sum_ty.variant_rows[n], *self.other_outputs]`. -/
def nthOutputs : Op → Int → Except OpErr (List Ty)
  | .dataflowBlock _ s? oo? _, n => do
    let s ← need s?
    let r ← index s.rows n
    let oo ← need oo?
    pure (r ++ oo)
  | _, _ => .error .noMethod

/-- `tys.get_first_sum`: `(sum_, *other) = types; assert isinstance(sum_, Sum)`. -/
def getFirstSum : List Ty → Except OpErr (SumTy × List Ty)
  | [] => .error .valueError
  | t :: other =>
    match SumTy.ofTy? t with
    | .some s => .ok (s, other)
    | .none => .error .assertion

/-- `_PartialOp._set_in_types(types)` -/
def setInTypes : Op → List Ty → Except OpErr Op
  | .output _, ts => .ok (.output (.some ts))
  | .makeTuple _, ts => .ok (.makeTuple (.some ts))
  | .unpackTuple _, ts =>
    match ts with
    | [t] =>
      match SumTy.ofTy? t with
      | .none => .error .assertion
      | .some s =>
        match s.rows with
        | [row] => .ok (.unpackTuple (.some row))
        | _ => .error .valueError
    | _ => .error .valueError
  | .callIndirect _, ts =>
    match ts with
    | [] => .error .valueError
    | .function i o r :: _ => .ok (.callIndirect (.some ⟨i, o, r⟩))
    | _ :: _ => .error .assertion
  | .noop _, ts =>
    match ts with
    | [t] => .ok (.noop (.some t))
    | _ => .error .valueError
  | _, _ => .error .noMethod

/-- `DfParentOp._set_out_types(types)`.  `rowEq` is Python's `==` on type rows (used by the
    `TailLoop` assertion); it is a parameter because `==` identifies `UnitSum(n)` with the general
    sum of `n` empty rows and compares extension types by their definitions. -/
def setOutTypes (rowEq : List Ty → List Ty → Bool) : Op → List Ty → Except OpErr Op
  | .dfg i _ d, ts => .ok (.dfg i (.some ts) d)
  | .case i _, ts => .ok (.case i (.some ts))
  | .funcDefn n i ps _, ts => .ok (.funcDefn n i ps (.some ts))
  | .dataflowBlock i _ _ d, ts => do
    let (s, other) ← getFirstSum ts
    pure (.dataflowBlock i (.some s) (.some other) d)
  | .tailLoop ji rest _ d, ts => do
    let (s, _) ← getFirstSum ts
    match s.rows with
    | [justIns, justOuts] =>
      if rowEq justIns ji then pure (.tailLoop ji rest (.some justOuts) d)
      else throw .assertion
    | _ => throw .valueError
  | _, _ => .error .noMethod

/-- `_CallOrLoad.__init__` (`ops.py:1162-1185`): the instantiation and type arguments stored. -/
def callOrLoadInit (sig : Poly) (inst? : Option Sig) (args? : Option (List TypeArg)) :
    Except OpErr (Sig × List TypeArg) :=
  if sig.params.length = 0 then .ok (sig.body, [])
  else
    match inst? with
    | .none => .error .noConcreteFunc
    | .some inst =>
      let args := match args? with | .some as => as | .none => []     -- `type_args or []`
      if sig.params.length ≠ args.length then .error .noConcreteFunc
      else .ok (inst, args)

/-- `Call(signature, instantiation, type_args)` -/
def mkCall (sig : Poly) (inst? : Option Sig) (args? : Option (List TypeArg)) : Except OpErr Op := do
  let (inst, args) ← callOrLoadInit sig inst? args?
  pure (.call sig inst args)

/-- `LoadFunc(signature, instantiation, type_args)` -/
def mkLoadFunc (sig : Poly) (inst? : Option Sig) (args? : Option (List TypeArg)) : Except OpErr Op := do
  let (inst, args) ← callOrLoadInit sig inst? args?
  pure (.loadFunc sig inst args)

/-! ## PART B — the codec -/

open Codec in
def liftEnc {α : Type} : Except EncErr α → Except OpErr α
  | .ok a => .ok a
  | .error .indexError => .error .indexError
  | .error .validationError => .error .validationError

/-- `ser_it(row)` as a JSON array -/
def encRowJ (ts : List Ty) : Except OpErr Json := do pure (.arr (← liftEnc (Codec.encRow ts)))
/-- `[ser_it(r) for r in rows]` -/
def encRowsJ (rows : List (List Ty)) : Except OpErr Json := do pure (.arr (← liftEnc (Codec.encRows rows)))
def encArgsJ (as : List TypeArg) : Except OpErr Json := do pure (.arr (← liftEnc (Codec.encArgs as)))
/-- `FunctionType._to_serial()` as a field -/
def encSig (s : Sig) : Except OpErr Json := liftEnc (Codec.encTy s.toTy)
/-- `PolyFuncType._to_serial()` as a field -/
def encPoly (p : Poly) : Except OpErr Json := liftEnc (Codec.encTy p.toTy)
/-- `t._to_serial_root()` for a field of type `Type`: a polymorphic function type is not a member of
    the union (pydantic `ValidationError`). -/
def encTypeField : Ty → Except OpErr Json
  | .poly _ _ _ _ => .error .validationError
  | t => liftEnc (Codec.encTy t)

/-- `Custom._to_serial` -/
def encCustom (parent : Int) (opName : String) (sig : Sig) (description ext : String) (args : List TypeArg) :
    Except OpErr Json := do
  let s ← encSig sig
  let a ← encArgsJ args
  pure (.obj [("parent", .int parent), ("op", .str "Extension"), ("extension", .str ext), ("name", .str opName),
    ("signature", s), ("description", .str description), ("args", a)])

/-- `ExtOp.to_custom_op()`: `(op_name, signature, extension)`; the description is the definition's [F36]. -/
def extOpCustom (d : OpDefRef) (sig? : Option Sig) : Except OpErr (String × Sig × String) := do
  let sig ← match sig? with
    | .some s => pure s
    | .none =>
      match d.polyFunc with
      | .none => throw OpErr.valueError
      | .some p => if p.params.length > 0 then throw OpErr.valueError else pure p.body
  pure (d.name, sig, match d.ext with | .some e => e | .none => "")

/-- Descriptions of the prelude operation definitions the `AsExtOp` classes refer to
    (`std/_json_defs/prelude.json`, `operations.<name>.description`); carried into the encoding by
    `ExtOp.to_custom_op` [F36]. -/
def descMakeTuple : String := "MakeTuple operation"
def descUnpackTuple : String := "UnpackTuple operation"
def descNoop : String := "Noop gate"

/-- `_to_serial(Node(parent)).model_dump()`; the argument expressions are evaluated in the order
    the Python writes them. -/
def encOp (op : Op) (parent : Int) : Except OpErr Json :=
  let hd (tag : String) (rest : List (String × Json)) : Json :=
    .obj (("parent", .int parent) :: ("op", .str tag) :: rest)
  match op with
  | .input ts => do pure (hd "Input" [("types", ← encRowJ ts)])
  | .output ts? => do let ts ← need ts?; pure (hd "Output" [("types", ← encRowJ ts)])
  | .custom n sig d e args => encCustom parent n sig d e args
  | .extOp d sig? args => do
    let (n, sig, e) ← extOpCustom d sig?
    encCustom parent n sig d.description e args
  | .makeTuple ts? => do
    let ts ← need ts?
    encCustom parent "MakeTuple" ⟨ts, [Ty.tuple ts], ["prelude"]⟩ descMakeTuple "prelude" [.sequence (ts.map .type)]
  | .unpackTuple ts? => do
    let ts ← need ts?
    encCustom parent "UnpackTuple" ⟨[Ty.tuple ts], ts, ["prelude"]⟩ descUnpackTuple "prelude" [.sequence (ts.map .type)]
  | .noop t? => do
    let t ← need t?
    encCustom parent "Noop" ⟨[t], [t], ["prelude"]⟩ descNoop "prelude" [.type t]
  | .tag tg s => do pure (hd "Tag" [("tag", .int tg), ("variants", ← encRowsJ s.rows)])
  | .dfg i o? d => do let o ← need o?; pure (hd "DFG" [("signature", ← encSig ⟨i, o, d⟩)])
  | .cfg i o? => do let o ← need o?; pure (hd "CFG" [("signature", ← encSig ⟨i, o, []⟩)])
  | .dataflowBlock i s? oo? d => do
    let ji ← encRowJ i
    let s ← need s?
    let jr ← encRowsJ s.rows
    let oo ← need oo?
    let jo ← encRowJ oo
    pure (hd "DataflowBlock" [("inputs", ji), ("other_outputs", jo), ("sum_rows", jr),
      ("extension_delta", Codec.encStrs d)])
  | .exitBlock o? => do let o ← need o?; pure (hd "ExitBlock" [("cfg_outputs", ← encRowJ o)])
  | .const v => do pure (hd "Const" [("v", ← liftEnc (Codec.encVal v))])
  | .loadConst t? => do let t ← need t?; pure (hd "LoadConstant" [("datatype", ← encTypeField t)])
  | .conditional s oi o? => do
    let jr ← encRowsJ s.rows
    let ji ← encRowJ oi
    let o ← need o?
    let jo ← encRowJ o
    pure (hd "Conditional" [("other_inputs", ji), ("outputs", jo), ("sum_rows", jr),
      ("extension_delta", .arr [])])
  | .case i o? => do let o ← need o?; pure (hd "Case" [("signature", ← encSig ⟨i, o, []⟩)])
  | .tailLoop ji rest jo? d => do
    let a ← encRowJ ji
    let jo ← need jo?
    let b ← encRowJ jo
    let c ← encRowJ rest
    pure (hd "TailLoop" [("just_inputs", a), ("just_outputs", b), ("rest", c),
      ("extension_delta", Codec.encStrs d)])
  | .funcDefn n i ps o? => do
    let o ← need o?
    pure (hd "FuncDefn" [("name", .str n), ("signature", ← encPoly ⟨ps, ⟨i, o, []⟩⟩)])
  | .funcDecl n p => do pure (hd "FuncDecl" [("name", .str n), ("signature", ← encPoly p)])
  | .module => pure (hd "Module" [])
  | .call p inst args => do
    let a ← encPoly p
    let b ← encArgsJ args
    let c ← encSig inst
    pure (hd "Call" [("func_sig", a), ("type_args", b), ("instantiation", c)])
  | .callIndirect s? => do let s ← need s?; pure (hd "CallIndirect" [("signature", ← encSig s)])
  | .loadFunc p inst args => do
    let a ← encPoly p
    let b ← encArgsJ args
    let c ← encSig inst
    pure (hd "LoadFunction" [("func_sig", a), ("type_args", b), ("instantiation", c)])
  | .aliasDecl n b => pure (hd "AliasDecl" [("name", .str n), ("bound", Codec.encBound b)])
  | .aliasDefn n t => do pure (hd "AliasDefn" [("name", .str n), ("definition", ← encTypeField t)])

/-! ### decoding -/

/-- What `OpType.model_validate(...).root.deserialize()` can raise. -/
inductive DecOpErr where
  | validation        -- pydantic `ValidationError`
  | fuel              -- recursion budget exhausted (unreachable with the driver's fuel)
  | noConcreteFunc    -- `Call/LoadFunction.deserialize()`: `_CallOrLoad.__init__` raises
deriving DecidableEq, Repr

open Codec in
def liftDec {α : Type} : Except DecErr α → Except DecOpErr α
  | .ok a => .ok a
  | .error .validation => .error .validation
  | .error .fuel => .error .fuel

/-- a field with a default (`Field(default_factory=…)`): absent → default, present → validated -/
def optField {α : Type} (k : String) (kvs : List (String × Json)) (dflt : α)
    (dec : Json → Except Codec.DecErr α) : Except Codec.DecErr α :=
  match Codec.field k kvs with
  | .none => pure dflt
  | .some j => dec j

def decSigField (fuel : Nat) (j : Json) : Except Codec.DecErr Sig := do
  let (i, o, r) ← Codec.decFuncType fuel j
  pure ⟨i, o, r⟩

def decPolyField (fuel : Nat) (j : Json) : Except Codec.DecErr Poly := do
  match ← Codec.decPoly fuel j with
  | .poly ps i o r => pure ⟨ps, ⟨i, o, r⟩⟩
  | _ => throw .validation

def decRowsField (fuel : Nat) (j : Json) : Except Codec.DecErr (List (List Ty)) := do
  (← Codec.asArr j).mapM (Codec.decRow fuel)

def decArgsField (fuel : Nat) (j : Json) : Except Codec.DecErr (List TypeArg) := do
  (← Codec.asArr j).mapM (Codec.decArg fuel)

/-- `Call.deserialize` / `LoadFunction.deserialize`: the constructor is run on the decoded fields. -/
def decCallFields (fuel : Nat) (kvs : List (String × Json)) : Except DecOpErr (Poly × Sig × List TypeArg) := do
  let p ← liftDec (do decPolyField fuel (← Codec.req "func_sig" kvs))
  let args ← liftDec (do decArgsField fuel (← Codec.req "type_args" kvs))
  let inst ← liftDec (do decSigField fuel (← Codec.req "instantiation" kvs))
  match callOrLoadInit p (.some inst) (.some args) with
  | .ok (inst', args') => pure (p, inst', args')
  | .error _ => throw .noConcreteFunc

/-! One decoder per serialised model (`<Model>.model_validate` + `deserialize()`), given the members
    of the JSON object. -/

def decModule (_fuel : Nat) (_kvs : List (String × Json)) : Except DecOpErr Op := pure .module

def decFuncDefn (fuel : Nat) (kvs : List (String × Json)) : Except DecOpErr Op := do
  let n ← liftDec (do Codec.asStr (← Codec.req "name" kvs))
  let p ← liftDec (do decPolyField fuel (← Codec.req "signature" kvs))
  -- [F05] `params=poly_func.params`
  pure (.funcDefn n p.body.inp p.params (.some p.body.out))

def decFuncDecl (fuel : Nat) (kvs : List (String × Json)) : Except DecOpErr Op := do
  let n ← liftDec (do Codec.asStr (← Codec.req "name" kvs))
  let p ← liftDec (do decPolyField fuel (← Codec.req "signature" kvs))
  pure (.funcDecl n p)

/-- `vdec`: the decoder of the `Value` union -/
def decConst (vdec : Json → Except Codec.DecErr Value) (kvs : List (String × Json)) : Except DecOpErr Op := do
  let v ← liftDec (do vdec (← Codec.req "v" kvs))
  pure (.const v)

def decDataflowBlock (fuel : Nat) (kvs : List (String × Json)) : Except DecOpErr Op := do
  let i ← liftDec (optField "inputs" kvs [] (Codec.decRow fuel))
  let oo ← liftDec (optField "other_outputs" kvs [] (Codec.decRow fuel))
  let rows ← liftDec (do decRowsField fuel (← Codec.req "sum_rows" kvs))
  let d ← liftDec (optField "extension_delta" kvs [] Codec.decStrs)
  -- [F06] `extension_delta=self.extension_delta`
  pure (.dataflowBlock i (.some (.general rows)) (.some oo) d)

def decExitBlock (fuel : Nat) (kvs : List (String × Json)) : Except DecOpErr Op := do
  let o ← liftDec (do Codec.decRow fuel (← Codec.req "cfg_outputs" kvs))
  pure (.exitBlock (.some o))

def decInput (fuel : Nat) (kvs : List (String × Json)) : Except DecOpErr Op := do
  pure (.input (← liftDec (optField "types" kvs [] (Codec.decRow fuel))))

def decOutput (fuel : Nat) (kvs : List (String × Json)) : Except DecOpErr Op := do
  pure (.output (.some (← liftDec (optField "types" kvs [] (Codec.decRow fuel)))))

def decCall (fuel : Nat) (kvs : List (String × Json)) : Except DecOpErr Op := do
  let (p, inst, args) ← decCallFields fuel kvs
  pure (.call p inst args)

def decCallIndirect (fuel : Nat) (kvs : List (String × Json)) : Except DecOpErr Op := do
  let s ← liftDec (optField "signature" kvs Sig.empty (decSigField fuel))
  pure (.callIndirect (.some s))

def decLoadConstant (fuel : Nat) (kvs : List (String × Json)) : Except DecOpErr Op := do
  let t ← liftDec (do Codec.decTy fuel (← Codec.req "datatype" kvs))
  pure (.loadConst (.some t))

def decLoadFunction (fuel : Nat) (kvs : List (String × Json)) : Except DecOpErr Op := do
  let (p, inst, args) ← decCallFields fuel kvs
  pure (.loadFunc p inst args)

def decDFG (fuel : Nat) (kvs : List (String × Json)) : Except DecOpErr Op := do
  let s ← liftDec (optField "signature" kvs Sig.empty (decSigField fuel))
  pure (.dfg s.inp (.some s.out) s.reqs)

def decConditional (fuel : Nat) (kvs : List (String × Json)) : Except DecOpErr Op := do
  let oi ← liftDec (optField "other_inputs" kvs [] (Codec.decRow fuel))
  let o ← liftDec (optField "outputs" kvs [] (Codec.decRow fuel))
  let rows ← liftDec (optField "sum_rows" kvs [] (decRowsField fuel))
  let _ ← liftDec (optField "extension_delta" kvs [] Codec.decStrs)   -- validated, then dropped
  pure (.conditional (.general rows) oi (.some o))

def decCase (fuel : Nat) (kvs : List (String × Json)) : Except DecOpErr Op := do
  let s ← liftDec (optField "signature" kvs Sig.empty (decSigField fuel))
  pure (.case s.inp (.some s.out))

def decTailLoop (fuel : Nat) (kvs : List (String × Json)) : Except DecOpErr Op := do
  let ji ← liftDec (optField "just_inputs" kvs [] (Codec.decRow fuel))
  let jo ← liftDec (optField "just_outputs" kvs [] (Codec.decRow fuel))
  let rest ← liftDec (optField "rest" kvs [] (Codec.decRow fuel))
  let d ← liftDec (optField "extension_delta" kvs [] Codec.decStrs)
  pure (.tailLoop ji rest (.some jo) d)

def decCFG (fuel : Nat) (kvs : List (String × Json)) : Except DecOpErr Op := do
  let s ← liftDec (optField "signature" kvs Sig.empty (decSigField fuel))
  pure (.cfg s.inp (.some s.out))

def decExtensionOp (fuel : Nat) (kvs : List (String × Json)) : Except DecOpErr Op := do
  let e ← liftDec (do Codec.asStr (← Codec.req "extension" kvs))
  let n ← liftDec (do Codec.asStr (← Codec.req "name" kvs))
  let s ← liftDec (optField "signature" kvs Sig.empty (decSigField fuel))
  let d ← liftDec (optField "description" kvs "" Codec.asStr)
  let a ← liftDec (optField "args" kvs [] (decArgsField fuel))
  -- [F07] `description=self.description`
  pure (.custom n s d e a)

def decTag (fuel : Nat) (kvs : List (String × Json)) : Except DecOpErr Op := do
  let t ← liftDec (do Codec.asInt (← Codec.req "tag" kvs))
  let rows ← liftDec (do decRowsField fuel (← Codec.req "variants" kvs))
  pure (.tag t (.general rows))

def decAliasDecl (_fuel : Nat) (kvs : List (String × Json)) : Except DecOpErr Op := do
  let n ← liftDec (do Codec.asStr (← Codec.req "name" kvs))
  let b ← liftDec (do Codec.decBound (← Codec.req "bound" kvs))
  pure (.aliasDecl n b)

def decAliasDefn (fuel : Nat) (kvs : List (String × Json)) : Except DecOpErr Op := do
  let n ← liftDec (do Codec.asStr (← Codec.req "name" kvs))
  let t ← liftDec (do Codec.decTy fuel (← Codec.req "definition" kvs))
  pure (.aliasDefn n t)

/-- The discriminated union `OpType` (discriminator `op`). -/
def decKind (vdec : Json → Except Codec.DecErr Value) (fuel : Nat) (tag : String) (kvs : List (String × Json)) :
    Except DecOpErr Op :=
  if tag = "Module" then decModule fuel kvs
  else if tag = "FuncDefn" then decFuncDefn fuel kvs
  else if tag = "FuncDecl" then decFuncDecl fuel kvs
  else if tag = "Const" then decConst vdec kvs
  else if tag = "DataflowBlock" then decDataflowBlock fuel kvs
  else if tag = "ExitBlock" then decExitBlock fuel kvs
  else if tag = "Input" then decInput fuel kvs
  else if tag = "Output" then decOutput fuel kvs
  else if tag = "Call" then decCall fuel kvs
  else if tag = "CallIndirect" then decCallIndirect fuel kvs
  else if tag = "LoadConstant" then decLoadConstant fuel kvs
  else if tag = "LoadFunction" then decLoadFunction fuel kvs
  else if tag = "DFG" then decDFG fuel kvs
  else if tag = "Conditional" then decConditional fuel kvs
  else if tag = "Case" then decCase fuel kvs
  else if tag = "TailLoop" then decTailLoop fuel kvs
  else if tag = "CFG" then decCFG fuel kvs
  else if tag = "Extension" then decExtensionOp fuel kvs
  else if tag = "Tag" then decTag fuel kvs
  else if tag = "AliasDecl" then decAliasDecl fuel kvs
  else if tag = "AliasDefn" then decAliasDefn fuel kvs
  else .error .validation

/-- `OpType` validation (object, discriminator `op`, required `parent`, the model's fields) followed
    by `deserialize()`, given the value decoder. -/
def decWith (vdec : Json → Except Codec.DecErr Value) (fuel : Nat) (j : Json) : Except DecOpErr (Op × Int) := do
  let kvs ← liftDec (Codec.asObj j)
  let tag ← liftDec (do Codec.asStr (← Codec.req "op" kvs))
  let parent ← liftDec (do Codec.asInt (← Codec.req "parent" kvs))
  let op ← decKind vdec fuel tag kvs
  pure (op, parent)

mutual
  /-- Decoding of one serialised operation; returns the operation and the `parent` field. -/
  def decOp : Nat → Json → Except DecOpErr (Op × Int)
    | 0, _ => .error .fuel
    | fuel + 1, j => decWith (Codec.decVal (fnSig fuel) fuel) fuel j
  /-- `fnSig` for `Codec.decVal`: the inner signature of the root operation (`nodes[0]`) of a nested
      serialised HUGR document.  Any failure is a decoding failure of the enclosing value. -/
  def fnSig : Nat → Json → Except Codec.DecErr (List Ty × List Ty × List String)
    | 0, _ => .error .fuel
    | fuel + 1, doc => do
      let kvs ← Codec.asObj doc
      match ← Codec.asArr (← Codec.req "nodes" kvs) with
      | [] => throw .validation
      | n0 :: _ =>
        match decOp fuel n0 with
        | .ok (op, _) =>
          match innerSig op with
          | .ok s => pure (s.inp, s.out, s.reqs)
          | .error _ => throw .validation
        | .error .fuel => throw .fuel
        | .error _ => throw .validation
end

/-! ### what decoding an encoded operation gives back -/

/-- `nv`: what decoding an encoded value gives back (supplied by the value layer). -/
def norm (nv : Value → Value) : Op → Op
  | .input ts => .input (Ty.normRow ts)
  | .output (.some ts) => .output (.some (Ty.normRow ts))
  | .custom n s d e a => .custom n s.norm d e (Ty.normArgs a)
  | .extOp d sig? a =>
    match extOpCustom d sig? with
    | .ok (n, s, e) => .custom n s.norm d.description e (Ty.normArgs a)
    | .error _ => .extOp d sig? a
  | .makeTuple (.some ts) =>
    .custom "MakeTuple" (Sig.norm ⟨ts, [Ty.tuple ts], ["prelude"]⟩) descMakeTuple "prelude"
      (Ty.normArgs [.sequence (ts.map .type)])
  | .unpackTuple (.some ts) =>
    .custom "UnpackTuple" (Sig.norm ⟨[Ty.tuple ts], ts, ["prelude"]⟩) descUnpackTuple "prelude"
      (Ty.normArgs [.sequence (ts.map .type)])
  | .noop (.some t) => .custom "Noop" (Sig.norm ⟨[t], [t], ["prelude"]⟩) descNoop "prelude" (Ty.normArgs [.type t])
  | .tag t s => .tag t (.general (Ty.normRows s.rows))
  | .dfg i (.some o) d => .dfg (Ty.normRow i) (.some (Ty.normRow o)) d
  | .cfg i (.some o) => .cfg (Ty.normRow i) (.some (Ty.normRow o))
  | .dataflowBlock i (.some s) (.some oo) d =>
    .dataflowBlock (Ty.normRow i) (.some (.general (Ty.normRows s.rows))) (.some (Ty.normRow oo)) d
  | .exitBlock (.some o) => .exitBlock (.some (Ty.normRow o))
  | .const v => .const (nv v)
  | .loadConst (.some t) => .loadConst (.some t.norm)
  | .conditional s oi (.some o) => .conditional (.general (Ty.normRows s.rows)) (Ty.normRow oi) (.some (Ty.normRow o))
  | .case i (.some o) => .case (Ty.normRow i) (.some (Ty.normRow o))
  | .tailLoop ji rest (.some jo) d => .tailLoop (Ty.normRow ji) (Ty.normRow rest) (.some (Ty.normRow jo)) d
  | .funcDefn n i ps (.some o) => .funcDefn n (Ty.normRow i) ps (.some (Ty.normRow o))
  | .funcDecl n p => .funcDecl n p.norm
  | .call p inst a =>
    if p.params.length = 0 then .call p.norm p.body.norm [] else .call p.norm inst.norm (Ty.normArgs a)
  | .callIndirect (.some s) => .callIndirect (.some s.norm)
  | .loadFunc p inst a =>
    if p.params.length = 0 then .loadFunc p.norm p.body.norm [] else .loadFunc p.norm inst.norm (Ty.normArgs a)
  | .aliasDefn n t => .aliasDefn n t.norm
  | op => op

end Op

/-! ## PART C — the specification

Transcribed from `specification/hugr.md` and `hugr-core/src/ops/*.rs`; file:line references are to
`/repo` at the verified revision.  Nothing here is derived from `hugr-py`.

**Rows only.**  The property speaks about input and output rows.  The Rust signatures additionally
carry an `extension_delta` on `TailLoop`, `Conditional`, `DataflowBlock` (`controlflow.rs:36-42,
112-121,210-220`) that the sentences of the property do not mention; the relations below therefore
leave the requirement component free (`reqs` universally quantified), except for operations whose
signature *is* a stored `Signature` with its requirements (`ExtensionOp`/`OpaqueOp`, and the prelude
ops, whose definitions live in the `prelude` extension: `hugr-core/src/extension/op_def.rs`
`compute_signature` adds the defining extension to `runtime_reqs`).
-/

namespace Spec

/-- The operation kinds of the specification with the data their signature depends on.
    An `Op` of the model denotes one of these when it is complete (`denote`). -/
inductive HasSig : Op → Sig → Prop where
  /-- `dataflow.rs:114-117` `Signature::new(TypeRow::new(), self.types.clone())`;
      hugr.md:281-283 "the outputs of `Input` node are the inputs to the function". -/
  | input (ts : List Ty) (r) : HasSig (.input ts) ⟨[], ts, r⟩
  /-- `dataflow.rs:134-137` -/
  | output (ts : List Ty) (r) : HasSig (.output (some ts)) ⟨ts, [], r⟩
  /-- `custom.rs` `OpaqueOp::signature`: the stored signature. -/
  | custom (n s d e a) : HasSig (.custom n s d e a) s
  /-- `custom.rs` `ExtensionOp::signature`: the cached signature computed at construction. -/
  | extOpCached (d s a) : HasSig (.extOp d (some s) a) s
  /-- monomorphic definition: the body of the type scheme -/
  | extOpMono (d : OpDefRef) (p : Poly) (a) (h : d.polyFunc = some p) (hp : p.params = []) :
      HasSig (.extOp d none a) p.body
  /-- `extension/prelude.rs` `TupleOpDef::MakeTuple`: `FuncValueType::new(tys, Type::new_tuple(tys))`;
      hugr.md:2054 (`✱, 1` value ports). -/
  | makeTuple (ts : List Ty) : HasSig (.makeTuple (some ts)) ⟨ts, [Ty.tuple ts], ["prelude"]⟩
  /-- `TupleOpDef::UnpackTuple`: `FuncValueType::new(Type::new_tuple(tys), tys)`; hugr.md:2055. -/
  | unpackTuple (ts : List Ty) : HasSig (.unpackTuple (some ts)) ⟨[Ty.tuple ts], ts, ["prelude"]⟩
  /-- `prelude.rs` `Noop`: `Signature::new_endo(ty)`; hugr.md:296 "`identity<T>`: pass-through". -/
  | noop (t : Ty) : HasSig (.noop (some t)) ⟨[t], [t], ["prelude"]⟩
  /-- `sum.rs:40-49`: `variants.get(tag)` → `[Type::new_sum(variants)]` (`tag : usize`). -/
  | tag (n : Nat) (s : SumTy) (row : List Ty) (r) (h : s.rows[n]? = some row) :
      HasSig (.tag (n : Int) s) ⟨row, [s.toTy], r⟩
  /-- `dataflow.rs:505-512`: `signature() = inner_signature()`. -/
  | dfg (i o d r) : HasSig (.dfg i (some o) d) ⟨i, o, r⟩
  /-- `controlflow.rs:158-160`: the stored signature. -/
  | cfg (i o r) : HasSig (.cfg i (some o)) ⟨i, o, r⟩
  /-- `dataflow.rs:340-343`: `Signature::new(TypeRow::new(), vec![self.datatype])`; hugr.md:289-291. -/
  | loadConst (t : Ty) (r) : HasSig (.loadConst (some t)) ⟨[], [t], r⟩
  /-- `controlflow.rs:112-121`: `inputs = other_inputs; inputs.insert(0, Type::new_sum(sum_rows))`;
      hugr.md:343-348. -/
  | conditional (s : SumTy) (oi o r) : HasSig (.conditional s oi (some o)) ⟨s.toTy :: oi, o, r⟩
  /-- `controlflow.rs:36-42`: `[just_inputs, just_outputs].map(|row| row.extend(rest))`;
      hugr.md:377-388 (inputs `#I:#X`, outputs `#O:#X`). -/
  | tailLoop (ji rest jo d r) : HasSig (.tailLoop ji rest (some jo) d) ⟨ji ++ rest, jo ++ rest, r⟩
  /-- `dataflow.rs:309-316`: `s = signature; s.input.insert(0, Type::new_function(signature))`. -/
  | callIndirect (s : Sig) (r) : HasSig (.callIndirect (some s)) ⟨s.toTy :: s.inp, s.out, r⟩
  /-- `dataflow.rs:207-209`: `Cow::Borrowed(&self.instantiation)`; hugr.md:284-288 "the signature of
      the node matches the (type-instantiated) function being called". -/
  | call (p inst a r) : HasSig (.call p inst a) ⟨inst.inp, inst.out, r⟩
  /-- `dataflow.rs:402-407`: `Signature::new(type_row![], Type::new_function(self.instantiation))`;
      hugr.md:292-295. -/
  | loadFunc (p) (inst : Sig) (a r) : HasSig (.loadFunc p inst a) ⟨[], [inst.toTy], r⟩

/-- Inner signature of the dataflow parents (`DataflowParent::inner_signature`). -/
inductive HasInner : Op → Sig → Prop where
  /-- `dataflow.rs:497-501` -/
  | dfg (i o d r) : HasInner (.dfg i (some o) d) ⟨i, o, r⟩
  /-- `controlflow.rs:210-220`: `node_outputs = [Type::new_sum(sum_rows)] ++ other_outputs`;
      hugr.md:408-411. -/
  | block (i) (s : SumTy) (oo d r) : HasInner (.dataflowBlock i (some s) (some oo) d) ⟨i, s.toTy :: oo, r⟩
  /-- `controlflow.rs:336-338`: the stored signature. -/
  | case (i o r) : HasInner (.case i (some o)) ⟨i, o, r⟩
  /-- `controlflow.rs:67-87`: `body_input_row = just_inputs ++ rest`,
      `body_output_row = [Sum([just_inputs, just_outputs])] ++ rest`; hugr.md:375-380. -/
  | tailLoop (ji rest jo d r) : HasInner (.tailLoop ji rest (some jo) d) ⟨ji ++ rest, Ty.sum [ji, jo] :: rest, r⟩
  /-- `module.rs:68-72`: `self.signature.body()`. -/
  | funcDefn (n i ps o r) : HasInner (.funcDefn n i ps (some o)) ⟨i, o, r⟩

/-- `Conditional::case_input_row` (`controlflow.rs:136-138`): `sum_rows.get(case)?.extend(other_inputs)`;
    hugr.md:345-347. -/
inductive CaseInputs : Op → Nat → List Ty → Prop where
  | mk (s : SumTy) (oi o) (n : Nat) (row) (h : s.rows[n]? = some row) :
      CaseInputs (.conditional s oi o) n (row ++ oi)

/-- `DataflowBlock::successor_input` (`controlflow.rs:306-312`); hugr.md:408-411 "`#t(i)` with `#x`
    appended matches the inputs of successor `i`". -/
inductive SuccessorInputs : Op → Nat → List Ty → Prop where
  | mk (i) (s : SumTy) (oo d) (n : Nat) (row) (h : s.rows[n]? = some row) :
      SuccessorInputs (.dataflowBlock i (some s) (some oo) d) n (row ++ oo)

/-- Static port of an operation (`static_input` / `static_output`), §4.1 of DESIGN.md. -/
inductive StaticPort : Op → Dir → Kind → Prop where
  /-- `dataflow.rs:211-213` -/
  | call (p inst a) : StaticPort (.call p inst a) .inc (.function p)
  /-- `dataflow.rs:345-347` -/
  | loadConst (t) : StaticPort (.loadConst (some t)) .inc (.const t)
  /-- `dataflow.rs:409-411` -/
  | loadFunc (p inst a) : StaticPort (.loadFunc p inst a) .inc (.function p)
  /-- `module.rs:83-85` -/
  | funcDefn (n i ps o) : StaticPort (.funcDefn n i ps (some o)) .out (.function ⟨ps, ⟨i, o, []⟩⟩)
  /-- `module.rs:115-117` -/
  | funcDecl (n p) : StaticPort (.funcDecl n p) .out (.function p)
  /-- `constant.rs:92-94`: `EdgeKind::Const(self.get_type())` -/
  | const (v : Value) : StaticPort (.const v) .out (.const v.typeOf)

/-- Operations with an order ("other") port in the given direction: every `DataflowOpTrait`
    operation has `other_input = other_output = Some(StateOrder)` (`dataflow.rs:31-43`) except
    `Input` (no order input, `dataflow.rs:110-112`) and `Output` (no order output, `:139-141`);
    hugr.md:2032-2056, column `Order`. -/
def hasOrderPort : Op → Dir → Bool
  | .input _, .inc => false
  | .output _, .out => false
  | .input _, _ | .output _, _ | .custom .., _ | .extOp .., _ | .makeTuple _, _ | .unpackTuple _, _
  | .noop _, _ | .tag .., _ | .dfg .., _ | .cfg .., _ | .loadConst _, _ | .conditional .., _
  | .tailLoop .., _ | .callIndirect _, _ | .call .., _ | .loadFunc .., _ => true
  | _, _ => false

/-- Computable views of the layout, compared with the specification's own table "Appendix 2: Node
    types and their edges" (translated into `Gen/SpecEdges.lean`) in `Props/C06.lean`. -/
def staticTag : Op → Dir → Option String
  | .call .., .inc => some "function"
  | .loadFunc .., .inc => some "function"
  | .loadConst _, .inc => some "const"
  | .funcDefn .., .out => some "function"
  | .funcDecl .., .out => some "function"
  | .const _, .out => some "const"
  | _, _ => none

def cfPort : Op → Dir → Bool
  | .dataflowBlock .., _ => true
  | .exitBlock _, .inc => true
  | _, _ => false

def kindTag : Kind → String
  | .value _ => "value"
  | .const _ => "const"
  | .function _ => "function"
  | .cf => "cf"
  | .order => "order"

/-- **The port layout** (DESIGN.md §4.1; `ops.rs:172-198`): the value ports of the dataflow signature,
    then one static port if any, then the order port (which the Python addresses as offset −1);
    blocks have control-flow ports (`controlflow.rs:232-258,270-285`). -/
inductive PortHasKind : Op → Dir → Int → Kind → Prop where
  | valueIn (op : Op) (s : Sig) (n : Nat) (t : Ty) (hs : HasSig op s) (h : s.inp[n]? = some t) :
      PortHasKind op .inc (n : Int) (.value t)
  | valueOut (op : Op) (s : Sig) (n : Nat) (t : Ty) (hs : HasSig op s) (h : s.out[n]? = some t) :
      PortHasKind op .out (n : Int) (.value t)
  /-- the static port comes immediately after the value ports (`ops.rs:238-241`) -/
  | staticIn (op : Op) (s : Sig) (k : Kind) (hs : HasSig op s) (h : StaticPort op .inc k) :
      PortHasKind op .inc (s.inp.length : Int) k
  /-- static outputs exist only on operations without a dataflow signature: offset 0 -/
  | staticOut (op : Op) (k : Kind) (h : StaticPort op .out k) : PortHasKind op .out 0 k
  | order (op : Op) (d : Dir) (h : hasOrderPort op d = true) : PortHasKind op d (-1) .order
  /-- `DataflowBlock`: one control-flow input, one control-flow output per sum row -/
  | blockIn (i s oo d) : PortHasKind (.dataflowBlock i s oo d) .inc 0 .cf
  | blockOut (i) (s : SumTy) (oo d) (n : Nat) (h : n < s.rows.length) :
      PortHasKind (.dataflowBlock i (some s) oo d) .out (n : Int) .cf
  /-- `ExitBlock`: one control-flow input -/
  | exitIn (o) : PortHasKind (.exitBlock o) .inc 0 .cf

/-- Number of output ports the layout gives an operation, not counting the order port
    (`value_port_count + static + control-flow successors`). -/
inductive NumOutPorts : Op → Nat → Prop where
  | sig (op : Op) (s : Sig) (hs : HasSig op s) : NumOutPorts op s.out.length
  | funcDefn (n i ps o) : NumOutPorts (.funcDefn n i ps o) 1
  | funcDecl (n p) : NumOutPorts (.funcDecl n p) 1
  | const (v) : NumOutPorts (.const v) 1
  | block (i) (s : SumTy) (oo d) : NumOutPorts (.dataflowBlock i (some s) oo d) s.rows.length
  | exit (o) : NumOutPorts (.exitBlock o) 0
  | module : NumOutPorts .module 0
  | case (i o) : NumOutPorts (.case i o) 0
  | aliasDecl (n b) : NumOutPorts (.aliasDecl n b) 0
  | aliasDefn (n t) : NumOutPorts (.aliasDefn n t) 0

end Spec
end HugrVerif
