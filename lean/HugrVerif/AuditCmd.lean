/-
  `#audit_module M` prints, for every theorem declared in module `M`, one line
     AUDIT <theorem name> | <axioms it depends on, space separated>
  so the check driver can count obligations and verify the axiom set.
-/
import Lean

open Lean Elab Command

namespace HugrVerif.Audit

elab "#audit_module " m:ident : command => do
  let env ← getEnv
  let modName := m.getId
  let some modIdx := env.getModuleIdx? modName
    | throwError "module {modName} not imported"
  let mut names : Array Name := #[]
  for (n, ci) in env.constants.map₁.toList do
    if env.getModuleIdxFor? n == some modIdx then
      match ci with
      | .thmInfo _ =>
        -- skip compiler-generated lemmas (constructor injectivity, equation lemmas, …)
        let last := match n with | .str _ s => s | _ => ""
        let auto := last == "inj" || last == "injEq" || last == "sizeOf_spec" || last == "eq_def" ||
          last == "congr_simp" || last.startsWith "eq_" || last.startsWith "match_" || last.startsWith "_"
        if !n.isInternal && !auto then names := names.push n
      | _ => pure ()
  let sorted := names.qsort (fun a b => a.toString < b.toString)
  for n in sorted do
    let axs ← liftCoreM <| Lean.collectAxioms n
    let axs := axs.qsort (fun a b => a.toString < b.toString)
    logInfo m!"AUDIT {n} | {" ".intercalate (axs.toList.map toString)}"

end HugrVerif.Audit
