/-
  L7: model of the hugr-model exporter — `hugr/model/export.py` (class `ModelExport`), the `to_model`
  methods of `hugr/tys.py` and `hugr/val.py`, and `Hugr.to_model` (`hugr/hugr/base.py`).
  Import-free apart from the shared model layers.

  The model follows the REPAIRED code:
    [F20] `export_region_dfg` passes the order hints it computed to the `Region`;
    [F21] `find_func_input` mangles the symbol with the index of the *function* node;
    [F22] node inputs/outputs and region sources/targets are sized by the value ports of the operation
          (`_num_value_ports`), not by the store's tracked counters `_num_inps/_num_outs`;
    [F23] the source of a control-flow region is the link of the entry block's control *input*; a block
          lists one input and one output per successor; the exit block's one input is the target;
    [F11] `Opaque.to_model` qualifies the id with the extension (repaired by the C11 work);
    [F37] `val.Function.to_model` exports the children of the body's root as a dataflow region with its own
          links (a fresh `ModelExport` of the body HUGR), not the body as a module.

  ABSTRACTION (documented, DESIGN.md C12): `_UnionFind` (union by size with path splitting) is
  abstracted to the partition it represents: `classes` merges the classes of the two end points of every
  link of `hugr.links()`, `rep` picks a canonical element of a port's class.  `link_names` is keyed by the
  union-find root in the Python and by `rep` here; the names handed out depend only on the partition and
  on the order of first use, which is what is mirrored exactly (`linkName`).

  The recursion over the hierarchy takes fuel (the store is a graph, not a tree, as far as the types
  know); the driver passes `2 * number of nodes + 2`.  `dfuel` is the decoding fuel for the serialised
  body of a function-valued constant (`val.Function.to_model` exports the body HUGR).
-/
import HugrVerif.Model
import HugrVerif.SerialCodecs

namespace HugrVerif.Export
open HugrVerif HugrVerif.Model

/-- Exceptions `to_model()` can end with. -/
inductive Err where
  | keyError                  -- `self.hugr[node]` on a missing node
  | valueError                -- raised by the exporter: unknown operation, unconnected call/load, CFG without entry
  | typeError                 -- `PolyFuncType.to_model`
  | indexError                -- `variants[self.tag]`, `variant_rows[op.tag]`
  | attributeError            -- `self.typ.variant_rows` on a type that is not a `Sum`
  | op (e : OpErr)            -- raised by the operation layer (`IncompleteOp`, `InvalidPort`, …)
  | load (e : Serial.Err)     -- loading the body of a function-valued constant
  | fuel                      -- recursion budget exhausted (unreachable with the driver's fuel)
deriving Repr, DecidableEq

def Err.name : Err → String
  | .keyError => "KeyError"
  | .valueError => "ValueError"
  | .typeError => "TypeError"
  | .indexError => "IndexError"
  | .attributeError => "AttributeError"
  | .op e => Serial.opErrName e
  | .load e => e.name
  | .fuel => "!fuel"

def liftOp {α : Type} : Except OpErr α → Except Err α
  | .ok a => .ok a
  | .error e => .error (.op e)

/-! ## JSON texts -/

def hexDigit (n : Nat) : Char := if n < 10 then Char.ofNat (48 + n) else Char.ofNat (87 + n)

def hex4 (n : Nat) : String :=
  String.ofList [hexDigit (n / 4096 % 16), hexDigit (n / 256 % 16), hexDigit (n / 16 % 16), hexDigit (n % 16)]

/-- One character inside a JSON string.  `ascii`: Python's `json.dumps` default (`ensure_ascii=True`,
    UTF-16 surrogate pairs above the BMP); otherwise pydantic's serialiser (raw UTF-8). -/
def escapeChar (ascii : Bool) (c : Char) : String :=
  if c = '"' then "\\\"" else if c = '\\' then "\\\\" else if c = '\n' then "\\n" else if c = '\r' then "\\r"
  else if c = '\t' then "\\t" else if c.toNat = 8 then "\\b" else if c.toNat = 12 then "\\f"
  else if c.toNat < 32 then "\\u" ++ hex4 c.toNat
  else if ascii ∧ c.toNat ≥ 127 then
    if c.toNat < 65536 then "\\u" ++ hex4 c.toNat
    else
      let v := c.toNat - 65536
      "\\u" ++ hex4 (55296 + v / 1024) ++ "\\u" ++ hex4 (56320 + v % 1024)
  else String.singleton c

def escapeString (ascii : Bool) (s : String) : String :=
  "\"" ++ String.join (s.toList.map (escapeChar ascii)) ++ "\""

mutual
  /-- JSON text of a value.  `py = true`: `json.dumps(v)` (separators `", "` / `": "`, ASCII only);
      `py = false`: pydantic's `model_dump_json()` (compact).  Numbers that are not integral carry their
      literal text (`Json.num`), which is reproduced as is: the harness compares these texts as JSON
      values, not character by character. -/
  def jsonText (py : Bool) : Json → String
    | .null => "null"
    | .bool b => if b then "true" else "false"
    | .int i => toString i
    | .num lit => lit
    | .str s => escapeString py s
    | .arr xs => "[" ++ jsonTextList py xs ++ "]"
    | .obj kvs => "{" ++ jsonTextFields py kvs ++ "}"
  def jsonTextList (py : Bool) : List Json → String
    | [] => ""
    | [x] => jsonText py x
    | x :: xs => jsonText py x ++ (if py then ", " else ",") ++ jsonTextList py xs
  def jsonTextFields (py : Bool) : List (String × Json) → String
    | [] => ""
    | [(k, v)] => escapeString py k ++ (if py then ": " else ":") ++ jsonText py v
    | (k, v) :: rest =>
      escapeString py k ++ (if py then ": " else ":") ++ jsonText py v ++ (if py then ", " else ",")
        ++ jsonTextFields py rest
end

/-! ## `to_model` of type parameters, type arguments and types (`tys.py`) -/

mutual
  /-- `TypeParam.to_model` (the bounds are dropped) -/
  def paramToModel : TypeParam → Term
    | .type _ => .apply "core.type" []
    | .boundedNat _ => .apply "core.nat" []
    | .string => .apply "core.str" []
    | .list p => .apply "core.list" [paramToModel p]
    | .tuple ps => .apply "core.tuple" [.list (paramsToModel ps)]
    | .extensions => .apply "compat.ext_set_type" []
  def paramsToModel : List TypeParam → List Term
    | [] => []
    | p :: ps => paramToModel p :: paramsToModel ps
end

mutual
  /-- `Type.to_model` -/
  def tyToModel : Ty → Except Err Term
    | .sum rows => do pure (.apply "core.adt" [.list (← rowsToModel rows)])
    -- `UnitSum` is a `Sum` with `variant_rows = [[]] * size`
    | .unitSum n => pure (.apply "core.adt" [.list (List.replicate n (.list []))])
    | .variable i _ => pure (.var (toString i))
    | .rowVariable i _ => pure (.splice (.var (toString i)))
    | .usize => pure (.apply "prelude.usize" [])
    | .alias name _ => pure (.apply name [])
    | .function i o _ => do pure (.apply "core.fn" [.list (← rowToModel i), .list (← rowToModel o)])
    | .poly _ _ _ _ => throw .typeError            -- "PolyFuncType used as a Type"
    | .extType d args => do pure (.apply (d.ext ++ "." ++ d.name) (← argsToModel args))
    | .opaque id _ args ext => do pure (.apply (ext ++ "." ++ id) (← argsToModel args))     -- [F11]
    | .qubit => pure (.apply "prelude.qubit" [])
  def rowToModel : List Ty → Except Err (List Term)
    | [] => pure []
    | t :: ts => do pure ((← tyToModel t) :: (← rowToModel ts))
  /-- each row as a `List` term -/
  def rowsToModel : List (List Ty) → Except Err (List Term)
    | [] => pure []
    | r :: rs => do pure (.list (← rowToModel r) :: (← rowsToModel rs))
  /-- `TypeArg.to_model` -/
  def argToModel : TypeArg → Except Err Term
    | .type t => tyToModel t
    | .boundedNat n => pure (.literal (.int n))
    | .string s => pure (.literal (.str s))
    | .sequence es => do pure (.list (← argsToModel es))
    | .extensions _ => pure (.apply "compat.ext_set" [])
    | .variable i _ => pure (.var (toString i))
  def argsToModel : List TypeArg → Except Err (List Term)
    | [] => pure []
    | a :: as => do pure ((← argToModel a) :: (← argsToModel as))
end

/-- `FunctionType.to_model` -/
def sigToModel (s : Sig) : Except Err Term := tyToModel s.toTy

/-! ## `to_model` of constant values (`val.py`) -/

/-- `variants[self.tag]` (`tag` is a natural number after decoding) -/
def nth {α : Type} (l : List α) (i : Nat) : Except Err α :=
  match l[i]? with
  | some a => .ok a
  | none => .error .indexError

/-- `[model.Apply("core.const", [type]) for type in variants[self.tag].parts]` -/
def constTypes : Term → List Term
  | .list parts => parts.map fun t => .apply "core.const" [t]
  | _ => []

mutual
  /-- `Value.to_model`; `body` exports the HUGR of a function-valued constant to its module region. -/
  def valueToModel (body : Json → Except Err Region) : Value → Except Err Term
    | .sum tag typ vals => do
      let rows ← match typ with
        | .sum rows => pure rows
        | .unitSum n => pure (List.replicate n [])
        | _ => throw Err.attributeError
      let variants ← rowsToModel rows
      let v ← nth variants tag
      let values ← valuesToModel body vals
      pure (.apply "core.const.adt" [.list variants, .list (constTypes v), .literal (.int tag), .tuple values])
    -- `val.Tuple` is a `Sum` with tag 0 and `typ = tys.Tuple(*[v.type_() for v in vals])`
    | .tuple vals => do
      let variants ← rowsToModel [Value.typesOf vals]
      let v ← nth variants 0
      let values ← valuesToModel body vals
      pure (.apply "core.const.adt" [.list variants, .list (constTypes v), .literal (.int 0), .tuple values])
    | .function _ _ _ b => do pure (.func (← body b))
    | .ext name typ payload _ => do
      let t ← tyToModel typ
      let json := jsonText false (.obj [("c", .str name), ("v", payload)])
      pure (.apply "compat.const_json" [t, .literal (.str json)])
  def valuesToModel (body : Json → Except Err Region) : List Value → Except Err (List Term)
    | [] => pure []
    | v :: vs => do pure ((← valueToModel body v) :: (← valuesToModel body vs))
end

/-! ## link names -/

/-- `InPort(node, offset)` / `OutPort(node, offset)` -/
structure DPort where
  dir : Dir
  node : Nat
  off : Int
deriving DecidableEq, Repr

def inPort (n : Nat) (k : Nat) : DPort := ⟨.inc, n, (k : Int)⟩
def outPort (n : Nat) (k : Nat) : DPort := ⟨.out, n, (k : Int)⟩

abbrev Classes := List (List DPort)

/-- the class containing `p` and the remaining classes -/
def extractClass (p : DPort) : Classes → Option (List DPort × Classes)
  | [] => none
  | c :: cs =>
    if c.contains p then some (c, cs)
    else match extractClass p cs with
      | none => none
      | some (d, rest) => some (d, c :: rest)

/-- `link_ports.union(a, b)` on the partition -/
def unionPorts (cs : Classes) (a b : DPort) : Classes :=
  match extractClass a cs with
  | none =>
    match extractClass b cs with
    | none => if a = b then [a] :: cs else [a, b] :: cs
    | some (cb, rest) => (cb ++ [a]) :: rest
  | some (ca, rest) =>
    if ca.contains b then cs
    else match extractClass b rest with
      | none => (ca ++ [b]) :: rest
      | some (cb, rest') => (ca ++ cb) :: rest'

/-- `for a, b in self.hugr.links(): self.link_ports.union(a, b)` -/
def classes (links : List (Port × Port)) : Classes :=
  links.foldl (fun cs (l : Port × Port) => unionPorts cs ⟨.out, l.1.1, l.1.2⟩ ⟨.inc, l.2.1, l.2.2⟩) []

/-- canonical element of the class of `p` (the abstraction of `self.link_ports[port]`) -/
def rep (cs : Classes) (p : DPort) : DPort :=
  match extractClass p cs with
  | some (r :: _, _) => r
  | _ => p

/-- `link_names`: root ↦ name, in insertion order -/
abbrev Names := List (DPort × String)

def lookupName (r : DPort) : Names → Option String
  | [] => none
  | (k, v) :: rest => if k = r then some v else lookupName r rest

/-- `link_name(port)`: the name of the root's class, or the next number. -/
def linkName (cs : Classes) (st : Names) (p : DPort) : String × Names :=
  let root := rep cs p
  match lookupName root st with
  | some n => (n, st)
  | none => let n := toString st.length; (n, st ++ [(root, n)])

/-- `[self.link_name(p) for p in ports]` -/
def linkNames (cs : Classes) : Names → List DPort → List String × Names
  | st, [] => ([], st)
  | st, p :: ps =>
    let r := linkName cs st p
    let rs := linkNames cs r.2 ps
    (r.1 :: rs.1, rs.2)

def inPorts (n : Nat) (k : Nat) : List DPort := (List.range k).map (inPort n)
def outPorts (n : Nat) (k : Nat) : List DPort := (List.range k).map (outPort n)

/-! ## the exporter -/

abbrev St := Serial.St Op

/-- `_mangle_name(node, name)`: `f"_{name}_{node.idx}"` -/
def mangleName (node : Nat) (name : String) : String := "_" ++ name ++ "_" ++ toString node

/-- `_num_value_ports(op)` [F22, F23]: the ports a node lists. -/
def numValuePorts (op : Op) : Except Err (Nat × Nat) :=
  match op with
  | .dataflowBlock _ s? _ _ =>
    match s? with
    | some s => .ok (1, s.rows.length)
    | none => .error (.op .incompleteOp)
  | .call _ inst _ => .ok (inst.inp.length, inst.out.length)
  | op =>
    if op.isDataflowOp then
      match op.outerSig with
      | .ok sig => .ok (sig.inp.length, sig.out.length)
      | .error e => .error (.op e)
    else .ok (0, 0)

def getOp (s : St) (n : Nat) : Except Err Op :=
  match Store.getNode s n with
  | .ok d => .ok d.op
  | .error _ => .error .keyError

def isOutput : Op → Bool | .output _ => true | _ => false
def isInput : Op → Bool | .input _ => true | _ => false

/-- `any(not isinstance(hugr[x].op, cls) for x in nodes)` evaluated left to right (`KeyError` on a dead node) -/
def anyNot (s : St) (cls : Op → Bool) : List Nat → Except Err Bool
  | [] => .ok false
  | x :: xs =>
    match getOp s x with
    | .error e => .error e
    | .ok op => if cls op then anyNot s cls xs else .ok true

/-- `outgoing_order_links(node)` / `incoming_order_links(node)` -/
def orderSuccs (s : St) (n : Nat) : List Nat := (Store.linkedOut s (n, -1)).map (·.1)
def orderPreds (s : St) (n : Nat) : List Nat := (Store.linkedIn s (n, -1)).map (·.1)

/-- `_needs_order_key(hugr, node)` -/
def needsOrderKey (s : St) (n : Nat) : Except Err Bool :=
  match anyNot s isOutput (orderSuccs s n) with
  | .error e => .error e
  | .ok true => .ok true
  | .ok false => anyNot s isInput (orderPreds s n)

/-- the `compat.meta_json` entries of `node_data.metadata.items()` -/
def metaTerms (md : Serial.Meta) : List Term :=
  md.map fun (kv : String × Json) =>
    .apply "compat.meta_json" [.literal (.str kv.1), .literal (.str (jsonText true kv.2))]

def orderKeyTerm (n : Nat) : Term := .apply "core.order_hint.key" [.literal (.int n)]
def orderHintTerm (a b : Nat) : Term := .apply "core.order_hint.order" [.literal (.int a), .literal (.int b)]

/-- the `meta` list of `export_node` -/
def nodeMeta (s : St) (n : Nat) (md : Serial.Meta) : Except Err (List Term) :=
  match needsOrderKey s n with
  | .error e => .error e
  | .ok true => .ok (metaTerms md ++ [orderKeyTerm n])
  | .ok false => .ok (metaTerms md)

/-- the generator of `find_func_input` / `find_const_input`: the node behind the first linked
    incoming port whose kind satisfies `want` (`port_kind` is evaluated for every port passed). -/
def findStaticSrc (s : St) (n : Nat) (op : Op) (want : Kind → Bool) : List Nat → Except Err (Option Nat)
  | [] => .ok none
  | k :: ks =>
    match Op.hugrPortKind op .inc (k : Int) with
    | .error e => .error (.op e)
    | .ok kind =>
      if want kind then
        match Store.linkedIn s (n, (k : Int)) with
        | q :: _ => .ok (some q.1)
        | [] => findStaticSrc s n op want ks
      else findStaticSrc s n op want ks

/-- offsets `incoming_links(node)` iterates: none if the store has no link at all (`_node_links`
    returns at once), else `range(num_in_ports(node))`. -/
def incomingOffsets (s : St) (numInps : Nat) : List Nat :=
  if s.links.bck.isEmpty then [] else List.range numInps

def isFunctionKind : Kind → Bool | .function _ => true | _ => false
def isConstKind : Kind → Bool | .const _ => true | _ => false

/-- `find_func_input(node)` [F21] -/
def findFuncInput (s : St) (n : Nat) (d : Store.NodeData Op Serial.Meta) : Except Err (Option String) :=
  match findStaticSrc s n d.op isFunctionKind (incomingOffsets s d.numInps) with
  | .error e => .error e
  | .ok none => .ok none
  | .ok (some f) =>
    match getOp s f with
    | .error e => .error e
    | .ok (.funcDecl name _) => .ok (some (mangleName f name))
    | .ok (.funcDefn name _ _ _) => .ok (some (mangleName f name))
    | .ok _ => .ok none

/-- `find_const_input(node)` -/
def findConstInput (body : Json → Except Err Region) (s : St) (n : Nat) (d : Store.NodeData Op Serial.Meta) :
    Except Err (Option Term) :=
  match findStaticSrc s n d.op isConstKind (incomingOffsets s d.numInps) with
  | .error e => .error e
  | .ok none => .ok none
  | .ok (some c) =>
    match getOp s c with
    | .error e => .error e
    | .ok (.const v) =>
      match valueToModel body v with
      | .ok t => .ok (some t)
      | .error e => .error e
    | .ok _ => .ok none

/-- `export_symbol(name, param_types, body)` -/
def symbolParams : Nat → List TypeParam → List Param
  | _, [] => []
  | i, p :: ps => .mk (toString i) (paramToModel p) :: symbolParams (i + 1) ps

def symbolConstraints : Nat → List TypeParam → List Term
  | _, [] => []
  | i, .type .copyable :: ps => .apply "core.nonlinear" [.var (toString i)] :: symbolConstraints (i + 1) ps
  | i, _ :: ps => symbolConstraints (i + 1) ps

def exportSymbol (name : String) (params : List TypeParam) (body : Sig) : Except Err Symbol :=
  match sigToModel body with
  | .error e => .error e
  | .ok t => .ok (.mk name (symbolParams 0 params) (symbolConstraints 0 params) t)

/-- the recursive call handed to the region exporters -/
abbrev Rec := Names → Nat → Except Err (Option Node × Names)

/-- the child loop of `export_region_module`: export every child, keep the exported ones -/
def exportChildren (rec : Rec) : Names → List Nat → Except Err (List Node × Names)
  | st, [] => .ok ([], st)
  | st, c :: cs =>
    match rec st c with
    | .error e => .error e
    | .ok (nd?, st1) =>
      match exportChildren rec st1 cs with
      | .error e => .error e
      | .ok (nds, st2) => .ok ((match nd? with | some nd => nd :: nds | none => nds), st2)

/-- `export_region_module(node)` -/
def exportRegionModule (rec : Rec) (s : St) (st : Names) (n : Nat) : Except Err (Region × Names) :=
  match Store.getNode s n with
  | .error _ => .error .keyError
  | .ok d =>
    match exportChildren rec st (d.children.map (·.1)) with
    | .error e => .error e
    | .ok (nds, st1) => .ok (.mk .module [] [] nds [] none, st1)

/-- the accumulators of the child loop of `export_region_dfg` -/
structure DfgAcc where
  children : List Node := []
  sourceTypes : Term := .wildcard
  targetTypes : Term := .wildcard
  sources : List String := []
  targets : List String := []
  metas : List Term := []
  st : Names

/-- the order hints a child contributes [F20]: one per order successor that is not an `Output` -/
def orderHints (s : St) (c : Nat) : List Nat → Except Err (List Term)
  | [] => .ok []
  | x :: xs =>
    match getOp s x with
    | .error e => .error e
    | .ok op =>
      match orderHints s c xs with
      | .error e => .error e
      | .ok rest => .ok (if isOutput op then rest else orderHintTerm c x :: rest)

/-- one iteration of the child loop of `export_region_dfg` -/
def dfgStep (rec : Rec) (cs : Classes) (s : St) (a : DfgAcc) (c : Nat) : Except Err DfgAcc :=
  match getOp s c with
  | .error e => .error e
  | .ok (.input types) =>
    match rowToModel types with
    | .error e => .error e
    | .ok ts =>
      let r := linkNames cs a.st (outPorts c types.length)           -- [F22] `range(len(op.types))`
      .ok { a with sourceTypes := .list ts, sources := r.1, st := r.2 }
  | .ok (.output types?) =>
    match types? with
    | none => .error (.op .incompleteOp)
    | some types =>
      match rowToModel types with
      | .error e => .error e
      | .ok ts =>
        let r := linkNames cs a.st (inPorts c types.length)
        .ok { a with targetTypes := .list ts, targets := r.1, st := r.2 }
  | .ok _ =>
    match rec a.st c with
    | .error e => .error e
    | .ok (none, st1) => .ok { a with st := st1 }
    | .ok (some nd, st1) =>
      match orderHints s c (orderSuccs s c) with
      | .error e => .error e
      | .ok hints => .ok { a with children := a.children ++ [nd], metas := a.metas ++ hints, st := st1 }

def dfgLoop (rec : Rec) (cs : Classes) (s : St) : DfgAcc → List Nat → Except Err DfgAcc
  | a, [] => .ok a
  | a, c :: rest =>
    match dfgStep rec cs s a c with
    | .error e => .error e
    | .ok a1 => dfgLoop rec cs s a1 rest

/-- `export_region_dfg(node)` -/
def exportRegionDfg (rec : Rec) (cs : Classes) (s : St) (st : Names) (n : Nat) : Except Err (Region × Names) :=
  match Store.getNode s n with
  | .error _ => .error .keyError
  | .ok d =>
    match dfgLoop rec cs s { st := st } (d.children.map (·.1)) with
    | .error e => .error e
    | .ok a =>
      .ok (.mk .dataFlow a.sources a.targets a.children a.metas
        (some (.apply "core.fn" [a.sourceTypes, a.targetTypes])), a.st)

/-- the accumulators of the child loop of `export_region_cfg` -/
structure CfgAcc where
  source : Option String := none
  targets : List String := []
  sourceTypes : Term := .wildcard
  targetTypes : Term := .wildcard
  children : List Node := []
  st : Names

/-- `if source is None: source_types = …; source = self.link_name(InPort(child, 0))` [F23] -/
def cfgEntry (cs : Classes) (a : CfgAcc) (c : Nat) (inputs : List Ty) : Except Err CfgAcc :=
  match a.source with
  | some _ => .ok a
  | none =>
    match rowToModel inputs with
    | .error e => .error e
    | .ok ts =>
      let r := linkName cs a.st (inPort c 0)                          -- the entry block's control input
      .ok { a with sourceTypes := .list ts, source := some r.1, st := r.2 }

/-- `child_node = self.export_node(child); if child_node is not None: children.append(child_node)` -/
def cfgChild (rec : Rec) (a : CfgAcc) (c : Nat) : Except Err CfgAcc :=
  match rec a.st c with
  | .error e => .error e
  | .ok (none, st1) => .ok { a with st := st1 }
  | .ok (some nd, st1) => .ok { a with children := a.children ++ [nd], st := st1 }

def cfgStep (rec : Rec) (cs : Classes) (s : St) (a : CfgAcc) (c : Nat) : Except Err CfgAcc :=
  match getOp s c with
  | .error e => .error e
  | .ok (.exitBlock outs?) =>
    match outs? with
    | none => .error (.op .incompleteOp)
    | some outs =>
      match rowToModel outs with
      | .error e => .error e
      | .ok ts =>
        let r := linkName cs a.st (inPort c 0)                        -- [F23] the exit block's one input
        .ok { a with targetTypes := .list ts, targets := [r.1], st := r.2 }
  | .ok (.dataflowBlock inputs _ _ _) =>
    match cfgEntry cs a c inputs with
    | .error e => .error e
    | .ok a1 => cfgChild rec a1 c
  | .ok _ => .error .valueError                                        -- "Unexpected operation in CFG"

def cfgLoop (rec : Rec) (cs : Classes) (s : St) : CfgAcc → List Nat → Except Err CfgAcc
  | a, [] => .ok a
  | a, c :: rest =>
    match cfgStep rec cs s a c with
    | .error e => .error e
    | .ok a1 => cfgLoop rec cs s a1 rest

/-- `export_region_cfg(node)` -/
def exportRegionCfg (rec : Rec) (cs : Classes) (s : St) (st : Names) (n : Nat) : Except Err (Region × Names) :=
  match Store.getNode s n with
  | .error _ => .error .keyError
  | .ok d =>
    match cfgLoop rec cs s { st := st } (d.children.map (·.1)) with
    | .error e => .error e
    | .ok a =>
      match a.source with
      | none => .error .valueError                                     -- "CFG has no entry block."
      | some src =>
        .ok (.mk .controlFlow [src] a.targets a.children []
          (some (.apply "core.fn" [a.sourceTypes, a.targetTypes])), a.st)

/-- `[self.export_region_dfg(child) for child in node_data.children]` (Conditional) -/
def exportCaseRegions (rec : Rec) (cs : Classes) (s : St) : Names → List Nat → Except Err (List Region × Names)
  | st, [] => .ok ([], st)
  | st, c :: rest =>
    match exportRegionDfg rec cs s st c with
    | .error e => .error e
    | .ok (r, st1) =>
      match exportCaseRegions rec cs s st1 rest with
      | .error e => .error e
      | .ok (rs, st2) => .ok (r :: rs, st2)

/-- What the `match node_data.op` of `export_node` produces besides `inputs`, `outputs`, `meta`:
    `none` for a node that is not exported (`Const`). -/
abbrev Parts := Option (Operation × List Region × Option Term)

def customNode (name : String) (args : List TypeArg) (sig : Sig) (st : Names) : Except Err (Parts × Names) :=
  match argsToModel args with
  | .error e => .error e
  | .ok as =>
    match sigToModel sig with
    | .error e => .error e
    | .ok t => .ok (some (.custom (.apply name as), [], some t), st)

/-- `case DFG() / TailLoop()`: region first, then the outer signature -/
def dfgLike (rec : Rec) (cs : Classes) (s : St) (st : Names) (n : Nat) (op : Op) (o : Operation) :
    Except Err (Parts × Names) :=
  match exportRegionDfg rec cs s st n with
  | .error e => .error e
  | .ok (r, st1) =>
    match liftOp op.outerSig with
    | .error e => .error e
    | .ok sig =>
      match sigToModel sig with
      | .error e => .error e
      | .ok t => .ok (some (o, [r], some t), st1)

def exportCall (s : St) (st : Names) (n : Nat) (d : Store.NodeData Op Serial.Meta) (inst : Sig) (args : List TypeArg) :
    Except Err (Parts × Names) :=
  match rowToModel inst.inp with
  | .error e => .error e
  | .ok ins =>
    match rowToModel inst.out with
    | .error e => .error e
    | .ok outs =>
      match sigToModel inst with
      | .error e => .error e
      | .ok sig =>
        match argsToModel args with
        | .error e => .error e
        | .ok fargs =>
          match findFuncInput s n d with
          | .error e => .error e
          | .ok none => .error .valueError                             -- "is not connected to a function"
          | .ok (some f) =>
            .ok (some (.custom (.apply "core.call" [.list ins, .list outs, .apply f fargs]), [], some sig), st)

def exportLoadFunc (s : St) (st : Names) (n : Nat) (d : Store.NodeData Op Serial.Meta) (inst : Sig)
    (args : List TypeArg) : Except Err (Parts × Names) :=
  match sigToModel inst with
  | .error e => .error e
  | .ok sig =>
    match argsToModel args with
    | .error e => .error e
    | .ok fargs =>
      match findFuncInput s n d with
      | .error e => .error e
      | .ok none => .error .valueError
      | .ok (some f) => .ok (some (.custom (.apply "core.load_const" [sig, .apply f fargs]), [], some sig), st)

def exportCallIndirect (st : Names) (sig? : Option Sig) : Except Err (Parts × Names) :=
  match sig? with
  | none => .error (.op .incompleteOp)
  | some sig =>
    match rowToModel sig.inp with
    | .error e => .error e
    | .ok ins =>
      match rowToModel sig.out with
      | .error e => .error e
      | .ok outs =>
        let func : Term := .apply "core.fn" [.list ins, .list outs]
        .ok (some (.custom (.apply "core.call_indirect" [.list ins, .list outs]), [],
          some (.apply "core.fn" [.list (func :: ins), .list outs])), st)

def exportLoadConst (body : Json → Except Err Region) (s : St) (st : Names) (n : Nat)
    (d : Store.NodeData Op Serial.Meta) (typ? : Option Ty) : Except Err (Parts × Names) :=
  match findConstInput body s n d with
  | .error e => .error e
  | .ok none => .error .valueError                                     -- "is not connected to a constant"
  | .ok (some value) =>
    match typ? with
    | none => .error (.op .incompleteOp)
    | some typ =>
      match tyToModel typ with
      | .error e => .error e
      | .ok t =>
        match sigToModel ⟨[], [typ], []⟩ with
        | .error e => .error e
        | .ok sig => .ok (some (.custom (.apply "core.load_const" [t, value]), [], some sig), st)

/-- `core.ctrl` types of the successors of a block: `[*row, *other_outputs]` per sum row -/
def ctrlRows (other : List Term) : List (List Ty) → Except Err (List Term)
  | [] => .ok []
  | r :: rs =>
    match rowToModel r with
    | .error e => .error e
    | .ok ts =>
      match ctrlRows other rs with
      | .error e => .error e
      | .ok rest => .ok (.apply "core.ctrl" [.list (ts ++ other)] :: rest)

def exportBlock (rec : Rec) (cs : Classes) (s : St) (st : Names) (n : Nat) (inputs : List Ty) (sum? : Option SumTy)
    (other? : Option (List Ty)) : Except Err (Parts × Names) :=
  match exportRegionDfg rec cs s st n with
  | .error e => .error e
  | .ok (r, st1) =>
    match rowToModel inputs with
    | .error e => .error e
    | .ok ins =>
      match other? with
      | none => .error (.op .incompleteOp)
      | some other =>
        match rowToModel other with
        | .error e => .error e
        | .ok oth =>
          match sum? with
          | none => .error (.op .incompleteOp)
          | some sum =>
            match ctrlRows oth sum.rows with
            | .error e => .error e
            | .ok outs =>
              .ok (some (.block, [r], some (.apply "core.fn"
                [.list [.apply "core.ctrl" [.list ins]], .list outs])), st1)

def exportTag (st : Names) (tag : Int) (sum : SumTy) : Except Err (Parts × Names) :=
  match rowsToModel sum.rows with
  | .error e => .error e
  | .ok variants =>
    match Ty.pyIndex sum.rows tag with
    | none => .error .indexError
    | some row =>
      match rowToModel row with
      | .error e => .error e
      | .ok types =>
        match liftOp (Op.tag tag sum).outerSig with
        | .error e => .error e
        | .ok sig =>
          match sigToModel sig with
          | .error e => .error e
          | .ok t =>
            .ok (some (.custom (.apply "core.make_adt" [.list variants, .list types, .literal (.int tag)]), [],
              some t), st)

def typeSymbol (name : String) : Symbol := .mk name [] [] (.apply "core.type" [])

/-- `op_def().qualified_name()`, `type_args()` of the `AsExtOp` classes -/
def extOpName (d : OpDefRef) : String :=
  match d.ext with
  | some e => if e = "" then d.name else e ++ "." ++ d.name
  | none => d.name

/-- the `match node_data.op:` of `export_node` -/
def exportOp (rec : Rec) (body : Json → Except Err Region) (cs : Classes) (s : St) (st : Names) (n : Nat)
    (d : Store.NodeData Op Serial.Meta) : Except Err (Parts × Names) :=
  match d.op with
  | .dfg .. => dfgLike rec cs s st n d.op .dfg
  | .custom opName sig _ ext args => customNode (ext ++ "." ++ opName) args sig st
  | .extOp od sig? args =>
    match liftOp (Op.extOp od sig? args).outerSig with
    | .error e => .error e
    | .ok sig => customNode (extOpName od) args sig st
  | .makeTuple ts? =>
    match liftOp (Op.makeTuple ts?).outerSig with
    | .error e => .error e
    | .ok sig => customNode "prelude.MakeTuple" [.sequence ((ts?.getD []).map .type)] sig st
  | .unpackTuple ts? =>
    match liftOp (Op.unpackTuple ts?).outerSig with
    | .error e => .error e
    | .ok sig => customNode "prelude.UnpackTuple" [.sequence ((ts?.getD []).map .type)] sig st
  | .noop t? =>
    match liftOp (Op.noop t?).outerSig with
    | .error e => .error e
    | .ok sig => customNode "prelude.Noop" ((t?.toList).map .type) sig st
  | .conditional .. =>
    match exportCaseRegions rec cs s st (d.children.map (·.1)) with
    | .error e => .error e
    | .ok (rs, st1) =>
      match liftOp d.op.outerSig with
      | .error e => .error e
      | .ok sig =>
        match sigToModel sig with
        | .error e => .error e
        | .ok t => .ok (some (.conditional, rs, some t), st1)
  | .tailLoop .. => dfgLike rec cs s st n d.op .tailLoop
  | .funcDefn name inputs params outputs? =>
    match outputs? with
    | none => .error (.op .incompleteOp)
    | some outputs =>
      match exportSymbol (mangleName n name) params ⟨inputs, outputs, []⟩ with
      | .error e => .error e
      | .ok sym =>
        match exportRegionDfg rec cs s st n with
        | .error e => .error e
        | .ok (r, st1) => .ok (some (.defineFunc sym, [r], none), st1)
  | .funcDecl name p =>
    match exportSymbol (mangleName n name) p.params p.body with
    | .error e => .error e
    | .ok sym => .ok (some (.declareFunc sym, [], none), st)
  | .aliasDecl name _ => .ok (some (.declareAlias (typeSymbol name), [], none), st)
  | .aliasDefn name defn =>
    match tyToModel defn with
    | .error e => .error e
    | .ok v => .ok (some (.defineAlias (typeSymbol name) v, [], none), st)
  | .call _ inst args => exportCall s st n d inst args
  | .loadFunc _ inst args => exportLoadFunc s st n d inst args
  | .callIndirect sig? => exportCallIndirect st sig?
  | .loadConst typ? => exportLoadConst body s st n d typ?
  | .const _ => .ok (none, st)
  | .cfg .. =>
    match liftOp d.op.outerSig with
    | .error e => .error e
    | .ok sig =>
      match sigToModel sig with
      | .error e => .error e
      | .ok t =>
        match exportRegionCfg rec cs s st n with
        | .error e => .error e
        | .ok (r, st1) => .ok (some (.cfg, [r], some t), st1)
  | .dataflowBlock inputs sum? other? _ => exportBlock rec cs s st n inputs sum? other?
  | .tag tag sum => exportTag st tag sum
  | .input _ | .output _ | .exitBlock _ | .case .. | .module => .error .valueError   -- "Unknown operation"

/-- `Hugr.to_model()` given the node exporter: `ModelExport(self)` + `export_region_module(self.root)` -/
def exportModuleWith (mkRec : Classes → St → Rec) (s : St) : Except Err Module :=
  let cs := classes (Store.linksList s)
  match exportRegionModule (mkRec cs s) s [] s.root with
  | .error e => .error e
  | .ok (r, _) => .ok ⟨r⟩

/-- `Function.to_model()` [F37] given the node exporter: `ModelExport(self.body)` +
    `export_region_dfg(self.body.root)` -/
def exportBodyWith (mkRec : Classes → St → Rec) (s : St) : Except Err Region :=
  let cs := classes (Store.linksList s)
  match exportRegionDfg (mkRec cs s) cs s [] s.root with
  | .error e => .error e
  | .ok (r, _) => .ok r

/-- `export_node(node)`.  `fuel` bounds the depth of the hierarchy, `dfuel` is the decoding fuel for the
    body of a function-valued constant (exported by a fresh `ModelExport` of the body HUGR). -/
def exportNode (dfuel : Nat) : Nat → Classes → St → Names → Nat → Except Err (Option Node × Names)
  | 0, _, _, _, _ => .error .fuel
  | fuel + 1, cs, s, st, n =>
    match Store.getNode s n with
    | .error _ => .error .keyError
    | .ok d =>
      match numValuePorts d.op with
      | .error e => .error e
      | .ok (ni, no) =>
        let ins := linkNames cs st (inPorts n ni)
        let outs := linkNames cs ins.2 (outPorts n no)
        match nodeMeta s n d.md with
        | .error e => .error e
        | .ok metas =>
          let body : Json → Except Err Region := fun j =>
            match Serial.loadJson (Serial.opsCodec dfuel) j with
            | .error e => .error (.load e)
            | .ok s' => exportBodyWith (fun cs' s'' => exportNode dfuel fuel cs' s'') s'
          match exportOp (exportNode dfuel fuel cs s) body cs s outs.2 n d with
          | .error e => .error e
          | .ok (none, st1) => .ok (none, st1)
          -- every `model.Node(...)` of `export_node` passes `inputs`, `outputs` (left at their default `[]`
          -- exactly for the operations whose `_num_value_ports` is `(0, 0)`) and `meta`
          | .ok (some (o, regions, sig), st1) => .ok (some (.mk o ins.1 outs.1 regions metas sig), st1)

/-- `Hugr.to_model()` -/
def exportModule (dfuel fuel : Nat) (s : St) : Except Err Module :=
  exportModuleWith (fun cs s' => exportNode dfuel fuel cs s') s

/-- `Package.to_model()` (`hugr/package.py`): `model.Package([module.to_model() for module in self.modules])` -/
def exportPackage (dfuel : Nat) : List St → Except Err (List Module)
  | [] => .ok []
  | s :: rest =>
    match exportModule dfuel (s.nodes.length + 2) s with
    | .error e => .error e
    | .ok m =>
      match exportPackage dfuel rest with
      | .error e => .error e
      | .ok ms => .ok (m :: ms)

/-- fuel sufficient for any hierarchy over the store's nodes -/
def defaultFuel (s : St) : Nat := s.nodes.length + 2

end HugrVerif.Export
