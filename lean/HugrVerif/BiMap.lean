/-
  L1: model of `hugr.utils.BiMap` (hugr-py/src/hugr/utils.py:15-174),
  statement by statement.  Import-free.
-/
import HugrVerif.Py.Dict

namespace HugrVerif
open Py

structure BiMap (L R : Type) where
  fwd : Dict L R
  bck : Dict R L
deriving Repr

namespace BiMap
variable {L R : Type} [DecidableEq L] [DecidableEq R]

def empty : BiMap L R := ⟨[], []⟩

/-- `set(fwd.values())` has as many elements as `fwd` iff the values are pairwise distinct. -/
def valuesNodup (ps : List (L × R)) : Bool := decide (ps.map (·.2)).Nodup

/-- `dict(fwd)` for a Python mapping given as its item list (keys already distinct). -/
def ofList (ps : List (L × R)) : Dict L R := ps.foldl (fun d p => Dict.set p.1 p.2 d) []

/-- `BiMap.__init__`: `len(fwd) != len(set(fwd.values()))` → `NotBijection`. -/
def init (ps : List (L × R)) : Option (BiMap L R) :=
  if valuesNodup ps then
    some ⟨ofList ps, ps.foldl (fun d p => Dict.set p.2 p.1 d) []⟩
  else none

/-- `insert_left`: the two walrus tests, the two `del`s, the two assignments, in that order. -/
def insertLeft (m : BiMap L R) (k : L) (v : R) : BiMap L R :=
  let fwd1 := match Dict.get v m.bck with
    | some ek => Dict.del ek m.fwd
    | none => m.fwd
  let bck1 := match Dict.get k fwd1 with
    | some ev => Dict.del ev m.bck
    | none => m.bck
  ⟨Dict.set k v fwd1, Dict.set v k bck1⟩

def insertRight (m : BiMap L R) (k : R) (v : L) : BiMap L R := insertLeft m v k

/-- `delete_left`: `del self.bck[self.fwd[key]]; del self.fwd[key]`; `none` = `KeyError`
    (raised by `self.fwd[key]` before anything is mutated). -/
def deleteLeft (m : BiMap L R) (k : L) : Option (BiMap L R) :=
  match Dict.get k m.fwd with
  | none => none
  | some v =>
    match Dict.get v m.bck with
    | none => none            -- `del self.bck[...]` raises KeyError; unreachable under `Inv`
    | some _ => some ⟨Dict.del k m.fwd, Dict.del v m.bck⟩

def deleteRight (m : BiMap L R) (k : R) : Option (BiMap L R) :=
  match Dict.get k m.bck with
  | none => none
  | some l =>
    match Dict.get l m.fwd with
    | none => none
    | some _ => some ⟨Dict.del l m.fwd, Dict.del k m.bck⟩

def getRight (m : BiMap L R) (k : L) : Option R := Dict.get k m.fwd
def getLeft (m : BiMap L R) (k : R) : Option L := Dict.get k m.bck
def len (m : BiMap L R) : Nat := m.fwd.length
def items (m : BiMap L R) : List (L × R) := m.fwd

inductive Op (L R : Type) where
  | insertLeft (k : L) (v : R)
  | insertRight (k : R) (v : L)
  | deleteLeft (k : L)
  | deleteRight (k : R)
  | setitem (k : L) (v : R)
  | delitem (k : L)
deriving Repr

inductive Outcome where
  | ok | keyError
deriving Repr, DecidableEq

/-- One operation; a raising operation leaves the state as it is
    (both deletes raise before mutating when `Inv` holds). -/
def step (m : BiMap L R) : Op L R → BiMap L R × Outcome
  | .insertLeft k v | .setitem k v => (insertLeft m k v, .ok)
  | .insertRight k v => (insertRight m k v, .ok)
  | .deleteLeft k | .delitem k =>
    match deleteLeft m k with
    | some m' => (m', .ok)
    | none => (m, .keyError)
  | .deleteRight k =>
    match deleteRight m k with
    | some m' => (m', .ok)
    | none => (m, .keyError)

def run (m : BiMap L R) (ops : List (Op L R)) : BiMap L R := ops.foldl (fun m o => (step m o).1) m

end BiMap
end HugrVerif
