import HugrVerif.Ext
import HugrVerif.Gen.StdExtFiles
import HugrVerif.Gen.StdDefs
namespace HugrVerif.Props.C10
theorem stub : True := trivial
end HugrVerif.Props.C10
