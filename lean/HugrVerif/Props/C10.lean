/-
  C10 — Extension definitions round-trip; the bundled standard library matches the spec.

  Model: `HugrVerif/Ext.lean` (mirrors `hugr/ext.py`, `hugr/_serialization/extension.py`); lemmas:
  `HugrVerif/Proofs/Ext.lean`.  Reading of the statement:

  * The property quantifies over extensions **without lowering functions**: `OpDef.lower_funcs` is not
    a field of the model (`encOpDef` always writes `[]`), so no `NoLowerings` hypothesis appears.
  * Requirement lists that go through a Python `set` (`Extension.runtime_reqs`, the list
    `with_runtime_reqs` rebuilds) are enumerated in hash order (ledger note F29).  Every theorem here
    holds for **every** enumeration (`so : SetOrd`), and "the same requirements" / "the same
    document" mean: the same members (`SetEq`), resp. `canonDoc j' = canonDoc j`, where `canonDoc`
    sorts exactly the two set-typed lists of an extension document and nothing else.
  * Types inside a signature come back with extension types in opaque form (`Ty.norm`, the type
    layer's round trip, `Proofs/TysCodec.lean`); values are compared by their serialised form.
    `ext_roundtrip` takes the value layer's own round trip as the hypothesis `ValRT` per value;
    `value_roundtrip` proves `ValRT` for every serialisable value of the decodable shape (`ValOK`:
    the `typ` of a general sum is a sum type, the type of an extension constant is not a type
    scheme, the body of a function constant has a readable root signature), so that
    `ext_roundtrip_closed` has structural hypotheses only.
  * `WellFormed` is what the public API maintains (keys = names, ownership, `OpDefSig`'s invariant,
    the extension among the requirements of every type scheme) plus serialisability within the fuel.

  Translated part (regenerated from /repo by `harness/props/C10.py` on every run):
  `Gen/StdExtFiles.lean` — every bundled and every specified file as a string literal, with the
  theorems `bundled_eq_spec_<file>`, `same_file_set`, `bundled_eq_spec_all`; `Gen/StdDefs.lean` —
  names and declared parameters of every definition of the bundled documents, used by
  `helpers_match_defs`; `Gen/StdExtDocs.lean` — every bundled document as a JSON term with the
  kernel-checked theorem `bundled_loads_<file>` that `decExt` accepts it and yields exactly its
  `StdDefs` entry.  The generated theorems are re-stated below by `#restate_generated` so that the
  audit lists every one of them.
-/
import Lean
import HugrVerif.Proofs.Ext
import HugrVerif.Gen.StdExtFiles
import HugrVerif.Gen.StdDefs
import HugrVerif.Gen.StdExtDocs

namespace HugrVerif.Props.C10
open HugrVerif HugrVerif.Codec HugrVerif.Ext HugrVerif.Py

abbrev FnSig := Json → Except DecErr (List Ty × List Ty × List String)

/-! ### 1. Round trip -/

/-- **Serialising an extension and loading it back** (`Extension.to_json` / `Extension.from_json`):
    a well-formed extension serialises; the document loads; the loaded extension has the same name,
    version, requirements (as a set), type definitions, operation definitions (signature, binary
    flag, description, misc) and values (`ExtEq`), owns its operation definitions, and re-serialises
    to the same document up to the order of the two set-typed requirement lists. -/
theorem ext_roundtrip (so : SetOrd) (fnSig : FnSig) (fuel : Nat) (e : Extension) (h : WellFormed fnSig fuel e) :
    ∃ j e', encExt e = .ok j ∧ decExt so fnSig fuel j = .ok e' ∧ ExtEq e e' ∧ OwnsOps e' ∧
      ∃ j', encExt e' = .ok j' ∧ canonDoc j' = canonDoc j := by
  obtain ⟨j, hj, hd⟩ := decExt_encExt so fnSig fuel e h
  have heq := extEq_reload so fnSig fuel e h
  exact ⟨j, _, hj, hd, heq, decExt_owns so fnSig fuel j _ hd, extEq_enc e _ heq j hj⟩

/-- **The value layer's round trip**: a serialisable value of the decodable shape decodes from its
    serialised form to a value with the same serialised form. -/
theorem value_roundtrip (fnSig : FnSig) (fuel : Nat) (v : Value) (hok : ValOK fnSig v)
    (henc : ∃ j, encVal v = .ok j) (hd : valDepth v ≤ fuel) :
    ∃ j v', encVal v = .ok j ∧ decVal fnSig fuel j = .ok v' ∧ encVal v' = .ok j :=
  valRT_of_ok fnSig fuel v hok henc hd

/-- **Round trip with structural hypotheses only** (`WellFormedS`: as `WellFormed`, every value
    serialisable, of the decodable shape and within the fuel). -/
theorem ext_roundtrip_closed (so : SetOrd) (fnSig : FnSig) (fuel : Nat) (e : Extension) (h : WellFormedS fnSig fuel e) :
    ∃ j e', encExt e = .ok j ∧ decExt so fnSig fuel j = .ok e' ∧ ExtEq e e' ∧ OwnsOps e' ∧
      ∃ j', encExt e' = .ok j' ∧ canonDoc j' = canonDoc j :=
  ext_roundtrip so fnSig fuel e h.wf

/-- The loaded extension, explicitly: `reload` (the type schemes in decoded form with the owner
    added to their requirements, the values as decoded). -/
theorem ext_roundtrip_exact (so : SetOrd) (fnSig : FnSig) (fuel : Nat) (e : Extension) (h : WellFormed fnSig fuel e) :
    ∃ j, encExt e = .ok j ∧ decExt so fnSig fuel j = .ok (reload so fnSig fuel e) :=
  decExt_encExt so fnSig fuel e h

/-- Extensions that are equal as far as the property claims serialise to the same document
    (up to the set-typed lists): `ExtEq` loses nothing a document records. -/
theorem extEq_same_document (e e' : Extension) (h : ExtEq e e') (j : Json) (hj : encExt e = .ok j) :
    ∃ j', encExt e' = .ok j' ∧ canonDoc j' = canonDoc j :=
  extEq_enc e e' h j hj

/-- `canonDoc` only forgets order and repetition inside the two set-typed lists: on a list of
    strings it keeps exactly the members. -/
theorem canon_keeps_members (r : List String) : SetEq (sortDedup r) r := sortDedup_setEq r

/-- and it is canonical: two lists with the same members are sorted to the same list -/
theorem canon_set (a b : List String) (h : SetEq a b) : sortDedup a = sortDedup b := sortDedup_eq_of_setEq h

/-! non-vacuity: a concrete extension with both kinds of type bound, a polymorphic and a
    binary-computed signature, nested JSON in `misc`, non-ASCII text, a repeated requirement, a value -/

/-- every body is read as a one-qubit identity (the document layer is not this property's) -/
def exFn : FnSig := fun _ => .ok ([.qubit], [.qubit], [])

def exIntDef : TypeDefRef :=
  { ext := "arithmetic.int.types", name := "int", description := "", params := [.boundedNat (some 7)],
    bound := .explicit .copyable }

def exExt : Extension :=
  { name := "my.ext", version := "1.2.3-rc.1+b7", runtimeReqs := ["prelude", "a", "prelude"],
    types := [("T", ⟨some "my.ext", "T", "dé", [.type .any, .boundedNat (some 3)], .fromParams [0]⟩),
              ("U", ⟨some "my.ext", "U", "", [], .explicit .copyable⟩)],
    values := [("v", ⟨some "my.ext", "v", Value.boolValue true⟩),
               ("c", ⟨some "my.ext", "c", .tuple [.ext "ConstInt" (.extType exIntDef [.boundedNat 5])
                  (.obj [("log_width", .int 5), ("value", .int 7)]) ["arithmetic.int.types"], Value.none [.usize]]⟩),
               ("f", ⟨some "my.ext", "f", .function [.qubit] [.qubit] [] (.obj [("nodes", .arr [])])⟩)],
    operations := [
      ("op", ⟨some "my.ext", "op",
        ⟨some ⟨[.type .any], [.qubit, .extType exIntDef [.boundedNat 5]], [Ty.bool, .function [.usize] [] ["z", "y"]],
          ["x", "my.ext"]⟩, false⟩,
        "desc", [("k", .arr [.int 1, .num "2.5", .null, .obj [("z", .bool true)]])]⟩),
      ("bin", ⟨some "my.ext", "bin", ⟨none, true⟩, "", []⟩)] }

theorem exExt_wfS : WellFormedS exFn 10 exExt where
  typeKeys := by unfold Dict.NodupKeys; decide
  opKeys := by unfold Dict.NodupKeys; decide
  valueKeys := by unfold Dict.NodupKeys; decide
  types := by
    intro kt hkt
    simp only [exExt, List.mem_cons, List.mem_nil_iff, or_false] at hkt
    rcases hkt with rfl | rfl <;> exact ⟨rfl, rfl, by decide⟩
  ops := by
    intro ko hko
    simp only [exExt, List.mem_cons, List.mem_nil_iff, or_false] at hko
    rcases hko with rfl | rfl
    · refine ⟨rfl, rfl, by simp, ?_⟩
      intro p hp
      simp only [Option.some.injEq] at hp
      subst hp
      exact ⟨by decide, ⟨_, rfl⟩, by decide⟩
    · refine ⟨rfl, rfl, fun _ => rfl, ?_⟩
      intro p hp
      simp at hp
  values := by
    intro kv hkv
    simp only [exExt, List.mem_cons, List.mem_nil_iff, or_false] at hkv
    rcases hkv with rfl | rfl | rfl
    · exact ⟨rfl, rfl, by simp [ValOK, ValsOK, Value.boolValue, Value.unitSum, isSumTy], ⟨_, rfl⟩, by decide⟩
    · exact ⟨rfl, rfl, by simp [ValOK, ValsOK, Value.none, Ty.option, isSumTy, Ty.isPoly], ⟨_, rfl⟩, by decide⟩
    · exact ⟨rfl, rfl, ⟨_, rfl⟩, ⟨_, rfl⟩, by decide⟩

theorem exExt_wf : WellFormed exFn 10 exExt := exExt_wfS.wf

example : ∃ j e', encExt exExt = .ok j ∧ decExt SetOrd.std exFn 10 j = .ok e' ∧ ExtEq exExt e' ∧ OwnsOps e' ∧
    ∃ j', encExt e' = .ok j' ∧ canonDoc j' = canonDoc j :=
  ext_roundtrip SetOrd.std exFn 10 exExt exExt_wf

example : ∃ j e', encExt exExt = .ok j ∧ decExt SetOrd.std exFn 10 j = .ok e' ∧ ExtEq exExt e' ∧ OwnsOps e' ∧
    ∃ j', encExt e' = .ok j' ∧ canonDoc j' = canonDoc j :=
  ext_roundtrip_closed SetOrd.std exFn 10 exExt exExt_wfS

-- the reloaded extension is *not* literally the original one (the integer type is now opaque, the
-- repeated requirement is gone): `ExtEq` is the right strength
example : (reload SetOrd.std exFn 10 exExt).runtimeReqs = ["a", "prelude"] := by decide
example : ((reload SetOrd.std exFn 10 exExt).operations.head?.bind (·.2.sig.poly)).map (·.inp) =
    some [.qubit, .opaque "int" .copyable [.boundedNat 5] "arithmetic.int.types"] := by
  simp [reload, exExt, reloadOp, normPoly, Poly.withReqs, Ty.normRow, Ty.norm, Ty.normArgs, Ty.normArg,
    Ty.bound, exIntDef, pure, Except.pure]

-- `canonDoc` is not the constant function: documents that differ elsewhere stay different, and the
-- requirement lists of *nested* function types are not touched
example : canonDoc (.obj [("runtime_reqs", .arr [.str "b", .str "a", .str "b"]), ("name", .str "x")]) =
    .obj [("runtime_reqs", .arr [.str "a", .str "b"]), ("name", .str "x")] := by decide
example : canonDoc (.obj [("runtime_reqs", .arr []), ("name", .str "x")]) ≠
    canonDoc (.obj [("runtime_reqs", .arr []), ("name", .str "y")]) := by decide
example : canonDoc (.obj [("operations", .obj [("o", .obj [("signature", .obj [("body", .obj [
      ("input", .arr [.obj [("t", .str "G"), ("runtime_reqs", .arr [.str "z", .str "y"])]]),
      ("runtime_reqs", .arr [.str "z", .str "y"])])])])])]) =
    .obj [("operations", .obj [("o", .obj [("signature", .obj [("body", .obj [
      ("input", .arr [.obj [("t", .str "G"), ("runtime_reqs", .arr [.str "z", .str "y"])]]),
      ("runtime_reqs", .arr [.str "y", .str "z"])])])])])] := by decide

/-! ### 2. Ownership of operation definitions -/

/-- **`add_op_def`**: the definition returned (and stored under its name) reports the extension as
    its owner and, when it has a type scheme, names the extension among the scheme's runtime
    requirements; the binary flag is kept, and a binary-computed signature without type scheme is
    stored unchanged. -/
theorem opdef_owner_add (so : SetOrd) (e : Extension) (od : OpDef) :
    Dict.get od.name (addOpDef so e od).1.operations = some (addOpDef so e od).2 ∧
    (addOpDef so e od).2.owner = some e.name ∧
    (∀ p, (addOpDef so e od).2.sig.poly = some p → e.name ∈ p.reqs) ∧
    (addOpDef so e od).2.sig.binary = od.sig.binary ∧
    (od.sig.poly = none → (addOpDef so e od).2.sig = od.sig) :=
  ⟨addOpDef_get so e od, addOpDef_result so e od⟩

/-- **Every operation definition held by an extension built with the public API**
    (`Extension(...)`, `add_type_def`, `add_op_def`, `register_op`, `add_extension_value`)
    reports that extension as its owner and names it among its signature's requirements. -/
theorem opdef_owner (so : SetOrd) (e : Extension) (h : Reachable so e) :
    ∀ ko ∈ e.operations, ko.2.owner = some e.name ∧ ∀ p, ko.2.sig.poly = some p → e.name ∈ p.reqs :=
  h.owns

/-- **… and so does every extension `from_json` / `_load_extension` returns**, whatever the document
    (in particular the bundled files, whose signatures do not list the owning extension). -/
theorem opdef_owner_loaded (so : SetOrd) (fnSig : FnSig) (fuel : Nat) (j : Json) (e : Extension)
    (h : decExt so fnSig fuel j = .ok e) :
    ∀ ko ∈ e.operations, ko.2.owner = some e.name ∧ ∀ p, ko.2.sig.poly = some p → e.name ∈ p.reqs :=
  decExt_owns so fnSig fuel j e h

/-- the invariant is kept by each API call separately -/
theorem opdef_owner_preserved (so : SetOrd) (e : Extension) (h : OwnsOps e) :
    (∀ od, OwnsOps (addOpDef so e od).1) ∧ (∀ td, OwnsOps (addTypeDef e td).1) ∧
    (∀ v, OwnsOps (addExtensionValue e v).1) ∧
    (∀ c d n s ds m, OwnsOps (registerOp so e c d n s ds m).1) :=
  ⟨fun od => addOpDef_owns so e od h, fun td => addTypeDef_owns e td h, fun v => addExtensionValue_owns e v h,
   fun c d n s ds m => registerOp_owns so e c d n s ds m h⟩

-- non-vacuity: an extension built through the API, with a definition registered by `register_op`
def exBuilt : Extension :=
  let e0 := Extension.new "logic" "0.1.0" []
  let e1 := (addOpDef SetOrd.std e0 ⟨none, "Not", ⟨some ⟨[], [Ty.bool], [Ty.bool], []⟩, false⟩, "logical not", []⟩).1
  let e2 := (registerOp SetOrd.std e1 "_AndOp" (some "Logical AND.") none (.inl none) none none).1
  (addTypeDef e2 ⟨none, "T", "", [], .explicit .any⟩).1

theorem exBuilt_reachable : Reachable SetOrd.std exBuilt :=
  .addType _ (.register _ _ _ _ _ _ (.addOp _ (.new _ _ _)))

example : ∀ ko ∈ exBuilt.operations, ko.2.owner = some "logic" ∧ ∀ p, ko.2.sig.poly = some p → "logic" ∈ p.reqs :=
  opdef_owner SetOrd.std exBuilt exBuilt_reachable
example : exBuilt.operations.map (fun ko => (ko.1, ko.2.owner, ko.2.sig.poly.map (·.reqs), ko.2.sig.binary, ko.2.description)) =
    [("Not", some "logic", some ["logic"], false, "logical not"), ("_AndOp", some "logic", none, true, "Logical AND.")] := by
  decide
-- a document whose signature does not list the owner (as in the bundled files): loading adds it
example : (decExt SetOrd.std exFn 10 (.obj [("version", .str "0.1.0"), ("name", .str "logic"), ("runtime_reqs", .arr []),
      ("types", .obj []), ("values", .obj []),
      ("operations", .obj [("Not", .obj [("extension", .str "logic"), ("name", .str "Not"), ("description", .str ""),
        ("signature", .obj [("params", .arr []), ("body", .obj [("input", .arr []), ("output", .arr [])])]),
        ("binary", .bool false)])])])).toOption.map
      (fun e => e.operations.map fun ko => (ko.2.owner, ko.2.sig.poly.map (·.reqs), ko.2.misc.length)) =
    some [(some "logic", some ["logic"], 0)] := by decide
-- `OpDefSig(None, binary=False)` is rejected on load, a key that is not the name too
example : decExt SetOrd.std exFn 10 (.obj [("version", .str "0.1.0"), ("name", .str "x"), ("runtime_reqs", .arr []),
      ("types", .obj []), ("values", .obj []),
      ("operations", .obj [("o", .obj [("extension", .str "x"), ("name", .str "o"), ("description", .str "")])])]) =
.error .valueError := by rfl
example : decExt SetOrd.std exFn 10 (.obj [("version", .str "0.1.0"), ("name", .str "x"), ("runtime_reqs", .arr []),
      ("types", .obj []), ("values", .obj []),
      ("operations", .obj [("k", .obj [("extension", .str "x"), ("name", .str "o"), ("description", .str ""),
        ("binary", .bool true)])])]) = .error .assertion := by rfl

/-! ### 3. The typed helpers of `hugr.std` denote bundled definitions with matching parameters

  `Gen.StdDefs.table` is regenerated from `hugr-py/src/hugr/std/_json_defs` on every run.
  `HelperUse.matches` = the definition exists in the named extension document and the arguments the
  helper builds fit its declared parameters (`argsFit`, after `check_type_args` /
  `check_type_arg`, hugr-core/src/types/type_param.rs:407-469). -/

open HugrVerif.Gen.StdDefs in
/-- **`int_t(w)` for w = 0..6, `FLOAT_T`, `STRING_T`, `Array(ty, n)`, `List(ty)`, `StaticArray(ty)`
    (for the copyable element types its constructor accepts), `DivMod` at every width 0..6 and `Not`**
    — and hence the constants `IntVal`, `FloatVal`, `StringVal`, `ArrayVal`, `ListVal`,
    `StaticArrayVal`, whose reported type is built by the same helper — denote definitions of the
    regenerated extension documents, with arguments that fit the declared parameters. -/
theorem helpers_match_defs :
    (∀ w : Int, 0 ≤ w → w ≤ 6 → (intT w).matches table = true) ∧
    floatT.matches table = true ∧
    stringT.matches table = true ∧
    (∀ (ty : Ty) (n : Int), 0 ≤ n → (arrayT ty n).matches table = true) ∧
    (∀ ty : Ty, (listT ty).matches table = true) ∧
    (∀ ty : Ty, Ty.bound ty = .ok .copyable → (staticArrayT ty).matches table = true) ∧
    (∀ w : Int, 0 ≤ w → w ≤ 6 → (divMod w).matches table = true) ∧
    notOp.matches table = true := by
  refine ⟨?_, by decide, by decide, ?_, ?_, ?_, ?_, by decide⟩
  · intro w h0 h6
    have : (intT w).params? table = some [.boundedNat (some 7)] := by rfl
    unfold HelperUse.matches; rw [this]
    simp [intT, argsFit, zipFit, argFits, validNat]
    omega
  · intro ty n h0
    have : (arrayT ty n).params? table = some [.boundedNat none, .type .any] := by rfl
    unfold HelperUse.matches; rw [this]
    cases h : Ty.bound ty <;> simp [arrayT, argsFit, zipFit, argFits, validNat, boundContains, h0, h]
  · intro ty
    have : (listT ty).params? table = some [.type .any] := by rfl
    unfold HelperUse.matches; rw [this]
    cases h : Ty.bound ty <;> simp [listT, argsFit, zipFit, argFits, boundContains, h]
  · intro ty h
    have : (staticArrayT ty).params? table = some [.type .copyable] := by rfl
    unfold HelperUse.matches; rw [this]
    simp [staticArrayT, argsFit, zipFit, argFits, boundContains, h]
  · intro w h0 h6
    have : (divMod w).params? table = some [.boundedNat (some 7)] := by rfl
    unfold HelperUse.matches; rw [this]
    simp [divMod, argsFit, zipFit, argFits, validNat]
    omega

open HugrVerif.Gen.StdDefs in
/-- the width bound is sharp: `int_t(7)` does not fit `BoundedNat(7)`; a non-copyable element does
    not fit `static_array`'s parameter; a helper naming a definition that does not exist fails -/
theorem helpers_match_defs_sharp :
    (intT 7).matches table = false ∧ (intT (-1)).matches table = false ∧
    (staticArrayT .qubit).matches table = false ∧
    (⟨"arithmetic.int.types", false, "integer", [.boundedNat 5]⟩ : HelperUse).matches table = false ∧
    (⟨"logic", true, "Not", [.boundedNat 5]⟩ : HelperUse).matches table = false := by
  decide

-- `argFits` follows `check_type_arg`: examples from its unit test (type_param.rs:506-560)
example : argFits (.type .usize) (.type .copyable) = true := by decide
example : argFits (.type .usize) (.list (.type .copyable)) = false := by decide
example : argFits (.sequence [.type .usize]) (.type .any) = false := by decide
example : argFits (.variable 0 (.list (.type .copyable))) (.list (.type .copyable)) = true := by decide
example : argFits (.sequence []) (.list (.type .copyable)) = true := by decide
example : argFits (.sequence [.variable 0 (.list (.type .copyable))]) (.list (.type .copyable)) = true := by decide
example : argFits (.sequence [.variable 1 (.list (.type .any)), .type .usize, .variable 0 (.list (.type .copyable))])
    (.list (.type .any)) = true := by decide
example : argFits (.sequence [.variable 1 (.list (.type .any))]) (.list (.type .copyable)) = false := by decide
example : argFits (.sequence [.type .usize, .boundedNat 3]) (.tuple [.type .copyable, .boundedNat none]) = true := by decide
example : argFits (.sequence [.type .usize]) (.tuple [.type .copyable, .boundedNat none]) = false := by decide
example : argFits (.type .qubit) (.type .copyable) = false := by decide

/-! ### 4. The bundled files are the specified files (translated, re-checked on every run) -/

open Lean Elab Command in
/-- For every theorem `HugrVerif.Props.C10.gen.<x>` of the imported generated module declare
    `HugrVerif.Props.C10.generated.<x>` with the same statement, proved by it. -/
elab "#restate_generated" : command => do
  let env ← getEnv
  let pre := `HugrVerif.Props.C10.gen
  let mut todo : Array (Name × TheoremVal) := #[]
  for (n, ci) in env.constants.map₁.toList do
    if pre.isPrefixOf n && !n.isInternal then
      if let .thmInfo ti := ci then
        if let some idx := env.getModuleIdxFor? n then
          let modName := env.header.moduleNames[idx.toNat]!
          if (`HugrVerif.Gen).isPrefixOf modName then todo := todo.push (n, ti)
  for (n, ti) in todo.qsort (fun a b => a.1.toString < b.1.toString) do
    let newName := (`HugrVerif.Props.C10.generated) ++ n.replacePrefix pre .anonymous
    liftCoreM <| addDecl <| .thmDecl {
      name := newName, levelParams := ti.levelParams, type := ti.type,
      value := mkConst n (ti.levelParams.map mkLevelParam) }

#restate_generated

open HugrVerif.Gen.StdExtFiles in
/-- **Every file bundled with the Python package is, character for character, the file of the same
    name under specification/std_extensions, and the two directories hold the same files.** -/
theorem bundled_is_spec : bundledNames = specNames ∧ bundled = spec ∧
    (∀ nc, nc ∈ bundled → nc ∈ spec) :=
  ⟨gen.same_file_set, gen.bundled_eq_spec_all, fun _ h => gen.bundled_eq_spec_all ▸ h⟩

open HugrVerif.Gen in
/-- **Each bundled document loads** (`_load_extension`): the loaded extension owns its operation
    definitions and holds exactly the definitions — names and declared parameters — that
    `StdDefs.table` lists under its name (the table `helpers_match_defs` is about). -/
theorem bundled_load (nd : String × Json) (h : nd ∈ StdExtDocs.docs) :
    ∃ e, decExt SetOrd.std noFnSig 64 nd.2 = .ok e ∧ findExt StdDefs.table e.name = some (sigOfExt e) ∧
      ∀ ko ∈ e.operations, ko.2.owner = some e.name ∧ ∀ p, ko.2.sig.poly = some p → e.name ∈ p.reqs := by
  have := List.all_eq_true.1 gen.bundled_loads_all nd h
  exact loadsFrom_sound StdDefs.table 64 nd.2 this

open HugrVerif.Gen in
/-- the documents translated are the bundled files, one per file name -/
theorem bundled_docs_names : StdExtDocs.docs.map (·.1) = StdExtFiles.bundledNames := by decide

open HugrVerif.Gen.StdExtFiles in
/-- the tables are not empty and list every name (so the theorem above says something) -/
theorem bundled_nonempty : bundled.map (·.1) = bundledNames ∧ spec.map (·.1) = specNames ∧ bundledNames ≠ [] := by
  refine ⟨by decide, by decide, by decide⟩

end HugrVerif.Props.C10
