/-
  C19 — Shot results convert to register bitstrings by the documented convention.
  Property theorems only; helper lemmas are in `Proofs/Qsys.lean`, the model (of the code as repaired
  by the `fix:` commits for F17, F18, F19) and the specification `replay` in `Qsys.lean`.
-/
import HugrVerif.Proofs.Qsys
import HugrVerif.Gen.QsysPattern

namespace HugrVerif.Props.C19
open HugrVerif HugrVerif.Qsys HugrVerif.Py

/-! ## The tag convention -/

/-- **Translation tie.** The pattern text, compile flags and `re` function read from `result.py` on this
    run are the ones the hand-written matcher `parseTag` was written for. -/
theorem pattern_is_modelled :
    Gen.QsysPattern.pattern = modelledPattern ∧ Gen.QsysPattern.flags = modelledFlags ∧
    Gen.QsysPattern.usedAs = modelledUse := by decide

/-- The matcher accepts exactly the tags `name[n]` of the documented pattern (`name` a lower-case
    letter followed by word characters, `n` a non-empty run of digits, optionally one final newline,
    which `$` lets through) and returns `name` and `int(n)`. -/
theorem parseTag_iff (t name : Str) (n : Nat) : parseTag t = some (name, n) ↔ IndexedTag t name n :=
  Qsys.parseTag_iff t name n

example : parseTag ['a', 'B', '_', '1', '[', '0', '7', ']', '\n'] = some (['a', 'B', '_', '1'], 7) := by decide
example : parseTag ['A', '[', '0', ']'] = none := by decide
example : parseTag ['a', '[', '0', ']', 'x'] = none := by decide
example : parseTag ['a', '[', ']'] = none := by decide
example : IndexedTag ['c', '[', '1', '2', ']'] ['c'] 12 :=
  ⟨'c', [], ['1', '2'], rfl, by decide, by simp, by simp, by decide, by decide, Or.inl rfl⟩

/-! ## One shot: `to_register_bits` is the replay of the entries -/

/-- Writing a bit grows the register to at least `n + 1` positions and no further. -/
theorem writeBit_length (bits : List Bool) (n : Nat) (b : Bool) :
    (writeBit bits n b).length = max bits.length (n + 1) := by
  simp only [writeBit, List.length_set, List.length_append, List.length_replicate]; omega

/-- … position `n` holds the new bit, earlier content is kept, the gap is filled with zeros. -/
theorem writeBit_get (bits : List Bool) (n : Nat) (b : Bool) (i : Nat) :
    (writeBit bits n b)[i]? =
      if i = n then some b else if i < bits.length then bits[i]? else if i < n then some false else none := by
  simp only [writeBit, List.getElem?_set, List.length_append, List.length_replicate]
  by_cases hin : i = n
  · subst hin; simp; omega
  · have : ¬ n = i := fun h => hin h.symm
    simp only [this, hin, if_false]
    by_cases hil : i < bits.length
    · simp [hil, List.getElem?_append_left hil]
    · simp only [hil, if_false]
      rw [List.getElem?_append_right (by omega), List.getElem?_replicate]
      by_cases h2 : i < n
      · have : i - bits.length < n + 1 - bits.length := by omega
        simp [h2, this]
      · have : ¬ i - bits.length < n + 1 - bits.length := by omega
        simp [h2, this]

/-- The replay processes the entries strictly in order: a later write acts on the result of the earlier ones. -/
theorem replay_snoc (es : List Entry) (e : Entry) :
    replay (es ++ [e]) = match replay es with
      | .ok m => write m e
      | .error err => .error err := by
  have : ∀ m, replayFrom (es ++ [e]) m = match replayFrom es m with
      | .ok m' => write m' e
      | .error err => .error err := by
    induction es with
    | nil => intro m; simp only [List.nil_append, replayFrom]; cases write m e <;> rfl
    | cons x xs ih =>
      intro m
      simp only [List.cons_append, replayFrom]
      cases write m x with
      | error err => rfl
      | ok m' => exact ih m'
  exact this []

/-- **Main theorem.** For every entry list, the register bitstrings computed by `to_register_bits` are
    the rendering of the replay of the entries in order as writes — and it fails exactly when the
    replay does. -/
theorem toRegisterBits_eq_replay (es : List Entry) :
    toRegisterBits es = match replay es with
      | .ok m => .ok (renderMap m)
      | .error err => .error err := by
  have h := loopBits_enc es []
  have h0 : encMap ([] : RegMap) = [] := rfl
  rw [h0] at h
  unfold toRegisterBits replay
  rw [h]
  cases replayFrom es [] with
  | error err => rfl
  | ok m => simp [joinBits_enc]

-- F17's replay input: whole-register write, indexed write, the same whole-register write again
example : toRegisterBits
    [(['c'], .list [.prim (.int 1), .prim (.int 1)]), (['c', '[', '0', ']'], .prim (.int 0)),
     (['c'], .list [.prim (.int 1), .prim (.int 1)])] = .ok [(['c'], ['1', '1'])] := by decide
-- indexed writes grow with zeros; a whole-register write afterwards shrinks the register again
example : toRegisterBits
    [(['x', '[', '3', ']'], .prim (.bool true)), (['d'], .list [.prim (.int 1), .prim (.bool false)]),
     (['x', '[', '0', ']'], .prim (.int 1))] = .ok [(['x'], ['1', '0', '0', '1']), (['d'], ['1', '0'])] := by decide
example : toRegisterBits [(['x', '[', '5', ']'], .prim (.int 1)), (['x'], .prim (.int 0))]
    = .ok [(['x'], ['0'])] := by decide

/-- Every character produced is `'0'` or `'1'` (in particular for `bool` bits: F18). -/
theorem bits_are_01 (es : List Entry) (m : Dict Str Str) (h : toRegisterBits es = .ok m) :
    ∀ r s, (r, s) ∈ m → ∀ c ∈ s, c = '0' ∨ c = '1' := by
  rw [toRegisterBits_eq_replay] at h
  cases hr : replay es with
  | error err => simp [hr] at h
  | ok rm =>
    simp [hr] at h
    subst h
    intro r s hm c hc
    simp only [renderMap, List.mem_map] at hm
    obtain ⟨p, _, hp⟩ := hm
    simp only [Prod.mk.injEq] at hp
    rw [← hp.2] at hc
    simp only [render, List.mem_map] at hc
    obtain ⟨b, _, rfl⟩ := hc
    cases b <;> simp [bitChar]

example : toRegisterBits [(['c'], .prim (.bool true))] = .ok [(['c'], ['1'])] := by decide

/-- `_cast_primitive_bit` rejects exactly the values that are not bits … -/
theorem castBit_rejects_iff (d : Data) : castBit d = .error {} ↔ ¬ IsBit d := by
  rw [castBit_eq, ← asBit_error_iff]
  cases h : asBit d with
  | ok b => simp
  | error e => simp

/-- … and renders a bit as one character `0` / `1`. -/
theorem castBit_char (d : Data) (s : Str) (h : castBit d = .ok s) : s = ['0'] ∨ s = ['1'] := by
  rw [castBit_eq] at h
  cases hb : asBit d with
  | error e => simp [hb] at h
  | ok b => simp [hb] at h; subst h; cases b <;> simp [bitStr, bitChar]

example : ¬ IsBit (.prim (.int 2)) := by simp [IsBit]
example : ¬ IsBit (.prim (.float ['1', '.', '0'])) := by simp [IsBit]
example : IsBit (.prim (.bool true)) := Or.inr (Or.inr ⟨true, rfl⟩)

/-- A shot is rejected with `ValueError` iff some entry carries a value that is not a bit
    (for `name[n]`: not one bit; for a whole-register tag: neither a bit nor a flat list of bits). -/
theorem nonbit_rejected_iff (es : List Entry) :
    toRegisterBits es = .error {} ↔ ∃ e ∈ es, ¬ EntryOk e := by
  rw [toRegisterBits_eq_replay, ← replayFrom_error_iff es []]
  unfold replay
  cases h : replayFrom es [] with
  | ok m => simp
  | error e => simp

example : toRegisterBits [(['c'], .prim (.int 1)), (['c', '[', '0', ']'], .prim (.int 2))] = .error {} := by decide
example : toRegisterBits [(['c'], .list [.prim (.int 1), .list [.prim (.int 0)]])] = .error {} := by decide
example : toRegisterBits [(['c'], .prim (.int (-1))), (['c'], .prim (.int 1))] = .error {} := by decide

/-! ## Many shots: `register_bitstrings`, strict options -/

/-- If some shot is rejected, so is the whole result, whatever the flags. -/
theorem registerBitstrings_nonbit (sn sl : Bool) (shots : List (List Entry)) (e : ValueError)
    (h : perShotBits shots = .error e) : registerBitstrings sn sl shots = .error .valueError := by
  have := resultLoop_spec sn sl shots [] [] inv_nil
    (by rintro (⟨_, h⟩ | ⟨_, h⟩) <;> exact h (by intro b hb; simp at hb)) (by simp)
  simp only [h] at this
  exact this

/-- **Decision theorem.**  When every shot converts (to `bs`, in shot order):
    * the call is rejected with `ValueError` iff a strict option is on and violated
      (`strict_names`: not all shots have the same register set; `strict_lengths`: some register
      has two different lengths) — never with another exception;
    * otherwise it returns a dict (each register once) that maps every register occurring in some
      shot to the strings of the shots having it, **in shot order**. -/
theorem registerBitstrings_decides (sn sl : Bool) (shots : List (List Entry)) (bs : List (Dict Str Str))
    (h : perShotBits shots = .ok bs) :
    (Bad sn sl bs → registerBitstrings sn sl shots = .error .valueError) ∧
    (¬ Bad sn sl bs → ∃ d, registerBitstrings sn sl shots = .ok d ∧ Dict.NodupKeys d ∧
      ∀ r, Dict.get r d = nonEmpty (column r bs)) := by
  have := resultLoop_spec sn sl shots [] [] inv_nil
    (by rintro (⟨_, h⟩ | ⟨_, h⟩) <;> exact h (by intro b hb; simp at hb)) (by simp)
  simp only [h, List.nil_append, List.length_nil] at this
  refine ⟨this.1, fun hn => ?_⟩
  obtain ⟨d, hd, hinv⟩ := this.2 hn
  exact ⟨d, hd, hinv.nd, hinv.col⟩

/-- Rejection happens exactly on a violated strict option. -/
theorem registerBitstrings_rejects_iff (sn sl : Bool) (shots : List (List Entry)) (bs : List (Dict Str Str))
    (h : perShotBits shots = .ok bs) :
    registerBitstrings sn sl shots = .error .valueError ↔ Bad sn sl bs := by
  have := registerBitstrings_decides sn sl shots bs h
  constructor
  · intro he
    apply Classical.byContradiction
    intro hn
    obtain ⟨d, hd, _⟩ := this.2 hn
    rw [hd] at he; cases he
  · exact this.1

/-- `strict_names` rejects iff the register sets differ (F19: also when a later shot has more). -/
theorem strict_names_rejects_iff (shots : List (List Entry)) (bs : List (Dict Str Str))
    (h : perShotBits shots = .ok bs) :
    registerBitstrings true false shots = .error .valueError ↔ ¬ SameKeys bs := by
  rw [registerBitstrings_rejects_iff true false shots bs h]; simp [Bad]

/-- `strict_lengths` rejects iff some register has differing lengths. -/
theorem strict_lengths_rejects_iff (shots : List (List Entry)) (bs : List (Dict Str Str))
    (h : perShotBits shots = .ok bs) :
    registerBitstrings false true shots = .error .valueError ↔ ¬ SameLens bs := by
  rw [registerBitstrings_rejects_iff false true shots bs h]; simp [Bad]

/-- Both options together (what `to_pytket` asks for). -/
theorem strict_both_rejects_iff (shots : List (List Entry)) (bs : List (Dict Str Str))
    (h : perShotBits shots = .ok bs) :
    registerBitstrings true true shots = .error .valueError ↔ ¬ SameKeys bs ∨ ¬ SameLens bs := by
  rw [registerBitstrings_rejects_iff true true shots bs h]; simp [Bad]

/-- Without strict options nothing but a non-bit is rejected. -/
theorem nonstrict_accepts (shots : List (List Entry)) (bs : List (Dict Str Str))
    (h : perShotBits shots = .ok bs) : ∃ d, registerBitstrings false false shots = .ok d := by
  obtain ⟨d, hd, _⟩ := (registerBitstrings_decides false false shots bs h).2 (by simp [Bad])
  exact ⟨d, hd⟩

/-- No other exception escapes (`shot_dct[reg][0]` is always defined). -/
theorem registerBitstrings_no_indexError (sn sl : Bool) (shots : List (List Entry)) :
    registerBitstrings sn sl shots ≠ .error .indexError := by
  cases h : perShotBits shots with
  | error e => rw [registerBitstrings_nonbit sn sl shots e h]; simp
  | ok bs =>
    have := registerBitstrings_decides sn sl shots bs h
    by_cases hb : Bad sn sl bs
    · rw [this.1 hb]; simp
    · obtain ⟨d, hd, _⟩ := this.2 hb; rw [hd]; simp

/-- **Shot order.** Whatever the flags, a returned dict lists for every register the per-shot strings
    (of the shots having that register) in shot order, and nothing else. -/
theorem bitstrings_in_shot_order (sn sl : Bool) (shots : List (List Entry)) (d : Dict Str (List Str))
    (h : registerBitstrings sn sl shots = .ok d) :
    ∃ bs, perShotBits shots = .ok bs ∧ Dict.NodupKeys d ∧ ∀ r, Dict.get r d = nonEmpty (column r bs) := by
  cases hp : perShotBits shots with
  | error e => rw [registerBitstrings_nonbit sn sl shots e hp] at h; cases h
  | ok bs =>
    have := registerBitstrings_decides sn sl shots bs hp
    by_cases hb : Bad sn sl bs
    · rw [this.1 hb] at h; cases h
    · obtain ⟨d', hd, hnd, hcol⟩ := this.2 hb
      rw [hd] at h; cases h
      exact ⟨bs, rfl, hnd, hcol⟩

-- F19's replay input: the second shot has one register more
example : registerBitstrings true false
    [[(['a'], .prim (.int 1))], [(['a'], .prim (.int 1)), (['b'], .prim (.int 0))]] = .error .valueError := by decide
example : registerBitstrings false false
    [[(['a'], .prim (.int 1))], [(['a'], .prim (.int 0)), (['b'], .prim (.int 0))]]
    = .ok [(['a'], [['1'], ['0']]), (['b'], [['0']])] := by decide
example : registerBitstrings true true
    [[(['a'], .list [.prim (.int 1), .prim (.int 0)])], [(['a', '[', '1', ']'], .prim (.int 1))]]
    = .ok [(['a'], [['1', '0'], ['0', '1']])] := by decide
example : registerBitstrings false true
    [[(['a'], .list [.prim (.int 1), .prim (.int 0)])], [(['a'], .prim (.int 1))]] = .error .valueError := by decide
example : perShotBits [[(['a'], .prim (.int 1))], [(['a'], .prim (.int 1)), (['b'], .prim (.int 0))]]
    = .ok [[(['a'], ['1'])], [(['a'], ['1']), (['b'], ['0'])]] := by decide
example : ¬ SameKeys [[(['a'], ['1'])], [(['a'], ['1']), (['b'], ['0'])]] := by
  intro h
  have := (h [(['a'], ['1'])] (by simp) [(['a'], ['1']), (['b'], ['0'])] (by simp) ['b']).mpr (by decide)
  revert this; decide

/-! ## Counts -/

/-- `Counter(xs)` holds exactly the values that occur, each with its number of occurrences. -/
theorem counter_counts {α : Type} [DecidableEq α] (xs : List α) (y : α) :
    Dict.get y (counter xs) = if xs.count y = 0 then none else some (xs.count y) :=
  counter_get xs y

/-- `register_counts` is rejected exactly when `register_bitstrings` is (same flags), and otherwise
    holds, per register, the `Counter` of that register's bitstring list. -/
theorem registerCounts_spec (sn sl : Bool) (shots : List (List Entry)) :
    match registerBitstrings sn sl shots with
    | .error e => registerCounts sn sl shots = .error e
    | .ok d => ∃ c, registerCounts sn sl shots = .ok c ∧ Dict.keys c = Dict.keys d ∧
        ∀ r, Dict.get r c = (Dict.get r d).map counter := by
  unfold registerCounts
  cases registerBitstrings sn sl shots with
  | error e => rfl
  | ok d => exact ⟨mapVals counter d, rfl, keys_mapVals _ _, fun r => get_mapVals counter r d⟩

example : registerCounts false false
    [[(['a'], .prim (.int 1))], [(['a'], .prim (.int 0))], [(['a'], .prim (.bool true))]]
    = .ok [(['a'], [(['1'], 2), (['0'], 1)])] := by decide

/-! ## Collation -/

/-- `collate_tags` maps every tag that occurs (once each) to all its values in entry order. -/
theorem collateTags_spec (es : List Entry) :
    Dict.NodupKeys (collateTags es) ∧ ∀ t, Dict.get t (collateTags es) = nonEmpty (valuesOf t es) :=
  ⟨collateTags_nodup es, collateTags_get es⟩

/-- **Collated key of a shot**: one pair per tag that occurs, and the string of a tag is the
    concatenation, in entry order, of the bits of all its values (nested lists flattened). -/
theorem collated_concat (es : List Entry) (key : List (Str × Str)) (h : collatedKey es = .ok key) :
    (key.map (·.1)).Nodup ∧ (∀ t, t ∈ key.map (·.1) ↔ ∃ e ∈ es, e.1 = t) ∧
    ∀ t s, (t, s) ∈ key → ∃ bits, primBits (flattenL (valuesOf t es)) = .ok bits ∧ s = render bits := by
  obtain ⟨h1, h2⟩ := keyOf_spec (collateTags es) key h
  refine ⟨?_, ?_, ?_⟩
  · rw [h1]; exact collateTags_nodup es
  · intro t
    rw [h1]
    constructor
    · intro ht
      obtain ⟨p, hp, rfl⟩ := List.mem_map.mp ht
      exact ((mem_collateTags es p.1 p.2).mp hp).2
    · intro hex
      have : (t, valuesOf t es) ∈ collateTags es := (mem_collateTags es t _).mpr ⟨rfl, hex⟩
      exact List.mem_map.mpr ⟨_, this, rfl⟩
  · intro t s hm
    obtain ⟨data, hd, hf⟩ := h2 t s hm
    have := ((mem_collateTags es t data).mp hd).1
    subst this
    unfold flatBitstring at hf
    rw [castPrims_eq] at hf
    cases hb : primBits (flattenL (valuesOf t es)) with
    | error e => simp [hb] at hf
    | ok bits => simp [hb] at hf; exact ⟨bits, rfl, hf.symm⟩

/-- A shot's collation is rejected iff some (flattened) value is not a bit. -/
theorem collated_rejects_iff (es : List Entry) :
    collatedKey es = .error {} ↔ ∃ e ∈ es, ∃ p ∈ flatten e.2, ¬ IsBit (.prim p) := by
  unfold collatedKey
  rw [keyOf_error_iff]
  constructor
  · rintro ⟨⟨t, data⟩, hp, hf⟩
    have hd := ((mem_collateTags es t data).mp hp).1
    simp only at hf hd
    subst hd
    unfold flatBitstring at hf
    rw [castPrims_eq] at hf
    cases hb : primBits (flattenL (valuesOf t es)) with
    | ok bits => simp [hb] at hf
    | error e =>
      cases e
      obtain ⟨p, hp, hnb⟩ := (primBits_error_iff _).mp hb
      obtain ⟨v, hv, hpv⟩ := (mem_flattenL p _).mp hp
      exact ⟨(t, v), (mem_valuesOf v t es).mp hv, p, hpv, hnb⟩
  · rintro ⟨⟨t, v⟩, he, p, hp, hnb⟩
    refine ⟨(t, valuesOf t es), (mem_collateTags es t _).mpr ⟨rfl, (t, v), he, rfl⟩, ?_⟩
    simp only [flatBitstring]
    rw [castPrims_eq]
    have : primBits (flattenL (valuesOf t es)) = .error {} :=
      (primBits_error_iff _).mpr ⟨p, (mem_flattenL p _).mpr ⟨v, (mem_valuesOf v t es).mpr he, hp⟩, hnb⟩
    simp [this]

/-- `collated_counts` is the `Counter` of the per-shot keys (and is rejected iff one of them is). -/
theorem collatedCounts_spec (shots : List (List Entry)) :
    collatedCounts shots = match collatedKeys shots with
      | .error _ => .error .valueError
      | .ok ks => .ok (counter ks) := rfl

-- the docstring example: `[("a", 1), ("a", 0)]` and `[("a", [0, 1])]`
example : collatedCounts [[(['a'], .prim (.int 1)), (['a'], .prim (.int 0))],
    [(['a'], .list [.prim (.int 0), .prim (.int 1)])]]
    = .ok [([(['a'], ['1', '0'])], 1), ([(['a'], ['0', '1'])], 1)] := by decide
example : collatedKey [(['a'], .list [.prim (.int 1), .list [.prim (.bool false), .prim (.int 1)]]),
    (['b'], .prim (.int 0)), (['a'], .prim (.int 1))] = .ok [(['a'], ['1', '0', '1', '1']), (['b'], ['0'])] := by decide
example : collatedKey [(['a'], .list [.prim (.int 1), .list [.prim (.float ['2', '.', '0'])]])] = .error {} := by decide

end HugrVerif.Props.C19
