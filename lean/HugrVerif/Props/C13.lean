/-
  C13 — Builders refuse inconsistent constructions instead of recording them.

  Property theorems only, on the builder model (`Build/Wire.lean`, `Build/State.lean`, `Build.lean`,
  mirroring `hugr/build/*.py`); lemmas in `Proofs/Build.lean`.  One theorem per clause of the statement:
  "the method returns an error of the documented class", each with the converse where the statement
  implies it.  The state after a raise is not claimed (the Python has often already mutated it).
  A negative case index is Python indexing, not "out of range" (ledger F26: not claimed).
-/
import HugrVerif.Proofs.Build
import HugrVerif.Proofs.PyEq

namespace HugrVerif.Props.C13
open HugrVerif HugrVerif.Build HugrVerif.Build.BuildState

/-! ## 1. a wire whose source has no ancestor-sibling relation to its target -/

/-- **NoSiblingAncestor**: when `_ancestral_sibling` finds no ancestor of the target that is a sibling of
    the source, `_wire_up_port` raises `NoSiblingAncestor` (before anything is mutated). -/
theorem wire_no_sibling_ancestor (s : St) (node off : Nat) (w : Wire)
    (h : ancestralSibling s w.1 node = .ok none) :
    wireUpPortBase s node off w = .error .noSiblingAncestor := by
  simp [wireUpPortBase, h]

/-- Converse: `NoSiblingAncestor` is raised *only* in that case — a wire with a sibling ancestor is never
    refused with it. -/
theorem no_sibling_ancestor_iff (s : St) (node off : Nat) (w : Wire) :
    wireUpPortBase s node off w = .error .noSiblingAncestor ↔ ancestralSibling s w.1 node = .ok none := by
  constructor
  · intro h
    unfold wireUpPortBase at h
    cases ha : ancestralSibling s w.1 node with
    | error e =>
      simp only [ha] at h
      injection h with h; subst h
      rcases ancestralSibling_error s w.1 node _ ha with h1 | h1 <;> cases h1
    | ok o =>
      cases o with
      | none => rfl
      | some a => simp only [ha] at h; exact absurd h (linkPort_ne_noSib s a node off w)
  · exact wire_no_sibling_ancestor s node off w

/-- What "no sibling ancestor" means: the source exists and no node on the path from the target to its
    root (the target included) has the same parent as the source. -/
theorem no_sibling_ancestor_spec (s : St) (src tgt : Nat) (h : ancestralSibling s src tgt = .ok none) :
    ∃ sp, nodeParent s src = .ok sp ∧
      ∀ a p, Anc s tgt a → nodeParent s a = .ok (some p) → sp ≠ some p := by
  unfold ancestralSibling at h
  cases hp : nodeParent s src with
  | error e => simp [hp] at h
  | ok sp =>
    simp only [hp] at h
    exact ⟨sp, rfl, ancSibLoop_none s sp _ tgt h⟩

/-- … and what a found sibling ancestor is: an ancestor-or-self of the target with the parent of the
    source. -/
theorem sibling_ancestor_spec (s : St) (src tgt a : Nat) (h : ancestralSibling s src tgt = .ok (some a)) :
    ∃ p, nodeParent s src = .ok (some p) ∧ Anc s tgt a ∧ nodeParent s a = .ok (some p) := by
  unfold ancestralSibling at h
  cases hp : nodeParent s src with
  | error e => simp [hp] at h
  | ok sp =>
    simp only [hp] at h
    obtain ⟨p, e1, e2, e3⟩ := ancSibLoop_some s sp _ tgt a h
    exact ⟨p, by rw [e1], e2, e3⟩

/-- non-vacuity: the root of a fresh HUGR has no sibling ancestor of itself -/
example : ancestralSibling (Store.init (.dfg [] none []) [] : St) 0 0 = .ok none := rfl

/-- Lifting to the whole argument list: the first wire without a sibling ancestor makes `_wire_up` raise
    `NoSiblingAncestor`, wherever it stands in the list. -/
theorem wireUpPorts_no_sibling_ancestor (node : Nat) (w : Wire) (post : List Wire) :
    ∀ (pre : List Wire) (s s1 : St) (i : Nat) (tys : List Ty),
    wireUpPorts none node s i pre = .ok (s1, tys) →
    ancestralSibling s1 w.1 node = .ok none →
    wireUpPorts none node s i (pre ++ w :: post) = .error .noSiblingAncestor := by
  intro pre
  induction pre with
  | nil =>
    intro s s1 i tys h1 h2
    simp only [wireUpPorts] at h1
    injection h1 with h1
    obtain ⟨rfl, _⟩ := Prod.mk.inj h1
    simp [wireUpPorts, wireUpPort, wire_no_sibling_ancestor s node i w h2]
  | cons p pre ih =>
    intro s s1 i tys h1 h2
    simp only [wireUpPorts, List.cons_append] at h1 ⊢
    cases hp : wireUpPort s none node i p with
    | error e => simp [hp] at h1
    | ok r =>
      obtain ⟨sa, t⟩ := r
      simp only [hp] at h1 ⊢
      cases hr : wireUpPorts none node sa (i + 1) pre with
      | error e => simp [hr] at h1
      | ok r2 =>
        obtain ⟨sb, ts⟩ := r2
        simp only [hr] at h1
        injection h1 with h1
        obtain ⟨rfl, _⟩ := Prod.mk.inj h1
        rw [ih sa sb (i + 1) ts hr h2]

theorem wireUp_no_sibling_ancestor (s s1 : St) (node : Nat) (pre post : List Wire) (w : Wire) (tys : List Ty)
    (h1 : wireUpPorts none node s 0 pre = .ok (s1, tys))
    (h2 : ancestralSibling s1 w.1 node = .ok none) :
    wireUp s none node (pre ++ w :: post) = .error .noSiblingAncestor := by
  simp [wireUp, wireUpPorts_no_sibling_ancestor node w post pre s s1 0 tys h1 h2]

/-! ## 2. inside a basic block: a source outside the enclosing control-flow graph -/

/-- **NotInSameCfg**: `Block._wire_up_port` raises it exactly when there is no sibling ancestor *and* the
    walk from the source's parent towards the root does not meet the enclosing CFG node. -/
theorem block_wire_not_in_cfg_iff (s : St) (blockNode node off : Nat) (w : Wire) (cfg : Nat) (sp : Option Nat)
    (hb : nodeParent s blockNode = .ok (some cfg)) (hs : nodeParent s w.1 = .ok sp) :
    wireUpPortBlock s blockNode node off w = .error .notInSameCfg ↔
      (ancestralSibling s w.1 node = .ok none ∧
        inCfgLoop s cfg (s.nodes.length + 1) sp = .error .notInSameCfg) := by
  unfold wireUpPortBlock
  simp only [hb, hs]
  constructor
  · intro h
    cases hw : wireUpPortBase s node off w with
    | ok r =>
      obtain ⟨s1, t⟩ := r
      simp only [hw] at h
      split at h
      · rename_i e he
        injection h with h; subst h
        exact absurd he (getDataflowType_ne_notInCfg _ _)
      · cases h
    | error e =>
      by_cases hn : e = .noSiblingAncestor
      · subst hn
        simp only [hw] at h
        refine ⟨(no_sibling_ancestor_iff s node off w).mp hw, ?_⟩
        split at h
        · rename_i e he; injection h with h; subst h; exact he
        · split at h
          · rename_i e he
            injection h with h; subst h
            exact absurd he (liftS_ne_notInCfg _)
          · split at h
            · rename_i e he
              injection h with h; subst h
              exact absurd he (getDataflowType_ne_notInCfg _ _)
            · cases h
      · -- any other error of the base method is passed on unchanged, and it is not NotInSameCfg
        have : wireUpPortBase s node off w ≠ .error .notInSameCfg := by
          unfold wireUpPortBase
          cases ha : ancestralSibling s w.1 node with
          | error e' =>
            simp only
            intro hc; injection hc with hc; subst hc
            rcases ancestralSibling_error s w.1 node _ ha with h1 | h1 <;> cases h1
          | ok o =>
            cases o with
            | none => simp
            | some a => exact linkPort_ne_notInCfg s a node off w
        rw [hw] at this
        cases e <;> simp_all
  · rintro ⟨h1, h2⟩
    rw [wire_no_sibling_ancestor s node off w h1]
    simp [h2]

/-- What a successful CFG walk means: the enclosing CFG node is the source's parent or an ancestor of
    it. -/
theorem inCfgLoop_ok_spec (s : St) (cfg : Nat) : ∀ (fuel : Nat) (sp : Option Nat),
    inCfgLoop s cfg fuel sp = .ok () → ∃ p, sp = some p ∧ Anc s p cfg := by
  intro fuel
  induction fuel with
  | zero => intro sp h; simp [inCfgLoop] at h
  | succ fuel ih =>
    intro sp h
    unfold inCfgLoop at h
    by_cases hc : sp = some cfg
    · exact ⟨cfg, hc, Anc.refl _⟩
    · simp only [hc, if_false] at h
      cases sp with
      | none => simp at h
      | some p =>
        simp only at h
        by_cases hr : p = s.root
        · simp [hr] at h
        · simp only [hr, if_false] at h
          cases hp : nodeParent s p with
          | error e => simp [hp] at h
          | ok pp =>
            simp only [hp] at h
            obtain ⟨q, e1, e2⟩ := ih pp h
            subst e1
            exact ⟨p, rfl, Anc.step p q cfg hp e2⟩

/-- … so a source whose ancestors do not include the CFG node is refused: the walk cannot succeed. -/
theorem block_wire_outside_cfg_refused (s : St) (cfg : Nat) (fuel : Nat) (sp : Option Nat)
    (h : ∀ p, sp = some p → ¬ Anc s p cfg) : inCfgLoop s cfg fuel sp ≠ .ok () := by
  intro hc
  obtain ⟨p, e1, e2⟩ := inCfgLoop_ok_spec s cfg fuel sp hc
  exact h p e1 e2

/-! ## 3. conditionals -/

/-- **Conditional cases with different outputs**: once the conditional's outputs are established, a case
    whose outputs do not compare equal (Python `==` on rows) raises `ConditionalError`. -/
theorem case_output_mismatch (st : BuildState) (ci : Nat) (c : BRec) (s : St) (sm : SumTy) (oi prev outs : List Ty)
    (hc : st.getB ci = .ok c) (hs : st.getHugr c.hid = .ok s)
    (hop : nodeOp s c.parent.1 = .ok (.conditional sm oi (some prev)))
    (hne : rowEq outs prev = false) :
    condUpdateOutputs st ci outs = .error .conditionalError := by
  simp [condUpdateOutputs, hc, hs, hop, hne]

/-- Converse: equal outputs are accepted and nothing changes. -/
theorem case_output_match_accepted (st : BuildState) (ci : Nat) (c : BRec) (s : St) (sm : SumTy)
    (oi prev outs : List Ty)
    (hc : st.getB ci = .ok c) (hs : st.getHugr c.hid = .ok s)
    (hop : nodeOp s c.parent.1 = .ok (.conditional sm oi (some prev)))
    (heq : rowEq outs prev = true) :
    condUpdateOutputs st ci outs = .ok st := by
  simp [condUpdateOutputs, hc, hs, hop, heq]

theorem case_output_mismatch_iff (st : BuildState) (ci : Nat) (c : BRec) (s : St) (sm : SumTy)
    (oi prev outs : List Ty)
    (hc : st.getB ci = .ok c) (hs : st.getHugr c.hid = .ok s)
    (hop : nodeOp s c.parent.1 = .ok (.conditional sm oi (some prev))) :
    condUpdateOutputs st ci outs = .error .conditionalError ↔ rowEq outs prev = false := by
  cases h : rowEq outs prev with
  | true => simp [case_output_match_accepted st ci c s sm oi prev outs hc hs hop h]
  | false => simp [case_output_mismatch st ci c s sm oi prev outs hc hs hop h]

/-- The same at the level of `Case.set_outputs`: after the case's own outputs have been wired, differing
    output types make the call raise `ConditionalError`. -/
theorem set_outputs_case_mismatch (st st1 : BuildState) (bi ci : Nat) (r c : BRec) (s1 s : St) (ws : List Wire)
    (sm : SumTy) (oi prev outs : List Ty)
    (h1 : setOutputsBase st bi ws = .ok st1) (hr : st1.getB bi = .ok r) (hpc : r.parentCond = some ci)
    (hs1 : st1.getHugr r.hid = .ok s1) (ht : wireTypes s1 ws = .ok outs)
    (hc : st1.getB ci = .ok c) (hs : st1.getHugr c.hid = .ok s)
    (hop : nodeOp s c.parent.1 = .ok (.conditional sm oi (some prev)))
    (hne : rowEq outs prev = false) :
    setOutputsCase st bi ws = .error .conditionalError := by
  simp [setOutputsCase, h1, hr, hpc, hs1, ht, case_output_mismatch st1 ci c s sm oi prev outs hc hs hop hne]

/-- **Case index out of range** (`case_id >= len`; a negative index is Python indexing, F26). -/
theorem case_out_of_range (st : BuildState) (ci : Nat) (c : BRec) (k : Int)
    (hc : st.getB ci = .ok c) (hk : (c.cases.length : Int) ≤ k) :
    addCase st ci k = .error .conditionalError := by
  simp [addCase, hc, hk]

/-- Converse: an index in range whose case has not been built is accepted, returns the stored case
    builder and marks it built. -/
theorem case_in_range_accepted (st : BuildState) (ci : Nat) (c : BRec) (k cb : Nat)
    (hc : st.getB ci = .ok c) (hget : c.cases[k]? = some (cb, false)) :
    addCase st ci (k : Int) = .ok (st.setB ci { c with cases := c.cases.set k (cb, true) }, cb) := by
  have hk : k < c.cases.length := (List.getElem?_eq_some_iff.mp hget).1
  have : ¬ ((c.cases.length : Int) ≤ (k : Int)) := by omega
  simp [addCase, hc, this, pyGet_nat, hget, pySet_nat]

/-- **Case built twice**: the second `add_case` of the same index raises `ConditionalError`. -/
theorem case_built_twice (st st1 : BuildState) (ci k cb : Nat)
    (h : addCase st ci (k : Int) = .ok (st1, cb)) :
    addCase st1 ci (k : Int) = .error .conditionalError := by
  unfold addCase at h
  cases hc : st.getB ci with
  | error e => simp [hc] at h
  | ok c =>
    simp only [hc] at h
    by_cases hk : (k : Int) ≥ (c.cases.length : Int)
    · simp [hk] at h
    · simp only [hk, if_false, pyGet_nat] at h
      cases hg : c.cases[k]? with
      | none => simp [hg] at h
      | some x =>
        obtain ⟨cb', built⟩ := x
        simp only [hg] at h
        cases built with
        | true => simp at h
        | false =>
          simp only [Bool.false_eq_true, if_false, pySet_nat] at h
          injection h with h
          obtain ⟨rfl, rfl⟩ := Prod.mk.inj h
          have hlt : k < c.cases.length := (List.getElem?_eq_some_iff.mp hg).1
          have hk' : ¬ ((k : Int) ≥ ((c.cases.set k (cb', true)).length : Int)) := by simpa using hk
          unfold addCase
          rw [getB_setB st ci c _ hc]
          simp only [hk', if_false, pyGet_nat]
          simp [hlt]

/-- **Leaving the context with unbuilt cases**: `__exit__` raises `ConditionalError` exactly when some
    case has not been built. -/
theorem exit_with_unbuilt_cases (st : BuildState) (ci : Nat) (c : BRec) (hc : st.getB ci = .ok c) :
    condExit st ci = .error .conditionalError ↔ ∃ x ∈ c.cases, x.2 = false := by
  unfold condExit
  simp only [hc]
  cases h : c.cases.all (·.2) with
  | true =>
    simp only [if_true]
    constructor
    · intro hh; cases hh
    · rintro ⟨x, hx, hf⟩
      have := List.all_eq_true.mp h x hx
      simp [hf] at this
  | false =>
    simp only [Bool.false_eq_true, if_false, true_iff]
    obtain ⟨x, hx, hnx⟩ := List.all_eq_false.mp h
    refine ⟨x, hx, ?_⟩
    cases hx2 : x.2 with
    | true => simp [hx2] at hnx
    | false => rfl

/-! ## 3b. "disagree" does not depend on the order of presentation -/

/-- **The comparison of rows the builders use (Python `==` on type rows) is an equivalence relation**: reflexive,
    SYMMETRIC and transitive.  So whether two cases "disagree on their outputs", an exit branch "disagrees with the
    established exit type" or a function's outputs "differ from its declared outputs" does not depend on which of
    the two rows was given first (seeded change C13-13 made `Sum.__eq__` asymmetric: each builder then accepted a
    unit sum against a general sum with as many variants in one order only). -/
theorem rowEq_refl (a : List Ty) : rowEq a a = true := Ty.pyEqRow_refl a
theorem rowEq_symm (a b : List Ty) : rowEq a b = rowEq b a := Ty.pyEqRow_symm a b
theorem rowEq_trans (a b c : List Ty) (h1 : rowEq a b = true) (h2 : rowEq b c = true) : rowEq a c = true :=
  Ty.pyEqRow_trans a b c h1 h2

/-- A general sum compares equal to `UnitSum(n)` exactly when it has `n` variants, all without fields — the
    identification the specification makes, and no other sum does. -/
theorem unit_sum_lookalike (r : List (List Ty)) (n : Nat) :
    Ty.pyEq (.sum r) (.unitSum n) = (r.length == n && r.all List.isEmpty) ∧
    Ty.pyEq (.unitSum n) (.sum r) = (r.length == n && r.all List.isEmpty) := by
  refine ⟨Ty.pyEq_sum_unit r n, ?_⟩
  rw [Ty.pyEq_symm]; exact Ty.pyEq_sum_unit r n

/-- non-vacuity of the look-alike pair of C13-13: `Option(Bool)` (a general sum with two variants) and `Bool` are
    unequal in BOTH orders -/
example : rowEq [.sum [[.unitSum 2], []]] [.unitSum 2] = false ∧ rowEq [.unitSum 2] [.sum [[.unitSum 2], []]] = false := by
  simp [rowEq, Ty.pyEqRow, Ty.pyEq, emptyRows]

/-- A definition-backed extension type and an opaque type are never equal rows for the builders, in either order and
    whatever their names and arguments (the comparison is on representations: a resolved `int<5>` against an unresolved
    `int<6>` — seeded change C13-15 took such a pair as equal without looking at the arguments). -/
theorem ext_never_equals_opaque (d : TypeDefRef) (a a' : List TypeArg) (i : String) (b : Bound) (e : String) :
    rowEq [.extType d a] [.opaque i b a' e] = false ∧ rowEq [.opaque i b a' e] [.extType d a] = false := by
  constructor <;> simp [rowEq, Ty.pyEqRow, Ty.pyEq]

/-- **Conditional cases, either order**: with the outputs `prev` established, a case with outputs `outs` is refused
    exactly when the two rows differ — stated with the rows in the other order than the code compares them. -/
theorem case_output_mismatch_iff_symm (st : BuildState) (ci : Nat) (c : BRec) (s : St) (sm : SumTy)
    (oi prev outs : List Ty)
    (hc : st.getB ci = .ok c) (hs : st.getHugr c.hid = .ok s)
    (hop : nodeOp s c.parent.1 = .ok (.conditional sm oi (some prev))) :
    condUpdateOutputs st ci outs = .error .conditionalError ↔ rowEq prev outs = false := by
  rw [rowEq_symm prev outs]
  exact case_output_mismatch_iff st ci c s sm oi prev outs hc hs hop

/-- the verdict on a pair of case rows is the same whichever of the two cases set its outputs first -/
theorem case_order_irrelevant (st st' : BuildState) (ci ci' : Nat) (c c' : BRec) (s s' : St) (sm sm' : SumTy)
    (oi oi' a b : List Ty)
    (hc : st.getB ci = .ok c) (hs : st.getHugr c.hid = .ok s)
    (hop : nodeOp s c.parent.1 = .ok (.conditional sm oi (some a)))
    (hc' : st'.getB ci' = .ok c') (hs' : st'.getHugr c'.hid = .ok s')
    (hop' : nodeOp s' c'.parent.1 = .ok (.conditional sm' oi' (some b))) :
    (condUpdateOutputs st ci b = .error .conditionalError ↔ condUpdateOutputs st' ci' a = .error .conditionalError) := by
  rw [case_output_mismatch_iff st ci c s sm oi a b hc hs hop,
    case_output_mismatch_iff st' ci' c' s' sm' oi' b a hc' hs' hop', rowEq_symm]

/-! ## 4. an exit branch that disagrees with the established exit type -/

/-- **MismatchedExit**: a branch to the exit block whose successor row differs (Python `==`) from the
    exit type established by an earlier exit branch raises `MismatchedExit`. -/
theorem exit_mismatch (st : BuildState) (ci : Nat) (c : BRec) (s s1 : St) (w : Wire) (outTypes prev : List Ty)
    (hc : st.getB ci = .ok c) (hs : st.getHugr c.hid = .ok s)
    (hl : Store.addLink s w (c.exit.1, 0) = .ok s1)
    (hn : nthOutputsOf s w = .ok outTypes)
    (hx : nodeOp s c.exit.1 = .ok (.exitBlock (some prev)))
    (hne : rowEq prev outTypes = false) :
    branchExit st ci w = .error .mismatchedExit := by
  have e1 : nthOutputsOf s1 w = .ok outTypes := by
    rw [← hn]; unfold nthOutputsOf typedOp; rw [addLink_nodeOp s s1 _ _ hl]
  have e2 : typedOp s1 c.exit.1 isExitOp = .ok (.exitBlock (some prev)) := by
    unfold typedOp; rw [addLink_nodeOp s s1 _ _ hl, hx]; simp [isExitOp]
  simp [branchExit, hc, hs, hl, liftS, e1, e2, hne]

/-- Converse: an equal successor row is accepted (only the control-flow link is added). -/
theorem exit_match_accepted (st : BuildState) (ci : Nat) (c : BRec) (s s1 : St) (w : Wire)
    (outTypes prev : List Ty)
    (hc : st.getB ci = .ok c) (hs : st.getHugr c.hid = .ok s)
    (hl : Store.addLink s w (c.exit.1, 0) = .ok s1)
    (hn : nthOutputsOf s w = .ok outTypes)
    (hx : nodeOp s c.exit.1 = .ok (.exitBlock (some prev)))
    (heq : rowEq prev outTypes = true) :
    branchExit st ci w = .ok (st.setHugr c.hid s1) := by
  have e1 : nthOutputsOf s1 w = .ok outTypes := by
    rw [← hn]; unfold nthOutputsOf typedOp; rw [addLink_nodeOp s s1 _ _ hl]
  have e2 : typedOp s1 c.exit.1 isExitOp = .ok (.exitBlock (some prev)) := by
    unfold typedOp; rw [addLink_nodeOp s s1 _ _ hl, hx]; simp [isExitOp]
  simp [branchExit, hc, hs, hl, liftS, e1, e2, heq]

/-- `Cfg.branch` to the exit node is `branch_exit`. -/
theorem branch_to_exit (st : BuildState) (ci : Nat) (c : BRec) (w : Wire) (hc : st.getB ci = .ok c) :
    branch st ci w c.exit.1 = branchExit st ci w := by
  simp [branch, hc]

/-! ## 5. function outputs that differ from the declared outputs -/

/-- **Declared-output check**: `Function.set_outputs` raises `ValueError` (before wiring anything) when
    the types of the given wires differ from the declared outputs. -/
theorem declared_outputs_mismatch (st : BuildState) (bi : Nat) (r : BRec) (s : St) (ws : List Wire)
    (declared argTypes : List Ty)
    (hb : st.getB bi = .ok r) (hs : st.getHugr r.hid = .ok s)
    (hd : declaredOutputs s r.parent.1 = .ok (some declared))
    (ht : wireTypes s ws = .ok argTypes) (hne : rowEq argTypes declared = false) :
    setOutputsFunction st bi ws = .error .valueError := by
  simp [setOutputsFunction, hb, hs, hd, ht, hne]

/-- Converse: matching types (or no declaration) proceed to the ordinary `set_outputs`. -/
theorem declared_outputs_match_proceeds (st : BuildState) (bi : Nat) (r : BRec) (s : St) (ws : List Wire)
    (declared argTypes : List Ty)
    (hb : st.getB bi = .ok r) (hs : st.getHugr r.hid = .ok s)
    (hd : declaredOutputs s r.parent.1 = .ok (some declared))
    (ht : wireTypes s ws = .ok argTypes) (heq : rowEq argTypes declared = true) :
    setOutputsFunction st bi ws = setOutputsBase st bi ws := by
  simp [setOutputsFunction, hb, hs, hd, ht, heq]

theorem undeclared_outputs_proceed (st : BuildState) (bi : Nat) (r : BRec) (s : St) (ws : List Wire)
    (hb : st.getB bi = .ok r) (hs : st.getHugr r.hid = .ok s)
    (hd : declaredOutputs s r.parent.1 = .ok none) :
    setOutputsFunction st bi ws = setOutputsBase st bi ws := by
  simp [setOutputsFunction, hb, hs, hd]

/-! ## 6. polymorphic functions called or loaded without a matching instantiation -/

/-- **NoConcreteFunc, no instantiation**: a polymorphic signature without an instantiation. -/
theorem poly_without_instantiation (sig : Poly) (targs : Option (List TypeArg)) (hp : sig.params ≠ []) :
    Op.mkCall sig none targs = .error .noConcreteFunc ∧
    Op.mkLoadFunc sig none targs = .error .noConcreteFunc := by
  have : sig.params.length ≠ 0 := by simpa using hp
  simp [Op.mkCall, Op.mkLoadFunc, Op.callOrLoadInit, this, Bind.bind, Except.bind]

/-- **NoConcreteFunc, wrong number of type arguments** (`type_args or []`). -/
theorem type_arg_count_mismatch (sig : Poly) (inst : Sig) (targs : Option (List TypeArg))
    (hp : sig.params ≠ []) (hl : sig.params.length ≠ (targs.getD []).length) :
    Op.mkCall sig (some inst) targs = .error .noConcreteFunc ∧
    Op.mkLoadFunc sig (some inst) targs = .error .noConcreteFunc := by
  have h0 : sig.params.length ≠ 0 := by simpa using hp
  cases targs with
  | none => simp_all [Op.mkCall, Op.mkLoadFunc, Op.callOrLoadInit, Bind.bind, Except.bind]
  | some as => simp_all [Op.mkCall, Op.mkLoadFunc, Op.callOrLoadInit, Bind.bind, Except.bind]

/-- Converse: an instantiation with as many type arguments as parameters is accepted, and a
    monomorphic signature needs none. -/
theorem matching_instantiation_accepted (sig : Poly) (inst : Sig) (args : List TypeArg)
    (hp : sig.params ≠ []) (hl : sig.params.length = args.length) :
    Op.mkCall sig (some inst) (some args) = .ok (.call sig inst args) ∧
    Op.mkLoadFunc sig (some inst) (some args) = .ok (.loadFunc sig inst args) := by
  have h0 : sig.params.length ≠ 0 := by simpa using hp
  have h1 : args.length ≠ 0 := by omega
  have h2 : args ≠ [] := by intro hc; simp [hc] at h1
  simp [Op.mkCall, Op.mkLoadFunc, Op.callOrLoadInit, hl, h2, Bind.bind, Except.bind, pure, Except.pure]

theorem monomorphic_accepted (sig : Poly) (inst : Option Sig) (targs : Option (List TypeArg))
    (hp : sig.params = []) :
    Op.mkCall sig inst targs = .ok (.call sig sig.body []) := by
  simp [Op.mkCall, Op.callOrLoadInit, hp, Bind.bind, Except.bind, pure, Except.pure]

/-- At the level of the builder methods: `call` / `load_function` of a polymorphic function raise
    `NoConcreteFunc` (nothing has been added to the HUGR yet). -/
theorem call_without_instantiation (st : BuildState) (bi : Nat) (r : BRec) (s : St) (f : Nat) (sig : Poly)
    (ws : List Wire) (inst : Option Sig) (targs : Option (List TypeArg))
    (hb : st.getB bi = .ok r) (hs : st.getHugr r.hid = .ok s) (hf : fnSig s f = .ok sig)
    (hp : sig.params ≠ [])
    (hbad : inst = none ∨ sig.params.length ≠ (targs.getD []).length) :
    call st bi f ws inst targs = .error .noConcreteFunc ∧
    loadFunction st bi f inst targs = .error .noConcreteFunc := by
  have hm : Op.mkCall sig inst targs = .error .noConcreteFunc ∧
      Op.mkLoadFunc sig inst targs = .error .noConcreteFunc := by
    cases inst with
    | none => exact poly_without_instantiation sig targs hp
    | some i =>
      rcases hbad with h | h
      · cases h
      · exact type_arg_count_mismatch sig i targs hp h
  simp [call, loadFunction, hb, hs, hf, hm.1, hm.2, ofOpErr]

/-! ## 7. a non-function node used as a function -/

/-- **ValueError in `_fn_sig`**: the node's first output port is not of function kind. -/
theorem non_function_as_function (s : St) (f : Nat) (op : Op) (k : Kind)
    (ho : nodeOp s f = .ok op) (hk : Op.portKind op .out 0 = .ok k) (hnf : ∀ p, k ≠ .function p) :
    fnSig s f = .error .valueError := by
  cases k with
  | function p => exact absurd rfl (hnf p)
  | _ => simp [fnSig, ho, hk]

/-- … or the operation itself rejects the port (`InvalidPort`, `IncompleteOp`, …), which is also an
    error: `_fn_sig` never accepts a node without a function port. -/
theorem function_accepted_iff (s : St) (f : Nat) (p : Poly) :
    fnSig s f = .ok p ↔ ∃ op, nodeOp s f = .ok op ∧ Op.portKind op .out 0 = .ok (.function p) := by
  unfold fnSig
  constructor
  · intro h
    cases ho : nodeOp s f with
    | error e => simp [ho] at h
    | ok op =>
      simp only [ho] at h
      cases hk : Op.portKind op .out 0 with
      | error e => simp [hk] at h
      | ok k =>
        simp only [hk] at h
        cases k with
        | function q => injection h with h; subst h; exact ⟨op, rfl, hk⟩
        | _ => cases h
  · rintro ⟨op, ho, hk⟩
    simp [ho, hk]

theorem call_non_function (st : BuildState) (bi : Nat) (r : BRec) (s : St) (f : Nat) (op : Op) (k : Kind)
    (ws : List Wire) (inst : Option Sig) (targs : Option (List TypeArg))
    (hb : st.getB bi = .ok r) (hs : st.getHugr r.hid = .ok s)
    (ho : nodeOp s f = .ok op) (hk : Op.portKind op .out 0 = .ok k) (hnf : ∀ p, k ≠ .function p) :
    call st bi f ws inst targs = .error .valueError ∧
    loadFunction st bi f inst targs = .error .valueError := by
  simp [call, loadFunction, hb, hs, non_function_as_function s f op k ho hk hnf]

/-- non-vacuity: a `Const` node's output is of constant kind -/
example : Op.portKind (.const Value.unit) .out 0 = .ok (.const (Ty.unitSum 1)) := rfl

/-! ## 8. a non-dataflow port used as a wire -/

/-- **ValueError in `_get_dataflow_type`**: `Hugr.port_type` gives `None` (function, constant,
    control-flow ports; nodes that are not dataflow operations). -/
theorem non_dataflow_port_as_wire (s : St) (w : Wire) (op : Op)
    (ho : nodeOp s w.1 = .ok op) (hp : Op.hugrPortType op .out w.2 = .ok none) :
    getDataflowType s w = .error .valueError := by
  simp [getDataflowType, ho, hp]

/-- The order port (offset −1) of a complete dataflow operation has no type: `ValueError`. -/
theorem order_port_as_wire (s : St) (n : Nat) (op : Op) (sig : Sig)
    (ho : nodeOp s n = .ok op) (hd : op.isDataflowOp = true) (hsig : Op.outerSig op = .ok sig) :
    getDataflowType s (n, -1) = .error .valueError := by
  simp [getDataflowType, ho, Op.hugrPortType, hd, Op.portType, hsig, Op.sigPortType, Bind.bind, Except.bind, ofOpErr, Functor.map, Except.map]

/-- Converse: exactly the ports with a value type are accepted. -/
theorem dataflow_port_accepted_iff (s : St) (w : Wire) (t : Ty) :
    getDataflowType s w = .ok t ↔ ∃ op, nodeOp s w.1 = .ok op ∧ Op.hugrPortType op .out w.2 = .ok (some t) := by
  unfold getDataflowType
  constructor
  · intro h
    cases ho : nodeOp s w.1 with
    | error e => simp [ho] at h
    | ok op =>
      simp only [ho] at h
      cases hp : Op.hugrPortType op .out w.2 with
      | error e => simp [hp] at h
      | ok o =>
        cases o with
        | none => simp [hp] at h
        | some t' => simp only [hp] at h; injection h with h; subst h; exact ⟨op, rfl, hp⟩
  · rintro ⟨op, ho, hp⟩
    simp [ho, hp]

/-- non-vacuity: the function port of a `FuncDefn` and the constant port of a `Const` have no type -/
example : Op.hugrPortType (.funcDefn "f" [] [] (some [])) .out 0 = .ok none := rfl
example : Op.hugrPortType (.const Value.unit) .out 0 = .ok none := rfl

/-- At the level of `_wire_up_port`: with a sibling ancestor found and the links added, a source port
    without a value type makes the method raise `ValueError`. -/
theorem wire_up_non_dataflow_port (s s1 s2 : St) (anc node off : Nat) (w : Wire) (op : Op)
    (ha : ancestralSibling s w.1 node = .ok (some anc))
    (h1 : (if anc ≠ node then liftS (Store.addOrderLink s w.1 anc) else .ok s) = .ok s1)
    (h2 : Store.addLink s1 w (node, (off : Int)) = .ok s2)
    (ho : nodeOp s2 w.1 = .ok op) (hp : Op.hugrPortType op .out w.2 = .ok none) :
    wireUpPortBase s node off w = .error .valueError := by
  unfold wireUpPortBase
  rw [ha]
  simp only
  unfold linkPort
  rw [h1]
  simp only [liftS, h2, non_dataflow_port_as_wire s2 w op ho hp]

/-! ## 9. an integer wire in an untracked builder -/

theorem noInts_error_iff (args : List ComWire) (e : BuildErr) :
    noInts args = .error e ↔ e = .valueError ∧ ∃ i, ComWire.idx i ∈ args := by
  induction args with
  | nil => simp [noInts]
  | cons a rest ih =>
    cases a with
    | wire w =>
      unfold noInts
      cases hr : noInts rest with
      | error e' =>
        simp only
        rw [hr] at ih
        constructor
        · intro h; injection h with h; subst h
          obtain ⟨h1, i, hi⟩ := ih.mp rfl
          exact ⟨h1, i, List.mem_cons_of_mem _ hi⟩
        · rintro ⟨h1, i, hi⟩
          cases hi with
          | tail _ hi =>
            have := ih.mpr ⟨h1, i, hi⟩
            exact this
      | ok ws =>
        simp only
        rw [hr] at ih
        constructor
        · intro h; cases h
        · rintro ⟨h1, i, hi⟩
          cases hi with
          | tail _ hi => exact absurd (ih.mpr ⟨h1, i, hi⟩) (by simp)
    | idx i =>
      simp only [noInts]
      constructor
      · intro h; injection h with h; exact ⟨h.symm, i, List.mem_cons_self⟩
      · rintro ⟨h1, _⟩; rw [h1]

/-- **ValueError in `Dfg.add`**: a command holding an integer index, given to a builder that is not a
    `TrackedDfg`, raises `ValueError` before anything is added. -/
theorem int_wire_in_untracked (st : BuildState) (bi : Nat) (r : BRec) (op : Op) (args : List ComWire)
    (md : Serial.Meta) (hb : st.getB bi = .ok r) (hk : r.kind ≠ .tracked) (i : Nat) (hi : ComWire.idx i ∈ args) :
    addCom st bi op args md = .error .valueError := by
  have : noInts args = .error .valueError := (noInts_error_iff args _).mpr ⟨rfl, i, hi⟩
  simp [addCom, hb, hk, this]

/-- Converse: without integers the command is an ordinary `add_op`. -/
theorem wires_only_accepted (st : BuildState) (bi : Nat) (r : BRec) (op : Op) (args : List ComWire) (ws : List Wire)
    (md : Serial.Meta) (hb : st.getB bi = .ok r) (hk : r.kind ≠ .tracked) (h : noInts args = .ok ws) :
    addCom st bi op args md = addOp st bi op ws md := by
  simp [addCom, hb, hk, h]

/-! ## 10. an integer that names an untracked (or never tracked) wire -/

/-- **IndexError in `tracked_wire`**: the index is beyond the tracked list or has been untracked. -/
theorem untracked_index (tr : List (Option Wire)) (i : Nat) :
    trackedWire tr i = .error .indexError ↔ (tr[i]? = none ∨ tr[i]? = some none) := by
  unfold trackedWire
  cases h : tr[i]? with
  | none => simp
  | some o => cases o <;> simp

/-- Converse: a tracked index denotes its wire. -/
theorem tracked_index_accepted (tr : List (Option Wire)) (i : Nat) (w : Wire) :
    trackedWire tr i = .ok w ↔ tr[i]? = some (some w) := by
  unfold trackedWire
  cases h : tr[i]? with
  | none => simp
  | some o => cases o <;> simp

/-- every error of resolving the integer arguments is an `IndexError` … -/
theorem toWires_error (tr : List (Option Wire)) (args : List ComWire) (e : BuildErr)
    (h : toWires tr args = .error e) : e = .indexError := by
  induction args with
  | nil => simp [toWires] at h
  | cons a rest ih =>
    cases a with
    | wire w =>
      unfold toWires at h
      cases hr : toWires tr rest with
      | error e' => simp only [hr] at h; injection h with h; subst h; exact ih hr
      | ok ws => simp [hr] at h
    | idx i =>
      unfold toWires at h
      cases ht : trackedWire tr i with
      | error e' =>
        simp only [ht] at h; injection h with h; subst h
        unfold trackedWire at ht
        split at ht
        · cases ht
        · injection ht with ht; exact ht.symm
      | ok w =>
        simp only [ht] at h
        cases hr : toWires tr rest with
        | error e' => simp only [hr] at h; injection h with h; subst h; exact ih hr
        | ok ws => simp [hr] at h

/-- … and it is raised as soon as one argument names an untracked index. -/
theorem toWires_untracked_index (tr : List (Option Wire)) (args : List ComWire) (i : Nat)
    (hi : ComWire.idx i ∈ args) (hu : tr[i]? = none ∨ tr[i]? = some none) :
    toWires tr args = .error .indexError := by
  induction args with
  | nil => cases hi
  | cons a rest ih =>
    cases a with
    | wire w =>
      cases hi with
      | tail _ hi => simp [toWires, ih hi]
    | idx j =>
      unfold toWires
      cases ht : trackedWire tr j with
      | error e =>
        unfold trackedWire at ht
        split at ht
        · cases ht
        · injection ht with ht; rw [← ht]
      | ok w =>
        simp only
        cases hi with
        | head => rw [(untracked_index tr i).mpr hu] at ht; cases ht
        | tail _ hi => simp [ih hi]

/-- `TrackedDfg.add`, `set_indexed_outputs` and `untrack_wire` with an untracked index raise
    `IndexError` (nothing has been added yet). -/
theorem tracked_commands_untracked_index (st : BuildState) (bi : Nat) (r : BRec) (op : Op)
    (args : List ComWire) (md : Serial.Meta) (i : Nat)
    (hb : st.getB bi = .ok r) (hi : ComWire.idx i ∈ args)
    (hu : r.tracked[i]? = none ∨ r.tracked[i]? = some none) :
    trackedAdd st bi op args md = .error .indexError ∧
    setIndexedOutputs st bi args = .error .indexError := by
  simp [trackedAdd, setIndexedOutputs, hb, toWires_untracked_index r.tracked args i hi hu]

theorem untrack_untracked_index (st : BuildState) (bi : Nat) (r : BRec) (i : Nat)
    (hb : st.getB bi = .ok r) (hu : r.tracked[i]? = none ∨ r.tracked[i]? = some none) :
    untrackWire st bi i = .error .indexError := by
  simp [untrackWire, hb, (untracked_index r.tracked i).mpr hu]

/-- Untracking frees the index: afterwards it names no wire. -/
theorem untracked_after_untrack (st st1 : BuildState) (bi : Nat) (i : Nat) (w : Wire)
    (h : untrackWire st bi i = .ok (st1, w)) :
    ∃ r1, st1.getB bi = .ok r1 ∧ trackedWire r1.tracked i = .error .indexError := by
  unfold untrackWire at h
  cases hb : st.getB bi with
  | error e => simp [hb] at h
  | ok r =>
    simp only [hb] at h
    cases ht : trackedWire r.tracked i with
    | error e => simp [ht] at h
    | ok w' =>
      simp only [ht] at h
      injection h with h
      obtain ⟨rfl, _⟩ := Prod.mk.inj h
      refine ⟨_, getB_setB st bi r _ hb, ?_⟩
      have hlt : i < r.tracked.length := by
        have := (tracked_index_accepted r.tracked i w').mp ht
        exact (List.getElem?_eq_some_iff.mp this).1
      exact (untracked_index _ i).mpr (Or.inr (by simp [hlt]))

/-! ## 11. serialising an incomplete operation -/

/-- **IncompleteOp on serialisation**: `to_json` of a HUGR raises `IncompleteOp` when the first node (in
    serialisation order) whose operation cannot be encoded is an incomplete one — e.g. a dataflow
    parent whose `set_outputs` has not been called, or its `Output` node. -/
theorem serialize_incomplete (st : BuildState) (bi : Nat) (r : BRec) (s : St) (enc : String)
    (pre post : List Nat) (i : Nat) (d : Store.NodeData Op Serial.Meta) (p : Nat)
    (hb : st.getB bi = .ok r) (hs : st.getHugr r.hid = .ok s)
    (ho : Store.hierarchyOrder s = .ok (pre ++ i :: post))
    (hpre : ∀ j ∈ pre, ∃ x, Serial.serialNode (Serial.opsCodec 0) s (pre ++ i :: post) j = .ok x)
    (hd : Store.getNode s i = .ok d) (hp : Serial.rekey (pre ++ i :: post) (d.parent.getD i) = .ok p)
    (hinc : Op.encOp d.op p = .error .incompleteOp) :
    Build.toJson st bi enc = .error .incompleteOp := by
  have hi : Serial.serialNode (Serial.opsCodec 0) s (pre ++ i :: post) i = .error (.op "IncompleteOp") := by
    simp [Serial.serialNode, Serial.liftS, hd, hp, Serial.liftO, Serial.opsCodec, hinc, Serial.opErrName]
  have hm := mapM_error_first (Serial.serialNode (Serial.opsCodec 0) s (pre ++ i :: post)) i _ post pre hpre hi
  simp [Build.toJson, hb, hs, Serial.toJson, Serial.toSerial, ho, Serial.liftS, hm, ofSerialErr]

/-- the operations a builder leaves incomplete until `set_outputs` / the first exit branch -/
theorem incomplete_ops_not_encodable (p : Int) (i : List Ty) (dl : List String) (sm : SumTy) :
    Op.encOp (.output none) p = .error .incompleteOp ∧
    Op.encOp (.dfg i none dl) p = .error .incompleteOp ∧
    Op.encOp (.case i none) p = .error .incompleteOp ∧
    Op.encOp (.funcDefn "f" i [] none) p = .error .incompleteOp ∧
    Op.encOp (.exitBlock none) p = .error .incompleteOp := by
  refine ⟨rfl, rfl, rfl, rfl, rfl⟩

/-- non-vacuity: a fresh `Dfg()` whose outputs have not been set does not serialise -/
example :
    (match newStandaloneDf {} .dfg (.dfg [] none []) with
     | .ok (st, bi) => Build.toJson st bi "enc"
     | .error e => .error e) = .error .incompleteOp := rfl

/-! ## 12. at the level of program commands

The clauses above are about the builder methods; a program command evaluates its references and then
calls the method, so the same error is what `step` — and `runProgram`, which stops there — reports. -/

theorem builderOf_getB (st : BuildState) (b : String) (p : BKind → Bool) (bi : Nat) (r : BRec)
    (h : st.builderOf b p = .ok (bi, r)) : st.getB bi = .ok r := by
  unfold BuildState.builderOf at h
  cases hv : st.bvar b with
  | error e => simp [hv] at h
  | ok bi' =>
    simp only [hv] at h
    unfold BuildState.liveB at h
    cases hg : st.getB bi' with
    | error e => simp [hg] at h
    | ok r' =>
      simp only [hg] at h
      by_cases hsp : r'.hid ∈ st.spent
      · simp [hsp] at h
      · simp only [List.contains_iff_mem, hsp, if_false] at h
        by_cases hp : p r'.kind = true
        · simp only [hp, if_true] at h
          injection h with h
          obtain ⟨rfl, rfl⟩ := Prod.mk.inj h
          exact hg
        · simp [hp] at h

/-- a raising command ends the program: its error is the last outcome -/
theorem run_stops_at_error (enc : String) (st : BuildState) (c : Cmd) (cs : List Cmd) (e : BuildErr)
    (h : step enc st c = .error e) :
    run enc st (c :: cs) = .error e ∧ (runProgram enc st (c :: cs)).1.length = 1 := by
  simp [run, runProgram, h]

theorem step_add_case_out_of_range (enc : String) (st : BuildState) (c nb : String) (k : Int) (ci : Nat) (r : BRec)
    (hb : st.builderOf c (isKind .conditional) = .ok (ci, r)) (hk : (r.cases.length : Int) ≤ k) :
    step enc st (.addCase c nb k) = .error .conditionalError := by
  simp [step, hb, retB, case_out_of_range st ci r k (builderOf_getB st c _ ci r hb) hk]

theorem step_exit_with_unbuilt_cases (enc : String) (st : BuildState) (c : String) (ci : Nat) (r : BRec)
    (hb : st.builderOf c (isKind .conditional) = .ok (ci, r)) (x : Nat × Bool) (hx : x ∈ r.cases) (hf : x.2 = false) :
    step enc st (.exitConditional c) = .error .conditionalError := by
  have := (exit_with_unbuilt_cases st ci r (builderOf_getB st c _ ci r hb)).mpr ⟨x, hx, hf⟩
  simp [step, hb, this]

theorem evalCWs_keeps_ints (st : BuildState) : ∀ (args : List CWRef) (ws : List ComWire) (i : Nat),
    evalCWs st args = .ok ws → CWRef.tracked i ∈ args → ComWire.idx i ∈ ws := by
  intro args
  induction args with
  | nil => intro ws i _ hi; cases hi
  | cons a rest ih =>
    intro ws i h hi
    unfold evalCWs at h
    cases ha : evalCW st a with
    | error e => simp [ha] at h
    | ok x =>
      simp only [ha] at h
      cases hr : evalCWs st rest with
      | error e => simp [hr] at h
      | ok xs =>
        simp only [hr] at h
        injection h with h; subst h
        cases hi with
        | head => simp [evalCW] at ha; subst ha; exact List.mem_cons_self
        | tail _ hi => exact List.mem_cons_of_mem _ (ih xs i hr hi)

/-- `b.add(op(…, i, …))` on a builder that is not a `TrackedDfg`: `ValueError`, whatever else the command
    holds (its wire references evaluate). -/
theorem step_int_wire_in_untracked (enc : String) (st : BuildState) (b n : String) (op : Op) (args : List CWRef)
    (md : Serial.Meta) (bi : Nat) (r : BRec) (ws : List ComWire) (i : Nat)
    (hb : st.builderOf b BKind.isDf = .ok (bi, r)) (hk : r.kind ≠ .tracked)
    (he : evalCWs st args = .ok ws) (hi : CWRef.tracked i ∈ args) :
    step enc st (.add b n op args md) = .error .valueError := by
  have h1 := int_wire_in_untracked st bi r op ws md (builderOf_getB st b _ bi r hb) hk i
    (evalCWs_keeps_ints st args ws i he hi)
  simp [step, hb, he, retN, h1]

/-- `untrack_wire(i)` / `tracked_wire(i)` of an index that is not tracked: `IndexError`. -/
theorem step_untracked_index (enc : String) (st : BuildState) (b : String) (i : Nat) (bi : Nat) (r : BRec)
    (hb : st.builderOf b (isKind .tracked) = .ok (bi, r))
    (hu : r.tracked[i]? = none ∨ r.tracked[i]? = some none) :
    step enc st (.untrackWire b i) = .error .indexError ∧ step enc st (.trackedWire b i) = .error .indexError := by
  have hg := builderOf_getB st b _ bi r hb
  simp [step, hb, untrack_untracked_index st bi r i hg hu, (untracked_index r.tracked i).mpr hu]

/-- `to_json` of a builder whose HUGR holds an incomplete operation first in serialisation order. -/
theorem step_serialize_incomplete (enc : String) (st : BuildState) (b : String) (bi : Nat) (r : BRec) (s : St)
    (pre post : List Nat) (i : Nat) (d : Store.NodeData Op Serial.Meta) (p : Nat)
    (hb : st.builderOfRO b (fun _ => true) = .ok (bi, r)) (hg : st.getB bi = .ok r)
    (hs : st.getHugr r.hid = .ok s)
    (ho : Store.hierarchyOrder s = .ok (pre ++ i :: post))
    (hpre : ∀ j ∈ pre, ∃ x, Serial.serialNode (Serial.opsCodec 0) s (pre ++ i :: post) j = .ok x)
    (hd : Store.getNode s i = .ok d) (hp : Serial.rekey (pre ++ i :: post) (d.parent.getD i) = .ok p)
    (hinc : Op.encOp d.op p = .error .incompleteOp) :
    step enc st (.toJson b) = .error .incompleteOp := by
  simp [step, hb, serialize_incomplete st bi r s enc pre post i d p hg hs ho hpre hd hp hinc]

/-- non-vacuity at program level: `Dfg(); to_json` stops with `IncompleteOp` at the second command -/
example : (match (runProgram "enc" {} [.newDfg "d" [], .toJson "d"]).1 with
    | [.ok _ _, .err e] => some e
    | _ => none) = some .incompleteOp := rfl

/-- … and `Conditional(UnitSum(2), []); add_case(2)` with `ConditionalError` -/
example : (match (runProgram "enc" {} [.newConditional "c" (.unit 2) [], .addCase "c" "k" 2]).1 with
    | [.ok _ _, .err e] => some e
    | _ => none) = some .conditionalError := rfl

end HugrVerif.Props.C13
