/-
  C18 — The bidirectional map stays a bijection under every operation sequence.
  Property theorems only; helper lemmas are in `Proofs/BiMap.lean`, the model in `BiMap.lean`.
-/
import HugrVerif.Proofs.BiMap
import Batteries.Data.List.Perm

namespace HugrVerif.Props.C18
open HugrVerif HugrVerif.BiMap HugrVerif.Py
variable {L R : Type} [DecidableEq L] [DecidableEq R]

/-- Construction from a mapping (a Python mapping has pairwise distinct keys) is rejected
    exactly when the mapping is not injective. -/
theorem init_rejects_iff (ps : List (L × R)) :
    init ps = none ↔ ¬ (ps.map (·.2)).Nodup := by
  simp [init, valuesNodup]

/-- An accepted construction yields exact inverses holding exactly the given pairs. -/
theorem init_inv (ps : List (L × R)) (hk : (ps.map (·.1)).Nodup) (m : BiMap L R)
    (h : init ps = some m) : Inv m ∧ m.fwd = ps := by
  unfold init at h
  split at h
  · rename_i hv
    have hv' : (ps.map (·.2)).Nodup := by simpa [valuesNodup] using hv
    cases h
    have e1 : ofList ps = ps := by
      have := Dict.foldl_set_eq ps ([] : Dict L R) (by simpa [Dict.NodupKeys, Dict.keys] using hk)
      simpa [ofList] using this
    have hswap : ∀ (qs acc : Dict R L),
        qs.foldl (fun d p => Dict.set p.1 p.2 d) acc = acc ++ qs → True := fun _ _ _ => trivial
    have e2 : ps.foldl (fun d p => Dict.set p.2 p.1 d) ([] : Dict R L) = ps.map (fun p => (p.2, p.1)) := by
      have h2 : Dict.NodupKeys (([] : Dict R L) ++ ps.map (fun p => (p.2, p.1))) := by
        simpa [Dict.NodupKeys, Dict.keys, Function.comp_def] using hv'
      have := Dict.foldl_set_eq (ps.map (fun p => (p.2, p.1))) ([] : Dict R L) h2
      simpa [List.foldl_map] using this
    refine ⟨⟨?_, ?_, ?_⟩, e1⟩
    · intro k v
      simp only [e1, e2]
      rw [Dict.get_some_iff_mem _ _ _ (by simpa [Dict.NodupKeys, Dict.keys] using hk)]
      rw [Dict.get_some_iff_mem _ _ _ (by simpa [Dict.NodupKeys, Dict.keys, Function.comp_def] using hv')]
      simp only [List.mem_map, Prod.mk.injEq]
      constructor
      · intro hm; exact ⟨(k, v), hm, rfl, rfl⟩
      · rintro ⟨⟨a, b⟩, hm, h1, h2⟩; simp at h1 h2; subst h1; subst h2; exact hm
    · simpa [e1, Dict.NodupKeys, Dict.keys] using hk
    · simpa [e2, Dict.NodupKeys, Dict.keys, Function.comp_def] using hv'
  · cases h

/-- **Main invariant**: after any operation sequence from the empty map the two views are
    exact inverses (every lookup from either side agrees) and hold no duplicate keys. -/
theorem reachable_inverse (ops : List (Op L R)) : Inv (run (empty : BiMap L R) ops) :=
  inv_run _ inv_empty ops

/-- The same from any accepted initial mapping. -/
theorem reachable_inverse_from_init (ps : List (L × R)) (hk : (ps.map (·.1)).Nodup)
    (m : BiMap L R) (h : init ps = some m) (ops : List (Op L R)) : Inv (run m ops) :=
  inv_run _ (init_inv ps hk m h).1 ops

/-- Lookups from both sides agree in every reachable state. -/
theorem lookups_agree (ops : List (Op L R)) (k : L) (v : R) :
    getRight (run (empty : BiMap L R) ops) k = some v ↔ getLeft (run (empty : BiMap L R) ops) v = some k :=
  (reachable_inverse ops).inv k v

/-- Inserting a pair displaces exactly the pairs that shared its key or its value
    (forward view): `k ↦ v`; the old owner of `v` disappears; every other key is unchanged. -/
theorem insert_displaces_fwd (m : BiMap L R) (h : Inv m) (k k' : L) (v : R) :
    getRight (insertLeft m k v) k' =
      if k' = k then some v else if getRight m k' = some v then none else getRight m k' :=
  insertLeft_fwd m h k k' v

/-- … and the backward view. -/
theorem insert_displaces_bck (m : BiMap L R) (h : Inv m) (k : L) (v v' : R) :
    getLeft (insertLeft m k v) v' =
      if v' = v then some k else if getLeft m v' = some k then none else getLeft m v' :=
  insertLeft_bck m h k v v'

/-- `insert_right` and `__setitem__` are `insert_left`. -/
theorem insertRight_eq (m : BiMap L R) (k : R) (v : L) : insertRight m k v = insertLeft m v k := rfl
theorem setitem_eq (m : BiMap L R) (k : L) (v : R) : step m (.setitem k v) = step m (.insertLeft k v) := rfl
theorem delitem_eq (m : BiMap L R) (k : L) : step m (.delitem k) = step m (.deleteLeft k) := rfl

/-- Deleting an absent left key raises `KeyError` and changes nothing. -/
theorem deleteLeft_absent (m : BiMap L R) (k : L) (hk : getRight m k = none) :
    step m (.deleteLeft k) = (m, .keyError) := by
  simp [step, deleteLeft_none m k hk]

/-- Deleting a present left key removes exactly that pair from both views. -/
theorem deleteLeft_present (m : BiMap L R) (h : Inv m) (k : L) (v : R) (hk : getRight m k = some v) :
    ∃ m', step m (.deleteLeft k) = (m', .ok) ∧
      (∀ k', getRight m' k' = if k' = k then none else getRight m k') ∧
      (∀ v', getLeft m' v' = if v' = v then none else getLeft m v') := by
  refine ⟨⟨Dict.del k m.fwd, Dict.del v m.bck⟩, ?_, ?_, ?_⟩
  · simp [step, deleteLeft_some m h k v hk]
  · intro k'; exact Dict.get_del _ _ _ h.ndF
  · intro v'; exact Dict.get_del _ _ _ h.ndB

theorem deleteRight_absent (m : BiMap L R) (v : R) (hv : getLeft m v = none) :
    step m (.deleteRight v) = (m, .keyError) := by
  simp [step, deleteRight_none m v hv]

theorem deleteRight_present (m : BiMap L R) (h : Inv m) (v : R) (k : L) (hv : getLeft m v = some k) :
    ∃ m', step m (.deleteRight v) = (m', .ok) ∧
      (∀ k', getRight m' k' = if k' = k then none else getRight m k') ∧
      (∀ v', getLeft m' v' = if v' = v then none else getLeft m v') := by
  refine ⟨⟨Dict.del k m.fwd, Dict.del v m.bck⟩, ?_, ?_, ?_⟩
  · simp [step, deleteRight_some m h v k hv]
  · intro k'; exact Dict.get_del _ _ _ h.ndF
  · intro v'; exact Dict.get_del _ _ _ h.ndB

/-- Iteration reflects the live pairs: `(k, v)` is listed iff `k ↦ v`, and no key twice. -/
theorem items_reflect (m : BiMap L R) (h : Inv m) (k : L) (v : R) :
    (k, v) ∈ items m ↔ getRight m k = some v :=
  (Dict.get_some_iff_mem k v m.fwd h.ndF).symm

theorem items_nodup (m : BiMap L R) (h : Inv m) : ((items m).map (·.1)).Nodup := h.ndF

/-- Length reflects the live pairs, from either side. -/
theorem len_both_views (m : BiMap L R) (h : Inv m) : len m = m.bck.length := by
  -- both views list each pair once: build injections both ways on the key lists
  have hF := h.ndF; have hB := h.ndB
  have h1 : (m.fwd.map (fun p => (p.2, p.1))).Subperm m.bck := by
    apply List.subperm_of_subset
    · have : (m.fwd.map (fun p => (p.2, p.1))).map (·.2) = Dict.keys m.fwd := by
        simp [Dict.keys, Function.comp_def]
      exact Dict.nodup_of_nodup_map (·.2) _ (by rw [this]; exact hF)
    · intro p hp
      obtain ⟨⟨a, b⟩, hm, rfl⟩ := List.mem_map.mp hp
      exact Dict.get_some_mem _ _ _ ((h.inv a b).mp ((Dict.get_some_iff_mem a b _ hF).mpr hm))
  have h2 : (m.bck.map (fun p => (p.2, p.1))).Subperm m.fwd := by
    apply List.subperm_of_subset
    · have : (m.bck.map (fun p => (p.2, p.1))).map (·.2) = Dict.keys m.bck := by
        simp [Dict.keys, Function.comp_def]
      exact Dict.nodup_of_nodup_map (·.2) _ (by rw [this]; exact hB)
    · intro p hp
      obtain ⟨⟨a, b⟩, hm, rfl⟩ := List.mem_map.mp hp
      exact Dict.get_some_mem _ _ _ ((h.inv b a).mpr ((Dict.get_some_iff_mem a b _ hB).mpr hm))
  have l1 := h1.length_le; have l2 := h2.length_le
  simp at l1 l2
  simp [len]; omega

/-- Non-vacuity: a reachable three-pair state with falsy keys/values (0, "") satisfies the
    invariant, and displacement / deletion really happen on it. -/
example :
    let m := run (empty : BiMap Nat String)
      [.insertLeft 0 "", .insertLeft 1 "a", .insertRight "b" 2, .insertLeft 1 "", .deleteRight "b"]
    items m = [(1, "")] ∧ m.bck = [("", 1)] := by decide

example : init [((0 : Nat), "a"), (1, "a")] = none := by decide
example : (init [((0 : Nat), ""), (1, "a")]).isSome = true := by decide

end HugrVerif.Props.C18
