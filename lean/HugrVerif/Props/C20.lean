/-
  C20 — Rendering draws every node, port and link of the HUGR exactly once.
  Property theorems only; helper lemmas are in `Proofs/Render.lean`, the model in `Render.lean`
  (`render : Strs → Store Op Meta → RenderConfig → Except Err RenderOut`, mirroring render.py).

  All theorems hold for every choice `E : Strs` of the Python string conversions of types, type
  arguments, constant values and metadata values (`PyStr.lean` is the instance the driver uses).

  Hypotheses on the store:
  * `HierInv` / `RootInv` (Proofs/StoreHier.lean): children lists and parent pointers describe the same
    forest without duplicates; the root is live and the only node without parent — invariants of every
    store reachable through the mutators (C04);
  * `HierWF`: the children relation is well-founded (a rank decreases towards the children) — implied by
    `ParentBelow` (children have larger indices than their parents: what `Hugr.load_json` and builder
    programs without deletion produce);
  * `AllOpsComplete`: every link leaves a port the specification's port layout gives the complete
    operation of its source node;
  * `GraphNameOk`: the root's `"name"` metadata entry, if any, is a string or falsy.
-/
import HugrVerif.Proofs.Render
import HugrVerif.Proofs.RenderTree
import HugrVerif.Props.C04
import HugrVerif.PyStr

namespace HugrVerif.Props.C20
open HugrVerif HugrVerif.Store HugrVerif.Render

/-! ### nodes -/

/-- **One node statement per HUGR node**: under the hierarchy invariants the node statements of the
    source name every live node of the store exactly once (no node twice, no dead or foreign index). -/
theorem one_node_stmt_per_node (E : Strs) (s : St) (c : RenderConfig) (out : RenderOut)
    (hh : HierInv s) (hroot : RootInv s) (hwf : HierWF s) (h : render E s c = .ok out) :
    (Item.drawn out.root).Nodup ∧ ∀ i, i ∈ Item.drawn out.root ↔ i ∈ Store.liveNodes s := by
  obtain ⟨d, hd, hv, _, _, _⟩ := render_ok E s c out h
  obtain ⟨r, hr, hb⟩ := hwf
  refine ⟨drawn_nodup E c s hh r hr _ _ _ hv, ?_⟩
  intro i
  rw [mem_liveNodes]
  constructor
  · intro hi; exact (drawn_up E c s hh _ _ _ hv i hi).1
  · rintro ⟨di, hdi⟩; exact live_drawn E c s hh hroot r hr hb _ _ hv i di hdi

/-- **… carrying the operation's display name**: every node statement is the one `_viz_node` makes for
    its node: identifier `str(idx)`, the display name of the node's operation under the configured
    qualification, one metadata line `key: str(value)` per metadata entry in order. -/
theorem node_stmt_shows_operation (E : Strs) (s : St) (c : RenderConfig) (out : RenderOut)
    (h : render E s c = .ok out) :
    ∀ n ∈ Item.nodeStmts out.root, ∃ d, Store.getNode s n.idx = .ok d ∧
      n.id = toString n.idx ∧
      n.name = displayName E c.qualifyOpName d.op ∧
      n.metaLines = d.md.map (fun kv => kv.1 ++ ": " ++ E.mdStr kv.2) := by
  obtain ⟨_, _, hv, _, _, _⟩ := render_ok E s c out h
  intro n hn
  obtain ⟨d, hd, e⟩ := stmts_are_nodeStmts E c s _ _ _ hv n hn
  refine ⟨d, hd, rfl, ?_, ?_⟩
  · rw [e]; rfl
  · rw [e]; rfl

/-- **One cell per input and output port**: the node statement of a node has one input cell per port
    `0 … num_in_ports-1` and one output cell per port `0 … num_out_ports-1`, in order, with port
    identifiers `in.<k>` / `out.<k>` and text `<k>`.  The counts are the store's TRACKED port counters
    (`Hugr.num_in_ports` / `num_out_ports`), which is what render.py reads — not the arity of the
    operation's signature. -/
theorem cells_per_port (E : Strs) (s : St) (c : RenderConfig) (out : RenderOut)
    (h : render E s c = .ok out) :
    ∀ n ∈ Item.nodeStmts out.root, ∃ d, Store.getNode s n.idx = .ok d ∧
      n.inCells.length = d.numInps ∧ n.outCells.length = d.numOuts ∧
      n.inCells.map Cell.portId = (List.range d.numInps).map (fun k => "in." ++ toString k) ∧
      n.outCells.map Cell.portId = (List.range d.numOuts).map (fun k => "out." ++ toString k) ∧
      n.inCells.map Cell.text = (List.range d.numInps).map toString ∧
      n.outCells.map Cell.text = (List.range d.numOuts).map toString := by
  obtain ⟨_, _, hv, _, _, _⟩ := render_ok E s c out h
  intro n hn
  obtain ⟨d, hd, e⟩ := stmts_are_nodeStmts E c s _ _ _ hv n hn
  refine ⟨d, hd, ?_⟩
  rw [e]
  simp [nodeStmt, cells, Cell.portId, Cell.text, Function.comp_def]

/-! ### clusters -/

/-- **One cluster per node that has children, nested exactly as the hierarchy is**: the item drawn for
    the root mirrors the hierarchy (`Mirrors`: a plain node statement for a node without children; for a
    node with children a `subgraph cluster<idx>` whose members are the items of its children, in
    order, followed by its own node statement). -/
theorem clusters_mirror_hierarchy (E : Strs) (s : St) (c : RenderConfig) (out : RenderOut)
    (h : render E s c = .ok out) : Mirrors E c s s.root out.root := by
  obtain ⟨_, _, hv, _, _, _⟩ := render_ok E s c out h
  exact vizNode_mirrors E c s _ _ _ hv

/-- … and, under the hierarchy invariants, the clusters are exactly the live nodes with children, once
    each. -/
theorem one_cluster_per_parent (E : Strs) (s : St) (c : RenderConfig) (out : RenderOut)
    (hh : HierInv s) (hroot : RootInv s) (hwf : HierWF s) (h : render E s c = .ok out) :
    (Item.clusters out.root).Nodup ∧
    ∀ i, i ∈ Item.clusters out.root ↔ ∃ d, Store.getNode s i = .ok d ∧ d.children ≠ [] := by
  obtain ⟨hn, hm⟩ := one_node_stmt_per_node E s c out hh hroot hwf h
  obtain ⟨_, _, hv, _, _, _⟩ := render_ok E s c out h
  have hp := clusters_perm E c s _ _ _ hv
  refine ⟨hp.nodup_iff.mpr (hn.sublist List.filter_sublist), ?_⟩
  intro i
  rw [hp.mem_iff, List.mem_filter, hasKids_iff, hm, mem_liveNodes]
  constructor
  · rintro ⟨_, h2⟩; exact h2
  · rintro ⟨d, hd, hc⟩; exact ⟨⟨d, hd⟩, d, hd, hc⟩

/-! ### edges -/

/-- **One edge statement per link whose endpoints name the right node indices and port offsets**: the
    edge statements, read as (source node, source offset, target node, target offset), are the list
    `hugr.links()` — same multiplicity, same order.  (`EdgeStmt.srcName` / `dstName` print them as
    `<idx>:out.<offset>` / `<idx>:in.<offset>`; an order edge has offset −1.) -/
theorem one_edge_per_link (E : Strs) (s : St) (c : RenderConfig) (out : RenderOut)
    (h : render E s c = .ok out) : out.edges.map EdgeStmt.ends = Store.linksList s := by
  obtain ⟨_, _, _, hl, _, _⟩ := render_ok E s c out h
  exact (vizLinks_ok E c s _ _ hl).1

/-- the endpoint names are those render.py formats -/
theorem edge_endpoint_names (e : EdgeStmt) :
    e.srcName = toString e.srcNode ++ ":" ++ "out." ++ toString e.srcOff ∧
    e.dstName = toString e.dstNode ++ ":" ++ "in." ++ toString e.dstOff := ⟨rfl, rfl⟩

/-- **Value edges are labelled by their type** — the kind of the SOURCE port decides: a value port of
    type `t` gives the label `str(t)`, every other kind the empty label. -/
theorem value_edges_labelled_by_type (E : Strs) (s : St) (c : RenderConfig) (out : RenderOut)
    (h : render E s c = .ok out) :
    ∀ e ∈ out.edges, ∃ d k, Store.getNode s e.srcNode = .ok d ∧
      Op.hugrPortKind d.op .out e.srcOff = .ok k ∧
      (∀ t, k = .value t → e.label = E.tyStr t) ∧
      ((∀ t, k ≠ .value t) → e.label = "") := by
  obtain ⟨_, _, _, hl, _, _⟩ := render_ok E s c out h
  intro e he
  obtain ⟨d, k, hd, hk, hlab, _⟩ := (vizLinks_ok E c s _ _ hl).2 e he
  refine ⟨d, k, hd, hk, ?_, ?_⟩
  · intro t ht; rw [hlab, ht]; rfl
  · intro hne
    rw [hlab]
    cases k with
    | value t => exact absurd rfl (hne t)
    | _ => rfl

/-- the colour of an edge is decided by the kind of its source port: value — the palette's edge colour,
    order and control flow — dark, constant and function — const -/
theorem edge_colour_by_kind (E : Strs) (s : St) (c : RenderConfig) (out : RenderOut)
    (h : render E s c = .ok out) :
    ∀ e ∈ out.edges, ∃ d k, Store.getNode s e.srcNode = .ok d ∧
      Op.hugrPortKind d.op .out e.srcOff = .ok k ∧ e.color = kindColor c k := by
  obtain ⟨_, _, _, hl, _, _⟩ := render_ok E s c out h
  intro e he
  obtain ⟨d, k, hd, hk, _, hcol⟩ := (vizLinks_ok E c s _ _ hl).2 e he
  exact ⟨d, k, hd, hk, hcol⟩

/-- **Edges end at drawn cells**: in a store whose port counters bound the offsets of its links
    (`PortBound`, an invariant of every reachable store, C04), every non-order endpoint of an edge
    statement names a cell of the node statement `_viz_node` makes for that node. -/
theorem edge_endpoints_name_cells (E : Strs) (s : St) (c : RenderConfig) (out : RenderOut)
    (hb : PortBound s) (h : render E s c = .ok out) :
    ∀ e ∈ out.edges,
      (0 ≤ e.srcOff → ∃ d, Store.getNode s e.srcNode = .ok d ∧
        ∃ cell ∈ (nodeStmt E c e.srcNode d).outCells, (cell.idx : Int) = e.srcOff ∧ cell.pfx = "out.") ∧
      (0 ≤ e.dstOff → ∃ d, Store.getNode s e.dstNode = .ok d ∧
        ∃ cell ∈ (nodeStmt E c e.dstNode d).inCells, (cell.idx : Int) = e.dstOff ∧ cell.pfx = "in.") := by
  intro e he
  have hends := one_edge_per_link E s c out h
  have hmem : e.ends ∈ Store.linksList s := by
    rw [← hends]; exact List.mem_map.mpr ⟨e, he, rfl⟩
  obtain ⟨⟨da, ha, _, ha2⟩, ⟨db, hb1, _, hb2⟩⟩ := hb e.ends hmem
  simp only [EdgeStmt.ends] at ha ha2 hb1 hb2
  constructor
  · intro h0
    refine ⟨da, ha, ⟨"out.", e.srcOff.toNat, c.palette.background, c.palette.portBorder, c.palette.dark⟩, ?_, ?_, rfl⟩
    · simp only [nodeStmt, cells, List.mem_map, List.mem_range]
      exact ⟨e.srcOff.toNat, by omega, rfl⟩
    · show ((e.srcOff.toNat : Nat) : Int) = e.srcOff
      omega
  · intro h0
    refine ⟨db, hb1, ⟨"in.", e.dstOff.toNat, c.palette.background, c.palette.portBorder, c.palette.dark⟩, ?_, ?_, rfl⟩
    · simp only [nodeStmt, cells, List.mem_map, List.mem_range]
      exact ⟨e.dstOff.toNat, by omega, rfl⟩
    · show ((e.dstOff.toNat : Nat) : Int) = e.dstOff
      omega

/-! ### configuration -/

/-- **Independent of the palette except for colours**: two configurations with the same
    name-qualification setting give the same result — the same error, or sources that are equal once
    every colour is erased. -/
theorem palette_independent (E : Strs) (s : St) (c₁ c₂ : RenderConfig)
    (hq : c₁.qualifyOpName = c₂.qualifyOpName) :
    (render E s c₁).map RenderOut.eraseColours = (render E s c₂).map RenderOut.eraseColours := by
  have := render_congr E s c₁ c₂ NodeStmt.eraseColours (nodeStmt_eraseColours E c₁ c₂ hq)
  simpa [funext eraseColours_eq] using this

/-- **Independent of palette and name qualification except for colours and operation names**: any two
    configurations give the same error, or sources that are equal once colours and operation names are
    erased (same clusters, node statements, cells, metadata lines, edges, labels). -/
theorem config_independent (E : Strs) (s : St) (c₁ c₂ : RenderConfig) :
    (render E s c₁).map (fun o => o.eraseColours.eraseNames) =
      (render E s c₂).map (fun o => o.eraseColours.eraseNames) := by
  have := render_congr E s c₁ c₂ (NodeStmt.eraseName ∘ NodeStmt.eraseColours) (nodeStmt_eraseBoth E c₁ c₂)
  simpa [funext eraseNames_eraseColours_eq] using this

/-- the extension prefix `qualify_op_name` adds: `<extension>.` for an `ExtOp` whose definition belongs to
    an extension -/
def extPrefix : Op → String
  | .extOp d _ _ => match d.ext with
    | some e => if e = "" then "" else e ++ "."
    | none => ""
  | _ => ""

/-- the type-argument suffix `AsExtOp.name()` appends (only shown with `qualify_op_name`) -/
def argSuffix (E : Strs) : Op → String
  | .extOp _ _ args => if args.length = 0 then "" else "<" ++ E.argsStr args ++ ">"
  | _ => ""

/-- **… and the names differ only by the extension prefix** (and the type-argument suffix `name()`
    carries): the qualified display name is the unqualified one with the extension prefix in front;
    only `ExtOp`s are affected. -/
theorem names_differ_by_extension_prefix (E : Strs) (op : Op) :
    displayName E true op = extPrefix op ++ displayName E false op ++ argSuffix E op := by
  cases op <;> simp [displayName, isAsExtOp, opDefName, opFullName, extPrefix, argSuffix]
  case extOp d sig args =>
    simp only [OpDefRef.qualifiedName]
    cases d.ext with
    | none => by_cases ha : args = [] <;> simp [ha, String.append_assoc]
    | some e => by_cases he : e = "" <;> by_cases ha : args = [] <;> simp [he, ha, String.append_assoc]

theorem names_equal_unless_extOp (E : Strs) (op : Op) (h : ∀ d sig args, op ≠ .extOp d sig args) :
    displayName E true op = displayName E false op := by
  cases op <;> simp [displayName, isAsExtOp, opDefName, opFullName]
  case extOp d sig args => exact absurd rfl (h d sig args)

/-! ### purity -/

/-- what `render_dot` returns together with the HUGR afterwards -/
def renderState (E : Strs) (s : St) (c : RenderConfig) : Except Render.Err RenderOut × St := (render E s c, s)

/-- **Rendering does not modify the HUGR** — trivial in the model: every statement of render.py that
    touches `hugr` is a read (`hugr[node]`, `children`, `num_in_ports`, `num_out_ports`, `links`,
    `port_kind`), so the model's renderer has no store output.  That the implementation really leaves
    the HUGR unchanged is checked by the harness (snapshot before / after). -/
theorem render_pure (E : Strs) (s : St) (c : RenderConfig) : (renderState E s c).2 = s := rfl

/-! ### success -/

/-- **Rendering any HUGR with complete operations succeeds.** -/
theorem render_succeeds (E : Strs) (s : St) (c : RenderConfig) (hh : HierInv s) (hroot : RootInv s)
    (hwf : HierWF s) (hops : AllOpsComplete s) (hname : GraphNameOk s) :
    ∃ out, render E s c = .ok out :=
  render_succeeds_aux E s c hh hroot hwf hops hname

/-- the same for stores whose children have larger indices than their parents -/
theorem render_succeeds_of_parentBelow (E : Strs) (s : St) (c : RenderConfig) (hh : HierInv s)
    (hroot : RootInv s) (hpb : ParentBelow s) (hops : AllOpsComplete s) (hname : GraphNameOk s) :
    ∃ out, render E s c = .ok out :=
  render_succeeds_aux E s c hh hroot (hierWF_of_parentBelow s hpb) hops hname

/-! ### the hypotheses hold for the stores the driver renders -/

/-- **The executable check `hypsB` (RenderCheck.lean) is sound**: a store that passes it satisfies the
    store hypotheses of the theorems above.  The driver evaluates `hypsB` on every store it loads from a
    builder-built document and the harness fails the case if it is false, so the hypotheses are
    established for every tested HUGR. -/
theorem checked_store_hypotheses (s : St) (h : hypsB s = true) :
    HierInv s ∧ RootInv s ∧ HierWF s ∧ PortBound s := hypsB_sound s h

/-- for a checked store every live node is drawn exactly once and every parent has exactly one cluster -/
theorem checked_store_draws_every_node (E : Strs) (s : St) (c : RenderConfig) (out : RenderOut)
    (hs : hypsB s = true) (h : render E s c = .ok out) :
    (Item.drawn out.root).Nodup ∧ (∀ i, i ∈ Item.drawn out.root ↔ i ∈ Store.liveNodes s) ∧
    (Item.clusters out.root).Nodup ∧
    (∀ i, i ∈ Item.clusters out.root ↔ ∃ d, Store.getNode s i = .ok d ∧ d.children ≠ []) := by
  obtain ⟨hh, hroot, hwf, _⟩ := hypsB_sound s hs
  obtain ⟨h1, h2⟩ := one_node_stmt_per_node E s c out hh hroot hwf h
  obtain ⟨h3, h4⟩ := one_cluster_per_parent E s c out hh hroot hwf h
  exact ⟨h1, h2, h3, h4⟩

/-! ### non-vacuity: a concrete HUGR

`Module`(0, metadata name = "g") ⊃ `DFG`(1) ⊃ { `Input`(2), `Output`(3, metadata k = 1) }, one value link
2.out0 → 3.in0 and one order link 2 → 3. -/

def B : Ty := .unitSum 2

def exStore : St :=
  { nodes := [some ⟨.module, none, 0, 0, [(1, some 1)], [("name", .str "g")]⟩,
              some ⟨.dfg [B] (some [B]) [], some 0, 0, 1, [(2, some 1), (3, none)], []⟩,
              some ⟨.input [B], some 1, 0, 1, [], []⟩,
              some ⟨.output (some [B]), some 1, 1, 0, [], [("k", .int 1)]⟩],
    links := ⟨[(⟨2, 0, 0⟩, ⟨3, 0, 0⟩), (⟨2, -1, 0⟩, ⟨3, -1, 0⟩)], [(⟨3, 0, 0⟩, ⟨2, 0, 0⟩), (⟨3, -1, 0⟩, ⟨2, -1, 0⟩)]⟩,
    free := [], root := 0 }

/-- the Python string conversions of `PyStr.lean` (no non-printable characters around) -/
def exStrs : Strs where
  tyStr := fun t => (PyStr.tyStr [] t).getD ""
  argsStr := fun as => ((PyStr.argsStr [] as).map PyStr.commaSep).getD ""
  valStr := fun v => (PyStr.valRepr [] v).getD ""
  mdStr := PyStr.jsonStr []

theorem ex_getNode (p : Nat) (dp : NodeData Op Serial.Meta) (h : Store.getNode exStore p = .ok dp) :
    (p = 0 ∧ dp = ⟨.module, none, 0, 0, [(1, some 1)], [("name", .str "g")]⟩) ∨
    (p = 1 ∧ dp = ⟨.dfg [B] (some [B]) [], some 0, 0, 1, [(2, some 1), (3, none)], []⟩) ∨
    (p = 2 ∧ dp = ⟨.input [B], some 1, 0, 1, [], []⟩) ∨
    (p = 3 ∧ dp = ⟨.output (some [B]), some 1, 1, 0, [], [("k", .int 1)]⟩) := by
  match p, h with
  | 0, h => left; simp [Store.getNode, exStore] at h; exact ⟨rfl, h.symm⟩
  | 1, h => right; left; simp [Store.getNode, exStore] at h; exact ⟨rfl, h.symm⟩
  | 2, h => right; right; left; simp [Store.getNode, exStore] at h; exact ⟨rfl, h.symm⟩
  | 3, h => right; right; right; simp [Store.getNode, exStore] at h; exact ⟨rfl, h.symm⟩
  | n + 4, h => simp [Store.getNode, exStore] at h

theorem ex_hier : HierInv exStore := by
  refine ⟨?_, ?_, ?_⟩
  · intro p dp c hp hc
    rcases ex_getNode p dp hp with ⟨rfl, rfl⟩ | ⟨rfl, rfl⟩ | ⟨rfl, rfl⟩ | ⟨rfl, rfl⟩
    · simp [childIdxs] at hc; subst hc; exact ⟨_, rfl, rfl⟩
    · simp [childIdxs] at hc; rcases hc with rfl | rfl <;> exact ⟨_, rfl, rfl⟩
    · simp [childIdxs] at hc
    · simp [childIdxs] at hc
  · intro c dc p hc hp
    rcases ex_getNode c dc hc with ⟨rfl, rfl⟩ | ⟨rfl, rfl⟩ | ⟨rfl, rfl⟩ | ⟨rfl, rfl⟩
    · simp at hp
    · simp at hp; subst hp; exact ⟨_, rfl, by simp [childIdxs]⟩
    · simp at hp; subst hp; exact ⟨_, rfl, by simp [childIdxs]⟩
    · simp at hp; subst hp; exact ⟨_, rfl, by simp [childIdxs]⟩
  · intro p dp hp
    rcases ex_getNode p dp hp with ⟨rfl, rfl⟩ | ⟨rfl, rfl⟩ | ⟨rfl, rfl⟩ | ⟨rfl, rfl⟩ <;> simp [childIdxs]

theorem ex_root : RootInv exStore := by
  refine ⟨⟨_, rfl⟩, ?_, ?_⟩
  · intro d hd
    rcases ex_getNode _ d hd with ⟨_, rfl⟩ | ⟨h, _⟩ | ⟨h, _⟩ | ⟨h, _⟩
    · rfl
    all_goals simp [exStore] at h
  · intro i d hd hp
    rcases ex_getNode i d hd with ⟨rfl, _⟩ | ⟨_, rfl⟩ | ⟨_, rfl⟩ | ⟨_, rfl⟩
    · rfl
    all_goals simp at hp

theorem ex_parentBelow : ParentBelow exStore := by
  intro p dp c hp hc
  rcases ex_getNode p dp hp with ⟨rfl, rfl⟩ | ⟨rfl, rfl⟩ | ⟨rfl, rfl⟩ | ⟨rfl, rfl⟩
  · simp [childIdxs] at hc; subst hc; exact ⟨by omega, by simp [exStore]⟩
  · simp [childIdxs] at hc; rcases hc with rfl | rfl <;> exact ⟨by omega, by simp [exStore]⟩
  · simp [childIdxs] at hc
  · simp [childIdxs] at hc

theorem ex_wf : HierWF exStore := hierWF_of_parentBelow exStore ex_parentBelow

theorem ex_ops : AllOpsComplete exStore := by
  intro l hl
  simp [Store.linksList, exStore, SubPort.port] at hl
  rcases hl with rfl | rfl
  · exact ⟨_, .value B, rfl, Spec.PortHasKind.valueOut (.input [B]) ⟨[], [B], []⟩ 0 B (Spec.HasSig.input [B] []) rfl⟩
  · exact ⟨_, .order, rfl, Spec.PortHasKind.order (.input [B]) .out rfl⟩

theorem ex_name : GraphNameOk exStore := by
  intro d hd
  rcases ex_getNode _ d hd with ⟨_, rfl⟩ | ⟨h, _⟩ | ⟨h, _⟩ | ⟨h, _⟩
  · exact ⟨"g", rfl⟩
  all_goals simp [exStore] at h

theorem ex_bound : PortBound exStore := by
  intro l hl
  simp [Store.linksList, exStore, SubPort.port] at hl
  rcases hl with rfl | rfl
  · exact ⟨⟨_, rfl, by decide, by decide⟩, ⟨_, rfl, by decide, by decide⟩⟩
  · exact ⟨⟨_, rfl, by decide, by decide⟩, ⟨_, rfl, by decide, by decide⟩⟩

example : hypsB exStore = true := by decide

/-- the hypotheses of `render_succeeds` (and of the other theorems) hold for the example … -/
example : ∃ out, render exStrs exStore {} = .ok out :=
  render_succeeds exStrs exStore {} ex_hier ex_root ex_wf ex_ops ex_name

/-- … and the drawing is the expected one: names, cells, clusters, edges, labels, metadata. -/
def exObs (c : RenderConfig) : Option (String × List Nat × List Nat × List (String × String × String × String) ×
    List (String × List String × List String × List String)) :=
  match render exStrs exStore c with
  | .ok o => some (o.name, Item.drawn o.root, Item.clusters o.root,
      o.edges.map (fun e => (e.srcName, e.dstName, e.label, e.color)),
      (Item.nodeStmts o.root).map (fun n => (n.name, n.inCells.map Cell.portId, n.outCells.map Cell.portId, n.metaLines)))
  | .error _ => none

example : exObs {} = some ("g", [2, 3, 1, 0], [0, 1],
    [("2:out.0", "3:in.0", "Bool", "#1CADE4"), ("2:out.-1", "3:in.-1", "", "black")],
    [("Input", [], ["out.0"], []), ("Output", ["in.0"], [], ["k: 1"]), ("DFG", [], ["out.0"], []),
     ("Module", [], [], ["name: g"])]) := by rfl

example : (exObs { palette := Palette.nb, qualifyOpName := true }).map (·.2.2.2.1) = some
    [("2:out.0", "3:in.0", "Bool", "#FFC107"), ("2:out.-1", "3:in.-1", "", "#343A40")] := by rfl

/-- failure cases are modelled, not totalised away: a dead root, a link out of a port without kind, a
    cyclic children relation, a graph name that is not a string -/
example : render exStrs { exStore with root := 7 } {} = .error .keyError := by rfl
example : render exStrs { exStore with links := ⟨[(⟨0, 0, 0⟩, ⟨3, 0, 0⟩)], []⟩ } {} = .error (.op .invalidPort) := by
  rfl
example : render exStrs { exStore with nodes := [some ⟨.module, none, 0, 0, [(0, none)], []⟩] } {} = .error .recursion := by
  rfl
example : render exStrs { exStore with nodes := [some ⟨.module, none, 0, 0, [], [("name", .int 5)]⟩], links := ⟨[], []⟩ } {} =
    .error .typeError := by rfl

/-- qualification: an extension operation shows the extension prefix (and its type arguments) only
    when asked to -/
def exExt : Op := .extOp ⟨some "arithmetic.int", "idivmod_u", "", none⟩ none [.boundedNat 5]
example : displayName exStrs false exExt = "idivmod_u" ∧ displayName exStrs true exExt = "arithmetic.int.idivmod_u<5>" ∧
    extPrefix exExt = "arithmetic.int." ∧ argSuffix exStrs exExt = "<5>" := ⟨rfl, rfl, rfl, rfl⟩

/-! ### every HUGR built through the mutators -/

/-- The store hypotheses hold in every state reachable through the mutators with live node arguments
    (C04 `ReachT`: also after node deletion and index reuse, where children need not have larger indices
    than their parents). -/
theorem reachT_store_hypotheses (rootOp : Op) (m : Serial.Meta) (s : St) (hr : C04.ReachT rootOp m s) :
    HierInv s ∧ RootInv s ∧ HierWF s := by
  obtain ⟨_, hh, hroot, _⟩ := C04.reachT_inv rootOp m s hr
  obtain ⟨order, _, _, hnd, hcl, hmem⟩ := C04.hierarchy_order_exact rootOp m s hr
  exact ⟨hh, hroot, hierWF_of_order s hh order hnd hcl hmem⟩

/-- **Rendering any such HUGR with complete operations succeeds, with exactly one node statement per
    node.** -/
theorem render_reachT (E : Strs) (rootOp : Op) (m : Serial.Meta) (s : St) (hr : C04.ReachT rootOp m s)
    (c : RenderConfig) (hops : AllOpsComplete s) (hname : GraphNameOk s) :
    ∃ out, render E s c = .ok out ∧ (Item.drawn out.root).Nodup ∧
      ∀ i, i ∈ Item.drawn out.root ↔ i ∈ Store.liveNodes s := by
  obtain ⟨hh, hroot, hwf⟩ := reachT_store_hypotheses rootOp m s hr
  obtain ⟨out, ho⟩ := render_succeeds E s c hh hroot hwf hops hname
  exact ⟨out, ho, one_node_stmt_per_node E s c out hh hroot hwf ho⟩

end HugrVerif.Props.C20
