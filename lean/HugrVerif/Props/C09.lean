/-
  C09 — Package envelopes round-trip and carry the documented header.
  Property theorems only; the model is `Envelope.lean` (+ `EnvelopePy.lean`: the constants
  regenerated from envelope.py / header.rs), helper lemmas are in `Proofs/Envelope.lean`.
  All theorems are about `py`, the constants of the *current* envelope.py.
-/
import HugrVerif.Proofs.Envelope

namespace HugrVerif.Props.C09
open HugrVerif HugrVerif.Envelope

/-- The regenerated tables are complete (all three formats, bytes only): no look-up in
    `EnvelopePy` takes its fallback branch. -/
theorem gen_wellformed : GenWF := by decide

/-! ### Header -/

/-- Decoding an encoded header (followed by any payload) returns it. -/
theorem header_roundtrip (h : Header) (p : List UInt8) : fromBytes py (toBytes py h ++ p) = .ok h :=
  fromBytes_toBytes py_wf h p

/-- The documented layout: ten bytes; 0–7 the magic number; byte 8 the format code; flags byte:
    bit 0 = zstd, bits 1–5 = 0, bit 6 = 1, bit 7 = 0. -/
theorem toBytes_layout (h : Header) :
    (toBytes py h).length = 10 ∧
    (toBytes py h).take 8 = docMagic ∧
    (toBytes py h)[8]? = some (py.code h.format) ∧
    ∃ fl, (toBytes py h)[9]? = some fl ∧
      fl.toNat.testBit 0 = h.zstd ∧
      (∀ i, 1 ≤ i → i ≤ 5 → fl.toNat.testBit i = false) ∧
      fl.toNat.testBit 6 = true ∧ fl.toNat.testBit 7 = false := by
  obtain ⟨f, z⟩ := h
  have bits : ∀ (P : Nat → Prop) [DecidablePred P], (P 1 ∧ P 2 ∧ P 3 ∧ P 4 ∧ P 5) →
      ∀ i, 1 ≤ i → i ≤ 5 → P i := by
    intro P _ ⟨h1, h2, h3, h4, h5⟩ i hi1 hi5
    have : i = 1 ∨ i = 2 ∨ i = 3 ∨ i = 4 ∨ i = 5 := by omega
    rcases this with rfl | rfl | rfl | rfl | rfl <;> assumption
  cases f <;> cases z
  all_goals first
    | exact ⟨by decide, by decide, by decide, toBytes.flagsOf py false, by decide, by decide,
        bits _ (by decide), by decide, by decide⟩
    | exact ⟨by decide, by decide, by decide, toBytes.flagsOf py true, by decide, by decide,
        bits _ (by decide), by decide, by decide⟩

/-- The three format codes, as documented (`MODULE = 1`, `MODULE_WITH_EXTS = 2`, `JSON = 63` = '?'). -/
theorem format_codes : py.code .module = 1 ∧ py.code .moduleWithExts = 2 ∧ py.code .json = 63 := by decide

/-- **Rejection, for all byte strings**: the decoder raises iff the input is shorter than a header,
    or its first eight bytes are not the magic number, or byte 8 is not a known format code. -/
theorem fromBytes_err_iff (d : List UInt8) :
    (∃ e, fromBytes py d = .error e) ↔
      d.length < 10 ∨ d.take 8 ≠ docMagic ∨ ¬ ∃ b, d[8]? = some b ∧ knownCode b := by
  have := fromBytes_error_iff py_wf d
  have e8 : py.magicLen = 8 := by decide
  have em : py.magic = docMagic := by decide
  rw [e8, em] at this
  rw [this]
  have : (∃ b, d[8]? = some b ∧ knownCode b) ↔ ∃ f, d[8]? = some (py.code f) := by
    constructor
    · rintro ⟨b, hb, hk⟩
      obtain ⟨f, rfl⟩ := (knownCode_iff b).1 hk
      exact ⟨f, hb⟩
    · rintro ⟨f, hf⟩
      exact ⟨_, hf, (knownCode_iff _).2 ⟨f, rfl⟩⟩
  rw [this]

/-- … and what it raises is a `ValueError` (never an `IndexError` from `data[8]`/`data[9]`). -/
theorem fromBytes_err_is_valueError (d : List UInt8) (e : Err) (h : fromBytes py d = .error e) :
    e = .valueError :=
  fromBytes_error_class py_wf d e h

/-- An accepted input is decoded to the format whose code is byte 8 and to bit 0 of byte 9;
    the other seven flag bits (reserved bits 1–5, the constant bits 6 and 7) are ignored. -/
theorem fromBytes_ok_iff (d : List UInt8) (h : Header) :
    fromBytes py d = .ok h ↔
      10 ≤ d.length ∧ d.take 8 = docMagic ∧ d[8]? = some (py.code h.format) ∧
      ∃ fl, d[9]? = some fl ∧ h.zstd = fl.toNat.testBit 0 := by
  have := Envelope.fromBytes_ok_iff py_wf d h
  have e8 : py.magicLen = 8 := by decide
  have em : py.magic = docMagic := by decide
  have er : py.zstdRead = 1 := by decide
  rw [e8, em, er] at this
  simpa [uint8_bit0] using this

/-- Every byte string is either rejected with `ValueError` or decoded (no third outcome). -/
theorem fromBytes_total (d : List UInt8) :
    fromBytes py d = .error .valueError ∨ ∃ h, fromBytes py d = .ok h := by
  cases hd : fromBytes py d with
  | error e => rw [fromBytes_err_is_valueError d e hd]; exact .inl rfl
  | ok h => exact .inr ⟨h, rfl⟩

/-! ### Configurations -/

/-- A configuration is compressed iff its level is not `None` — level 0 (zstd's default) is. -/
theorem makeHeader_zstd (cfg : Config) : (makeHeader cfg).zstd = true ↔ cfg.zstd ≠ none := by
  cases h : cfg.zstd <;> simp [makeHeader, h]

theorem makeHeader_format (cfg : Config) : (makeHeader cfg).format = cfg.format := rfl

/-- `Package.to_bytes()` / `to_str()` without a configuration: uncompressed JSON. -/
theorem default_configs :
    py.binaryDefault = { format := .json, zstd := none } ∧ py.textDefault = { format := .json, zstd := none } := by
  decide

/-! ### Text encoding -/

/-- Only JSON is declared ASCII-printable … -/
theorem asciiPrintable_iff (f : Format) : py.asciiPrintable f = true ↔ f = .json := by
  cases f <;> decide

/-- … and that is exactly the format whose headers consist of printable ASCII bytes. -/
theorem asciiPrintable_iff_header_printable (f : Format) :
    py.asciiPrintable f = true ↔ ∀ z, (toBytes py { format := f, zstd := z }).all printable = true := by
  cases f
  · simp only [show py.asciiPrintable .module = false by decide, Bool.false_eq_true, false_iff]
    intro h; exact absurd (h false) (by decide)
  · simp only [show py.asciiPrintable .moduleWithExts = false by decide, Bool.false_eq_true, false_iff]
    intro h; exact absurd (h false) (by decide)
  · simp only [show py.asciiPrintable .json = true by decide, true_iff]
    intro z; cases z <;> decide

variable {Pkg Str : Type}

/-- Text encoding is offered only for ASCII-printable formats: for every other format
    `make_envelope_str` raises `ValueError` (before encoding anything). -/
theorem str_only_ascii (e : Env Pkg Str) (p : Pkg) (cfg : Config) (h : cfg.format ≠ .json) :
    makeEnvelopeStr py e p cfg = .error .valueError := by
  have : py.asciiPrintable cfg.format = false := by
    cases hf : py.asciiPrintable cfg.format with
    | false => rfl
    | true => exact absurd ((asciiPrintable_iff _).1 hf) h
  simp [makeEnvelopeStr, this]

/-- A text envelope that was produced is the UTF-8 decoding of the binary envelope of a JSON
    configuration. -/
theorem str_ok_is_decoded_bytes (e : Env Pkg Str) (p : Pkg) (cfg : Config) (s : Str)
    (h : makeEnvelopeStr py e p cfg = .ok s) :
    cfg.format = .json ∧ ∃ b, makeEnvelope py e p cfg = .ok b ∧ e.utf8dec b = some s := by
  unfold makeEnvelopeStr at h
  cases hf : py.asciiPrintable cfg.format with
  | false => simp [hf] at h
  | true =>
    refine ⟨(asciiPrintable_iff _).1 hf, ?_⟩
    simp only [hf, Bool.not_true, Bool.false_eq_true, if_false] at h
    cases hb : makeEnvelope py e p cfg with
    | error x => rw [hb] at h; cases h
    | ok b =>
      rw [hb] at h
      simp only [] at h
      cases hu : e.utf8dec b with
      | none => rw [hu] at h; cases h
      | some s' => rw [hu] at h; cases h; exact ⟨b, rfl, hu⟩

/-! ### Round trip -/

/-- The first ten bytes of every envelope that could be encoded are the header of its
    configuration (whatever the format and compression level). -/
theorem envelope_header (e : Env Pkg Str) (p : Pkg) (cfg : Config) (b : List UInt8)
    (h : makeEnvelope py e p cfg = .ok b) :
    b.take 10 = toBytes py (makeHeader cfg) ∧ fromBytes py b = .ok (makeHeader cfg) := by
  obtain ⟨payload, rfl, _⟩ := makeEnvelope_prefix py e p cfg b h
  refine ⟨?_, header_roundtrip _ _⟩
  have : (toBytes py (makeHeader cfg)).length = 10 := (toBytes_layout _).1
  rw [← this, List.take_left]

/-- **Binary round trip.** If decompression inverts compression, then for every package and every
    JSON configuration that can be encoded — uncompressed (`None`) or compressed at any level,
    including `0` — decoding the envelope is decoding the JSON document the package serialises to:
    the envelope layer (header, compression) is transparent. -/
theorem envelope_roundtrip (e : Env Pkg Str)
    (hz : ∀ x l y, e.compress x l = .ok y → e.decompress y = .ok x)
    (p : Pkg) (cfg : Config) (hf : cfg.format = .json) (b : List UInt8)
    (h : makeEnvelope py e p cfg = .ok b) :
    ∃ js, e.dumpJson p = .ok js ∧ readEnvelope py e b = e.loadJson (e.utf8enc js) := by
  obtain ⟨raw, hraw, hr⟩ := readEnvelope_makeEnvelope py_wf e hz p cfg b h
  rw [hf] at hraw hr
  unfold encodePayload at hraw
  simp only [] at hraw hr
  cases hj : e.dumpJson p with
  | error x => rw [hj] at hraw; cases hraw
  | ok js =>
    rw [hj] at hraw
    cases hraw
    exact ⟨js, rfl, hr⟩

/-- **Text round trip.** If additionally encoding a decoded string gives the bytes back, every text
    envelope that could be produced decodes to the same thing.  (With compression the payload is in
    general not UTF-8: then `make_envelope_str` raises `ValueError`, see `str_error_class`.) -/
theorem envelope_str_roundtrip (e : Env Pkg Str)
    (hz : ∀ x l y, e.compress x l = .ok y → e.decompress y = .ok x)
    (hu : ∀ b s, e.utf8dec b = some s → e.utf8enc s = b)
    (p : Pkg) (cfg : Config) (s : Str) (h : makeEnvelopeStr py e p cfg = .ok s) :
    ∃ js, e.dumpJson p = .ok js ∧ readEnvelopeStr py e s = e.loadJson (e.utf8enc js) := by
  obtain ⟨hf, b, hb, hd⟩ := str_ok_is_decoded_bytes e p cfg s h
  unfold readEnvelopeStr
  rw [hu b s hd]
  exact envelope_roundtrip e hz p cfg hf b hb

/-- When the codec and the compressor do not fail, the only error of `make_envelope_str` on a
    JSON configuration is the `ValueError` (`UnicodeDecodeError`) of the final decoding. -/
theorem str_error_class (e : Env Pkg Str) (p : Pkg) (cfg : Config) (b : List UInt8)
    (hb : makeEnvelope py e p cfg = .ok b) (x : Err) (h : makeEnvelopeStr py e p cfg = .error x) :
    x = .valueError := by
  unfold makeEnvelopeStr at h
  split at h
  · cases h; rfl
  · rw [hb] at h
    simp only [] at h
    split at h
    · cases h; rfl
    · cases h

/-- The model formats are written but cannot be read back yet: decoding raises `ValueError`. -/
theorem model_formats_not_decodable (e : Env Pkg Str)
    (hz : ∀ x l y, e.compress x l = .ok y → e.decompress y = .ok x)
    (p : Pkg) (cfg : Config) (hf : cfg.format ≠ .json) (b : List UInt8)
    (h : makeEnvelope py e p cfg = .ok b) : readEnvelope py e b = .error .valueError := by
  obtain ⟨raw, _, hr⟩ := readEnvelope_makeEnvelope py_wf e hz p cfg b h
  rw [hr]
  cases hc : cfg.format with
  | json => exact absurd hc hf
  | module => rfl
  | moduleWithExts => rfl

/-- `Package.to_bytes(None)`/`from_bytes` are `make_envelope`/`read_envelope` with the default. -/
theorem pkg_default_roundtrip (e : Env Pkg Str)
    (hz : ∀ x l y, e.compress x l = .ok y → e.decompress y = .ok x)
    (p : Pkg) (b : List UInt8) (h : pkgToBytes py e p none = .ok b) :
    b.take 10 = toBytes py { format := .json, zstd := false } ∧
    ∃ js, e.dumpJson p = .ok js ∧ pkgFromBytes py e b = e.loadJson (e.utf8enc js) := by
  unfold pkgToBytes at h
  simp only [default_configs.1] at h
  exact ⟨(envelope_header e p _ b h).1, envelope_roundtrip e hz p _ rfl b h⟩

/-! ### Cross-reference with the Rust implementation -/

/-- envelope.py and hugr-core/src/envelope/header.rs agree on the magic number, the three format
    codes (under the documented name correspondence), which formats are ASCII-printable, the
    constant flag bits, the zstd flag, and the field offsets. -/
theorem py_consts_eq_rust_consts :
    py.magic = rs.magic ∧ (∀ f, py.code f = rs.code f) ∧ (∀ f, py.asciiPrintable f = rs.asciiPrintable f) ∧
    py.flagsBase = rs.flagsBase ∧ py.zstdSet = rs.zstdSet ∧ py.zstdRead = rs.zstdRead ∧
    py.minLen = rs.minLen ∧ py.magicLen = rs.magicLen ∧ py.fmtIdx = rs.fmtIdx ∧ py.flagsIdx = rs.flagsIdx ∧
    py.payloadStart = rs.payloadStart ∧
    Gen.Envelope.rsFormats.map (·.1) = Format.all.map Format.rsName := by
  refine ⟨by decide, ?_, ?_, by decide, by decide, by decide, by decide, by decide, by decide, by decide,
    by decide, by decide⟩
  · intro f; cases f <;> decide
  · intro f; cases f <;> decide

/-- Hence both header codecs are the same function. -/
theorem py_header_codec_eq_rust (h : Header) (d : List UInt8) :
    toBytes py h = toBytes rs h ∧ fromBytes py d = fromBytes rs d := by
  obtain ⟨h1, h2, _, h4, h5, h6, h7, h8, h9, h10, _, _⟩ := py_consts_eq_rust_consts
  have hc : py.code = rs.code := funext h2
  constructor
  · simp only [toBytes, toBytes.flagsOf, h1, hc, h4, h5]
  · simp only [fromBytes, ofCode, h1, hc, h6, h7, h8, h9, h10]

/-! ### Non-vacuity: a concrete environment satisfying the hypotheses -/

local instance {α : Type} [DecidableEq α] : DecidableEq (Except Err α)
  | .ok a, .ok b => if h : a = b then isTrue (h ▸ rfl) else isFalse (fun h' => h (Except.ok.inj h'))
  | .error a, .error b => if h : a = b then isTrue (h ▸ rfl) else isFalse (fun h' => h (Except.error.inj h'))
  | .ok _, .error _ => isFalse (fun h => by cases h)
  | .error _, .ok _ => isFalse (fun h => by cases h)

-- the hypotheses of the round-trip theorems are satisfiable, and the theorems apply to a
-- compressed (level 0) and a text envelope
example : ∃ js, toyEnv.dumpJson [0x7b, 0x7d] = .ok js ∧
    readEnvelope py toyEnv ([0x48, 0x55, 0x47, 0x52, 0x69, 0x48, 0x4a, 0x76, 63, 0x41] ++ [0, 0xB5, 0x7b, 0x7d]) =
      toyEnv.loadJson (toyEnv.utf8enc js) :=
  envelope_roundtrip toyEnv toy_hz [0x7b, 0x7d] { format := .json, zstd := some 0 } rfl _ (by decide)
example : ∃ js, toyEnv.dumpJson [0x7b, 0x7d] = .ok js ∧
    readEnvelopeStr py toyEnv [0x48, 0x55, 0x47, 0x52, 0x69, 0x48, 0x4a, 0x76, 63, 0x40, 0x7b, 0x7d] =
      toyEnv.loadJson (toyEnv.utf8enc js) :=
  envelope_str_roundtrip toyEnv toy_hz toy_hu [0x7b, 0x7d] { format := .json, zstd := none } _ (by decide)
example : readEnvelope py toyEnv ([0x48, 0x55, 0x47, 0x52, 0x69, 0x48, 0x4a, 0x76, 2, 0x41] ++ [3, 0xB5, 0x7b, 0x7d]) =
    .error .valueError :=
  model_formats_not_decodable toyEnv toy_hz [0x7b, 0x7d] { format := .moduleWithExts, zstd := some 3 }
    (by decide) _ (by decide)

-- the remaining conditional theorems apply to concrete envelopes
example := envelope_header toyEnv [0x7b, 0x7d] { format := .module, zstd := some 3 }
  ([0x48, 0x55, 0x47, 0x52, 0x69, 0x48, 0x4a, 0x76, 1, 0x41] ++ [3, 0xB5, 0x7b, 0x7d]) (by decide)
example := str_error_class toyEnv [0x7b, 0x7d] { format := .json, zstd := some 3 }
  ([0x48, 0x55, 0x47, 0x52, 0x69, 0x48, 0x4a, 0x76, 63, 0x41] ++ [3, 0xB5, 0x7b, 0x7d]) (by decide) .valueError (by decide)
example := pkg_default_roundtrip toyEnv toy_hz [0x7b, 0x7d]
  [0x48, 0x55, 0x47, 0x52, 0x69, 0x48, 0x4a, 0x76, 63, 0x40, 0x7b, 0x7d] (by decide)
example := str_ok_is_decoded_bytes toyEnv [0x7b, 0x7d] { format := .json, zstd := none }
  [0x48, 0x55, 0x47, 0x52, 0x69, 0x48, 0x4a, 0x76, 63, 0x40, 0x7b, 0x7d] (by decide)

example : makeEnvelope py toyEnv [0x7b, 0x7d] { format := .json, zstd := some 0 } =
    .ok ([0x48, 0x55, 0x47, 0x52, 0x69, 0x48, 0x4a, 0x76, 63, 0x41] ++ [0, 0xB5, 0x7b, 0x7d]) := by decide
example : readEnvelope py toyEnv ([0x48, 0x55, 0x47, 0x52, 0x69, 0x48, 0x4a, 0x76, 63, 0x41] ++ [0, 0xB5, 0x7b, 0x7d]) =
    .ok [0x7b, 0x7d] := by decide
example : makeEnvelopeStr py toyEnv [0x7b, 0x7d] { format := .json, zstd := none } =
    .ok [0x48, 0x55, 0x47, 0x52, 0x69, 0x48, 0x4a, 0x76, 63, 0x40, 0x7b, 0x7d] := by decide
-- a compressed text envelope that cannot be decoded as text: ValueError
example : makeEnvelopeStr py toyEnv [0x7b, 0x7d] { format := .json, zstd := some 3 } = .error .valueError := by decide
example : makeEnvelopeStr py toyEnv [] { format := .module, zstd := none } = .error .valueError := by decide
example : readEnvelope py toyEnv ([0x48, 0x55, 0x47, 0x52, 0x69, 0x48, 0x4a, 0x76, 1, 0x40]) = .error .valueError := by
  decide
-- header decoder: short input, wrong magic, unknown format, reserved bits set
example : fromBytes py [0x48, 0x55, 0x47, 0x52, 0x69, 0x48, 0x4a, 0x76, 63] = .error .valueError := by decide
example : fromBytes py [0x48, 0x55, 0x47, 0x52, 0x69, 0x48, 0x4a, 0x77, 63, 0x40] = .error .valueError := by decide
example : fromBytes py [0x48, 0x55, 0x47, 0x52, 0x69, 0x48, 0x4a, 0x76, 3, 0x40] = .error .valueError := by decide
example : fromBytes py [0x48, 0x55, 0x47, 0x52, 0x69, 0x48, 0x4a, 0x76, 2, 0xBF] = .ok ⟨.moduleWithExts, true⟩ := by
  decide
example : fromBytes py [0x48, 0x55, 0x47, 0x52, 0x69, 0x48, 0x4a, 0x76, 63, 0x00] = .ok ⟨.json, false⟩ := by decide
example : (makeHeader { format := .json, zstd := some 0 }).zstd = true := by decide
example : (makeHeader { format := .json, zstd := none }).zstd = false := by decide

end HugrVerif.Props.C09
