/-
  C07 — A type is reported copyable only if all of its constituents are.
  Property theorems only.  Model: `Tys.lean` (`Ty.bound` mirrors every `type_bound`, `Bound.join`
  mirrors `TypeBound.join` as the loop is written, `Codec.encTy` mirrors `_to_opaque/_to_serial`),
  `StdTys.lean` (Array / List / StaticArray over the regenerated definitions).
  Specification: `Ty.AllCopyable`, `Ty.Raises` (inductive, in `Proofs/Tys.lean`, written from the
  property text).  Helper lemmas: `Proofs/Tys.lean`, `Proofs/TysCodec.lean`.
-/
import HugrVerif.Proofs.TysCodec
import HugrVerif.StdTys

namespace HugrVerif.Props.C07
open HugrVerif Ty Codec HugrVerif.Std Gen.StdTypeDefs

/-! ### the join of bounds -/

/-- The join is `Copyable` exactly when every joined bound is. -/
theorem join_eq_copyable_iff (bs : List Bound) : Bound.join bs = .copyable ↔ ∀ b ∈ bs, b = .copyable :=
  Bound.join_eq_copyable_iff bs

theorem join_eq_any_iff (bs : List Bound) : Bound.join bs = .any ↔ ∃ b ∈ bs, b = .any :=
  Bound.join_eq_any_iff bs

/-- An empty sum is copyable: the empty join. -/
theorem join_empty_copyable : Bound.join [] = .copyable := rfl

/-- `join` is the least upper bound in the order `Copyable ≤ Any`. -/
theorem join_is_lub (bs : List Bound) :
    (∀ b ∈ bs, Bound.le b (Bound.join bs)) ∧ ∀ u, (∀ b ∈ bs, Bound.le b u) → Bound.le (Bound.join bs) u :=
  Bound.join_is_lub bs

example : Bound.join [.copyable, .any, .copyable] = .any := rfl
example : Bound.join [.copyable, .copyable] = .copyable := rfl

/-! ### the reported bound against the specification -/

/-- **Main theorem.**  Whenever `type_bound()` returns, it returns `Copyable` exactly when every
    constituent of the type can be copied. -/
theorem bound_ok_copyable_iff (t : Ty) (b : Bound) (h : Ty.bound t = .ok b) : b = .copyable ↔ AllCopyable t :=
  Ty.bound_ok_copyable_iff t b h

/-- The title: a type reported copyable has only copyable constituents (soundness for a linearity
    checker). -/
theorem copyable_only_if_all_constituents (t : Ty) (h : Ty.bound t = .ok .copyable) : AllCopyable t :=
  (Ty.bound_ok_copyable_iff t _ h).1 rfl

/-- `type_bound()` raises exactly when the computation reaches an extension type whose definition
    names a position outside its argument list (`IndexError`). -/
theorem bound_error_iff (t : Ty) : Ty.bound t = .error .indexError ↔ Raises t := Ty.bound_error_iff t

/-- Both together, as an equivalence without hypotheses. -/
theorem bound_copyable_iff (t : Ty) : Ty.bound t = .ok .copyable ↔ AllCopyable t ∧ ¬ Raises t :=
  Ty.bound_copyable_iff t

theorem bound_any_iff (t : Ty) : Ty.bound t = .ok .any ↔ ¬ AllCopyable t ∧ ¬ Raises t := Ty.bound_any_iff t

-- non-vacuity: a nested copyable type, a nested linear one, and a raising one
example : Ty.bound (.sum [[.usize, Ty.tuple [Ty.bool, .function [.qubit] [.qubit] []]], []]) = .ok .copyable := rfl
example : Ty.bound (Ty.option [Ty.tuple [Ty.bool, .qubit]]) = .ok .any := rfl
example : AllCopyable (.sum [[.usize], []]) :=
  (bound_ok_copyable_iff _ _ (rfl : Ty.bound (.sum [[.usize], []]) = .ok .copyable)).1 rfl
example : ¬ AllCopyable (Ty.tuple [.usize, .qubit]) := fun h =>
  absurd ((bound_ok_copyable_iff _ _ (rfl : Ty.bound (Ty.tuple [.usize, .qubit]) = .ok .any)).2 h) (by decide)
example : Raises (.extType ⟨"e", "T", "", [], .fromParams [0]⟩ []) := (bound_error_iff _).1 rfl

/-! ### one corollary per clause of the statement -/

/-- Sums take the least upper bound of their element bounds. -/
theorem sum_bound_is_join (rows : List (List Ty)) :
    Ty.bound (.sum rows) = (boundRows rows).map Bound.join := bound_sum rows

/-- … so a sum is copyable exactly when every element of every row is. -/
theorem sum_copyable_iff (rows : List (List Ty)) (h : ∀ r ∈ rows, ∀ t ∈ r, ∃ b, Ty.bound t = .ok b) :
    Ty.bound (.sum rows) = .ok .copyable ↔ ∀ r ∈ rows, ∀ t ∈ r, Ty.bound t = .ok .copyable := by
  have hno : ¬ ∃ e, boundRows rows = .error e := by
    rw [boundRows_error_iff]
    rintro ⟨r, hr, t, ht, e, he⟩
    obtain ⟨b, hb⟩ := h r hr t ht
    rw [hb] at he; cases he
  rw [bound_sum]
  cases hbs : boundRows rows with
  | error e => exact absurd ⟨e, hbs⟩ hno
  | ok bs =>
    simp only [Except.map, Except.ok.injEq, Bound.join_eq_copyable_iff]
    constructor
    · intro hall r hr t ht
      obtain ⟨b, hb⟩ := h r hr t ht
      rw [hb, hall b ((boundRows_ok_mem rows bs hbs b).2 ⟨r, hr, t, ht, hb⟩)]
    · intro hall b hb
      obtain ⟨r, hr, t, ht, htb⟩ := (boundRows_ok_mem rows bs hbs b).1 hb
      have := hall r hr t ht
      rw [htb] at this
      cases this; rfl

example : Ty.bound (.sum [[.usize], [.qubit]]) = .ok .any := rfl

/-- An empty sum is copyable, and so is every unit sum. -/
theorem empty_sum_copyable : Ty.bound (.sum []) = .ok .copyable := rfl
theorem unitSum_copyable (n : Nat) : Ty.bound (.unitSum n) = .ok .copyable := rfl

/-- Tuples, options and eithers are sums: their bound is the join of their element bounds. -/
theorem tuple_bound (ts : List Ty) : Ty.bound (Ty.tuple ts) = (boundRow ts).map Bound.join := by
  rw [Ty.tuple, bound_sum, boundRows, boundRows]
  cases boundRow ts <;> simp [bind, Except.bind, pure, Except.pure, Except.map]

theorem option_bound (ts : List Ty) : Ty.bound (Ty.option ts) = (boundRow ts).map Bound.join := by
  rw [Ty.option, bound_sum, boundRows, boundRows, boundRows, boundRow]
  cases boundRow ts <;> simp [bind, Except.bind, pure, Except.pure, Except.map]

theorem either_bound (l r : List Ty) :
    Ty.bound (Ty.either l r) = (boundRow (l ++ r)).map Bound.join := by
  rw [Ty.either, bound_sum, boundRows, boundRows, boundRows, boundRow_eq_mapM, boundRow_eq_mapM,
    boundRow_eq_mapM, List.mapM_append]
  cases l.mapM Ty.bound <;> cases r.mapM Ty.bound <;> simp [bind, Except.bind, pure, Except.pure, Except.map]

example : Ty.bound (Ty.tuple [Ty.bool, Ty.bool]) = .ok .copyable := rfl   -- the two doctests of `type_bound`
example : Ty.bound (Ty.tuple [.qubit, Ty.bool]) = .ok .any := rfl

/-- Function types (also polymorphic ones) are copyable whatever they mention. -/
theorem function_copyable (i o : List Ty) (r : List String) : Ty.bound (.function i o r) = .ok .copyable := rfl
theorem poly_copyable (ps : List TypeParam) (i o : List Ty) (r : List String) :
    Ty.bound (.poly ps i o r) = .ok .copyable := rfl

/-- Qubits are not copyable; `usize` is. -/
theorem qubit_not_copyable : Ty.bound .qubit = .ok .any := rfl
theorem usize_copyable : Ty.bound .usize = .ok .copyable := rfl

/-- Variables, row variables, aliases and opaque types report their declared bound. -/
theorem variable_declared (i : Nat) (b : Bound) : Ty.bound (.variable i b) = .ok b := rfl
theorem rowVariable_declared (i : Nat) (b : Bound) : Ty.bound (.rowVariable i b) = .ok b := rfl
theorem alias_declared (n : String) (b : Bound) : Ty.bound (.alias n b) = .ok b := rfl
theorem opaque_declared (id : String) (b : Bound) (args : List TypeArg) (e : String) :
    Ty.bound (.opaque id b args e) = .ok b := rfl

/-- An extension type reports its definition's explicit bound … -/
theorem ext_explicit_bound (d : TypeDefRef) (args : List TypeArg) (b : Bound) (h : d.bound = .explicit b) :
    Ty.bound (.extType d args) = .ok b := bound_extType_explicit d args b h

example : Ty.bound (.extType ⟨"e", "T", "", [.type .any], .explicit .copyable⟩ [.type .qubit]) = .ok .copyable := rfl

/-- … or the join of the bounds of the type arguments its definition names: it is copyable exactly
    when each named type argument is (positions may repeat, count from the end when negative, and
    arguments that are not types are skipped). -/
theorem ext_fromParams_copyable_iff (d : TypeDefRef) (args : List TypeArg) (idxs : List Int)
    (h : d.bound = .fromParams idxs) (hno : ¬ Raises (.extType d args)) :
    Ty.bound (.extType d args) = .ok .copyable ↔
      ∀ i ∈ idxs, ∀ t, pyIndex args i = some (.type t) → Ty.bound t = .ok .copyable := by
  rw [Ty.bound_copyable_iff]
  constructor
  · rintro ⟨hA, _⟩ i hi t hti
    cases hA with
    | extExplicit _ _ h' => rw [h] at h'; cases h'
    | extFromParams _ _ idxs' h' hall =>
      rw [h] at h'; cases h'
      exact (Ty.bound_copyable_iff t).2 ⟨hall i hi t hti, fun hR => hno (.extNested d args idxs i t h hi hti hR)⟩
  · intro hall
    exact ⟨.extFromParams d args idxs h (fun i hi t hti => ((Ty.bound_copyable_iff t).1 (hall i hi t hti)).1), hno⟩

-- repeated, negative positions; a non-type argument is skipped; a linear argument that is not named does not matter
example : Ty.bound (.extType ⟨"e", "T", "", [], .fromParams [0, -3, 0, 1]⟩ [.type .usize, .boundedNat 3, .type .qubit])
    = .ok .copyable := rfl
example : Ty.bound (.extType ⟨"e", "T", "", [], .fromParams [0, -1]⟩ [.type .usize, .boundedNat 3, .type .qubit])
    = .ok .any := rfl
example : ¬ Raises (.extType ⟨"e", "T", "", [], .fromParams [0, -3, 0, 1]⟩ [.type .usize, .boundedNat 3, .type .qubit]) :=
  fun h => nomatch ((bound_error_iff _).2 h).symm.trans (rfl : Ty.bound _ = .ok .copyable)

/-- Positions outside the argument list: `IndexError`, never a silently copyable type. -/
theorem ext_out_of_range_raises (d : TypeDefRef) (args : List TypeArg) (idxs : List Int) (i : Int)
    (h : d.bound = .fromParams idxs) (hi : i ∈ idxs)
    (hr : (args.length : Int) ≤ i ∨ i < -(args.length : Int)) :
    Ty.bound (.extType d args) = .error .indexError :=
  (Ty.bound_error_iff _).2 (.extOutOfRange d args idxs i h hi ((pyIndex_eq_none_iff args i).2 hr))

example : Ty.bound (.extType ⟨"e", "T", "", [], .fromParams [0, 2]⟩ [.type .usize, .boundedNat 3]) = .error .indexError :=
  ext_out_of_range_raises _ _ [0, 2] 2 rfl (by decide) (by decide)

/-! ### the serialised bound -/

/-- **The bound written into a serialised extension type equals the computed one.** -/
theorem enc_opaque_bound (d : TypeDefRef) (args : List TypeArg) (j : Json) (h : encTy (.extType d args) = .ok j) :
    ∃ b js, Ty.bound (.extType d args) = .ok b ∧ j = opaqueJson d.ext d.name js b ∧
      field "bound" [("t", .str "Opaque"), ("extension", .str d.ext), ("id", .str d.name), ("args", .arr js),
        ("bound", encBound b)] = some (encBound b) :=
  Codec.enc_opaque_bound d args j h

/-- … there is no encoding when the bound computation raises. -/
theorem enc_raises_with_bound (d : TypeDefRef) (args : List TypeArg) (h : Ty.bound (.extType d args) = .error .indexError) :
    encTy (.extType d args) = .error .indexError := encTy_extType_indexError d args h

/-- A reader of the document sees the same bound: the decoded (opaque) type reports the bound of
    the encoded type, for every type expression. -/
theorem decoded_bound_eq (t : Ty) (j : Json) (fuel : Nat) (h : encTy t = .ok j) (hp : t.isPoly = false)
    (hd : t.depth ≤ fuel) : ∃ t', decTy fuel j = .ok t' ∧ Ty.bound t' = Ty.bound t ∧ encTy t' = .ok j :=
  ⟨Ty.norm t, decTy_encTy t j fuel h hp hd, bound_norm t, by rw [encTy_norm, h]⟩

example : ∃ j, encTy (.extType ⟨"e", "T", "", [], .fromParams [0]⟩ [.type .qubit]) = .ok j ∧
    decTy 5 j = .ok (.opaque "T" .any [.type .qubit] "e") := ⟨_, rfl, rfl⟩

/-! ### the type layer of the codec (reused by C05) -/

/-- Decoding the encoding of any serialisable type gives its normal form (extension types in opaque
    form), which encodes to the same document and has the same bound. -/
theorem type_roundtrip (t : Ty) (j : Json) (fuel : Nat) (h : encTy t = .ok j) (hp : t.isPoly = false)
    (hd : t.depth ≤ fuel) :
    decTy fuel j = .ok (Ty.norm t) ∧ encTy (Ty.norm t) = .ok j ∧ Ty.bound (Ty.norm t) = Ty.bound t :=
  ⟨decTy_encTy t j fuel h hp hd, by rw [encTy_norm, h], bound_norm t⟩

/-- The same for a polymorphic function type, which is serialised as a field of its own shape. -/
theorem poly_roundtrip (ps : List TypeParam) (i o : List Ty) (r : List String) (j : Json) (fuel : Nat)
    (h : encTy (.poly ps i o r) = .ok j) (hd : (Ty.poly ps i o r).depth ≤ fuel) :
    decPoly fuel j = .ok (Ty.norm (.poly ps i o r)) ∧ encTy (Ty.norm (.poly ps i o r)) = .ok j :=
  ⟨decPoly_encTy ps i o r j fuel h hd, by rw [encTy_norm, h]⟩

/-- … as an element type it is rejected (`ValidationError`), like `_to_serial_root()` does. -/
theorem poly_not_an_element (ps : List TypeParam) (i o : List Ty) (r : List String) (ts : List Ty) :
    encRow (.poly ps i o r :: ts) = .error .validationError ∧
      encArg (.type (.poly ps i o r)) = .error .validationError := ⟨rfl, rfl⟩

theorem arg_roundtrip (a : TypeArg) (j : Json) (fuel : Nat) (h : encArg a = .ok j) (hd : a.depth ≤ fuel) :
    decArg fuel j = .ok (Ty.normArg a) ∧ encArg (Ty.normArg a) = .ok j :=
  ⟨decArg_encArg a j fuel h hd, by rw [encArg_normArg, h]⟩

theorem param_roundtrip (p : TypeParam) (fuel : Nat) (hd : p.depth ≤ fuel) : decParam fuel (encParam p) = .ok p :=
  decParam_encParam p fuel hd

/-- Unknown fields are ignored and `runtime_reqs` is optional. -/
theorem dec_extra_fields_ignored (fuel : Nat) (k : String) (v : Json) (hk : k ∉ tyFields) (pre post : List (String × Json)) :
    decTy fuel (.obj (pre ++ (k, v) :: post)) = decTy fuel (.obj (pre ++ post)) :=
  decTy_extra_field fuel k v hk pre post

theorem dec_runtime_reqs_default (fuel : Nat) (i o : Json) :
    decTy fuel (.obj [("t", .str "G"), ("input", i), ("output", o)]) =
      decTy fuel (.obj [("t", .str "G"), ("input", i), ("output", o), ("runtime_reqs", .arr [])]) :=
  decTy_runtime_reqs_default fuel i o

example : encTy (.function [.qubit] [Ty.bool] ["e"]) = .ok (funcJson [.obj [("t", .str "Q")]]
    [.obj [("t", .str "Sum"), ("s", .str "Unit"), ("size", .int 2)]] ["e"]) := rfl
example : (Ty.function [.qubit] [Ty.bool] ["e"]).depth ≤ 3 := by decide
example : decTy 3 (.obj [("t", .str "Q"), ("zz", .null)]) = .ok .qubit := rfl
example : "zz" ∉ tyFields := by decide
example : (TypeArg.sequence [.type .qubit, .boundedNat 2]).depth ≤ 3 := by decide

/-! ### the std containers -/

/-- a definition whose bound is the single position `pre.length` holding a type argument -/
private theorem pick_type (pre : List TypeArg) (ty : Ty) (post : List TypeArg) :
    pick ((pre ++ .type ty :: post).map argBound) (pre.length : Nat) =
      (match Ty.bound ty with | .ok b => .ok (some b) | .error e => .error e) := by
  unfold pick
  rw [pyIndex_nonneg]
  simp [argBound]
  cases Ty.bound ty <;> rfl

private theorem bound_single (d : TypeDefRef) (pre post : List TypeArg) (ty : Ty)
    (h : d.bound = .fromParams [(pre.length : Nat)]) :
    Ty.bound (.extType d (pre ++ .type ty :: post)) = Ty.bound ty := by
  rw [bound_extType_fromParams d _ _ h, ExceptList.mapM_cons, pick_type, ExceptList.mapM_nil]
  cases Ty.bound ty with
  | ok b => cases b <;> rfl
  | error e => rfl

/-- The generic bound of `Array<n, T>` computed from the (regenerated) definition is the bound of `T`. -/
theorem array_generic_bound (size : TypeArg) (ty : Ty) :
    Ty.bound (.extType arrayDef [size, .type ty]) = Ty.bound ty := bound_single arrayDef [size] [] ty rfl

theorem list_generic_bound (ty : Ty) : Ty.bound (mkList ty) = Ty.bound ty := bound_single listDef [] [] ty rfl

/-- **The overriding `Array.type_bound` equals the generic computation from the definition**, on
    every instance the constructor can build (same value, and it raises in the same cases). -/
theorem array_bound_eq_generic (ty : Ty) (size : TypeArg) (a : Ty) (h : mkArray ty size = .ok a) :
    arrayTypeBound a = genericBound a := by
  have : a = .extType arrayDef [size, .type ty] := by
    unfold mkArray at h
    split at h <;> first | (cases h; rfl) | cases h
  subst this
  rw [genericBound, array_generic_bound]
  simp [arrayTypeBound, elemTypeBound, arrayTyIndex]

theorem list_bound_eq_generic (ty : Ty) : listTypeBound (mkList ty) = genericBound (mkList ty) := by
  rw [genericBound, list_generic_bound]
  simp [listTypeBound, elemTypeBound, listTyIndex, mkList]

/-- A `StaticArray` is built only over a copyable element type … -/
theorem staticArray_accepts_iff (ty : Ty) :
    (∃ a, mkStaticArray ty = .ok a) ↔ Ty.bound ty = .ok .copyable := by
  unfold mkStaticArray
  cases h : Ty.bound ty with
  | error e => simp [throw, throwThe, MonadExceptOf.throw]
  | ok b => cases b <;> simp [Bound.join, Bound.join.go, pure, Except.pure, throw, throwThe, MonadExceptOf.throw]

/-- … **containers that require copyable elements reject linear ones** (`ValueError`). -/
theorem staticArray_rejects_linear (ty : Ty) (h : Ty.bound ty = .ok .any) : mkStaticArray ty = .error .valueError := by
  simp [mkStaticArray, h, Bound.join, Bound.join.go, throw, throwThe, MonadExceptOf.throw]

/-- In terms of the specification: whatever is accepted has only copyable constituents. -/
theorem staticArray_elements_copyable (ty a : Ty) (h : mkStaticArray ty = .ok a) : AllCopyable ty :=
  copyable_only_if_all_constituents ty ((staticArray_accepts_iff ty).1 ⟨a, h⟩)

/-- On every constructed `StaticArray` the override (element bound) and the definition's explicit
    bound agree: both are `Copyable`. -/
theorem staticArray_bound_eq_generic (ty a : Ty) (h : mkStaticArray ty = .ok a) :
    staticArrayTypeBound a = genericBound a ∧ genericBound a = .ok .copyable := by
  have hb := (staticArray_accepts_iff ty).1 ⟨a, h⟩
  have : a = .extType staticArrayDef [.type ty] := by
    simp [mkStaticArray, hb, Bound.join, Bound.join.go, pure, Except.pure] at h
    exact h.symm
  subst this
  have hg : genericBound (.extType staticArrayDef [.type ty]) = .ok .copyable := by
    simp [genericBound, bound_extType_explicit staticArrayDef _ .copyable rfl, pure, Except.pure]
  refine ⟨?_, hg⟩
  rw [hg]
  simp [staticArrayTypeBound, elemTypeBound, staticArrayTyIndex, hb, pure, Except.pure]

/-- Arrays and lists are copyable exactly when their element type is. -/
theorem array_copyable_iff_elem (ty : Ty) (size : TypeArg) :
    Ty.bound (.extType arrayDef [size, .type ty]) = .ok .copyable ↔ AllCopyable ty ∧ ¬ Raises ty := by
  rw [array_generic_bound, Ty.bound_copyable_iff]

theorem list_copyable_iff_elem (ty : Ty) : Ty.bound (mkList ty) = .ok .copyable ↔ AllCopyable ty ∧ ¬ Raises ty := by
  rw [list_generic_bound, Ty.bound_copyable_iff]

/-- The array constructor accepts exactly bounded naturals and variables declared as such. -/
theorem array_size_check (ty : Ty) (size : TypeArg) :
    (∃ a, mkArray ty size = .ok a) ↔
      (∃ n, size = .boundedNat n) ∨ ∃ i ub, size = .variable i (.boundedNat ub) := by
  unfold mkArray
  split <;> simp_all [pure, Except.pure, throw, throwThe, MonadExceptOf.throw]

-- non-vacuity
example : mkArray .qubit (.boundedNat 3) = .ok (.extType arrayDef [.boundedNat 3, .type .qubit]) := rfl
example : arrayTypeBound (.extType arrayDef [.boundedNat 3, .type .qubit]) = .ok .any := rfl
example : mkArray .qubit (.string "n") = .error .valueError := rfl
example : mkStaticArray Ty.bool = .ok (.extType staticArrayDef [.type Ty.bool]) := rfl
example : mkStaticArray (Ty.tuple [Ty.bool, .qubit]) = .error .valueError :=
  staticArray_rejects_linear _ rfl
example : Ty.bound (mkList (Ty.option [.qubit])) = .ok .any := rfl

/-- a position names an existing *type* parameter -/
def idxOk (params : List TypeParam) (i : Int) : Bool :=
  decide (0 ≤ i) && match params[i.toNat]? with
    | some (.type _) => true
    | _ => false

def defOk (d : TypeDefRef) : Bool :=
  match d.bound with
  | .explicit _ => true
  | .fromParams idxs => idxs.all (idxOk d.params)

/-- Every bundled std type definition that computes its bound from parameters names only positions
    that exist and hold *type* parameters: instantiated with an argument list of the declared length
    it never raises. -/
theorem std_defs_indices_in_range :
    ∀ d ∈ allStd, ∀ idxs, d.bound = .fromParams idxs →
      ∀ i ∈ idxs, 0 ≤ i ∧ ∃ b, d.params[i.toNat]? = some (.type b) := by
  have hall : allStd.all defOk = true := by decide
  intro d hd idxs h i hi
  have h1 := List.all_eq_true.1 hall d hd
  simp only [defOk, h, List.all_eq_true] at h1
  have h2 := h1 i hi
  simp only [idxOk, Bool.and_eq_true, decide_eq_true_eq] at h2
  refine ⟨h2.1, ?_⟩
  have h3 := h2.2
  split at h3
  · rename_i b heq; exact ⟨b, heq⟩
  · cases h3

example : ∃ d ∈ allStd, ∃ idxs, d.bound = .fromParams idxs ∧ idxs ≠ [] := ⟨arrayDef, by simp [allStd, arrayDef], [1], rfl, by decide⟩

end HugrVerif.Props.C07
