/-
  C06 — Operation signatures and port kinds follow the specification's typing rules.
  Property theorems only.  Model: `Ops.lean` (PART A/B), specification: `Ops.lean` PART C
  (`Spec.HasSig`, `Spec.HasInner`, `Spec.PortHasKind`, transcribed from `specification/hugr.md` and
  `hugr-core/src/ops/*.rs`); helper lemmas: `Proofs/Ops.lean`, `Proofs/OpsCodec.lean`.

  The last section states the operation layer of the codec (shared with C05).
-/
import HugrVerif.Proofs.Ops
import HugrVerif.Proofs.OpsCodec
import HugrVerif.Gen.SpecEdges

set_option linter.unusedSimpArgs false

namespace HugrVerif.Props.C06
open HugrVerif HugrVerif.Op HugrVerif.OpProofs

/-! ### concrete objects for the non-vacuity examples -/
def B : Ty := .unitSum 2
def Q : Ty := .qubit
/-- `∀ (r : [Type]). r -> r` — a row-polymorphic function whose instantiation changes the arity -/
def rowPoly : Poly := ⟨[.list (.type .any)], ⟨[.rowVariable 0 .any], [.rowVariable 0 .any], []⟩⟩
def inst2 : Sig := ⟨[B, Q], [B, Q], []⟩
def callRow : Op := .call rowPoly inst2 [.sequence [.type B, .type Q]]

/-! ## the model is sound for the specification -/

/-- **Outer signatures**: whatever `outer_signature()` returns is the signature the specification
    assigns the operation (`Wf`: `Tag.tag` is a natural number; an `ExtOp` without cached signature
    is monomorphic). -/
theorem outerSig_sound (op : Op) (s : Sig) (hw : Wf op) (h : outerSig op = .ok s) : Spec.HasSig op s :=
  OpProofs.outerSig_sound op s hw h

example : Wf (.tag 1 (.general [[], [Q]])) ∧ outerSig (.tag 1 (.general [[], [Q]])) = .ok ⟨[Q], [Ty.option [Q]], []⟩ :=
  ⟨by simp [Wf], rfl⟩
example : Wf (.conditional (.unit 2) [Q] (some [])) ∧
    outerSig (.conditional (.unit 2) [Q] (some [])) = .ok ⟨[B, Q], [], []⟩ := ⟨trivial, rfl⟩

/-- … and conversely every signature the specification assigns a `DataflowOp` is computed, up to the
    requirement component the property does not speak about. -/
theorem outerSig_complete (op : Op) (s : Sig) (h : Spec.HasSig op s) (hd : op.isDataflowOp = true) :
    ∃ s', outerSig op = .ok s' ∧ s'.inp = s.inp ∧ s'.out = s.out :=
  OpProofs.outerSig_complete op s h hd

/-- **Inner signatures** of the dataflow parents. -/
theorem innerSig_sound (op : Op) (s : Sig) (h : innerSig op = .ok s) : Spec.HasInner op s :=
  OpProofs.innerSig_sound op s h

example : innerSig (.tailLoop [B] [Q] (some [Q, Q]) ["e"]) = .ok ⟨[B, Q], [.sum [[B], [Q, Q]], Q], []⟩ := rfl

/-- An incomplete operation reports `IncompleteOp`, never a signature. -/
theorem incomplete_reports (i d) : outerSig (.dfg i none d) = .error .incompleteOp ∧
    innerSig (.dfg i none d) = .error .incompleteOp ∧ numOut (.dfg i none d) = .error .incompleteOp :=
  ⟨rfl, rfl, rfl⟩

/-- **Port layout**: every port the layout of DESIGN §4.1 (value ports of the dataflow signature,
    then the static port, the order port at −1, control-flow ports of blocks) gives an operation is
    reported by `port_kind` with exactly that kind. -/
theorem portKind_layout (op : Op) (d : Dir) (off : Int) (k : Kind) (h : Spec.PortHasKind op d off k) :
    portKind op d off = .ok k :=
  OpProofs.portKind_layout op d off k h

example : Spec.PortHasKind callRow .inc 2 (.function rowPoly) :=
  Spec.PortHasKind.staticIn callRow ⟨[B, Q], [B, Q], []⟩ _ (Spec.HasSig.call _ _ _ _) (Spec.StaticPort.call _ _ _)

/-! ### the layout is the specification's own table

`Gen/SpecEdges.lean` is regenerated on every run from "Appendix 2: Node types and their edges" of
`specification/hugr.md`.  For every node type it lists, the non-value edge kinds it allows in each
direction (Order, Const, Function, ControlFlow) are exactly those the layout gives a representative
operation of that type (`layout_views`: the three computable views cover every non-value port of
`Spec.PortHasKind`). -/

open HugrVerif.Gen.SpecEdges in
/-- a representative operation of each node type of the table -/
def representative : String → Option Op
  | "Root" => some .module
  | "FuncDefn" => some (.funcDefn "f" [] [] (some []))
  | "FuncDecl" => some (.funcDecl "f" ⟨[], ⟨[], [], []⟩⟩)
  | "AliasDefn" => some (.aliasDefn "a" Q)
  | "AliasDecl" => some (.aliasDecl "a" .any)
  | "Const" => some (.const (.tuple []))
  | "LoadConstant" => some (.loadConst (some B))
  | "LoadFunction" => some (.loadFunc rowPoly inst2 [])
  | "Input" => some (.input [B])
  | "Output" => some (.output (some [B]))
  | "Call" => some callRow
  | "DFG" => some (.dfg [B] (some [B]) [])
  | "CFG" => some (.cfg [B] (some [B]))
  | "DFB" => some (.dataflowBlock [B] (some (.unit 2)) (some []) [])
  | "Exit" => some (.exitBlock (some [B]))
  | "TailLoop" => some (.tailLoop [B] [] (some [B]) [])
  | "Conditional" => some (.conditional (.unit 2) [] (some []))
  | "Case" => some (.case [] (some []))
  | "CustomOp" => some (.custom "op" ⟨[B], [B], []⟩ "" "e" [])
  | "Noop" => some (.noop (some B))
  | "MakeTuple" => some (.makeTuple (some [B]))
  | "UnpackTuple" => some (.unpackTuple (some [B]))
  | "Tag" => some (.tag 0 (.unit 2))
  | _ => none

/-- node types of the table for which hugr-py has no operation class -/
def noClass : List String := ["Lift"]

open HugrVerif.Gen.SpecEdges in
def rowAgrees (r : Row) : Bool :=
  let present (m : Mult) : Bool := m != .zero
  match representative r.name with
  | none => noClass.contains r.name
  | some op =>
    present r.order.1 == Spec.hasOrderPort op .inc && present r.order.2 == Spec.hasOrderPort op .out &&
    present r.const.1 == (Spec.staticTag op .inc == some "const") &&
    present r.const.2 == (Spec.staticTag op .out == some "const") &&
    present r.function.1 == (Spec.staticTag op .inc == some "function") &&
    present r.function.2 == (Spec.staticTag op .out == some "function") &&
    present r.cf.1 == Spec.cfPort op .inc && present r.cf.2 == Spec.cfPort op .out

/-- **The layout agrees with the specification's table**, row by row. -/
theorem spec_table_agrees : HugrVerif.Gen.SpecEdges.table.all rowAgrees = true := by decide

/-- the table is not trivially short: it lists the 21 node types with a hugr-py class and `Lift` -/
theorem spec_table_covers : (HugrVerif.Gen.SpecEdges.table.filter (fun r => (representative r.name).isSome)).length = 23 := by
  decide

/-- the views used above cover every non-value port of the layout relation -/
theorem layout_views (op : Op) (d : Dir) (off : Int) (k : Kind) (h : Spec.PortHasKind op d off k)
    (hv : ∀ t, k ≠ .value t) :
    (Spec.staticTag op d = some (Spec.kindTag k)) ∨ (k = .cf ∧ Spec.cfPort op d = true) ∨
    (k = .order ∧ Spec.hasOrderPort op d = true) :=
  OpProofs.layout_views op d off k h hv

/-! ## one theorem per sentence of the property -/

/-- "a DFG's outer signature equals its body's" -/
theorem dfg_outer_eq_inner (i : List Ty) (o : Option (List Ty)) (d : List String) :
    outerSig (.dfg i o d) = innerSig (.dfg i o d) := rfl

/-- "a Conditional takes the sum followed by the other inputs" -/
theorem conditional_sig (s : SumTy) (oi o : List Ty) :
    outerSig (.conditional s oi (some o)) = .ok ⟨s.toTy :: oi, o, []⟩ := rfl

/-- "… and case i receives variant i followed by the other inputs"; an index with no variant raises. -/
theorem conditional_case_inputs (s : SumTy) (oi : List Ty) (o : Option (List Ty)) (n : Nat) :
    (∀ row, s.rows[n]? = some row →
      nthInputs (.conditional s oi o) n = .ok (row ++ oi) ∧ Spec.CaseInputs (.conditional s oi o) n (row ++ oi)) ∧
    (s.rows.length ≤ n → nthInputs (.conditional s oi o) n = .error .indexError) := by
  refine ⟨fun row h => ⟨?_, Spec.CaseInputs.mk s oi o n row h⟩, fun h => ?_⟩
  · simp [nthInputs, index_nat _ _ _ h, bind, Except.bind, pure, Except.pure]
  · simp [nthInputs, index_nat_none _ _ h, bind, Except.bind]

example : nthInputs (.conditional (.general [[B], []]) [Q] none) 1 = .ok [Q] := rfl
example : nthInputs (.conditional (.unit 2) [Q] none) 2 = .error .indexError := rfl

/-- "a TailLoop takes just-inputs plus rest, returns just-outputs plus rest" -/
theorem tailloop_sig (ji rest jo : List Ty) (d : List String) :
    outerSig (.tailLoop ji rest (some jo) d) = .ok ⟨ji ++ rest, jo ++ rest, []⟩ := rfl

/-- "… and its body returns Sum(just-inputs, just-outputs) plus rest" (and takes the loop's inputs) -/
theorem tailloop_body (ji rest jo : List Ty) (d : List String) :
    innerSig (.tailLoop ji rest (some jo) d) = .ok ⟨ji ++ rest, Ty.sum [ji, jo] :: rest, []⟩ ∧
    inputs (.tailLoop ji rest (some jo) d) = .ok (ji ++ rest) := ⟨rfl, rfl⟩

/-- "block successor i receives variant i plus the other outputs"; the block's body produces the sum
    followed by the other outputs, and the block has one control-flow output per variant. -/
theorem block_successor_row (i : List Ty) (s : SumTy) (oo : List Ty) (d : List String) (n : Nat) :
    (∀ row, s.rows[n]? = some row →
      nthOutputs (.dataflowBlock i (some s) (some oo) d) n = .ok (row ++ oo) ∧
      Spec.SuccessorInputs (.dataflowBlock i (some s) (some oo) d) n (row ++ oo)) ∧
    innerSig (.dataflowBlock i (some s) (some oo) d) = .ok ⟨i, s.toTy :: oo, []⟩ ∧
    numOut (.dataflowBlock i (some s) (some oo) d) = .ok s.rows.length := by
  refine ⟨fun row h => ⟨?_, Spec.SuccessorInputs.mk i s oo d n row h⟩, rfl, rfl⟩
  simp [nthOutputs, need, index_nat _ _ _ h, bind, Except.bind, pure, Except.pure]

example : nthOutputs (.dataflowBlock [] (some (.general [[B], [Q, Q]])) (some [B]) []) 1 = .ok [Q, Q, B] := rfl

/-- "Tag maps variant row to the sum" -/
theorem tag_sig (n : Nat) (s : SumTy) (row : List Ty) (h : s.rows[n]? = some row) :
    outerSig (.tag n s) = .ok ⟨row, [s.toTy], []⟩ := by
  simp [outerSig, index_nat _ _ _ h, Functor.map, Except.map]

example : outerSig (.tag 1 (.unit 2)) = .ok ⟨[], [B], []⟩ := tag_sig 1 (.unit 2) [] rfl

/-- The sugar tag operations *are* `Tag`s (same signature, same encoding): `Some`, `Left`/`Continue`,
    `Right`/`Break`. -/
theorem sugar_is_tag (ts l r : List Ty) :
    tagSome ts = .tag 1 (.general [[], ts]) ∧ tagLeft l r = .tag 0 (.general [l, r]) ∧
    tagRight l r = .tag 1 (.general [l, r]) ∧ tagContinue l r = tagLeft l r ∧ tagBreak l r = tagRight l r :=
  ⟨rfl, rfl, rfl, rfl, rfl⟩

theorem sugar_sig (ts l r : List Ty) :
    outerSig (tagSome ts) = .ok ⟨ts, [Ty.option ts], []⟩ ∧
    outerSig (tagContinue l r) = .ok ⟨l, [Ty.either l r], []⟩ ∧
    outerSig (tagBreak l r) = .ok ⟨r, [Ty.either l r], []⟩ := ⟨rfl, rfl, rfl⟩

/-- "MakeTuple and UnpackTuple are inverse": the signature of one is the signature of the other with
    inputs and outputs exchanged, including the runtime requirement. -/
theorem make_unpack_inverse (ts : List Ty) (s : Sig) (h : outerSig (.makeTuple (some ts)) = .ok s) :
    outerSig (.unpackTuple (some ts)) = .ok ⟨s.out, s.inp, s.reqs⟩ ∧ s.inp = ts ∧ s.out = [Ty.tuple ts] := by
  simp only [outerSig, need, bind, Except.bind, pure, Except.pure, Except.ok.injEq] at h
  subst h
  exact ⟨rfl, rfl, rfl⟩

example : outerSig (.makeTuple (some [B, Q])) = .ok ⟨[B, Q], [Ty.tuple [B, Q]], ["prelude"]⟩ := rfl

/-- "CallIndirect prepends the function type to its inputs" -/
theorem callIndirect_prepends (s : Sig) :
    outerSig (.callIndirect (some s)) = .ok ⟨s.toTy :: s.inp, s.out, []⟩ := rfl

/-- "Call and LoadFunction expose the instantiated signature with the function port immediately
    after the value inputs" — for every polymorphic signature and every instantiation, whatever the
    arity of the polymorphic body. -/
theorem call_instantiated (p : Poly) (inst : Sig) (a : List TypeArg) :
    (∀ (n : Nat) t, inst.inp[n]? = some t → portKind (.call p inst a) .inc n = .ok (.value t)) ∧
    portKind (.call p inst a) .inc inst.inp.length = .ok (.function p) ∧
    (∀ (n : Nat) t, inst.out[n]? = some t → portKind (.call p inst a) .out n = .ok (.value t)) ∧
    numOut (.call p inst a) = .ok inst.out.length ∧
    functionPortOffset (.call p inst a) = .ok inst.inp.length ∧
    Spec.HasSig (.call p inst a) ⟨inst.inp, inst.out, []⟩ ∧
    outerSig (.loadFunc p inst a) = .ok ⟨[], [inst.toTy], []⟩ ∧
    portKind (.loadFunc p inst a) .inc 0 = .ok (.function p) ∧
    portKind (.loadFunc p inst a) .out 0 = .ok (.value inst.toTy) ∧
    numOut (.loadFunc p inst a) = .ok 1 := by
  have hs : Spec.HasSig (.call p inst a) ⟨inst.inp, inst.out, []⟩ := Spec.HasSig.call p inst a []
  refine ⟨fun n t h => ?_, ?_, fun n t h => ?_, rfl, rfl, hs, rfl, rfl, rfl, rfl⟩
  · exact OpProofs.portKind_layout _ _ _ _ (Spec.PortHasKind.valueIn _ _ n t hs h)
  · exact OpProofs.portKind_layout _ _ _ _
      (Spec.PortHasKind.staticIn _ ⟨inst.inp, inst.out, []⟩ _ hs (Spec.StaticPort.call p inst a))
  · exact OpProofs.portKind_layout _ _ _ _ (Spec.PortHasKind.valueOut _ _ n t hs h)

/-- the row-polymorphic call instantiated with two types: function port at 2, two outputs -/
example : portKind callRow .inc 2 = .ok (.function rowPoly) ∧ portKind callRow .inc 1 = .ok (.value Q) ∧
    numOut callRow = .ok 2 := ⟨rfl, rfl, rfl⟩

/-- The constructor (`_CallOrLoad.__init__`): a monomorphic function is its own instantiation; a
    polymorphic one needs an instantiation and as many type arguments as parameters. -/
theorem call_constructor (p : Poly) (i? : Option Sig) (a? : Option (List TypeArg)) :
    (p.params = [] → mkCall p i? a? = .ok (.call p p.body [])) ∧
    (p.params ≠ [] → ∀ inst a, i? = some inst → a? = some a → a.length = p.params.length →
      mkCall p i? a? = .ok (.call p inst a)) ∧
    (p.params ≠ [] → i? = none → mkCall p i? a? = .error .noConcreteFunc) ∧
    (∀ op, mkCall p i? a? = .ok op → CallOK op) := by
  refine ⟨fun h => ?_, fun h inst a hi ha hl => ?_, fun h hi => ?_, fun op h => (mkCall_ok p i? a? op h).1⟩
  · simp [mkCall, callOrLoadInit, h, bind, Except.bind, pure, Except.pure]
  · subst hi ha
    have : ¬ p.params.length = 0 := by simpa using h
    simp [mkCall, callOrLoadInit, this, hl, bind, Except.bind, pure, Except.pure]
  · subst hi
    have : ¬ p.params.length = 0 := by simpa using h
    simp [mkCall, callOrLoadInit, this, bind, Except.bind]

example : mkCall rowPoly (some inst2) (some [.sequence [.type B, .type Q]]) = .ok callRow := rfl
example : mkCall rowPoly (some inst2) none = .error .noConcreteFunc := rfl

/-- "LoadConstant and Const agree on the constant's type" -/
theorem loadConst_const_agree (v : Value) :
    portKind (.const v) .out 0 = .ok (.const v.typeOf) ∧
    portKind (.loadConst (some v.typeOf)) .inc 0 = .ok (.const v.typeOf) ∧
    portKind (.loadConst (some v.typeOf)) .out 0 = .ok (.value v.typeOf) ∧
    outerSig (.loadConst (some v.typeOf)) = .ok ⟨[], [v.typeOf], []⟩ := ⟨rfl, rfl, rfl, rfl⟩

/-- "the type reported for a value output port equals the payload of that port's kind"
    (`Hugr.port_kind` / `Hugr.port_type`), for every operation … -/
theorem port_type_eq_kind_payload (op : Op) (off : Int) (t : Ty)
    (h : hugrPortKind op .out off = .ok (.value t)) : hugrPortType op .out off = .ok (some t) :=
  hugrPortType_of_kind_out op off t h

/-- … and in both directions for every `DataflowOp`. -/
theorem port_type_eq_kind_payload_df (op : Op) (d : Dir) (off : Int) (t : Ty) (hd : op.isDataflowOp = true)
    (h : hugrPortKind op d off = .ok (.value t)) : hugrPortType op d off = .ok (some t) :=
  hugrPortType_of_kind_df op d off t hd h

example : hugrPortKind callRow .out 1 = .ok (.value Q) ∧ hugrPortType callRow .out 1 = .ok (some Q) := ⟨rfl, rfl⟩
example : hugrPortKind (.loadConst (some B)) .out 0 = .ok (.value B) := rfl

/-- "all port offsets including the order port": offset −1 reports the order kind for every
    operation and direction for which the layout has an order port — also for incomplete operations. -/
theorem order_port_kind (op : Op) (d : Dir) (h : Spec.hasOrderPort op d = true) : portKind op d (-1) = .ok .order :=
  OpProofs.portKind_layout op d (-1) .order (Spec.PortHasKind.order op d h)

example : Spec.hasOrderPort callRow .inc = true ∧ Spec.hasOrderPort (.loadConst none) .out = true ∧
    Spec.hasOrderPort (.loadFunc rowPoly inst2 []) .inc = true := ⟨rfl, rfl, rfl⟩

/-- the order port has no type -/
theorem order_port_has_no_type (op : Op) (d : Dir) (s : Sig) (hd : op.isDataflowOp = true) (h : outerSig op = .ok s) :
    portType op d (-1) = .error .valueError := by
  simp [portType, hd, h, sigPortType, bind, Except.bind]

/-- "the output count": `num_out` is the number of outputs of the signature … -/
theorem numOut_eq_sig_outputs (op : Op) (s : Sig) (h : outerSig op = .ok s) : numOut op = .ok s.out.length :=
  numOut_of_outerSig op s h

/-- … and in general the number of output ports the layout gives the operation (value outputs +
    static output + control-flow successors). -/
theorem numOut_layout (op : Op) (n : Nat) (hw : Wf op) (hc : op.isDataflowOp = true → ∃ s, outerSig op = .ok s)
    (h : numOut op = .ok n) : Spec.NumOutPorts op n :=
  OpProofs.numOut_layout op n hw hc h

example : numOut (.funcDefn "f" [B] [] none) = .ok 1 ∧ numOut (.unpackTuple (some [B, Q])) = .ok 2 := ⟨rfl, rfl⟩

/-! ## the operation layer of the codec (shared with C05) -/

/-- **`decOp ∘ encOp`**: decoding the encoding of a complete operation gives its normal form (core
    operations attribute by attribute with types in decoded form; `ExtOp` and the prelude operations
    as `Custom` with the same extension, name, signature, arguments) and the same parent.
    `ValOK`: the value layer's round trip for the constant carried (C14). -/
theorem decOp_encOp (nv : Value → Value) (op : Op) (p : Int) (j : Json) (fuel : Nat)
    (h : encOp op p = .ok j) (hc : CallOK op) (hd : OpProofs.depth op ≤ fuel)
    (hv : ValOK nv (Codec.decVal (fnSig fuel) fuel) op) : decOp (fuel + 1) j = .ok (norm nv op, p) :=
  OpProofs.decOp_encOp nv op p j fuel h hc hd hv

/-- a concrete instance: a `DataflowBlock` with an extension delta (F06), decoded by evaluation -/
example : ∃ j, encOp (.dataflowBlock [B] (some (.unit 2)) (some [Q]) ["e"]) 3 = .ok j ∧
    decOp 6 j = .ok (.dataflowBlock [B] (some (.general [[], []])) (some [Q]) ["e"], 3) := ⟨_, rfl, rfl⟩
/-- a polymorphic `FuncDefn` (F05) and a `Custom` with a description (F07) -/
example : ∃ j, encOp (.funcDefn "f" [B] [.type .any] (some [Q])) 0 = .ok j ∧
    decOp 6 j = .ok (.funcDefn "f" [B] [.type .any] (some [Q]), 0) := ⟨_, rfl, rfl⟩
example : ∃ j, encOp (.custom "op" ⟨[], [], []⟩ "desc" "ext" []) 0 = .ok j ∧
    decOp 6 j = .ok (.custom "op" ⟨[], [], []⟩ "desc" "ext" [], 0) := ⟨_, rfl, rfl⟩
example : CallOK callRow ∧ ValOK id (Codec.decVal (fnSig 9) 9) callRow := ⟨rfl, trivial⟩

/-- **`encOp (norm op) = encOp op`**: the decoded operation encodes to the same document. -/
theorem encOp_norm (nv : Value → Value) (op : Op) (p : Int) (j : Json) (h : encOp op p = .ok j) (hc : CallOK op)
    (hv : ∀ v, op = .const v → Codec.encVal (nv v) = Codec.encVal v) : encOp (norm nv op) p = .ok j :=
  OpProofs.encOp_norm nv op p j h hc hv

/-- **The normal form has the same derived facts** (outer signature, output count, kind of every
    port), types compared as decoded (`Ty.norm`) and up to Python's `==` on the operation's own sum
    type (`genTop`). -/
theorem facts_norm (nv : Value → Value) (op : Op) (p : Int) (j : Json) (h : encOp op p = .ok j) (hc : CallOK op)
    (hnv : ∀ v, op = .const v → (nv v).typeOf = v.typeOf.norm) :
    (outerSig (norm nv op)).map sigGen = (outerSig op).map (fun s => sigGen s.norm) ∧
    numOut (norm nv op) = numOut op ∧
    ∀ d off, (portKind (norm nv op) d off).map kindGen = (portKind op d off).map (fun k => kindGen (kindNorm k)) :=
  ⟨outerSig_norm nv op p j h hc, numOut_norm nv op p j h hc, portKind_norm nv op p j h hc hnv⟩

/-- `UnpackTuple` and its decoded form (a `Custom`) have the same signature, incl. `prelude` (F31). -/
example : outerSig (norm id (.unpackTuple (some [B]))) = outerSig (.unpackTuple (some [B])) := rfl

end HugrVerif.Props.C06
