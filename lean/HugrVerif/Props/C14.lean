/-
  C14 — Constants inhabit the type they report.
  Property theorems only.  Specification: `HugrVerif/Inhabits.lean` (transcribed from
  `SumType::check_type`, `Value::get_type/validate`); models: `Val.lean`, `Std/Consts.lean`,
  `ConstOps.lean`; lemmas: `Proofs/ValSpec.lean`, `Proofs/ValCodec.lean`, `Proofs/Val.lean`;
  type-layer codec: `Proofs/TysCodec.lean` (C07/C05).
-/
import HugrVerif.Proofs.Val

namespace HugrVerif.Props.C14
open HugrVerif HugrVerif.Value HugrVerif.Codec HugrVerif.StdConsts HugrVerif.ConstOps HugrVerif.Gen

/-! ### the specification and its executable form -/

/-- The executable check (`validate` on the value, then `get_type() == t`, as the Rust code has it)
    decides the declarative statement (each field inhabits the corresponding element of the tagged
    row, recursively). -/
theorem inhabits_iff (v : Value) (t : Ty) : inhabits v t = true ↔ Inhabits v t :=
  Value.inhabits_iff v t

example : Inhabits (.sum 1 (.sum [[], [.unitSum 2]]) [boolValue true]) (Ty.option [Ty.bool]) := by
  rw [← inhabits_iff]; decide +kernel

/-- `Inhabits` on a row is field-wise, with equal length (`WrongVariantLength` otherwise). -/
theorem inhabitsRow_iff (vs : List Value) (ts : List Ty) :
    InhabitsRow vs ts ↔
      vs.length = ts.length ∧ ∀ i (hv : i < vs.length) (ht : i < ts.length), Inhabits vs[i] ts[i] :=
  inhabitsRow_iff_forall vs ts

/-- Nothing inhabits a row variable: `VariantNotConcrete` is implied by field inhabitation. -/
theorem inhabits_not_rowVar (v : Value) (t : Ty) (h : Inhabits v t) : t.isRowVar = false :=
  not_rowVar_of_inhabits v t h

/-- Type equality of the specification identifies the two spellings of a unit sum and nothing
    else at the top of a sum (`SumType::new`; `tys.Sum.__eq__`). -/
theorem same_unitSum (n : Nat) : Ty.Same (.unitSum n) (.sum (List.replicate n [])) := Ty.same_unitSum n

/-! ### the general constructor: conditional on well-formed arguments -/

/-- `Sum(tag, typ, vals)` inhabits the type it reports (`typ`) **iff** the arguments are well formed:
    the tag is in range with the field types equal to the tagged row, and the fields are themselves
    well-typed constants. -/
theorem sum_inhabits_iff (tag : Nat) (typ : Ty) (vals : List Value) :
    Inhabits (.sum tag typ vals) (typeOf (.sum tag typ vals)) ↔
      SumArgsOk tag typ vals ∧ ∀ v ∈ vals, Inhabits v (typeOf v) := by
  rw [← valid_iff, ← validList_iff]
  simp only [valid, SumArgsOk]
  cases hv : Ty.variant typ tag with
  | none => simp
  | some row => simp [Ty.sameRow_iff]

/-- "tag in range": a variant row exists exactly for tags below the number of variants. -/
theorem variant_exists_iff (typ : Ty) (tag : Nat) :
    (∃ row, Ty.variant typ tag = Option.some row) ↔ tag < Ty.numVariants typ := by
  rw [← Ty.variant_isSome_iff, Option.isSome_iff_exists]

/-- Well-formed arguments fix the number of fields. -/
theorem sumArgsOk_length (tag : Nat) (typ : Ty) (vals : List Value) (h : SumArgsOk tag typ vals) :
    ∃ row, Ty.variant typ tag = Option.some row ∧ vals.length = row.length := by
  obtain ⟨row, hv, hs⟩ := h
  exact ⟨row, hv, by rw [← typesOf_length, Ty.sameRow_length hs]⟩

-- both sides of the equivalence are realised
example : Inhabits (.sum 0 (.sum [[.unitSum 2], []]) [boolValue false]) (.sum [[.unitSum 2], []]) := by
  rw [← inhabits_iff]; decide +kernel
example : ¬ Inhabits (.sum 2 (.sum [[.unitSum 2], []]) []) (.sum [[.unitSum 2], []]) := by
  rw [← inhabits_iff]; decide +kernel
example : ¬ Inhabits (.sum 0 (.sum [[.unitSum 2], []]) [Value.unit]) (.sum [[.unitSum 2], []]) := by
  rw [← inhabits_iff]; decide +kernel
-- a row written with the other spelling of Bool is the same row
example : Inhabits (.sum 0 (.sum [[.sum [[], []]]]) [boolValue true]) (.sum [[.unitSum 2]]) := by
  rw [← inhabits_iff]; decide +kernel

/-! ### the helpers: unconditional (given well-typed fields) -/

/-- The helpers build the corresponding sum type with the right tag: `Tuple` = one row of the field
    types (tag 0), `Option` = `[[], tys]` with `Some` at tag 1 and `None` at tag 0, `Either` =
    `[left, right]` with `Left` at 0 and `Right` at 1, unit sums, `bool_value`, `Unit`; in each case
    the tagged variant row is the row of the fields' types. -/
theorem helpers_type :
    (∀ vals, typeOf (.tuple vals) = .sum [typesOf vals]) ∧
    (∀ vals, Value.some vals = .sum 1 (.sum [[], typesOf vals]) vals) ∧
    (∀ tys, Value.none tys = .sum 0 (.sum [[], tys]) []) ∧
    (∀ vals r, Value.left vals r = .sum 0 (.sum [typesOf vals, r]) vals) ∧
    (∀ l vals, Value.right l vals = .sum 1 (.sum [l, typesOf vals]) vals) ∧
    (∀ tag size, Value.unitSum tag size = .sum tag (.unitSum size) []) ∧
    (∀ b, Value.boolValue b = .sum (if b then 1 else 0) (.unitSum 2) []) ∧
    Value.unit = .sum 0 (.unitSum 1) [] ∧
    (∀ vals, Ty.variant (typeOf (Value.some vals)) 1 = Option.some (typesOf vals)) ∧
    (∀ tys, Ty.variant (typeOf (Value.none tys)) 0 = Option.some []) ∧
    (∀ vals r, Ty.variant (typeOf (Value.left vals r)) 0 = Option.some (typesOf vals)) ∧
    (∀ l vals, Ty.variant (typeOf (Value.right l vals)) 1 = Option.some (typesOf vals)) :=
  ⟨fun _ => rfl, fun _ => rfl, fun _ => rfl, fun _ _ => rfl, fun _ _ => rfl, fun _ _ => rfl,
   fun _ => rfl, rfl, fun _ => rfl, fun _ => rfl, fun _ _ => rfl, fun _ _ => rfl⟩

/-- Every helper-built constant inhabits the type it reports, given that its fields inhabit
    theirs (`UnitSum(tag, size)` for `tag < size`). -/
theorem helpers_inhabit :
    (∀ vals, (∀ v ∈ vals, Inhabits v (typeOf v)) → Inhabits (.tuple vals) (typeOf (.tuple vals))) ∧
    (∀ vals, (∀ v ∈ vals, Inhabits v (typeOf v)) → Inhabits (Value.some vals) (typeOf (Value.some vals))) ∧
    (∀ tys, Inhabits (Value.none tys) (typeOf (Value.none tys))) ∧
    (∀ vals r, (∀ v ∈ vals, Inhabits v (typeOf v)) →
      Inhabits (Value.left vals r) (typeOf (Value.left vals r))) ∧
    (∀ l vals, (∀ v ∈ vals, Inhabits v (typeOf v)) →
      Inhabits (Value.right l vals) (typeOf (Value.right l vals))) ∧
    (∀ tag size, tag < size → Inhabits (Value.unitSum tag size) (typeOf (Value.unitSum tag size))) ∧
    (∀ b, Inhabits (Value.boolValue b) (typeOf (Value.boolValue b))) ∧
    Inhabits Value.unit (typeOf Value.unit) := by
  refine ⟨fun vals h => ?_, fun vals h => ?_, fun tys => ?_, fun vals r h => ?_, fun l vals h => ?_,
    fun tag size h => ?_, fun b => ?_, ?_⟩
  · exact ⟨typesOf vals, Ty.Same.refl _, inhabitsRow_typesOf vals h⟩
  · exact ⟨Ty.Same.refl _, typesOf vals, rfl, inhabitsRow_typesOf vals h⟩
  · exact ⟨Ty.Same.refl _, [], rfl, trivial⟩
  · exact ⟨Ty.Same.refl _, typesOf vals, rfl, inhabitsRow_typesOf vals h⟩
  · exact ⟨Ty.Same.refl _, typesOf vals, rfl, inhabitsRow_typesOf vals h⟩
  · exact ⟨Ty.Same.refl _, [], by simp [Ty.variant, h], trivial⟩
  · cases b <;> exact ⟨Ty.Same.refl _, [], by simp [Ty.variant], trivial⟩
  · exact ⟨Ty.Same.refl _, [], by simp [Ty.variant], trivial⟩

/-- `UnitSum(tag, size)` with `tag ≥ size` does not inhabit its type: the side condition is needed. -/
theorem unitSum_out_of_range (tag size : Nat) (h : size ≤ tag) :
    ¬ Inhabits (Value.unitSum tag size) (typeOf (Value.unitSum tag size)) := by
  rw [← valid_iff]
  simp only [Value.unitSum, valid, Ty.variant]
  rw [if_neg (by omega)]
  simp

example : Inhabits (Value.some [.tuple [boolValue true, Value.unit], Value.none [.qubit]])
    (Ty.option [Ty.tuple [Ty.bool, Ty.unit], Ty.option [.qubit]]) :=
  helpers_inhabit.2.1 _ (by
    intro v hv
    simp only [List.mem_cons, List.not_mem_nil, or_false] at hv
    rcases hv with rfl | rfl
    · rw [← inhabits_iff]; decide +kernel
    · rw [← inhabits_iff]; decide +kernel)

/-- **Every constant built by an expression** over the general constructors, the helpers and the
    std classes inhabits the type it reports, provided the arguments of the general sums in it are
    well formed (`CExpr.ArgsOk`). -/
theorem const_expr_inhabits (e : CExpr) (v : Value) (h : e.eval = .ok v) (ha : e.ArgsOk) :
    Inhabits v (typeOf v) :=
  eval_inhabits e v h ha

example : (CExpr.some [.arrayVal [.intVal 3 2, .intVal (-1) 2] (intT 2), .left [.bool true] [.usize]]).ArgsOk := by
  simp [CExpr.ArgsOk, CExpr.ArgsOkList]
example : ∃ v, (CExpr.some [.arrayVal [.intVal 3 2, .intVal (-1) 2] (intT 2), .left [.bool true] [.usize]]).eval = .ok v :=
  ⟨_, rfl⟩

/-! ### function constants -/

/-- A function-valued constant reports the function type of its body's (inner) signature, and a
    decoded function constant reports the signature the operation layer reads off the body. -/
theorem function_value_sig (fnSig : Json → Except DecErr (List Ty × List Ty × List String))
    (i o : List Ty) (r : List String) (body : Json) :
    typeOf (.function i o r body) = .function i o r ∧
    Inhabits (.function i o r body) (.function i o r) ∧
    (∀ t, Inhabits (.function i o r body) t ↔ Ty.Same (.function i o r) t) ∧
    (∀ fuel, fnSig body = .ok (i, o, r) →
      decVal fnSig (fuel + 1) (.obj [("v", .str "Function"), ("hugr", body)]) = .ok (.function i o r body)) := by
  refine ⟨rfl, Ty.Same.refl _, fun t => Iff.rfl, fun fuel h => ?_⟩
  rw [decVal_succ_obj]
  simp [req, field, asStr, h, bind, Except.bind, pure, Except.pure]

/-! ### the standard extension constants -/

/-- The std type definitions (regenerated from the bundled extension files on every run) are the
    ones the property names. -/
theorem std_defs :
    (StdValDefs.int.ext = "arithmetic.int.types" ∧ StdValDefs.int.name = "int" ∧
      StdValDefs.int.params = [.boundedNat (some 7)]) ∧
    (StdValDefs.float64.ext = "arithmetic.float.types" ∧ StdValDefs.float64.name = "float64" ∧
      StdValDefs.float64.params = []) ∧
    (StdValDefs.string.ext = "prelude" ∧ StdValDefs.string.name = "string" ∧ StdValDefs.string.params = []) ∧
    (StdValDefs.array.ext = "collections.array" ∧ StdValDefs.array.name = "array" ∧
      StdValDefs.array.params = [.boundedNat none, .type .any]) ∧
    (StdValDefs.list.ext = "collections.list" ∧ StdValDefs.list.name = "List" ∧
      StdValDefs.list.params = [.type .any]) ∧
    (StdValDefs.staticArray.ext = "collections.static_array" ∧ StdValDefs.staticArray.name = "static_array" ∧
      StdValDefs.staticArray.params = [.type .copyable]) := by
  decide

/-- The std constants report the matching std type: `int` of the given width, `float64`, `string`,
    `array` of the element type with size = number of elements, `List` and `static_array` of the
    element type. -/
theorem std_const_type :
    (∀ v w, typeOf (intVal v w) = .extType StdValDefs.int [.boundedNat w]) ∧
    (∀ lit, typeOf (floatVal lit) = .extType StdValDefs.float64 []) ∧
    (∀ s, typeOf (stringVal s) = .extType StdValDefs.string []) ∧
    (∀ vs ty v, arrayVal vs ty = .ok v →
      typeOf v = .extType StdValDefs.array [.boundedNat vs.length, .type ty]) ∧
    (∀ vs ty v, listVal vs ty = .ok v → typeOf v = .extType StdValDefs.list [.type ty]) ∧
    (∀ vs ty name v, staticArrayVal vs ty name = .ok v →
      typeOf v = .extType StdValDefs.staticArray [.type ty]) := by
  refine ⟨fun _ _ => rfl, fun _ => rfl, fun _ => rfl, fun vs ty v h => ?_, fun vs ty v h => ?_,
    fun vs ty name v h => ?_⟩
  · obtain ⟨p, _, rfl⟩ := (arrayVal_ok vs ty v).1 h; rfl
  · obtain ⟨p, _, rfl⟩ := (listVal_ok vs ty v).1 h; rfl
  · obtain ⟨_, p, _, rfl⟩ := (staticArrayVal_ok vs ty name v).1 h; rfl

/-- The type arguments fit the definition's parameters: widths 0..6 for `int` (the parameter is a
    natural below 7), any element type for `array`/`List`, a copyable one for `static_array`. -/
theorem std_args_fit :
    (∀ w : Int, 0 ≤ w → w ≤ 6 → argsFit [.boundedNat w] StdValDefs.int.params = true) ∧
    (argsFit [] StdValDefs.float64.params = true) ∧ (argsFit [] StdValDefs.string.params = true) ∧
    (∀ (n : Nat) ty b, Ty.bound ty = .ok b → argsFit [.boundedNat n, .type ty] StdValDefs.array.params = true) ∧
    (∀ ty b, Ty.bound ty = .ok b → argsFit [.type ty] StdValDefs.list.params = true) ∧
    (∀ vs ty name v, staticArrayVal vs ty name = .ok v →
      argsFit [.type ty] StdValDefs.staticArray.params = true) := by
  refine ⟨fun w h0 h6 => ?_, rfl, rfl, fun n ty b hb => ?_, fun ty b hb => ?_, fun vs ty name v h => ?_⟩
  · simp [argsFit, argFits, StdValDefs.int, h0]; omega
  · simp [argsFit, argFits, StdValDefs.array, hb]
  · simp [argsFit, argFits, StdValDefs.list, hb]
  · obtain ⟨hb, _⟩ := (staticArrayVal_ok vs ty name v).1 h
    simp [argsFit, argFits, StdValDefs.staticArray, hb]

/-- a width outside 0..6 does not fit (nothing is claimed for such constants) -/
example : argsFit [.boundedNat 7] StdValDefs.int.params = false := by decide

/-- the extension that defines the reported type is among the listed extensions -/
def ListsDefiningExt : Value → Prop
  | .ext _ (.extType d _) _ exts => d.ext ∈ exts
  | _ => False

/-- The std constants name their defining extension among the extensions they use. -/
theorem std_const_ext :
    (∀ v w, ListsDefiningExt (intVal v w)) ∧ (∀ lit, ListsDefiningExt (floatVal lit)) ∧
    (∀ s, ListsDefiningExt (stringVal s)) ∧
    (∀ vs ty v, arrayVal vs ty = .ok v → ListsDefiningExt v) ∧
    (∀ vs ty v, listVal vs ty = .ok v → ListsDefiningExt v) ∧
    (∀ vs ty name v, staticArrayVal vs ty name = .ok v → ListsDefiningExt v) := by
  refine ⟨fun _ _ => ?_, fun _ => ?_, fun _ => ?_, fun vs ty v h => ?_, fun vs ty v h => ?_,
    fun vs ty name v h => ?_⟩
  · simp [ListsDefiningExt, intVal, intT]; decide
  · simp [ListsDefiningExt, floatVal, floatT]; decide
  · simp [ListsDefiningExt, stringVal, stringT]; decide
  · obtain ⟨p, _, rfl⟩ := (arrayVal_ok vs ty v).1 h
    simp [ListsDefiningExt, arrayT]; decide
  · obtain ⟨p, _, rfl⟩ := (listVal_ok vs ty v).1 h
    simp [ListsDefiningExt, listT]; decide
  · obtain ⟨_, p, _, rfl⟩ := (staticArrayVal_ok vs ty name v).1 h
    simp [ListsDefiningExt, staticArrayT]; decide

/-- The scalar payloads. -/
theorem std_scalar_payload (v w : Int) (lit : Json) (s : String) :
    intVal v w = .ext "ConstInt" (intT w) (.obj [("log_width", .int w), ("value", .int v)]) ["arithmetic.int.types"] ∧
    floatVal lit = .ext "ConstF64" floatT (.obj [("value", lit)]) ["arithmetic.float.types"] ∧
    stringVal s = .ext "ConstString" stringT (.obj [("value", .str s)]) ["prelude"] :=
  ⟨rfl, rfl, rfl⟩

/-- The payload of a collection constant: the complete encodings of the elements under `values`
    and the encoding of the element type under `typ` (for `static_array` inside `value`, next to
    `name`). -/
def CollPayload (vs : List Value) (ty : Ty) (p : Json) : Prop :=
  ∃ js jt, encVals vs = .ok js ∧ encTy ty = .ok jt ∧ p = .obj [("values", .arr js), ("typ", jt)]

/-- The collection constants embed their elements as complete values together with the element type:
    the payload holds the full encoding of every element and of the element type … -/
theorem std_payload_complete :
    (∀ vs ty v, arrayVal vs ty = .ok v →
      ∃ p, CollPayload vs ty p ∧ v = .ext "ArrayValue" (arrayT vs.length ty) p ["collections.array"]) ∧
    (∀ vs ty v, listVal vs ty = .ok v →
      ∃ p, CollPayload vs ty p ∧ v = .ext "ListValue" (listT ty) p ["collections.list"]) ∧
    (∀ vs ty name v, staticArrayVal vs ty name = .ok v →
      ∃ p, CollPayload vs ty p ∧
        v = .ext "StaticArrayValue" (staticArrayT ty) (.obj [("value", p), ("name", .str name)])
          ["collections.static_array"]) := by
  refine ⟨fun vs ty v h => ?_, fun vs ty v h => ?_, fun vs ty name v h => ?_⟩
  · obtain ⟨p, hp, rfl⟩ := (arrayVal_ok vs ty v).1 h
    obtain ⟨js, jt, h1, _, h3, rfl⟩ := (collPayload_ok vs ty p).1 hp
    exact ⟨_, ⟨js, jt, h1, h3, rfl⟩, rfl⟩
  · obtain ⟨p, hp, rfl⟩ := (listVal_ok vs ty v).1 h
    obtain ⟨js, jt, h1, _, h3, rfl⟩ := (collPayload_ok vs ty p).1 hp
    exact ⟨_, ⟨js, jt, h1, h3, rfl⟩, rfl⟩
  · obtain ⟨_, p, hp, rfl⟩ := (staticArrayVal_ok vs ty name v).1 h
    obtain ⟨js, jt, h1, _, h3, rfl⟩ := (collPayload_ok vs ty p).1 hp
    exact ⟨_, ⟨js, jt, h1, h3, rfl⟩, rfl⟩

/-- … and these encodings are complete: each element decodes on its own to (the normal form of) the
    element, the type member to (the normal form of) the element type, and there are as many
    encodings as elements. -/
theorem std_payload_decodes (fnSig : Json → Except DecErr (List Ty × List Ty × List String))
    (vs : List Value) (ty : Ty) (p : Json) (h : CollPayload vs ty p)
    (hc : ∀ v ∈ vs, Codable fnSig v) (hp : ty.isPoly = false) (fuel : Nat)
    (hd : depthList vs ≤ fuel) (hdt : ty.depth ≤ fuel) :
    ∃ js jt, p = .obj [("values", .arr js), ("typ", jt)] ∧ js.length = vs.length ∧
      js.mapM (decVal fnSig fuel) = .ok (normList vs) ∧ decTy fuel jt = .ok ty.norm := by
  obtain ⟨js, jt, h1, h2, rfl⟩ := h
  exact ⟨js, jt, rfl, encVals_length vs js h1,
    decVals_encVals_aux fnSig vs js fuel ((codableList_iff fnSig vs).2 hc) h1 hd,
    decTy_encTy ty jt fuel h2 hp hdt⟩

example : ∃ v, arrayVal [intVal 3 2, intVal (-1) 2] (intT 2) = .ok v ∧
    typeOf v = .extType StdValDefs.array [.boundedNat 2, .type (intT 2)] := ⟨_, rfl, rfl⟩
example : staticArrayVal [] .qubit "n" = .error .valueError := rfl

/-! ### the value codec -/

/-- **Round trip**: decoding the encoding of a constant gives its normal form (types inside in the
    decoder's normal form: extension types in opaque form). -/
theorem decVal_encVal (fnSig : Json → Except DecErr (List Ty × List Ty × List String))
    (v : Value) (j : Json) (fuel : Nat) (hc : Codable fnSig v) (h : encVal v = .ok j)
    (hd : v.depth ≤ fuel) : decVal fnSig fuel j = .ok v.norm :=
  decVal_encVal_aux fnSig v j fuel hc h hd

/-- The normal form encodes to the same document and reports the normal form of the type. -/
theorem norm_same_document (v : Value) :
    encVal v.norm = encVal v ∧ typeOf v.norm = (typeOf v).norm :=
  ⟨encVal_norm v, typeOf_norm v⟩

/-- **The reported type is the type the serialised form inhabits**: for a well-formed constant,
    the value decoded from its encoding inhabits the type decoded from the encoding of the type it
    reports. -/
theorem enc_inhabits (fnSig : Json → Except DecErr (List Ty × List Ty × List String))
    (v : Value) (j jt : Json) (fuel : Nat) (hc : Codable fnSig v) (hw : Inhabits v (typeOf v))
    (h : encVal v = .ok j) (ht : encTy (typeOf v) = .ok jt) (hp : (typeOf v).isPoly = false)
    (hd : v.depth ≤ fuel) (hdt : (typeOf v).depth ≤ fuel) :
    ∃ v' t', decVal fnSig fuel j = .ok v' ∧ decTy fuel jt = .ok t' ∧ Inhabits v' t' :=
  ⟨v.norm, (typeOf v).norm, decVal_encVal_aux fnSig v j fuel hc h hd,
    decTy_encTy _ jt fuel ht hp hdt, inhabits_norm v hw⟩

/-- The hypotheses of `enc_inhabits` are satisfiable by a nested constant with an extension type. -/
example : ∃ j jt v' t',
    encVal (Value.some [intVal 3 2, boolValue true]) = .ok j ∧
    encTy (typeOf (Value.some [intVal 3 2, boolValue true])) = .ok jt ∧
    decVal (fun _ => .error .validation) 20 j = .ok v' ∧ decTy 20 jt = .ok t' ∧ Inhabits v' t' := by
  have hc : Codable (fun _ => .error .validation) (Value.some [intVal 3 2, boolValue true]) := by
    simp [Value.some, Value.boolValue, Value.unitSum, intVal, Codable, CodableList, Ty.option, Ty.isSum, Ty.isPoly, intT]
  have hw : Inhabits (Value.some [intVal 3 2, boolValue true]) (typeOf (Value.some [intVal 3 2, boolValue true])) := by
    rw [← inhabits_iff]; decide +kernel
  obtain ⟨v', t', h1, h2, h3⟩ := enc_inhabits (fun _ => .error .validation) _ _ _ 20 hc hw rfl rfl rfl
    (by decide) (by decide)
  exact ⟨_, _, v', t', rfl, rfl, h1, h2, h3⟩

/-! ### Const and LoadConstant -/

/-- A `Const` node offers the reported type on its static port (out-port 0) and has no other port. -/
theorem const_port (v : Value) :
    constPortKind v .out 0 = .ok (.const (typeOf v)) ∧
    (∀ d off, (d, off) ≠ (Dir.out, (0 : Int)) → constPortKind v d off = .error .invalidPort) := by
  refine ⟨rfl, fun d off h => ?_⟩
  cases d with
  | inp => rfl
  | out =>
    unfold constPortKind
    split
    · simp_all
    · rfl

/-- The `LoadConstant` that `load` builds for a constant has the reported type: it takes a constant of
    that type on its static input, produces one value of that type, is linked from the constant's
    static port, and — for a well-formed constant — that is a type the constant inhabits. -/
theorem load_const_type (v : Value) :
    (load v).const = v ∧
    (load v).load.type_ = .ok (typeOf v) ∧
    (load v).load.outerSig = .ok ([], [typeOf v]) ∧
    (load v).load.portKind .out 0 = .ok (.value (typeOf v)) ∧
    (load v).load.portKind .inp 0 = constPortKind (load v).const .out 0 ∧
    (load v).link = (0, 0) ∧
    (valid v = true → ∀ t, (load v).load.type_ = .ok t → Inhabits (load v).const t) := by
  refine ⟨rfl, rfl, rfl, rfl, rfl, rfl, fun hv t ht => ?_⟩
  cases ht
  exact (valid_iff v).1 hv

/-- A `LoadConst` whose type was never set is incomplete (the branch `load` never takes). -/
example : (LoadConst.mk none).type_ = .error .incompleteOp := rfl

end HugrVerif.Props.C14
