import HugrVerif.SerialCodecs
namespace HugrVerif.Props.C02
theorem placeholder : True := trivial
end HugrVerif.Props.C02
