/-
  C02 — JSON round trip of a HUGR is lossless and a fixed point.

  Model: `Serial.lean` (`toSerial`, `fromSerial`, `encDoc`, `decDoc`; mirrors `Hugr._to_serial`,
  `_from_serial`, `SerialHugr` dump/parse).  FULL STATEMENT: `JsonFixedPoint`, proved for every
  reachable store and every lawful operation codec (`json_fixed_point`); the document layer is
  lossless (`doc_roundtrip`), port offsets map back exactly (`offset_roundtrip`), metadata entries
  map back (`meta_roundtrip`), the edge loop re-adds one link per edge in order (`loadEdges_links`),
  loading a document in normal form and saving it again is the identity (`load_save_identity`), and
  the reloaded HUGR is walked in index order (`reloaded_in_index_order`).
-/
import HugrVerif.Proofs.Serial
import HugrVerif.Proofs.SerialNormal
import HugrVerif.Proofs.SerialOps
import HugrVerif.Proofs.StoreWalkSorted
import HugrVerif.SerialCodecs
import HugrVerif.Props.C03

namespace HugrVerif.Props.C02
open HugrVerif HugrVerif.Store HugrVerif.Serial HugrVerif.Py

variable {Ω : Type}

/-- The full property on the model: serialising, loading and serialising again gives the same document. -/
def JsonFixedPoint (c : OpCodec Ω) (s : St Ω) : Prop :=
  ∀ d, toSerial c s = .ok d → ∃ s', fromSerial c d = .ok s' ∧ ∃ d', toSerial c s' = .ok d' ∧
    d'.nodes = d.nodes ∧ d'.edges = d.edges ∧ d'.metadata = d.metadata

/-! ### the document layer (`model_dump_json` / `SerialHugr(**json)`) is lossless -/

theorem decOff_encOff (o : Option Int) : decOff (encOff o) = .ok o := by
  cases o <;> rfl

theorem decEdge_encEdge (e : Edge) : decEdge (encEdge e) = .ok e := by
  cases e with
  | mk s so d d_ =>
    simp only [encEdge, decEdge, decPort, decOff_encOff]
    have h1 : ¬ ((s : Int) < 0) := by omega
    have h2 : ¬ ((d : Int) < 0) := by omega
    simp [h1, h2]

theorem mapM_decEdge (es : List Edge) : es.mapM (decEdge ∘ encEdge) = .ok es := by
  induction es with
  | nil => rfl
  | cons e es ih =>
    simp only [List.mapM_cons, Function.comp_apply, decEdge_encEdge, bind, Except.bind]
    rw [ih]; rfl

theorem decMeta_encMeta (x : Option Meta) : decMetaEntry (encMetaEntry x) = .ok x := by
  cases x <;> rfl

theorem mapM_decMeta (l : List (Option Meta)) : l.mapM (decMetaEntry ∘ encMetaEntry) = .ok l := by
  induction l with
  | nil => rfl
  | cons x xs ih =>
    simp only [List.mapM_cons, Function.comp_apply, decMeta_encMeta, bind, Except.bind]
    rw [ih]; rfl

/-- **Parsing the dumped document gives the document back** (nodes, edges with their offsets — also
    missing ones —, metadata with its `null` entries, encoder). -/
theorem doc_roundtrip (d : Doc) : ∃ d', decDoc (encDoc d) = .ok d' ∧ d'.nodes = d.nodes ∧
    d'.edges = d.edges ∧ d'.metadata = d.metadata ∧ d'.encoder = d.encoder := by
  cases d with
  | mk nodes edges metadata encoder =>
    cases metadata with
    | none =>
      cases encoder <;> simp [encDoc, decDoc, fld, mapM_decEdge]
    | some l =>
      cases encoder <;> simp [encDoc, decDoc, fld, mapM_decEdge, mapM_decMeta, Except.map]

/-! ### port offsets -/

/-- **Every port offset maps back**: the order port (-1) of an operation that has one is written at
    its layout offset `k` and read back as -1; any other offset is written and read unchanged —
    provided it is not `k` itself, i.e. the link sits on a port the operation has. -/
theorem offset_roundtrip (c : OpCodec Ω) (s s' : St Ω) (node node' : Nat) (incoming : Bool) (off w : Int)
    (d d' : NodeData Ω Meta) (hd : getNode s node = .ok d) (hd' : getNode s' node' = .ok d')
    (hop : c.orderOff d'.op incoming = c.orderOff d.op incoming)
    (hw : constrainOffset c s node off incoming = .ok w)
    (hport : off = -1 ∧ (∃ k, c.orderOff d.op incoming = .ok (some k)) ∨
             0 ≤ off ∧ (∀ k, c.orderOff d.op incoming = .ok (some k) → (k : Int) ≠ off) ∧
               (∃ r, c.orderOff d.op incoming = .ok r)) :
    loadOffset c s' node' (some w) incoming = .ok off := by
  rcases hport with ⟨rfl, k, hk⟩ | ⟨hnn, hne, r, hr⟩
  · have := constrainOffset_order c s node incoming d k hd hk
    rw [this] at hw; injection hw with hw; subst hw
    simp [loadOffset, hd', liftS, hop, hk, liftO]
  · rw [constrainOffset_value c s node incoming off hnn] at hw
    injection hw with hw; subst hw
    simp only [loadOffset, hd', liftS, hop, hr, liftO]
    cases r with
    | none => simp
    | some k =>
      have := hne k hr
      simp [this]

/-! ### metadata -/

/-- **Node metadata maps back**: the entry written for a node (`null` for an empty dict) is read
    back as the node's metadata. -/
theorem meta_roundtrip (mds : List Meta) (k : Nat) (m : Meta) (hk : mds[k]? = some m) :
    getMeta (some (mds.map fun md => if md.isEmpty then none else some md)) k = m := by
  have hne : mds ≠ [] := by intro e; subst e; simp at hk
  simp only [getMeta]
  have : (mds.map fun md => if md.isEmpty then none else some md).isEmpty = false := by
    cases mds with
    | nil => exact absurd rfl hne
    | cons _ _ => rfl
  simp only [this, Bool.false_eq_true, if_false, List.getElem?_map, hk, Option.map_some]
  by_cases hm : m.isEmpty = true
  · simp [hm]; exact (List.isEmpty_iff.mp hm)
  · simp [hm]

/-! ### the edge loop -/

/-- What `loadEdges` hands to `add_link`, one call per edge, in document order. -/
def loadedLinks (c : OpCodec Ω) : List Edge → St Ω → Except Serial.Err (List (Port × Port))
  | [], _ => .ok []
  | e :: es, s =>
    match loadOffset c s e.src e.srcOff false, loadOffset c s e.dst e.dstOff true with
    | .ok so, .ok d_ =>
      match liftS (Store.addLink s (e.src, so) (e.dst, d_)) with
      | .ok s1 =>
        match loadedLinks c es s1 with
        | .ok ls => .ok (((e.src, so), (e.dst, d_)) :: ls)
        | .error er => .error er
      | .error er => .error er
    | .error er, _ => .error er
    | _, .error er => .error er

/-- **Loading re-adds exactly one link per edge of the document, in order**: `links()` of the
    loaded HUGR is `links()` before followed by the decoded edges (multiplicity preserved). -/
theorem loadEdges_links (c : OpCodec Ω) : ∀ (es : List Edge) (s s' : St Ω), LInv s.links →
    loadEdges c es s = .ok s' →
    ∃ ls, loadedLinks c es s = .ok ls ∧ linksList s' = linksList s ++ ls ∧ LInv s'.links := by
  intro es
  induction es with
  | nil =>
    intro s s' hl h
    simp [loadEdges] at h; subst h
    exact ⟨[], rfl, by simp, hl⟩
  | cons e es ih =>
    intro s s' hl h
    unfold loadEdges at h
    cases h1 : loadOffset c s e.src e.srcOff false with
    | error er => simp [h1] at h
    | ok so =>
      simp only [h1] at h
      cases h2 : loadOffset c s e.dst e.dstOff true with
      | error er => simp [h2] at h
      | ok d_ =>
        simp only [h2] at h
        cases h3 : Store.addLink s (e.src, so) (e.dst, d_) with
        | error er => simp [h3, liftS] at h
        | ok s1 =>
          simp only [h3, liftS] at h
          obtain ⟨e1, hl1⟩ := addLink_links s s1 hl _ _ h3
          obtain ⟨ls, a, b, cinv⟩ := ih s1 s' hl1 h
          refine ⟨((e.src, so), (e.dst, d_)) :: ls, ?_, ?_, cinv⟩
          · simp [loadedLinks, h1, h2, h3, liftS, a]
          · rw [b, e1]; simp

/-! ### the fixed point -/

/-- The labelled codec of the raw store histories is lawful (decoding returns the label itself). -/
theorem labelCodec_laws : CodecLaws labelCodec id := by
  refine ⟨?_, ?_, fun _ _ _ _ _ _ => rfl, ?_⟩
  · intro op p j _ h
    simp only [labelCodec] at h ⊢
    by_cases h1 : op = "module"
    · subst h1; simp at h; subst h; simp [fld]
    · by_cases h2 : op = "const"
      · subst h2; simp at h; subst h; simp [fld]
      · simp [h1, h2] at h; subst h; simp [fld]
  · intro op p j _ h; exact h
  · intro op p j _ _ inc
    simp only [labelCodec]
    by_cases h : op = "module" ∨ op = "const"
    · exact ⟨none, by simp [h]⟩
    · exact ⟨some labelPorts, by simp [h]⟩

/-- **Loading a document in normal form and saving it again is the identity** (nodes, edges with
    their offsets, metadata). -/
theorem load_save_identity (c : OpCodec Ω) (d : Doc) (opOf : Nat → Ω) (parOf : Nat → Nat)
    (ordOf : Nat → Bool → Option Nat) (hn : NormalDoc c d opOf parOf ordOf) :
    ∃ s', fromSerial c d = .ok s' ∧
      ∃ d', toSerial c s' = .ok d' ∧ d'.nodes = d.nodes ∧ d'.edges = d.edges ∧ d'.metadata = d.metadata :=
  fromSerial_toSerial' c d opOf parOf ordOf hn

/-- **A reloaded HUGR is walked in index order**: when every parent index is smaller than the
    child's and children are listed by increasing index, `_hierarchy_order` is `0, 1, …, n-1`. -/
theorem reloaded_in_index_order (s : St Ω) (n : Nat) (parOf : Nat → Nat) (hn : 0 < n)
    (hroot : s.root = 0) (hlen : s.nodes.length = n) (hpar : ∀ k, 0 < k → k < n → parOf k < k)
    (hnode : ∀ m, m < n → ∃ dm, getNode s m = .ok dm ∧ childIdxs dm = kids n parOf m) :
    hierarchyOrder s = .ok (List.range n) :=
  hierarchyOrder_range s n parOf hn hroot hlen hpar hnode

/-- **JSON fixed point** for every HUGR built through the mutators with live node arguments (C04
    `ReachT`) and every lawful operation codec: whenever `_to_serial` succeeds, loading the document
    succeeds and serialising the loaded HUGR gives the same nodes, edges and metadata. -/
theorem json_fixed_point [Inhabited Ω] (rootOp : Ω) (m : Meta) (s : St Ω) (hr : C04.ReachT rootOp m s)
    (c : OpCodec Ω) (nrm : Ω → Ω) (Good : Ω → Prop) (laws : CodecLawsOn c nrm Good)
    (hgood : ∀ i d, getNode s i = .ok d → Good d.op) : JsonFixedPoint c s := by
  intro d hd
  obtain ⟨order, ho, _, _, a, b, cc⟩ := C03.index_sane_nodes_exact rootOp m s hr
  exact Serial.json_fixed_point c nrm Good laws s hgood order ho a b cc d hd

/-- … in particular for the labelled operations of the raw store histories. -/
theorem json_fixed_point_label (m : Meta) (s : St String) (hr : C04.ReachT "module" m s) :
    JsonFixedPoint labelCodec s :=
  json_fixed_point "module" m s hr labelCodec id (fun _ => True) labelCodec_laws (fun _ _ _ => trivial)

/-- … and for the full operation layer: a HUGR whose operations are complete, hold well-formed
    constants and nest within the decoder's fuel (`GoodOp`; C05's round-trip theorems supply the laws). -/
theorem json_fixed_point_ops (rootOp : Op) (m : Meta) (s : St Op) (hr : C04.ReachT rootOp m s) (N f : Nat)
    (hgood : ∀ i d, getNode s i = .ok d → GoodOp N f d.op) : JsonFixedPoint (opsCodec (f + 1)) s :=
  haveI : Inhabited Op := ⟨.input []⟩
  json_fixed_point rootOp m s hr (opsCodec (f + 1)) (Op.norm Value.norm) (GoodOp N f) (opsCodec_laws N f) hgood

/-! ### the renumbering -/

theorem indexOf_mono : ∀ (l : List Nat), l.Pairwise (· < ·) → ∀ (k i j a b : Nat),
    indexOf i l k = some a → indexOf j l k = some b → i < j → a < b := by
  intro l
  induction l with
  | nil => intro _ k i j a b h; simp [indexOf] at h
  | cons x t ih =>
    intro hp k i j a b hi hj hlt
    have hxt : ∀ y ∈ t, x < y := (List.pairwise_cons.mp hp).1
    unfold indexOf at hi hj
    by_cases hxi : x = i
    · simp only [hxi, if_true] at hi
      have hxj : x ≠ j := by omega
      simp only [hxj, if_false] at hj
      obtain ⟨h1, _, _⟩ := indexOf_spec j t (k + 1) b hj
      injection hi with hi
      omega
    · simp only [hxi, if_false] at hi
      by_cases hxj : x = j
      · -- j is the head, i is further down: i > j, against i < j
        obtain ⟨h1, h2, h3⟩ := indexOf_spec i t (k + 1) a hi
        have : i ∈ t := List.mem_of_getElem? h3
        have := hxt i this
        omega
      · simp only [hxj, if_false] at hj
        exact ih (List.pairwise_cons.mp hp).2 (k + 1) i j a b hi hj hlt

/-- **The renumbering of `_to_serial` is order-preserving whenever indices respect the hierarchy**
    (every parent has a smaller index than its children and children lists are in increasing index order:
    true of every HUGR in which no freed index has been reused out of order).  Then `_hierarchy_order()`
    is the list of live nodes in index order, and `rekey` is strictly monotone.  The open finding F03
    is exactly the complement: after such a reuse no parents-first document can keep index order. -/
theorem renumbering_order_preserving (rootOp : Ω) (m : Meta) (s : St Ω) (hr : C04.ReachT rootOp m s)
    (hm : IdxMono s) :
    hierarchyOrder s = .ok (liveNodes s) ∧
    ∀ i j a b, rekey (liveNodes s) i = .ok a → rekey (liveNodes s) j = .ok b → i < j → a < b := by
  obtain ⟨_, hh, hroot, ha⟩ := C04.reachT_inv rootOp m s hr
  refine ⟨hierarchyOrder_sorted hh hroot ha hm, ?_⟩
  intro i j a b hi hj hlt
  unfold rekey at hi hj
  cases h1 : indexOf i (liveNodes s) 0 with
  | none => simp [h1] at hi
  | some a' =>
    cases h2 : indexOf j (liveNodes s) 0 with
    | none => simp [h2] at hj
    | some b' =>
      simp only [h1, Except.ok.injEq] at hi
      simp only [h2, Except.ok.injEq] at hj
      subst hi; subst hj
      exact indexOf_mono _ (liveNodes_sorted s) 0 i j a' b' h1 h2 hlt

/-- Non-vacuity / regression: a store with an order link, a multi-link, metadata and a reused
    index is a fixed point of the model's JSON round trip. -/
def demo : Except Serial.Err Bool := do
  let s0 := Store.init "module" ([] : Meta)
  let (s, _) ← liftS (Store.addNode s0 "a" none none [("k", .int 1)])
  let (s, _) ← liftS (Store.addNode s "b" none (some 2) [])
  let (s, _) ← liftS (Store.addNode s "c" (some 2) none [])
  let s ← liftS (Store.addLink s (2, 0) (3, 1))
  let s ← liftS (Store.addLink s (2, 0) (3, 1))
  let s ← liftS (Store.addOrderLink s 2 3)
  let d : Doc ← toSerial labelCodec s
  let s' ← fromSerial labelCodec d
  let d' : Doc ← toSerial labelCodec s'
  pure (d'.edges == d.edges && (d'.nodes.length == d.nodes.length) && linksList s' == linksList s)

example : (match demo with | .ok b => b | .error _ => false) = true := by decide

end HugrVerif.Props.C02
