/-
  C15 — Index-based (tracked) wiring is equivalent to explicit wiring.

  Property theorems only.  Model: `Build/State.lean` (`trackWire`, `trackWires`, `untrackWire`,
  `trackedWire`, `toWires`, `rebind`, `trackedAdd`, `extend`, `setIndexedOutputs`, `setTrackedOutputs`,
  mirroring `hugr/build/tracked_dfg.py` as repaired for F16: `add` passes the metadata on) and
  `Build/Tracked.lean` (the tracked command language `TCmd`/`runT`, the explicit one `ECmd`/`runE`,
  `elaborate`, `plain`, the history semantics `Ev`/`denote`/`runLog`); proofs in `Proofs/Tracked.lean`.
-/
import HugrVerif.Proofs.Tracked

namespace HugrVerif.Props.C15
open HugrVerif HugrVerif.Build HugrVerif.Build.BuildState HugrVerif.Build.Tracked

/-- **`add` connects the wires tracked BEFORE the command, then rebinds**: the integer arguments are
    resolved against the index table as it is when the command starts, the node is added by the plain
    `add_op` with those wires and the given metadata, and only then every integer argument's index is
    rebound to the new node's output at the argument's position. -/
theorem add_spec (st st1 : BuildState) (bi : Nat) (op : Op) (args : List ComWire) (md : Serial.Meta) (h : Handle)
    (ha : trackedAdd st bi op args md = .ok (st1, h)) :
    ∃ r ws st2, st.getB bi = .ok r ∧ toWires r.tracked args = .ok ws ∧
      addOp st bi op ws md = .ok (st2, h) ∧ st2.getB bi = .ok r ∧
      st1 = st2.setB bi { r with tracked := rebind h.1 r.tracked 0 args } :=
  Tracked.add_spec st st1 bi op args md h ha

/-- **Rebinding**: after `add`, an index that occurs among the integer arguments denotes the new node's
    output at (the last of) its argument position(s); every other index is unchanged. -/
theorem rebind_get (n : Nat) (i : Nat) : ∀ (args : List ComWire) (tr : List (Option Wire)) (pos : Nat),
    i < tr.length →
    (rebind n tr pos args)[i]? =
      match lastPos i args pos with
      | some p => some (some (n, (p : Int)))
      | none => tr[i]? :=
  Tracked.rebind_get n i

/-- **`binding_spec`**: after any successful history the index table is what its events denote
    (`denote`): `track` appends — the returned index is the previous length —, `add` rebinds the indices
    among its integer arguments to the new node's outputs at the argument positions (`rebind_get`: the
    most recent write wins), `untrack` sets the entry to `None`; nothing else writes the table
    (`set_indexed_outputs` / `set_tracked_outputs` log no event). -/
theorem binding_spec (bi : Nat) : ∀ (p : List TCmd) (st st' : BuildState) (evs : List Ev),
    IsTracked st bi → runLog bi st p = .ok (st', evs) →
    IsTracked st' bi ∧ trackedOf st' bi = denote (trackedOf st bi) evs :=
  Tracked.binding_spec bi

/-- **`explicit_equiv`**: whenever a program of tracked commands runs, its elaboration — every integer
    replaced by the wire it denotes, `extend` unfolded into `add`s, index-table commands dropped — runs
    on the same builder taken as a plain `Dfg` and ends in the same state: the same HUGR, node for
    node and link for link, including the metadata given to `add` (every node is created by the same
    `add_op` call on both sides). -/
theorem explicit_equiv (bi : Nat) (p : List TCmd) (st st' : BuildState)
    (ht : IsTracked st bi) (h : runT bi st p = .ok st') :
    ∃ ep, elaborate bi st (flatten p) = .ok ep ∧ runE bi (plain bi st) ep = .ok (plain bi st') :=
  Tracked.explicit_equiv bi p st st' ht h

/-- in particular the HUGRs are equal -/
theorem explicit_equiv_stores (bi : Nat) (p : List TCmd) (st st' : BuildState)
    (ht : IsTracked st bi) (h : runT bi st p = .ok st') :
    ∃ ep ste, elaborate bi st (flatten p) = .ok ep ∧ runE bi (plain bi st) ep = .ok ste ∧ ste.hugrs = st'.hugrs :=
  Tracked.explicit_equiv_stores bi p st st' ht h

/-- `extend(*coms)` is `add(com)` for each command in turn (without metadata). -/
theorem extend_is_adds (bi : Nat) : ∀ (coms : List (Op × List ComWire)) (st : BuildState),
    IsTracked st bi →
    dropRes (Build.extend bi st coms) = runT bi st (coms.map (fun c => TCmd.add c.1 c.2 [])) :=
  Tracked.extend_is_adds bi

/-- a `TrackedDfg(*tys)` and a `Dfg(*tys)` start from the same HUGR: `plain` of the former is the latter -/
theorem init_plain (tys : List Ty) :
    (match newStandaloneDf {} .tracked (.dfg tys none []) with
     | .ok (st, bi) => some (plain bi st, bi)
     | .error _ => none) =
    (match newStandaloneDf {} .dfg (.dfg tys none []) with
     | .ok (st, bi) => some (st, bi)
     | .error _ => none) :=
  Tracked.init_plain tys

/-- and `untrack_wire` itself puts `None` there -/
theorem untrack_frees (bi : Nat) (st st1 : BuildState) (i : Nat) (w : Wire)
    (h : untrackWire st bi i = .ok (st1, w)) : (trackedOf st1 bi)[i]? = some none :=
  Tracked.untrack_frees bi st st1 i w h

/-- **Untracking frees an index for good**: once an index is `None` it stays `None` through every
    successful continuation — no command can rebind it (`add` on it raises `IndexError`), and
    `track_wire` never reuses it (it appends). -/
theorem untrack_permanent (bi : Nat) (i : Nat) : ∀ (p : List TCmd) (st st' : BuildState) (evs : List Ev),
    IsTracked st bi → runLog bi st p = .ok (st', evs) →
    (trackedOf st bi)[i]? = some none → (trackedOf st' bi)[i]? = some none :=
  Tracked.untrack_permanent bi i

/-- **Outputs in index order**: `set_tracked_outputs` is `set_outputs` of the tracked wires that are not
    `None`, in increasing index order; `set_indexed_outputs(i₁, …, iₖ)` is `set_outputs` of the wires
    those indices denote, in the order given. -/
theorem outputs_in_index_order (st : BuildState) (bi : Nat) (r : BRec) (hr : st.getB bi = .ok r) :
    setTrackedOutputs st bi =
      setOutputsDfg st bi ((List.range r.tracked.length).filterMap (fun i => (r.tracked[i]?).join)) :=
  Tracked.outputs_in_index_order st bi r hr

theorem indexed_outputs_resolved (st : BuildState) (bi : Nat) (r : BRec) (is : List Nat) (ws : List Wire)
    (hr : st.getB bi = .ok r) (hw : ∀ (k i : Nat), is[k]? = some i → ∃ w, ws[k]? = some w ∧ r.tracked[i]? = some (some w))
    (hl : ws.length = is.length) :
    setIndexedOutputs st bi (is.map .idx) = setOutputsDfg st bi ws :=
  Tracked.indexed_outputs_resolved st bi r is ws hr hw hl

/-! ### non-vacuity: a concrete circuit

`TrackedDfg(Qubit, Qubit, track_inputs=True)`; `add(CX(0, 1), metadata={"k": 1})`; `untrack_wire(1)`;
`add(H(0))`; `set_tracked_outputs()` runs; index 0 denotes output 0 of the last gate (node 4), index 1
stays freed. -/

example : (match Tracked.demoInit with
    | .ok (st, bi) => (match runT bi st Tracked.demoProg with
      | .ok st' => some (trackedOf st' bi)
      | .error _ => none)
    | .error _ => none) = some [some (4, 0), none] := by decide


/-- the hypotheses of `explicit_equiv` / `binding_spec` / `untrack_permanent` hold for that run -/
example : (match Tracked.demoInit with
    | .ok (st, bi) => decide ((st.getB bi).toOption.map (·.kind) = some BKind.tracked)
    | .error _ => false) = true := by decide

end HugrVerif.Props.C15
