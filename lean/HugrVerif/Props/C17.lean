/-
  C17 — The published JSON schema files and the Python codec accept the same documents.

  The terms `Gen.Schema.<file>.pub_*` (files under specification/schema) and
  `Gen.Schema.<file>.gen_*` (what scripts/generate_schema.py writes from the current pydantic
  models) are regenerated from /repo on every run, together with one kernel-checked theorem
  `<file>.def_<name> : normalize pub = normalize gen` per `$defs` entry (Gen/SchemaE_*.lean) and
  the per-file conclusions in Gen/SchemaIndex.lean.  This file holds
    * the general theorems (normalisation does not change the verdict on any document),
    * for every file: the whole published schema equals the generated one up to normalisation,
      hence both give the same verdict on every document, for every schema over their `$defs`,
    * the version string: models, generator file names and published file names agree.
  The generated per-definition theorems are re-stated in this module by `#restate_generated`
  (so that the obligation audit lists every one of them with its axioms).
-/
import Lean
import HugrVerif.Proofs.Schema
import HugrVerif.Gen.SchemaIndex

namespace HugrVerif.Props.C17
open HugrVerif HugrVerif.Schema HugrVerif.Gen.Schema

/-! ### General theorems -/

/-- `Json.beq` decides equality of JSON trees (used to discharge the generated equalities). -/
theorem beq_decides (a b : Json) : Json.beq a b = true ↔ a = b := Json.beq_iff a b

/-- JSON equality used by `const`/`enum`/`uniqueItems` ignores the order of object members. -/
theorem eqv_ignores_member_order (k l : String) (v w : Json) (h : k ≠ l)
    (pre post : List (String × Json)) :
    Json.eqv (.obj (pre ++ (k, v) :: (l, w) :: post)) (.obj (pre ++ (l, w) :: (k, v) :: post)) = true :=
  Json.eqv_swap k l v w h pre post

example : Json.eqv (.obj [("a", .int 1), ("b", .null)]) (.obj [("b", .null), ("a", .int 1)]) = true := by
  decide
example : Json.eqv (.obj [("a", .int 1), ("b", .null)]) (.obj [("b", .null), ("a", .int 2)]) = false := by
  decide

/-- **Normalisation preserves the verdict**: removing `additionalProperties: true`, `title` and
    `description` in schema positions (everywhere in the schema and in the `$defs` table) changes
    the verdict on no document — for every regular-expression matcher `P`, every fuel, every
    schema and every document; also the "no verdict" outcome is preserved. -/
theorem eval_normalize (P : String → String → Option Bool) (defs : Fields) (fuel : Nat) (s j : Json) :
    eval P (normDefs defs) fuel (normalize s) j = eval P defs fuel s j :=
  Schema.eval_normalize P defs fuel s j

theorem accepts_normalize (P : String → String → Option Bool) (defs : Fields) (fuel : Nat) (s j : Json) :
    accepts P (normDefs defs) fuel (normalize s) j = accepts P defs fuel s j :=
  Schema.accepts_normalize P defs fuel s j

/-- Equal normal forms ⇒ same verdict on every document. -/
theorem same_verdict_of_normalize_eq (P : String → String → Option Bool) {d1 d2 : Fields} {s1 s2 : Json}
    (hd : normDefs d1 = normDefs d2) (hs : normalize s1 = normalize s2) (fuel : Nat) (j : Json) :
    eval P d1 fuel s1 j = eval P d2 fuel s2 j :=
  Schema.eval_eq_of_normalize_eq P hd hs fuel j

-- non-vacuity: the hypotheses hold for two different schemas, and `normalize` is schema-aware
example :
    let s1 : Json := .obj [("additionalProperties", .bool true), ("title", .str "T"),
      ("properties", .obj [("title", .obj [("type", .str "string"), ("title", .str "Title")])]),
      ("const", .obj [("title", .str "data")])]
    let s2 : Json := .obj [("properties", .obj [("title", .obj [("type", .str "string")])]),
      ("const", .obj [("title", .str "data")])]
    s1 ≠ s2 ∧ normalize s1 = normalize s2 ∧ normalize s2 = s2 := by decide

/-- A verdict, once reached, is reached with one more unit of fuel too (so "accepted" does not
    depend on the amount of fuel beyond "enough"). -/
theorem eval_fuel_mono (P : String → String → Option Bool) (defs : Fields) (fuel : Nat) (s j : Json)
    (b : Bool) (h : eval P defs fuel s j = some b) : eval P defs (fuel + 1) s j = some b :=
  Schema.eval_mono P defs fuel s j b h

/-! ### The files -/

/-- The generator writes exactly the four configurations this file draws conclusions for. -/
theorem configs_complete : configNames =
    ["hugr_schema", "hugr_schema_strict", "testing_hugr_schema", "testing_hugr_schema_strict"] := by
  decide

/-- The set of published `*.json` files is the set of files the generator writes. -/
theorem files_agree : publishedFiles = generatedFiles := by decide

/-- One version string: `serialization_version()`, `get_version()` of both root models, the
    generator's file names and the published file names. -/
theorem version_agrees :
    serialHugrVersion = serializationVersion ∧ testingHugrVersion = serializationVersion ∧
    hugr_schema.pubFile = "hugr_schema_" ++ serializationVersion ++ ".json" ∧
    hugr_schema_strict.pubFile = "hugr_schema_strict_" ++ serializationVersion ++ ".json" ∧
    testing_hugr_schema.pubFile = "testing_hugr_schema_" ++ serializationVersion ++ ".json" ∧
    testing_hugr_schema_strict.pubFile = "testing_hugr_schema_strict_" ++ serializationVersion ++ ".json" := by
  decide

/-- The whole published file equals the generated one up to normalisation. -/
theorem whole_file_hugr_schema :
    normalize hugr_schema.pubSchema = normalize hugr_schema.genSchema :=
  normalize_top_congr hugr_schema.defs hugr_schema.rest
theorem whole_file_hugr_schema_strict :
    normalize hugr_schema_strict.pubSchema = normalize hugr_schema_strict.genSchema :=
  normalize_top_congr hugr_schema_strict.defs hugr_schema_strict.rest
theorem whole_file_testing_hugr_schema :
    normalize testing_hugr_schema.pubSchema = normalize testing_hugr_schema.genSchema :=
  normalize_top_congr testing_hugr_schema.defs testing_hugr_schema.rest
theorem whole_file_testing_hugr_schema_strict :
    normalize testing_hugr_schema_strict.pubSchema = normalize testing_hugr_schema_strict.genSchema :=
  normalize_top_congr testing_hugr_schema_strict.defs testing_hugr_schema_strict.rest

/-- **Same documents** (lax HUGR schema): every schema `s` over the `$defs` of the file — in
    particular `ref "SerialHugr"`, `ref "Extension"`, `ref "Package"` — gives the same verdict
    on every document whether `$ref`s resolve in the published or in the generated table. -/
theorem same_documents_hugr_schema (P : String → String → Option Bool) (fuel : Nat) (s j : Json) :
    eval P hugr_schema.pubDefs fuel s j = eval P hugr_schema.genDefs fuel s j :=
  Schema.eval_eq_of_normalize_eq P hugr_schema.defs rfl fuel j
theorem same_documents_hugr_schema_strict (P : String → String → Option Bool) (fuel : Nat) (s j : Json) :
    eval P hugr_schema_strict.pubDefs fuel s j = eval P hugr_schema_strict.genDefs fuel s j :=
  Schema.eval_eq_of_normalize_eq P hugr_schema_strict.defs rfl fuel j
theorem same_documents_testing_hugr_schema (P : String → String → Option Bool) (fuel : Nat) (s j : Json) :
    eval P testing_hugr_schema.pubDefs fuel s j = eval P testing_hugr_schema.genDefs fuel s j :=
  Schema.eval_eq_of_normalize_eq P testing_hugr_schema.defs rfl fuel j
theorem same_documents_testing_hugr_schema_strict (P : String → String → Option Bool) (fuel : Nat) (s j : Json) :
    eval P testing_hugr_schema_strict.pubDefs fuel s j = eval P testing_hugr_schema_strict.genDefs fuel s j :=
  Schema.eval_eq_of_normalize_eq P testing_hugr_schema_strict.defs rfl fuel j

/-- The same in terms of `accepts`, for the root models of the four files. -/
theorem same_accepts (P : String → String → Option Bool) (fuel : Nat) (root : String) (j : Json) :
    accepts P hugr_schema.pubDefs fuel (ref root) j = accepts P hugr_schema.genDefs fuel (ref root) j ∧
    accepts P hugr_schema_strict.pubDefs fuel (ref root) j
      = accepts P hugr_schema_strict.genDefs fuel (ref root) j ∧
    accepts P testing_hugr_schema.pubDefs fuel (ref root) j
      = accepts P testing_hugr_schema.genDefs fuel (ref root) j ∧
    accepts P testing_hugr_schema_strict.pubDefs fuel (ref root) j
      = accepts P testing_hugr_schema_strict.genDefs fuel (ref root) j := by
  simp only [accepts, same_documents_hugr_schema, same_documents_hugr_schema_strict,
    same_documents_testing_hugr_schema, same_documents_testing_hugr_schema_strict, and_self]

/-- The whole files (top-level schema objects) give the same verdicts as well. -/
theorem same_documents_whole_files (P : String → String → Option Bool) (fuel : Nat) (j : Json) :
    eval P hugr_schema.pubDefs fuel hugr_schema.pubSchema j
      = eval P hugr_schema.genDefs fuel hugr_schema.genSchema j ∧
    eval P hugr_schema_strict.pubDefs fuel hugr_schema_strict.pubSchema j
      = eval P hugr_schema_strict.genDefs fuel hugr_schema_strict.genSchema j ∧
    eval P testing_hugr_schema.pubDefs fuel testing_hugr_schema.pubSchema j
      = eval P testing_hugr_schema.genDefs fuel testing_hugr_schema.genSchema j ∧
    eval P testing_hugr_schema_strict.pubDefs fuel testing_hugr_schema_strict.pubSchema j
      = eval P testing_hugr_schema_strict.genDefs fuel testing_hugr_schema_strict.genSchema j :=
  ⟨Schema.eval_eq_of_normalize_eq P hugr_schema.defs whole_file_hugr_schema fuel j,
   Schema.eval_eq_of_normalize_eq P hugr_schema_strict.defs whole_file_hugr_schema_strict fuel j,
   Schema.eval_eq_of_normalize_eq P testing_hugr_schema.defs whole_file_testing_hugr_schema fuel j,
   Schema.eval_eq_of_normalize_eq P testing_hugr_schema_strict.defs
     whole_file_testing_hugr_schema_strict fuel j⟩

/-! ### Non-vacuity: the verdicts are real ones (not `none` on both sides) -/

/-- `{"version": "live", "nodes": [{"parent": 0, "op": "Module"}], "edges": []}` -/
def docModule : Json := .obj [("version", .str "live"),
  ("nodes", .arr [.obj [("parent", .int 0), ("op", .str "Module")]]), ("edges", .arr [])]
/-- the same without `nodes` -/
def docNoNodes : Json := .obj [("version", .str "live"), ("edges", .arr [])]
/-- the same with an unknown member -/
def docExtra : Json := .obj [("version", .str "live"),
  ("nodes", .arr [.obj [("parent", .int 0), ("op", .str "Module")]]), ("edges", .arr []),
  ("zzz", .int 1)]

example : eval (fun _ _ => none) hugr_schema_strict.pubDefs 12 (ref "SerialHugr") docModule = some true := by
  decide +kernel
example : eval (fun _ _ => none) hugr_schema_strict.genDefs 12 (ref "SerialHugr") docModule = some true := by
  decide +kernel
example : eval (fun _ _ => none) hugr_schema_strict.pubDefs 12 (ref "SerialHugr") docNoNodes = some false := by
  decide +kernel
example : eval (fun _ _ => none) hugr_schema_strict.pubDefs 12 (ref "SerialHugr") docExtra = some false := by
  decide +kernel
example : eval (fun _ _ => none) hugr_schema.pubDefs 12 (ref "SerialHugr") docExtra = some true := by
  decide +kernel
-- too little fuel: no verdict
example : eval (fun _ _ => none) hugr_schema_strict.pubDefs 3 (ref "SerialHugr") docModule = none := by
  decide +kernel

/-! ### Re-statement of the generated theorems in this module -/

open Lean Elab Command in
/-- For every theorem `HugrVerif.Props.C17.<file>.<x>` of the imported generated modules declare
    `HugrVerif.Props.C17.generated.<file>.<x>` with the same statement, proved by it. -/
elab "#restate_generated" : command => do
  let env ← getEnv
  let pre := `HugrVerif.Props.C17
  let mut todo : Array (Name × TheoremVal) := #[]
  for (n, ci) in env.constants.map₁.toList do
    if pre.isPrefixOf n && !n.isInternal then
      if let .thmInfo ti := ci then
        if let some idx := env.getModuleIdxFor? n then
          let modName := env.header.moduleNames[idx.toNat]!
          if (`HugrVerif.Gen).isPrefixOf modName then todo := todo.push (n, ti)
  for (n, ti) in todo.qsort (fun a b => a.1.toString < b.1.toString) do
    let newName := (pre ++ `generated) ++ n.replacePrefix pre .anonymous
    liftCoreM <| addDecl <| .thmDecl {
      name := newName, levelParams := ti.levelParams, type := ti.type,
      value := mkConst n (ti.levelParams.map mkLevelParam) }

#restate_generated

end HugrVerif.Props.C17
