/-
  C01 — builder-constructed HUGRs satisfy the specification's validity rules.

  This file holds the theorems about the VALIDITY SPECIFICATION (`HugrVerif/Validate.lean`, transcribed
  from hugr-core's validator) — the oracle and theorem target of C01:

  * `validate_iff`            the executable validator accepts exactly the documents satisfying `Valid`
                              (all rules, both directions);
  * rule-wise lemmas          what the non-trivial executable checks decide (`acyclic_iff`: Kahn's
                              elimination ⇔ no node reaches itself; `dominates_iff`: reachability after
                              removing a block ⇔ every walk from the entry passes through it;
                              `isSuperset_iff`; order-edge and constant checks);
  * `tables_agree`            the hand-written OpTag hierarchy, operation tags and validity flags are the
                              tables regenerated from ops/tag.rs, ops/validate.rs, ops/*.rs on every run;
  * non-vacuity               a concrete valid document (Ext edge + order edge into a nested DFG, constant,
                              conditional, tail loop, CFG with a Dom edge) and one rejected document per rule.

  * builder steps            `wire_up_port_links`, `nonlocal_wire_has_order_link`, `wire_up_ports_links`: the
                              wiring step of every dataflow builder adds the value link and, for a non-local
                              wire, the state-order link rule R6 asks for (store level; the document-level
                              rule is evaluated per generated program).
  Lemmas: `Proofs/Validate.lean`.
-/
import HugrVerif.Proofs.Validate
import HugrVerif.Gen.ValidityTables
import HugrVerif.Proofs.Build
import HugrVerif.Props.C04
import HugrVerif.Props.C13
import HugrVerif.Proofs.BuildLocalProg
import HugrVerif.Proofs.BuildInsert

namespace HugrVerif.Props.C01
open HugrVerif HugrVerif.Validate

/-! ### the validator decides the specification -/

/-- **`validate d = ok ↔ Valid d`**: the executable validator accepts exactly the valid documents. -/
theorem validate_iff (d : VDoc) : validate d = .ok () ↔ Valid d := Validate.validate_iff d

/-- … in terms of the list of violations the driver reports. -/
theorem violations_nil_iff (d : VDoc) : violations d = [] ↔ Valid d := Validate.violations_nil_iff d

/-- A reported violation means the document is not valid. -/
theorem not_valid_of_violation (d : VDoc) (v : Violation) (h : v ∈ violations d) : ¬ Valid d := by
  intro hv
  rw [← Validate.violations_nil_iff] at hv
  rw [hv] at h
  cases h

/-- `Valid` is the conjunction of its named rules (projection lemmas for the builder layer). -/
theorem valid_iff_rules (d : VDoc) :
    Valid d ↔
      R0_hierarchy d ∧ R1_parentChild d ∧ R1_nonContainer d ∧ R1_firstChild d ∧ R1_secondChild d ∧
      R1_requiresChildren d ∧ R2_twoChildren d ∧ R2_inputRow d ∧ R2_outputRow d ∧ R2_internalIO d ∧
      R2_condCount d ∧ R2_caseSig d ∧ R2_cfgEntry d ∧ R2_cfgExit d ∧ R2_internalExit d ∧ R2_cfgEdge d ∧
      R3_offsets d ∧ R3_sigDefined d ∧ R3_inputsConnected d ∧ R3_inputsOnce d ∧ R3_linearConnected d ∧
      R3_linearOnce d ∧ R3_rootNoEdges d ∧ R4_kinds d ∧ R5_acyclic d ∧ R6_copyable d ∧ R6_relation d ∧
      R6_orderEdge d ∧ R7_dominance d ∧ R8_noValueIntoFunc d ∧ R9_consts d := by
  constructor
  · rintro ⟨a0, a1, a2, a3, a4, a5, a6, a7, a8, a9, a10, a11, a12, a13, a14, a15, a16, a17, a18, a19, a20,
      a21, a22, a23, a24, a25, a26, a27, a28, a29, a30⟩
    exact ⟨a0, a1, a2, a3, a4, a5, a6, a7, a8, a9, a10, a11, a12, a13, a14, a15, a16, a17, a18, a19, a20,
      a21, a22, a23, a24, a25, a26, a27, a28, a29, a30⟩
  · rintro ⟨a0, a1, a2, a3, a4, a5, a6, a7, a8, a9, a10, a11, a12, a13, a14, a15, a16, a17, a18, a19, a20,
      a21, a22, a23, a24, a25, a26, a27, a28, a29, a30⟩
    exact ⟨a0, a1, a2, a3, a4, a5, a6, a7, a8, a9, a10, a11, a12, a13, a14, a15, a16, a17, a18, a19, a20,
      a21, a22, a23, a24, a25, a26, a27, a28, a29, a30⟩

/-! ### rule-wise lemmas -/

/-- R1: `is_superset` (tag.rs:79-94, with the recursion budget 6) is reachability through
    `immediate_supersets`. -/
theorem isSuperset_iff (s o : OpTag) : OpTag.isSuperset s o = true ↔ OpTag.Superset s o :=
  OpTag.isSuperset_iff s o

example : OpTag.Superset .DataflowChild .FnCall := (isSuperset_iff _ _).1 (by decide)
example : ¬ OpTag.Superset .DataflowParent .Cfg := fun h => absurd ((isSuperset_iff _ _).2 h) (by decide)

/-- R5: Kahn's elimination empties the node list iff no node reaches itself along the edges
    (for a graph whose edges end in the node list). -/
theorem acyclic_iff (V : List Nat) (es : List (Nat × Nat)) (hV : ∀ e ∈ es, e.1 ∈ V ∧ e.2 ∈ V) :
    acyclicB V es = true ↔ ∀ a, ¬ Relation.TransGen (fun x y => (x, y) ∈ es) a a :=
  acyclicB_iff V es hV

example : ∀ a, ¬ Relation.TransGen (fun x y => (x, y) ∈ [(1, 2), (2, 3), (1, 3)]) a a :=
  (acyclic_iff [1, 2, 3] _ (by decide)).1 (by decide)
example : ¬ ∀ a, ¬ Relation.TransGen (fun x y => (x, y) ∈ [(1, 2), (2, 3), (3, 1)]) a a :=
  fun h => absurd ((acyclic_iff [1, 2, 3] _ (by decide)).2 h) (by decide)

/-- R5 as used: the check on a node of a document. -/
theorem r5_check_iff (d : VDoc) (n : Nat) : R5_nodeB d d.redges n = true ↔ R5_node d n := R5_nodeB_iff d n

/-- R7: "`b` reachable from the entry, and not reachable once `a` is removed" is dominance:
    `b` is reachable and every walk from the entry to `b` passes through `a`. -/
theorem dominates_iff (V : List Nat) (es : List (Nat × Nat)) (hV : ∀ e ∈ es, e.2 ∈ V) (entry a b : Nat) :
    dominatesB V es entry a b = true ↔
      (∃ vs, Walk es entry vs b) ∧ ∀ vs, Walk es entry vs b → a ∈ vs :=
  dominatesB_iff V es hV entry a b

-- a diamond 0 → {1, 2} → 3: the entry dominates the join, a branch does not
example : Dominates [(0, 1), (0, 2), (1, 3), (2, 3)] 0 0 3 :=
  (dominatesB_iff [0, 1, 2, 3] _ (by decide) 0 0 3).1 (by decide)
example : ¬ Dominates [(0, 1), (0, 2), (1, 3), (2, 3)] 0 1 3 :=
  fun h => absurd ((dominatesB_iff [0, 1, 2, 3] _ (by decide) 0 1 3).2 h) (by decide)
-- an unreachable block is dominated by nothing
example : ¬ Dominates [(0, 1)] 0 0 2 :=
  fun h => absurd ((dominatesB_iff [0, 1, 2] _ (by decide) 0 0 2).2 h) (by decide)

theorem r7_check_iff (d : VDoc) (x : NonLocal) : R7_nlB d d.redges x = true ↔ R7_nl d x := R7_nlB_iff d x

/-- R6: the order-edge search finds an order edge from the source to the ancestor iff there is one. -/
theorem r6_order_check_iff (d : VDoc) (x : NonLocal) : R6c_nlB d d.redges x = true ↔ R6c_nl d x :=
  R6c_nlB_iff d x

/-- R9: `Value::validate` on the constant decides that it inhabits the type it reports (C14). -/
theorem r9_check_iff (d : VDoc) (n : Nat) : R9_nodeB d n = true ↔ R9_node d n := R9_nodeB_iff d n

/-- R3/R4: the value ports of an operation are those of a signature the C06 specification (`Spec.HasSig`)
    gives it. -/
theorem vsig_hasSig (op : Op) (s : Sig) (hne : ∀ d a, op ≠ .extOp d none a) (h : vsig op = some s) :
    ∃ r, Spec.HasSig op ⟨s.inp, s.out, r⟩ := Validate.vsig_hasSig op s hne h

example : vsig (.conditional (.general [[], []]) [.qubit] (some [.usize])) =
    some ⟨[.sum [[], []], .qubit], [.usize], []⟩ := rfl

/-! ### the hand-written tables are the regenerated ones -/

def flagsRow (f : Flags) : Gen.ValidityTables.FlagsRow :=
  ⟨f.allowedChildren.name, f.allowedFirstChild.name, f.allowedSecondChild.name, f.requiresChildren,
    f.requiresDag, f.edgeCheck⟩

/-- `OpTag`, `immediate_supersets`, `OpType`, every operation's `TAG`, the `DataflowParent`s and every
    operation's `validity_flags()` as written in `Validate.lean` are exactly the tables translated from
    the Rust sources on this run. -/
theorem tables_agree :
    OpTag.all.map OpTag.name = Gen.ValidityTables.tagNames ∧
    OpTag.all.map (fun t => (t.name, t.parents.map OpTag.name)) = Gen.ValidityTables.tagParents ∧
    OpClass.all.map OpClass.name = Gen.ValidityTables.opClasses ∧
    OpClass.all.map (fun c => (c.name, c.tag.name)) = Gen.ValidityTables.opTags ∧
    (OpClass.all.filter (fun c => c.flags == Flags.dataflowParent)).map OpClass.name
      = Gen.ValidityTables.dataflowParents ∧
    flagsRow Flags.default = Gen.ValidityTables.defaultFlags ∧
    OpClass.all.map (fun c => (c.name, flagsRow c.flags)) = Gen.ValidityTables.flags := by
  decide

/-! ### non-vacuity: a concrete valid document, and one rejected document per rule -/

namespace Ex

def B : Ty := .unitSum 2
def e (s so t to : Nat) : Serial.Edge := ⟨s, some so, t, some to⟩

/-- the unit sum written as a general sum with one empty row -/
def U1 : SumTy := .general [[]]

/-- `main(b: Bool) -> Bool`:
    a nested DFG reading `b` from outside (Ext edge 2.0→7.0 with the order edge 2→4), a constant and its
    load, a conditional over it with two cases, a tail loop, and a CFG with two blocks where the second block
    uses a value of the entry block (Dom edge 23.0→29.1). -/
def nodes : List VNode := [
  /- 0 -/ ⟨.module, 0⟩,
  /- 1 -/ ⟨.funcDefn "main" [B] [] (some [B]), 0⟩,
  /- 2 -/ ⟨.input [B], 1⟩,
  /- 3 -/ ⟨.output (some [B]), 1⟩,
  /- 4 -/ ⟨.dfg [] (some [B]) [], 1⟩,
  /- 5 -/ ⟨.input [], 4⟩,
  /- 6 -/ ⟨.output (some [B]), 4⟩,
  /- 7 -/ ⟨.custom "Not" ⟨[B], [B], []⟩ "" "logic" [], 4⟩,
  /- 8 -/ ⟨.const (.sum 1 B []), 1⟩,
  /- 9 -/ ⟨.loadConst (some B), 1⟩,
  /- 10 -/ ⟨.conditional (.general [[], []]) [B] (some [B]), 1⟩,
  /- 11 -/ ⟨.case [B] (some [B]), 10⟩,
  /- 12 -/ ⟨.input [B], 11⟩,
  /- 13 -/ ⟨.output (some [B]), 11⟩,
  /- 14 -/ ⟨.case [B] (some [B]), 10⟩,
  /- 15 -/ ⟨.input [B], 14⟩,
  /- 16 -/ ⟨.output (some [B]), 14⟩,
  /- 17 -/ ⟨.tailLoop [] [B] (some []) [], 1⟩,
  /- 18 -/ ⟨.input [B], 17⟩,
  /- 19 -/ ⟨.output (some [.sum [[], []], B]), 17⟩,
  /- 20 -/ ⟨.tag 1 (.general [[], []]), 17⟩,
  /- 21 -/ ⟨.cfg [B] (some [B]), 1⟩,
  /- 22 -/ ⟨.dataflowBlock [B] (some U1) (some []) [], 21⟩,
  /- 23 -/ ⟨.input [B], 22⟩,
  /- 24 -/ ⟨.output (some [.sum [[]]]), 22⟩,
  /- 25 -/ ⟨.tag 0 U1, 22⟩,
  /- 26 -/ ⟨.exitBlock (some [B]), 21⟩,
  /- 27 -/ ⟨.dataflowBlock [] (some U1) (some [B]) [], 21⟩,
  /- 28 -/ ⟨.input [], 27⟩,
  /- 29 -/ ⟨.output (some [.sum [[]], B]), 27⟩,
  /- 30 -/ ⟨.tag 0 U1, 27⟩]

def edges : List Serial.Edge := [
  /- 0 -/ e 2 0 7 0,      -- Ext: the function input used inside the nested DFG
  /- 1 -/ e 2 1 4 0,      -- its order edge: Input (order port 1) → DFG (order port 0)
  /- 2 -/ e 7 0 6 0,
  /- 3 -/ e 8 0 9 0,      -- Const → LoadConstant (static)
  /- 4 -/ e 9 0 10 0,     -- Bool (unit sum) into the conditional's Sum([[],[]]) port
  /- 5 -/ e 4 0 10 1,
  /- 6 -/ e 12 0 13 0,
  /- 7 -/ e 15 0 16 0,
  /- 8 -/ e 10 0 17 0,
  /- 9 -/ e 18 0 19 1,
  /- 10 -/ e 20 0 19 0,
  /- 11 -/ e 17 0 21 0,
  /- 12 -/ e 25 0 24 0,
  /- 13 -/ e 22 0 27 0,   -- control flow: entry → second block
  /- 14 -/ e 27 0 26 0,   -- control flow: second block → exit
  /- 15 -/ e 30 0 29 0,
  /- 16 -/ e 23 0 29 1,   -- Dom: a value of the entry block used in the block it dominates
  /- 17 -/ e 21 0 3 0]

def doc : VDoc := ⟨nodes, edges⟩

/-- replace node `n` -/
def setNode (n : Nat) (v : VNode) : VDoc := ⟨nodes.set n v, edges⟩
/-- replace edge `i` -/
def setEdge (i : Nat) (x : Serial.Edge) : VDoc := ⟨nodes, edges.set i x⟩
def dropEdge (i : Nat) : VDoc := ⟨nodes, edges.eraseIdx i⟩
def addEdge (x : Serial.Edge) : VDoc := ⟨nodes, edges ++ [x]⟩
def addNode (v : VNode) : VDoc := ⟨nodes ++ [v], edges⟩

def rules (d : VDoc) : List String := ((violations d).map (·.rule)).eraseDups

end Ex

open Ex in
/-- The example document is valid. -/
theorem example_valid : Valid Ex.doc := (violations_nil_iff _).1 (by decide +kernel)

open Ex in
/-- Its non-local edges are found where they are meant to be: one Ext edge (with ancestor 4) and one Dom
    edge (CFG 21, target block 27). -/
example : (nonLocals doc).map (fun x => (x.e.idx, match x.loc with
    | .ext a _ => (0, a, 0) | .dom g a _ => (1, g, a) | .unrelated => (2, 0, 0))) =
    [(0, (0, 4, 0)), (16, (1, 21, 27))] := by decide +kernel

section Rejected
open Ex

-- R0: a node naming a later node as its parent
example : rules (setNode 5 ⟨.input [], 6⟩) ⊇ ["R0.hierarchy"] := by decide +kernel
-- R1: an Input node directly under the module
example : "R1.parent_child" ∈ rules (setNode 5 ⟨.input [], 0⟩) := by decide +kernel
-- R1: a child below an operation that is not a container
example : "R1.non_container" ∈ rules (addNode ⟨.input [], 7⟩) := by decide +kernel
-- R1/R2: Input and Output swapped in the nested DFG
example : "R1.first_child" ∈ rules ⟨(nodes.set 5 ⟨.output (some []), 4⟩).set 6 ⟨.input [B], 4⟩, edges⟩ ∧
    "R1.second_child" ∈ rules ⟨(nodes.set 5 ⟨.output (some []), 4⟩).set 6 ⟨.input [B], 4⟩, edges⟩ := by
  decide +kernel
-- R1: a dataflow container without children
example : rules (addNode ⟨.dfg [] (some []) [], 1⟩) = ["R1.no_children"] := by decide +kernel
-- R2: a region with an Input node only
example : "R2.two_children" ∈ rules ⟨nodes ++ [⟨.dfg [] (some []) [], 1⟩, ⟨.input [], 31⟩], edges⟩ := by
  decide +kernel
-- R2: the Input row differs from the container's inputs
example : "R2.input_row" ∈ rules (setNode 12 ⟨.input [B, B], 11⟩) := by decide +kernel
-- R2: the Output row differs from the container's outputs
example : "R2.output_row" ∈ rules (setNode 6 ⟨.output (some [.qubit]), 4⟩) := by decide +kernel
-- R2: a second Input node inside a region
example : rules (addNode ⟨.input [], 4⟩) = ["R2.internal_io"] := by decide +kernel
-- R2: three variants, two cases
example : "R2.cond_count" ∈ rules (setNode 10 ⟨.conditional (.general [[], [], []]) [B] (some [B]), 1⟩) := by
  decide +kernel
-- R2: a case whose signature is not variant ++ other inputs → outputs
example : "R2.case_sig" ∈ rules (setNode 14 ⟨.case [B] (some [B, B]), 10⟩) := by decide +kernel
-- R2: the entry block does not take the CFG's inputs (resources/test/issue-1189.json)
example : "R2.cfg_entry" ∈ rules (setNode 22 ⟨.dataflowBlock [B, B] (some U1) (some []) [], 21⟩) := by
  decide +kernel
-- R2: the exit block does not produce the CFG's outputs
example : "R2.cfg_exit" ∈ rules (setNode 26 ⟨.exitBlock (some []), 21⟩) := by decide +kernel
-- R2: a second exit block
example : rules (addNode ⟨.exitBlock (some [B]), 21⟩) = ["R2.internal_exit"] := by decide +kernel
-- R2: a successor that does not take what the block passes on
example : "R2.cfg_edge" ∈ rules (setNode 27 ⟨.dataflowBlock [B] (some U1) (some [B]) [], 21⟩) := by
  decide +kernel
-- R3: an offset beyond the operation's ports
example : "R3.offset" ∈ rules (setEdge 2 (e 7 3 6 0)) := by decide +kernel
-- R3: a Tag whose tag is not a variant
example : "R3.bad_tag" ∈ rules (setNode 20 ⟨.tag 2 (.general [[], []]), 17⟩) := by decide +kernel
-- R3: an input port left unconnected
example : rules (dropEdge 5) = ["R3.unconnected_in"] := by decide +kernel
-- R3: an input port connected twice
example : rules (addEdge (e 9 0 10 1)) = ["R3.multi_in"] := by decide +kernel
-- R3: a control-flow successor that goes nowhere
example : "R3.unconnected_out" ∈ rules (dropEdge 14) := by decide +kernel
-- R3: a control-flow port with two targets
example : "R3.multi_out" ∈ rules (addEdge (e 22 0 26 0)) := by decide +kernel
-- R3: an edge at the root
example : "R3.root_edges" ∈ rules ⟨nodes.set 0 ⟨.dfg [] (some [B]) [], 0⟩, edges.set 4 (e 0 0 10 0)⟩ := by
  decide +kernel
-- R4: a Bool wire into a Qubit port
example : "R4.kind" ∈ rules (setNode 7 ⟨.custom "H" ⟨[.qubit], [B], []⟩ "" "q" [], 4⟩) := by decide +kernel
-- R5: an order edge closing a cycle 9 → 10 → 17 → 9
example : rules (addEdge (e 17 1 9 1)) = ["R5.cycle"] := by decide +kernel
-- R6: a qubit crossing a region boundary
example : "R6.non_copyable" ∈
    rules ⟨((nodes.set 1 ⟨.funcDefn "main" [.qubit] [] (some [B]), 0⟩).set 2 ⟨.input [.qubit], 1⟩).set 7
      ⟨.custom "M" ⟨[.qubit], [B], []⟩ "" "q" [], 4⟩, edges⟩ := by decide +kernel
-- R6: a value edge between unrelated regions (from a case into the loop body)
example : "R6.relation" ∈ rules (setEdge 9 (e 12 0 19 1)) := by decide +kernel
-- R6: the Ext edge without its order edge
example : rules (dropEdge 1) = ["R6.order_edge"] := by decide +kernel
-- R7: a value of the second block used in the entry block (27 does not dominate 22)
example : "R7.dominance" ∈ rules ⟨nodes.set 24 ⟨.output (some [.sum [[]], B]), 22⟩,
    edges ++ [e 28 0 24 1]⟩ := by decide +kernel
-- R8: the nested DFG turned into a function definition: the Ext value edge now enters a FuncDefn
example : "R8.into_func" ∈ rules ⟨nodes.set 4 ⟨.funcDefn "g" [] [] (some [B]), 1⟩, edges⟩ := by decide +kernel
-- R9: a constant whose tag is not a variant of its type (resources/test/hugr-2.json has a wrong field)
example : rules (setNode 8 ⟨.const (.sum 2 B []), 1⟩) = ["R9.const"] := by decide +kernel
example : rules (setNode 8 ⟨.const (.sum 1 B [.tuple []]), 1⟩) = ["R9.const"] := by decide +kernel

end Rejected

/-! ## Builder steps establish the edge-locality rule (R6.order_edge)

  Theorems about the builder model's wiring step `DfBase._wire_up_port` / `_wire_up` (`Build/Wire.lean`), in the
  vocabulary of the store view (`linksList`, C04): the state-order edge that rule R6 demands for a value edge
  entering a nested region is put there by the very call that adds the value edge.  Lemmas: `Proofs/Build.lean`,
  `Proofs/Store.lean`. -/

section BuilderSteps
open HugrVerif.Build HugrVerif.Store

/-- **One wiring step, exactly**: a `_wire_up_port(node, off, w)` that returns has found the ancestor-or-self
    `anc` of `node` whose parent is the parent of the wire's source, and the links afterwards are the links
    before, then the order link `source → anc` when the wire is non-local (`anc ≠ node`) and that order link is
    not there yet, then the value link — nothing else. -/
theorem wire_up_port_links (s s' : St) (hs : SInv s) (node off : Nat) (w : Wire) (t : Ty)
    (h : wireUpPortBase s node off w = .ok (s', t)) :
    ∃ anc p, nodeParent s w.1 = .ok (some p) ∧ Anc s node anc ∧ nodeParent s anc = .ok (some p) ∧
      linksList s' =
        (if anc = node ∨ ((w.1, (-1 : Int)), (anc, (-1 : Int))) ∈ linksList s then linksList s
         else linksList s ++ [((w.1, (-1 : Int)), (anc, (-1 : Int)))]) ++ [(w, (node, (off : Int)))] := by
  unfold wireUpPortBase at h
  cases ha : ancestralSibling s w.1 node with
  | error e => simp [ha] at h
  | ok oa =>
    cases oa with
    | none => simp [ha] at h
    | some anc =>
      simp only [ha] at h
      obtain ⟨p, e1, e2, e3⟩ := C13.sibling_ancestor_spec s w.1 node anc ha
      refine ⟨anc, p, e1, e2, e3, ?_⟩
      unfold linkPort at h
      by_cases hne : anc = node
      · subst hne
        simp only [ne_eq, not_true_eq_false, if_false] at h
        cases hl : Store.addLink s w (anc, (off : Int)) with
        | error e => simp [hl, liftS] at h
        | ok s2 =>
          simp only [hl, liftS] at h
          cases hg : getDataflowType s2 w with
          | error e => simp [hg] at h
          | ok t' =>
            simp only [hg] at h
            injection h with h; injection h with h1 h2; subst h1
            simp [(addLink_links s s2 hs.links _ _ hl).1]
      · simp only [ne_eq, hne, not_false_eq_true, if_true] at h
        cases ho : Store.addOrderLink s w.1 anc with
        | error e => simp [ho, liftS] at h
        | ok s1 =>
          simp only [ho, liftS] at h
          have hs1 := sinv_addOrderLink s s1 hs w.1 anc ho
          have hl1 := C04.add_order_link_spec s s1 hs w.1 anc ho
          cases hl : Store.addLink s1 w (node, (off : Int)) with
          | error e => simp [hl] at h
          | ok s2 =>
            simp only [hl] at h
            cases hg : getDataflowType s2 w with
            | error e => simp [hg] at h
            | ok t' =>
              simp only [hg] at h
              injection h with h; injection h with h1 h2; subst h1
              rw [(addLink_links s1 s2 hs1.links _ _ hl).1, hl1]
              simp [hne]

/-- **Edge locality is established by the wiring step itself**: after a successful `_wire_up_port` of a
    non-local wire the order link from the wire's source to the sibling ancestor of the target is present,
    and so is the value link. -/
theorem nonlocal_wire_has_order_link (s s' : St) (hs : SInv s) (node off : Nat) (w : Wire) (t : Ty)
    (h : wireUpPortBase s node off w = .ok (s', t)) :
    (w, (node, (off : Int))) ∈ linksList s' ∧
    ∃ anc p, nodeParent s w.1 = .ok (some p) ∧ Anc s node anc ∧ nodeParent s anc = .ok (some p) ∧
      (anc ≠ node → ((w.1, (-1 : Int)), (anc, (-1 : Int))) ∈ linksList s') := by
  obtain ⟨anc, p, e1, e2, e3, hl⟩ := wire_up_port_links s s' hs node off w t h
  refine ⟨by rw [hl]; simp, anc, p, e1, e2, e3, ?_⟩
  intro hne
  rw [hl]
  by_cases hm : ((w.1, (-1 : Int)), (anc, (-1 : Int))) ∈ linksList s
  · simp [hm]
  · simp [hne, hm]

/-- … and a local wire (source and target siblings) adds the value link only. -/
theorem local_wire_adds_value_link_only (s s' : St) (hs : SInv s) (node off : Nat) (w : Wire) (t : Ty)
    (h : wireUpPortBase s node off w = .ok (s', t))
    (hloc : ∃ p, nodeParent s w.1 = .ok (some p) ∧ nodeParent s node = .ok (some p)) :
    linksList s' = linksList s ++ [(w, (node, (off : Int)))] := by
  obtain ⟨p, hp1, hp2⟩ := hloc
  have ha : ancestralSibling s w.1 node = .ok (some node) := by
    unfold ancestralSibling
    simp only [hp1]
    unfold ancSibLoop
    simp [hp2]
  unfold wireUpPortBase at h
  simp only [ha] at h
  unfold linkPort at h
  simp only [ne_eq, not_true_eq_false, if_false] at h
  cases hl2 : Store.addLink s w (node, (off : Int)) with
  | error e => simp [hl2, liftS] at h
  | ok s2 =>
    simp only [hl2, liftS] at h
    cases hg : getDataflowType s2 w with
    | error e => simp [hg] at h
    | ok t' =>
      simp only [hg] at h
      injection h with h; injection h with h1 h2; subst h1
      exact (addLink_links s s2 hs.links _ _ hl2).1

/-! ### the whole argument list of `_wire_up` -/

/-- the wiring step only grows port counts, and keeps the store invariant -/
theorem wire_up_port_grow (s s' : St) (hs : SInv s) (node off : Nat) (w : Wire) (t : Ty) (hw : -1 ≤ w.2)
    (h : wireUpPortBase s node off w = .ok (s', t)) : StoreGrow s s' ∧ SInv s' := by
  unfold wireUpPortBase at h
  cases ha : ancestralSibling s w.1 node with
  | error e => simp [ha] at h
  | ok oa =>
    cases oa with
    | none => simp [ha] at h
    | some anc =>
      simp only [ha] at h
      unfold linkPort at h
      have key : ∀ s1, SInv s1 → StoreGrow s s1 → ∀ s2, Store.addLink s1 w (node, (off : Int)) = .ok s2 →
          StoreGrow s s2 ∧ SInv s2 := by
        intro s1 h1 g1 s2 hl
        exact ⟨g1.trans (addLink_nodes s1 s2 _ _ hl).1,
          sinv_addLink s1 s2 h1 w (node, (off : Int)) hw (by simp) hl⟩
      by_cases hne : anc = node
      · simp only [ne_eq, hne, not_true_eq_false, if_false] at h
        cases hl : Store.addLink s w (node, (off : Int)) with
        | error e => simp [hl, liftS] at h
        | ok s2 =>
          simp only [hl, liftS] at h
          cases hg : getDataflowType s2 w with
          | error e => simp [hg] at h
          | ok t' =>
            simp only [hg] at h
            injection h with h; injection h with h1 h2; subst h1
            exact key s hs (StoreGrow.refl s) s2 hl
      · simp only [ne_eq, hne, not_false_eq_true, if_true] at h
        cases ho : Store.addOrderLink s w.1 anc with
        | error e => simp [ho, liftS] at h
        | ok s1 =>
          simp only [ho, liftS] at h
          have hs1 := sinv_addOrderLink s s1 hs w.1 anc ho
          have g1 : StoreGrow s s1 := by
            unfold Store.addOrderLink at ho
            split at ho
            · simp [pure, Except.pure] at ho; subst ho; exact StoreGrow.refl s
            · exact (addLink_nodes s s1 _ _ ho).1
          cases hl : Store.addLink s1 w (node, (off : Int)) with
          | error e => simp [hl] at h
          | ok s2 =>
            simp only [hl] at h
            cases hg : getDataflowType s2 w with
            | error e => simp [hg] at h
            | ok t' =>
              simp only [hg] at h
              injection h with h; injection h with h1 h2; subst h1
              exact key s1 hs1 g1 s2 hl

/-- **Edge locality for a whole `_wire_up(node, wires)`** (the plain `DfBase` wiring used by `add_op`, `add`,
    `call`, `load`, `set_outputs`, nested builders …): when it returns, no earlier link is lost, every wire of
    the list is linked to the port at its position, and every non-local one has its state-order link from the
    source to the sibling ancestor of the target (an ancestor-or-self of `node` with the source's parent). -/
theorem wire_up_ports_links (node : Nat) : ∀ (ws : List Wire) (s s' : St) (i : Nat) (tys : List Ty),
    SInv s → (∀ w ∈ ws, -1 ≤ w.2) → wireUpPorts none node s i ws = .ok (s', tys) →
    StoreGrow s s' ∧ SInv s' ∧ (∀ l ∈ linksList s, l ∈ linksList s') ∧
    ∀ k (hk : k < ws.length), (ws[k], (node, ((i + k : Nat) : Int))) ∈ linksList s' ∧
      ∃ anc p, nodeParent s ws[k].1 = .ok (some p) ∧ Anc s node anc ∧ nodeParent s anc = .ok (some p) ∧
        (anc ≠ node → ((ws[k].1, (-1 : Int)), (anc, (-1 : Int))) ∈ linksList s') := by
  intro ws
  induction ws with
  | nil =>
    intro s s' i tys hs _ h
    simp [wireUpPorts] at h
    obtain ⟨h1, _⟩ := h; subst h1
    exact ⟨StoreGrow.refl s, hs, fun l hl => hl, fun k hk => by simp at hk⟩
  | cons w ws ih =>
    intro s s' i tys hs hw h
    unfold wireUpPorts at h
    cases h1 : wireUpPort s none node i w with
    | error e => simp [h1] at h
    | ok r =>
      obtain ⟨s1, t⟩ := r
      simp only [h1] at h
      cases h2 : wireUpPorts none node s1 (i + 1) ws with
      | error e => simp [h2] at h
      | ok r2 =>
        obtain ⟨s2, ts⟩ := r2
        simp only [h2] at h
        injection h with h; injection h with h3 h4; subst h3
        have h1' : wireUpPortBase s node i w = .ok (s1, t) := h1
        obtain ⟨g1, hs1⟩ := wire_up_port_grow s s1 hs node i w t (hw w (by simp)) h1'
        obtain ⟨hv, anc, p, e1, e2, e3, e4⟩ := nonlocal_wire_has_order_link s s1 hs node i w t h1'
        obtain ⟨g2, hs2, hmono, hrest⟩ := ih s1 s2 (i + 1) ts hs1 (fun w' hw' => hw w' (by simp [hw'])) h2
        have hmono1 : ∀ l ∈ linksList s, l ∈ linksList s1 := by
          intro l hl
          obtain ⟨anc', p', _, _, _, hh⟩ := wire_up_port_links s s1 hs node i w t h1'
          rw [hh]
          split <;> simp [hl]
        refine ⟨g1.trans g2, hs2, fun l hl => hmono l (hmono1 l hl), ?_⟩
        intro k hk
        cases k with
        | zero =>
          refine ⟨hmono _ (by simpa using hv), anc, p, e1, e2, e3, fun hne => hmono _ (e4 hne)⟩
        | succ k =>
          have hk' : k < ws.length := by simpa using hk
          obtain ⟨hv', anc', p', f1, f2, f3, f4⟩ := hrest k hk'
          refine ⟨?_, anc', p', ?_, grow_anc s s1 g1 _ _ f2, ?_, ?_⟩
          · have : i + 1 + k = i + (k + 1) := by omega
            simpa [this] using hv'
          · rw [← grow_nodeParent s s1 g1]; simpa using f1
          · rw [← grow_nodeParent s s1 g1]; exact f3
          · simpa using f4

/-! ### `_wire_up`: wiring followed by the completion of the operation -/

/-- **Edge locality for `_wire_up(node, wires)`** as called by `add_op`, `add`, `call`, `load`, `set_outputs`
    and the nested-builder constructors of every non-block dataflow builder: when it returns, no earlier link is
    lost, every wire is linked to the input port at its position, every non-local wire has its state-order link
    from its source to the sibling ancestor of `node`. -/
theorem wire_up_links (s s' : St) (hs : SInv s) (node : Nat) (ws : List Wire) (tys : List Ty)
    (hw : ∀ w ∈ ws, -1 ≤ w.2) (h : wireUp s none node ws = .ok (s', tys)) :
    (∀ l ∈ linksList s, l ∈ linksList s') ∧
    ∀ k (hk : k < ws.length), (ws[k], (node, (k : Int))) ∈ linksList s' ∧
      ∃ anc p, nodeParent s ws[k].1 = .ok (some p) ∧ Anc s node anc ∧ nodeParent s anc = .ok (some p) ∧
        (anc ≠ node → ((ws[k].1, (-1 : Int)), (anc, (-1 : Int))) ∈ linksList s') := by
  unfold wireUp at h
  cases h1 : wireUpPorts none node s 0 ws with
  | error e => simp [h1] at h
  | ok r =>
    obtain ⟨s1, tys1⟩ := r
    simp only [h1] at h
    cases h2 : completeOp s1 node tys1 with
    | error e => simp [h2] at h
    | ok s2 =>
      simp only [h2] at h
      injection h with h; injection h with e1 e2; subst e1
      obtain ⟨_, _, hm, hr⟩ := wire_up_ports_links node ws s s1 0 tys1 hs hw h1
      rw [completeOp_links s1 s2 node tys1 h2]
      refine ⟨hm, fun k hk => ?_⟩
      simpa using hr k hk

/-! ### inside a basic block: dominator edges -/

/-- **Wiring inside a basic block**: when `Block._wire_up_port` returns, either the plain wiring succeeded
    (sibling ancestor found: value link + order link as above), or there is no sibling ancestor, the enclosing
    CFG node is the parent of the source or an ancestor of that parent (the source sits in another block of the
    same CFG, at any depth), and exactly the value link was added — a dominator edge carries no order edge. -/
theorem block_wire_links (s s' : St) (hs : SInv s) (blockNode node off : Nat) (w : Wire) (t : Ty)
    (h : wireUpPortBlock s blockNode node off w = .ok (s', t)) :
    (∃ t', wireUpPortBase s node off w = .ok (s', t')) ∨
    (ancestralSibling s w.1 node = .ok none ∧
      ∃ cfg p, nodeParent s blockNode = .ok (some cfg) ∧ nodeParent s w.1 = .ok (some p) ∧ Anc s p cfg ∧
        linksList s' = linksList s ++ [(w, (node, (off : Int)))]) := by
  unfold wireUpPortBlock at h
  cases hb : nodeParent s blockNode with
  | error e => simp [hb] at h
  | ok ob =>
    cases ob with
    | none => simp [hb] at h
    | some cfg =>
      simp only [hb] at h
      cases hsp : nodeParent s w.1 with
      | error e => simp [hsp] at h
      | ok sp =>
        simp only [hsp] at h
        cases hw : wireUpPortBase s node off w with
        | ok r =>
          obtain ⟨s1, t1⟩ := r
          simp only [hw] at h
          cases hg : getDataflowType s1 w with
          | error e => simp [hg] at h
          | ok t2 =>
            simp only [hg] at h
            injection h with h; injection h with h1 h2; subst h1
            exact .inl ⟨t1, rfl⟩
        | error e =>
          by_cases hn : e = .noSiblingAncestor
          · subst hn
            simp only [hw] at h
            right
            refine ⟨(C13.no_sibling_ancestor_iff s node off w).mp hw, ?_⟩
            cases hc : inCfgLoop s cfg (s.nodes.length + 1) sp with
            | error e => simp [hc] at h
            | ok u =>
              simp only [hc] at h
              obtain ⟨p, e1, e2⟩ := C13.inCfgLoop_ok_spec s cfg _ sp hc
              subst e1
              cases hl : Store.addLink s w (node, (off : Int)) with
              | error e => simp [hl, liftS] at h
              | ok s1 =>
                simp only [hl, liftS] at h
                cases hg : getDataflowType s1 w with
                | error e => simp [hg] at h
                | ok t2 =>
                  simp only [hg] at h
                  injection h with h; injection h with h1 h2; subst h1
                  exact ⟨cfg, p, rfl, rfl, e2, (addLink_links s s1 hs.links _ _ hl).1⟩
          · exfalso
            rw [hw] at h
            cases e <;> simp_all

/-! ### Input and Output are the first two children of every dataflow region the builders open -/

/-- **`_init_io_nodes`**: the Input node (carrying the container's input row, with that many output ports) and
    the Output node are appended, in this order, to the children of the container; nothing else changes in the
    hierarchy and no link is added.  For a container that was just created (`new_nested`, `__init__`) the
    children list was empty, so they are its first and second child (rules R1.first_child / R1.second_child /
    R2.input_row of the validity specification). -/
theorem init_io_children (s s' : St) (hs : SInv s) (parentOp : Op) (p : Nat) (dp : NodeData Op Serial.Meta)
    (hp : getNode s p = .ok dp) (i o : Store.Handle) (h : initIO s parentOp p = .ok (s', i, o)) :
    ∃ ins dp' di dO, Op.inputs parentOp = .ok ins ∧
      getNode s' p = .ok dp' ∧ childIdxs dp' = childIdxs dp ++ [i.1, o.1] ∧ dp'.parent = dp.parent ∧
      getNode s' i.1 = .ok di ∧ di.op = .input ins ∧ di.parent = some p ∧ i.2 = some ins.length ∧
      getNode s' o.1 = .ok dO ∧ dO.op = .output none ∧ dO.parent = some p ∧
      linksList s' = linksList s ∧ SInv s' := by
  unfold initIO at h
  cases hi : Op.inputs parentOp with
  | error e => simp [hi] at h
  | ok ins =>
    simp only [hi] at h
    cases h1 : Store.addNode s (.input ins) (some p) (some ins.length) [] with
    | error e => simp [h1, Build.liftS] at h
    | ok r1 =>
      obtain ⟨s1, i1⟩ := r1
      simp only [h1, Build.liftS] at h
      cases h2 : Store.addNode s1 (.output none) (some p) none [] with
      | error e => simp [h2] at h
      | ok r2 =>
        obtain ⟨s2, o1⟩ := r2
        simp only [h2] at h
        injection h with h
        simp only [Prod.mk.injEq] at h
        obtain ⟨e1, e2, e3⟩ := h
        subst e1; subst e2; subst e3
        have hs1 := sinv_addNode s s1 hs _ _ _ _ _ h1
        have hs2 := sinv_addNode s1 s2 hs1 _ _ _ _ _ h2
        obtain ⟨fr1, ⟨d1, g1, o1a, p1a, _, _⟩, l1, _⟩ := C04.add_node_spec s s1 hs _ _ _ _ _ h1
        obtain ⟨fr2, ⟨d2, g2, o2a, p2a, _, _⟩, l2, k2⟩ := C04.add_node_spec s1 s2 hs1 _ _ _ _ _ h2
        have hip : p ≠ i1 := fun e => fr1 dp (e ▸ hp)
        obtain ⟨dp1, gp1, pp1, cp1⟩ := C04.add_node_children s s1 hs _ _ _ _ _ h1 p dp hip hp
        have hop : p ≠ o1 := fun e => fr2 dp1 (e ▸ gp1)
        obtain ⟨dp2, gp2, pp2, cp2⟩ := C04.add_node_children s1 s2 hs1 _ _ _ _ _ h2 p dp1 hop gp1
        have hio : i1 ≠ o1 := fun e => fr2 d1 (e ▸ g1)
        obtain ⟨di, gi, si, _, _⟩ := k2 i1 d1 hio g1
        refine ⟨ins, dp2, di, d2, rfl, gp2, ?_, pp2.trans pp1, gi, si.op.trans o1a, ?_, rfl, g2, o2a, ?_,
          l2.trans l1, hs2⟩
        · rw [cp2, cp1]; simp
        · rw [si.parent, p1a]; rfl
        · rw [p2a]; rfl

/-! ### non-vacuity: a wire from the outer Input into an operation inside a nested DFG -/

namespace ExBuild

def B : Ty := .unitSum 2

/-- root DFG 0 [Input 1, nested DFG 2 [Input 3, Not 4]] -/
def base : Except Store.Err St := do
  let s : St := Store.init (.dfg [B] none []) []
  let (s, _) ← Store.addNode s (.input [B]) none (some 1) []
  let (s, _) ← Store.addNode s (.dfg [] none []) none (some 0) []
  let (s, _) ← Store.addNode s (.input []) (some 2) (some 0) []
  let (s, _) ← Store.addNode s (.custom "Not" ⟨[B], [B], []⟩ "" "logic" []) (some 2) (some 1) []
  pure s

/-- wiring `Input(1).out(0)` into `Not(4).in(0)`: the order link 1 → 2 (the nested DFG is the sibling
    ancestor) and the value link are added -/
example : (match base with
    | .ok s => (match wireUpPortBase s 4 0 (1, 0) with
      | .ok (s', t) => some (linksList s', t == B)
      | .error _ => none)
    | .error _ => none) = some ([((1, -1), (2, -1)), ((1, 0), (4, 0))], true) := by decide +kernel

end ExBuild

end BuilderSteps

/-! ## Builder side, program level: edge locality of every program of the `DfBase._wire_up_port` builder families

  The step theorems above are lifted to whole programs for the sub-language `BuildLocal.InL` of the builder model's
  command language (`Build.step`, 62 commands): 41 commands — `Dfg(...)`, `Function(...)`, `TailLoop(...)`,
  `TrackedDfg(...)`, `Module()`, `Conditional(...)`; `add_op`, `add`, `extend` (plain and tracked, with index
  rebinding); `add_nested`, `add_tail_loop`, `add_conditional`, `add_case`, `add_if`, `add_else` (to any depth);
  `set_outputs` of every non-block builder class, `set_loop_outputs`, `declare_outputs`, `add_state_order`;
  `define_function`, `define_main`, `declare_function`, `add_const`, `add_alias_defn`, `add_alias_decl`; `call`,
  `load`, `load_function`; the tracked wire commands; `to_json`.  NOT in it: control-flow graphs and basic blocks
  (`Block._wire_up_port` admits dominator edges: `block_wire_links` above) and the `insert_*` family (`insert_hugr`
  copies another HUGR's links: C08).

  For every such program that runs without a builder call raising, every HUGR it has built satisfies, for every
  link into a value port — a port at an offset ≥ 0 that is not the static input port of its node (`staticIn`: the
  function port of a `Call`, port 0 of a `LoadConstant` / `LoadFunction`; the builders do not check where a static
  edge comes from, so nothing can be claimed for those) —: the target has an ancestor-or-self with the same parent as the source (rule
  R6.relation: the source is a sibling of an ancestor of the target), and if that ancestor is not the target itself
  — the link enters a nested region — the state-order link from the source to that ancestor is present (rule
  R6.order_edge).  No hypothesis on the program beyond membership in the sub-language: arbitrary interleavings of
  the commands over any number of builders and HUGRs, wires used any number of times, nesting of any depth.
  The proof is an invariant (`BuildLocal.BInv`: link-map invariant, free-list invariant and `LocInv` on every
  store; no builder object is a basic-block builder) shown for every store step the commands are made of
  (`Proofs/BuildLocal.lean`) and for every command (`Proofs/BuildLocalProg.lean`), then an induction over the
  program. -/

section ProgramLevel
open HugrVerif.Build HugrVerif.Store HugrVerif.BuildLocal

/-- **Every program of the plain dataflow-graph builders keeps every value edge local or accompanied by its
    state-order edge** (R6.relation + R6.order_edge on the store of every HUGR the program has built). -/
theorem dfg_programs_edge_locality (enc : String) (cmds : List Cmd) (st' : BuildState)
    (hL : ∀ c ∈ cmds, InL c) (h : Build.run enc {} cmds = .ok st')
    (hid : Nat) (s : St) (hs : st'.getHugr hid = .ok s) (l : Port × Port) (hl : l ∈ linksList s) (hv : 0 ≤ l.2.2)
    (hns : ¬ ∃ op, nodeOp s l.2.1 = .ok op ∧ staticIn op = some l.2.2.toNat) :
    ∃ anc p, nodeParent s l.1.1 = .ok (some p) ∧ Anc s l.2.1 anc ∧ nodeParent s anc = .ok (some p) ∧
      (anc ≠ l.2.1 → ((l.1.1, (-1 : Int)), (anc, (-1 : Int))) ∈ linksList s) :=
  ((run_binv enc cmds {} st' hL binv_empty h).stores hid s hs).loc l hl hv hns

/-- **Every program of the same sub-language joins order ports to order ports and other ports to other ports**: in
    every HUGR it has built, a link leaves an order port (offset −1) exactly when it enters one.  So a state-order
    edge never ends on a value, static or control-flow port and no value is ever wired out of (or into) an order port —
    the "same kind at both ends" half of rule R4.kind for the order kind.  `_get_dataflow_type` refuses offset −1 of
    every operation (`getDataflowType_not_order`), which is what keeps `n.out(-1)` from being recorded as a wire (the
    clause seeded changes C13-6 / C13-8 attacked); `add_state_order` and the order link of a non-local wire use −1 on
    both ends; the static links of `call` / `load` / `load_function` leave port 0. -/
theorem dfg_programs_edge_kinds (enc : String) (cmds : List Cmd) (st' : BuildState)
    (hL : ∀ c ∈ cmds, InL c) (h : Build.run enc {} cmds = .ok st')
    (hid : Nat) (s : St) (hs : st'.getHugr hid = .ok s) (l : Port × Port) (hl : l ∈ linksList s) :
    (l.1.2 = -1 ↔ l.2.2 = -1) :=
  ((run_binv enc cmds {} st' hL binv_empty h).stores hid s hs).kind l hl

/-- **No program of the sub-language leaves a dangling edge**: in every HUGR it has built, both ends of every link are
    live nodes (`add_link` refuses a missing node, and no builder command removes one) — the builder-level half of C03's
    "both endpoints of every edge name an existing node". -/
theorem dfg_programs_no_dangling_links (enc : String) (cmds : List Cmd) (st' : BuildState)
    (hL : ∀ c ∈ cmds, InL c) (h : Build.run enc {} cmds = .ok st')
    (hid : Nat) (s : St) (hs : st'.getHugr hid = .ok s) (l : Port × Port) (hl : l ∈ linksList s) :
    (∃ p, nodeParent s l.1.1 = .ok p) ∧ (∃ p, nodeParent s l.2.1 = .ok p) :=
  ((run_binv enc cmds {} st' hL binv_empty h).stores hid s hs).live l hl

/-- **`insert_hugr` keeps edge locality and edge kinds** (the step the `insert_nested / insert_cfg / insert_conditional /
    insert_tail_loop` commands add to the sub-language above): when every value link of A and of B is local or
    accompanied by its state-order link, so is every value link of the result — the image of a non-local wire of B keeps
    the image of its order link, because `insert_hugr` copies EVERY link of B, order links included
    (`links_embedded`) — and a link of the result joins order ports exactly when it did in A or B.  B's hierarchy walk is
    required to be duplicate-free, which holds for every B built through the API (`C04.hierarchy_order_exact`). -/
theorem insert_hugr_keeps_locality (a a' b : St) (ha : LInvS a) (hb : LInvS b) (parent : Option Nat)
    (mp : Py.Dict Nat Nat) (order : List Nat) (ho : Store.hierarchyOrder b = .ok order) (hnd : order.Nodup)
    (h : Store.insertHugr a b parent = .ok (a', mp)) :
    (∀ l ∈ linksList a', 0 ≤ l.2.2 → ¬ (∃ op, nodeOp a' l.2.1 = .ok op ∧ staticIn op = some l.2.2.toNat) →
      ∃ anc p, nodeParent a' l.1.1 = .ok (some p) ∧ Anc a' l.2.1 anc ∧ nodeParent a' anc = .ok (some p) ∧
        (anc ≠ l.2.1 → ((l.1.1, (-1 : Int)), (anc, (-1 : Int))) ∈ linksList a')) ∧
    (∀ l ∈ linksList a', (l.1.2 = -1 ↔ l.2.2 = -1)) := by
  obtain ⟨_, h1, h2⟩ := insertHugr_locInv a a' b ha hb parent mp order ho hnd h
  exact ⟨h1, h2⟩

/-- The same from any state that satisfies the invariant (programs continue each other). -/
theorem dfg_programs_keep_invariant (enc : String) (cmds : List Cmd) (st st' : BuildState)
    (hL : ∀ c ∈ cmds, InL c) (hb : BInv st) (h : Build.run enc st cmds = .ok st') : BInv st' :=
  run_binv enc cmds st st' hL hb h

/-- One command. -/
theorem dfg_command_keeps_invariant (enc : String) (st st' : BuildState) (c : Cmd) (res : Result) (hc : InL c)
    (hb : BInv st) (h : Build.step enc st c = .ok (st', res)) : BInv st' := step_binv enc st st' c res hc hb h

namespace ExProg

def B : Ty := .unitSum 2

/-- `d0 = Dfg(Bool); with d0.add_nested() as d1: n = d1.add_op(Not, d0.inputs()[0]); d1.set_outputs(n[0]);
    d0.set_outputs(d1[0])` — the wire from the outer Input into the nested region is non-local. -/
def prog : List Cmd := [
  .newDfg "d0" [B],
  .addNested "d0" "d1" [],
  .addOp "d1" "n" (.custom "Not" ⟨[B], [B], []⟩ "" "logic" []) [.inp "d0" 0] [],
  .setOutputs "d1" [.idx (.var "n") 0],
  .setOutputs "d0" [.idx (.builder "d1") 0]]

/-- the value link Input(1) → Not(6) of `prog` is not exempt: `Not` has no static input port -/
example : staticIn (.custom "Not" ⟨[B], [B], []⟩ "" "logic" []) = none := rfl

/-- non-vacuity: the program is in the sub-language, runs, and its HUGR has the non-local value link
    Input(1) → Not(6) with the order link Input(1) → nested DFG(3). -/
example : ∀ c ∈ prog, InL c := by
  intro c hc
  simp only [prog, List.mem_cons, List.mem_nil_iff, or_false] at hc
  rcases hc with rfl | rfl | rfl | rfl | rfl <;> exact True.intro

example : (match Build.run "" {} prog with
    | .ok st => (match st.getHugr 0 with | .ok s => some (linksList s) | .error _ => none)
    | .error _ => none) =
    some [((1, -1), (3, -1)), ((1, 0), (6, 0)), ((6, 0), (5, 0)), ((3, 0), (2, 0))] := by decide +kernel

/-- `with d0.add_if(c, x) as if_: … ; with if_.add_else() as else_: …` inside a tracked graph: in the sub-language -/
example : ∀ c ∈ ([.newTracked "t" [B, B] true, .addIf "t" "i" (.inp "t" 0) [.inp "t" 1],
      .setOutputs "i" [.inp "i" 0], .addElse "i" "e", .setOutputs "e" [.inp "e" 0], .setTrackedOutputs "t"] : List Cmd),
    InL c := by
  intro c hc
  simp only [List.mem_cons, List.mem_nil_iff, or_false] at hc
  rcases hc with rfl | rfl | rfl | rfl | rfl | rfl <;> exact True.intro

end ExProg

end ProgramLevel

end HugrVerif.Props.C01
