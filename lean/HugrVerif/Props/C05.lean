/-
  C05 — Types, values and operations survive encoding and decoding unchanged.
  Property theorems only.

  Models: `Tys.lean` (types, parameters, arguments), `Val.lean` (constants), `Ops.lean` PART A/B
  (operations, `decOp`/`fnSig`), `Serial.lean` + `SerialCodecs.lean` (`Hugr.load_json`/`to_json`),
  `Inhabits.lean` (`Ty.same`: `tys.Sum.__eq__`), `Proofs/C05.lean` (`Value.eqPy`: `val.Sum.__eq__`).
  Layer lemmas: `Proofs/TysCodec.lean` (C07), `Proofs/ValCodec.lean`, `Proofs/Val.lean` (C14),
  `Proofs/OpsCodec.lean` (C06), `Proofs/Serial.lean`, `Props/C02.lean`; glue and the projections of
  direction (B): `Proofs/C05.lean`, `Proofs/C05Proj.lean`, `Proofs/C05ProjOps.lean`,
  `Proofs/C05Doc.lean`.

  DIRECTION (A)  object → JSON → object.  `norm` is what decoding an encoding returns:
     `Ty.norm` (extension types in opaque form, everything else unchanged: `core_type_unchanged`),
     `Value.norm` (the types inside in that form; the body document of a function constant verbatim),
     `Op.norm Value.norm` (core operations attribute by attribute: `core_op_attributes`; `ExtOp` and
     the prelude operations as `Custom`: `ext_op_as_custom`).
     For each sort: `*_dec_enc` (dec (enc x) = norm x), `*_enc_norm` (enc (norm x) = enc x),
     `*_facts_norm` (bound / reported type / signature, port kinds, output count).
     No theorem has a hypothesis about another layer: the conditions are on the object itself
     (`C05.WF`: the Python can serialise it, and a function constant's body document has the
     signature the constant reports), plus "enough fuel".
  SUGAR          `sugar_types_eq`, `sugar_values_eq`, `sugar_tags_are_tag`.
  DIRECTION (B)  foreign JSON → object → JSON.  `Proj.*` read the listed attributes off a document
     by member name.  `abs_dec_*`: the re-saved form of anything the decoder accepts *is* the
     projection of the foreign document.  Document level: `foreign_*`.
     The end-to-end statement (whole document in, whole document out) is `foreign_preserved`:
     for a parents-first document whose nodes decode to complete operations and whose edges join
     existing nodes, loading and saving succeed and the saved document is, node for node at the same
     index, the projection of the foreign one, with every edge and metadata entry
     (`Proofs/SerialForeign.lean`, using that the reloaded HUGR is walked in index order, C02).
     `ForeignPreserved` is the same conclusion stated from the success of `load_json` / `to_json`;
     its components are also available separately (`foreign_nodes_loaded`, `foreign_node_resaved`,
     `foreign_offset_resaved`, `foreign_edges_loaded`, `foreign_meta_resaved`, `foreign_envelope_*`).
-/
import HugrVerif.Proofs.C05
import HugrVerif.Proofs.C05ProjOps
import HugrVerif.Proofs.C05Doc
import HugrVerif.Props.C02
import HugrVerif.Proofs.SerialForeign

set_option linter.unusedSimpArgs false
set_option linter.unusedVariables false

namespace HugrVerif.Props.C05
open HugrVerif HugrVerif.Codec HugrVerif.Op HugrVerif.OpProofs HugrVerif.Serial HugrVerif.Store

/-! ### concrete objects for the non-vacuity examples -/
def B : Ty := .unitSum 2
def Q : Ty := .qubit
/-- an extension type whose bound is computed from its argument -/
def arrDef : TypeDefRef := ⟨"collections.array", "array", "", [.boundedNat none, .type .any], .fromParams [1]⟩
def arr (t : Ty) : Ty := .extType arrDef [.boundedNat 2, .type t]
/-- a DFG-rooted body document, as `Hugr.to_json` writes it (only `nodes[0]` matters) -/
def bodyDoc : Json :=
  .obj [("version", .str "live"),
    ("nodes", .arr [.obj [("parent", .int 0), ("op", .str "DFG"), ("signature",
      .obj [("t", .str "G"), ("input", .arr [.obj [("t", .str "Q")]]), ("output", .arr [.obj [("t", .str "Q")]]),
        ("runtime_reqs", .arr [])])]]),
    ("edges", .arr []), ("metadata", .null), ("encoder", .null)]
def fnVal : Value := .function [Q] [Q] [] bodyDoc

/-! ## DIRECTION (A): types, type parameters, type arguments -/

/-- **Types**: decoding the encoding gives the normal form. -/
theorem ty_dec_enc (t : Ty) (j : Json) (fuel : Nat) (h : encTy t = .ok j) (hp : t.isPoly = false)
    (hd : t.depth ≤ fuel) : decTy fuel j = .ok t.norm :=
  decTy_encTy t j fuel h hp hd

/-- … a polymorphic function type is a member of its own shape (`signature`, `func_sig`). -/
theorem poly_dec_enc (ps : List TypeParam) (i o : List Ty) (r : List String) (j : Json) (fuel : Nat)
    (h : encTy (.poly ps i o r) = .ok j) (hd : (Ty.poly ps i o r).depth ≤ fuel) :
    decPoly fuel j = .ok (Ty.norm (.poly ps i o r)) :=
  decPoly_encTy ps i o r j fuel h hd

/-- The decoded type encodes to the same document and has the same bound. -/
theorem ty_enc_norm (t : Ty) : encTy t.norm = encTy t := encTy_norm t
theorem ty_facts_norm (t : Ty) : Ty.bound t.norm = Ty.bound t := bound_norm t

/-- **Core types come back equal**: a type without extension types is its own normal form … -/
theorem core_type_unchanged (t : Ty) (h : Ty.noExt t = true) : t.norm = t := Ty.norm_of_noExt t h

/-- … and an **extension type appears in its opaque form**: same extension, name, (normal forms of
    the) arguments, and the computed bound. -/
theorem ext_type_opaque (d : TypeDefRef) (args : List TypeArg) (b : Bound) (h : Ty.bound (.extType d args) = .ok b) :
    Ty.norm (.extType d args) = .opaque d.name b (Ty.normArgs args) d.ext :=
  norm_isOpaqueForm d args b h

/-- Every attribute of the other type constructors is kept: rows, names, indices, bounds,
    requirement sets, type parameters. -/
theorem type_attributes (rows : List (List Ty)) (n : Nat) (b : Bound) (name : String) (i o : List Ty)
    (r : List String) (ps : List TypeParam) (id ext : String) (args : List TypeArg) :
    Ty.norm (.sum rows) = .sum (Ty.normRows rows) ∧ Ty.norm (.unitSum n) = .unitSum n ∧
    Ty.norm (.variable n b) = .variable n b ∧ Ty.norm (.rowVariable n b) = .rowVariable n b ∧
    Ty.norm (.alias name b) = .alias name b ∧ Ty.norm (.function i o r) = .function (Ty.normRow i) (Ty.normRow o) r ∧
    Ty.norm (.poly ps i o r) = .poly ps (Ty.normRow i) (Ty.normRow o) r ∧
    Ty.norm (.opaque id b args ext) = .opaque id b (Ty.normArgs args) ext :=
  ⟨rfl, rfl, rfl, rfl, rfl, rfl, rfl, rfl⟩

example : ∃ j, encTy (.sum [[arr Q, B], []]) = .ok j ∧
    decTy 9 j = .ok (.sum [[.opaque "array" .any [.boundedNat 2, .type Q] "collections.array", B], []]) := ⟨_, rfl, rfl⟩
example : Ty.noExt (.function [.sum [[B], []], .rowVariable 0 .any] [.alias "a" .copyable] ["x"]) = true := rfl
example : Ty.bound (arr Q) = .ok .any ∧ Ty.bound (arr Q).norm = .ok .any := ⟨rfl, rfl⟩

/-- **Type arguments.** -/
theorem arg_dec_enc (a : TypeArg) (j : Json) (fuel : Nat) (h : encArg a = .ok j) (hd : a.depth ≤ fuel) :
    decArg fuel j = .ok (Ty.normArg a) := decArg_encArg a j fuel h hd
theorem arg_enc_norm (a : TypeArg) : encArg (Ty.normArg a) = encArg a := encArg_normArg a
/-- the derived fact of a type argument is the bound of the type it carries -/
theorem arg_facts_norm (a : TypeArg) : Ty.argBound (Ty.normArg a) = Ty.argBound a := bound_norm_all.2 a

example : ∃ j, encArg (.sequence [.type (arr B), .boundedNat 3, .variable 0 (.list .string)]) = .ok j ∧
    decArg 9 j = .ok (.sequence [.type (.opaque "array" .copyable [.boundedNat 2, .type B] "collections.array"),
      .boundedNat 3, .variable 0 (.list .string)]) := ⟨_, rfl, rfl⟩

/-- **Type parameters** come back identical (they contain no types). -/
theorem param_dec_enc (p : TypeParam) (fuel : Nat) (hd : p.depth ≤ fuel) : decParam fuel (encParam p) = .ok p :=
  decParam_encParam p fuel hd

example : decParam 4 (encParam (.tuple [.type .any, .boundedNat (some 7), .list .extensions])) =
    .ok (.tuple [.type .any, .boundedNat (some 7), .list .extensions]) := rfl

/-! ## DIRECTION (A): constants -/

/-- **Constants**: decoding the encoding gives the normal form — with the operation layer's own
    reader of function bodies (`Op.fnSig`), so no assumption about another layer remains. -/
theorem value_dec_enc (v : Value) (j : Json) (N fuel : Nat) (hw : C05.WF N v) (h : encVal v = .ok j)
    (hd : v.depth ≤ fuel) (hN : N ≤ fuel) : decVal (Op.fnSig fuel) fuel j = .ok v.norm :=
  C05.decVal_encVal v j N fuel hw h hd hN

/-- The decoded constant encodes to the same document and reports the (normal form of the) same type. -/
theorem value_enc_norm (v : Value) : encVal v.norm = encVal v := encVal_norm v
theorem value_facts_norm (v : Value) : v.norm.typeOf = v.typeOf.norm := Value.typeOf_norm v

/-- Every attribute is kept: tags, element values, names, payloads, extension lists; the types
    inside in their normal form; **the body document of a function constant verbatim**. -/
theorem value_attributes (tag : Nat) (typ : Ty) (vals : List Value) (i o : List Ty) (r : List String)
    (body payload : Json) (name : String) (exts : List String) :
    Value.norm (.sum tag typ vals) = .sum tag typ.norm (Value.normList vals) ∧
    Value.norm (.tuple vals) = .tuple (Value.normList vals) ∧
    Value.norm (.function i o r body) = .function (Ty.normRow i) (Ty.normRow o) r body ∧
    encVal (.function i o r body) = .ok (.obj [("v", .str "Function"), ("hugr", body)]) ∧
    Value.norm (.ext name typ payload exts) = .ext name typ.norm payload exts :=
  ⟨rfl, rfl, rfl, rfl, rfl⟩

/-- the hypotheses of `value_dec_enc` hold for a nested constant with a function constant inside -/
example : C05.WF 4 (Value.some [fnVal, .ext "ConstInt" (arr B) (.obj [("value", .int 3)]) ["x"]]) := by
  refine ⟨rfl, ⟨?_, rfl, trivial⟩⟩
  exact ⟨.dfg [Q] (some [Q]) [], 0, _, _, [], rfl, rfl, rfl, rfl, trivial, by decide⟩
example : ∃ j, encVal fnVal = .ok j ∧ decVal (Op.fnSig 6) 6 j = .ok fnVal := ⟨_, rfl, rfl⟩

/-! ## DIRECTION (A): operations -/

/-- **Operations**: decoding the encoding of a complete operation gives its normal form and the same
    parent.  `CallOK`: what `_CallOrLoad.__init__` establishes; `OpWF`: the constant of a `Const` is
    well formed. -/
theorem op_dec_enc (op : Op) (p : Int) (j : Json) (N fuel : Nat) (h : encOp op p = .ok j) (hc : CallOK op)
    (hw : C05.OpWF N op) (hd : C05.opDepth N op ≤ fuel) : decOp (fuel + 1) j = .ok (Op.norm Value.norm op, p) :=
  C05.decOp_encOp op p j N fuel h hc hw hd

/-- The decoded operation encodes to the same document. -/
theorem op_enc_norm (op : Op) (p : Int) (j : Json) (h : encOp op p = .ok j) (hc : CallOK op) :
    encOp (Op.norm Value.norm op) p = .ok j :=
  C05.encOp_norm op p j h hc

/-- The decoded operation has the same derived facts: outer signature, output count, kind of every
    port — types compared as decoded (`Ty.norm`) and up to Python's `==` on the operation's own sum
    type (`genTop`: `UnitSum(n)` vs the general sum of `n` empty rows). -/
theorem op_facts_norm (op : Op) (p : Int) (j : Json) (h : encOp op p = .ok j) (hc : CallOK op) :
    (outerSig (Op.norm Value.norm op)).map sigGen = (outerSig op).map (fun s => sigGen s.norm) ∧
    numOut (Op.norm Value.norm op) = numOut op ∧
    ∀ d off, (portKind (Op.norm Value.norm op) d off).map kindGen =
      (portKind op d off).map (fun k => kindGen (kindNorm k)) :=
  ⟨outerSig_norm _ op p j h hc, numOut_norm _ op p j h hc,
    portKind_norm _ op p j h hc (fun v _ => Value.typeOf_norm v)⟩

/-- **Core operations come back equal attribute by attribute**: type parameters, extension deltas,
    names, tags, rows (types in their normal form). -/
theorem core_op_attributes (nv : Value → Value) (n : String) (i o oo ji jo rest : List Ty) (ps : List TypeParam)
    (d : List String) (rows : List (List Ty)) (t : Int) (p : Poly) (v : Value) (b : Bound) (ty : Ty) (s : Sig) :
    Op.norm nv (.funcDefn n i ps (some o)) = .funcDefn n (Ty.normRow i) ps (some (Ty.normRow o)) ∧
    Op.norm nv (.funcDecl n p) = .funcDecl n p.norm ∧
    Op.norm nv (.dfg i (some o) d) = .dfg (Ty.normRow i) (some (Ty.normRow o)) d ∧
    Op.norm nv (.dataflowBlock i (some (.general rows)) (some oo) d) =
      .dataflowBlock (Ty.normRow i) (some (.general (Ty.normRows rows))) (some (Ty.normRow oo)) d ∧
    Op.norm nv (.tailLoop ji rest (some jo) d) = .tailLoop (Ty.normRow ji) (Ty.normRow rest) (some (Ty.normRow jo)) d ∧
    Op.norm nv (.conditional (.general rows) i (some o)) =
      .conditional (.general (Ty.normRows rows)) (Ty.normRow i) (some (Ty.normRow o)) ∧
    Op.norm nv (.tag t (.general rows)) = .tag t (.general (Ty.normRows rows)) ∧
    Op.norm nv (.const v) = .const (nv v) ∧
    Op.norm nv (.aliasDecl n b) = .aliasDecl n b ∧ Op.norm nv (.aliasDefn n ty) = .aliasDefn n ty.norm ∧
    Op.norm nv (.input i) = .input (Ty.normRow i) ∧ Op.norm nv (.output (some o)) = .output (some (Ty.normRow o)) ∧
    Op.norm nv (.cfg i (some o)) = .cfg (Ty.normRow i) (some (Ty.normRow o)) ∧
    Op.norm nv (.case i (some o)) = .case (Ty.normRow i) (some (Ty.normRow o)) ∧
    Op.norm nv (.exitBlock (some o)) = .exitBlock (some (Ty.normRow o)) ∧
    Op.norm nv (.loadConst (some ty)) = .loadConst (some ty.norm) ∧
    Op.norm nv (.callIndirect (some s)) = .callIndirect (some s.norm) ∧ Op.norm nv .module = .module :=
  ⟨rfl, rfl, rfl, rfl, rfl, rfl, rfl, rfl, rfl, rfl, rfl, rfl, rfl, rfl, rfl, rfl, rfl, rfl⟩

/-- `Call` / `LoadFunction`: callee signature, instantiation, type arguments. -/
theorem call_attributes (nv : Value → Value) (p : Poly) (inst : Sig) (a : List TypeArg) (h : p.params ≠ []) :
    Op.norm nv (.call p inst a) = .call p.norm inst.norm (Ty.normArgs a) ∧
    Op.norm nv (.loadFunc p inst a) = .loadFunc p.norm inst.norm (Ty.normArgs a) := by
  have : ¬ p.params.length = 0 := by simpa using h
  simp [Op.norm, this]

/-- **Extension operations come back as opaque operations** (`Custom`) **with the same extension,
    name, signature, type arguments and description** … -/
theorem ext_op_as_custom (nv : Value → Value) (d : OpDefRef) (sig? : Option Sig) (a : List TypeArg) (n e : String)
    (s : Sig) (h : extOpCustom d sig? = .ok (n, s, e)) :
    Op.norm nv (.extOp d sig? a) = .custom n s.norm d.description e (Ty.normArgs a) ∧
    n = d.name ∧ e = d.ext.getD "" ∧ outerSig (.extOp d sig? a) = .ok s := by
  refine ⟨by simp [Op.norm, h], ?_⟩
  unfold extOpCustom at h
  cases sig? with
  | some s' =>
    simp only [bind, Except.bind, pure, Except.pure, Except.ok.injEq, Prod.mk.injEq] at h
    obtain ⟨rfl, rfl, rfl⟩ := h
    refine ⟨rfl, ?_, rfl⟩
    cases d.ext <;> rfl
  | none =>
    cases hp : d.polyFunc with
    | none => simp [hp, bind, Except.bind, throw, throwThe, MonadExceptOf.throw] at h
    | some q =>
      by_cases hq : q.params.length > 0
      · simp [hp, hq, bind, Except.bind, throw, throwThe, MonadExceptOf.throw] at h
      · simp only [hp, hq, if_false, bind, Except.bind, pure, Except.pure, Except.ok.injEq, Prod.mk.injEq] at h
        obtain ⟨rfl, rfl, rfl⟩ := h
        refine ⟨rfl, ?_, by simp [outerSig, hp]⟩
        cases d.ext <;> rfl

/-- … also an operation that already is opaque, and the prelude operations. -/
theorem custom_attributes (nv : Value → Value) (n : String) (s : Sig) (d e : String) (a : List TypeArg)
    (ts : List Ty) (t : Ty) :
    Op.norm nv (.custom n s d e a) = .custom n s.norm d e (Ty.normArgs a) ∧
    Op.norm nv (.makeTuple (some ts)) = .custom "MakeTuple" (Sig.norm ⟨ts, [Ty.tuple ts], ["prelude"]⟩)
      descMakeTuple "prelude" (Ty.normArgs [.sequence (ts.map .type)]) ∧
    Op.norm nv (.unpackTuple (some ts)) = .custom "UnpackTuple" (Sig.norm ⟨[Ty.tuple ts], ts, ["prelude"]⟩)
      descUnpackTuple "prelude" (Ty.normArgs [.sequence (ts.map .type)]) ∧
    Op.norm nv (.noop (some t)) = .custom "Noop" (Sig.norm ⟨[t], [t], ["prelude"]⟩) descNoop "prelude"
      (Ty.normArgs [.type t]) :=
  ⟨rfl, rfl, rfl, rfl⟩

/-- a `Const` carrying a function constant, a polymorphic `FuncDefn`, a `DataflowBlock` and a
    `TailLoop` with extension deltas, an `ExtOp` with a description: decoded by evaluation -/
example : C05.OpWF 4 (.const fnVal) ∧ ∃ j, encOp (.const fnVal) 7 = .ok j ∧ decOp 8 j = .ok (.const fnVal, 7) :=
  ⟨⟨.dfg [Q] (some [Q]) [], 0, _, _, [], rfl, rfl, rfl, rfl, trivial, by decide⟩, _, rfl, rfl⟩
example : ∃ j, encOp (.funcDefn "fñ" [arr Q] [.type .any, .list .string] (some [B])) 0 = .ok j ∧
    decOp 8 j = .ok (.funcDefn "fñ" [(arr Q).norm] [.type .any, .list .string] (some [B]), 0) := ⟨_, rfl, rfl⟩
example : ∃ j, encOp (.tailLoop [B] [Q] (some [Q, Q]) ["e1", "e2"]) 2 = .ok j ∧
    decOp 8 j = .ok (.tailLoop [B] [Q] (some [Q, Q]) ["e1", "e2"], 2) := ⟨_, rfl, rfl⟩
example : ∃ j, encOp (.extOp ⟨some "my.ext", "op", "what it does", some ⟨[], ⟨[Q], [Q], ["my.ext"]⟩⟩⟩ none [.boundedNat 1]) 3 = .ok j ∧
    decOp 8 j = .ok (.custom "op" ⟨[Q], [Q], ["my.ext"]⟩ "what it does" "my.ext" [.boundedNat 1], 3) := ⟨_, rfl, rfl⟩

/-! ## SUGAR -/

/-- **Sugar types compare equal to their general sum forms** (`tys.Sum.__eq__` compares
    `variant_rows`) **and have the same bound**: `Tuple`, `Option`, `Either` *are* the sums with those
    rows; `UnitSum(n)` (incl. `Bool`, `Unit`), which encodes differently, equals the sum of `n` empty
    rows. -/
theorem sugar_types_eq (ts l r : List Ty) (n : Nat) :
    Ty.same (Ty.tuple ts) (.sum [ts]) = true ∧ Ty.same (Ty.option ts) (.sum [[], ts]) = true ∧
    Ty.same (Ty.either l r) (.sum [l, r]) = true ∧
    Ty.same (.unitSum n) (.sum (List.replicate n [])) = true ∧
    Ty.same Ty.bool (.sum [[], []]) = true ∧ Ty.same Ty.unit (.sum [[]]) = true ∧
    Ty.bound (.unitSum n) = Ty.bound (.sum (List.replicate n [])) :=
  ⟨Ty.same_refl _, Ty.same_refl _, Ty.same_refl _, (Ty.same_iff _ _).2 (Ty.same_unitSum n),
    (Ty.same_iff _ _).2 (Ty.same_unitSum 2), (Ty.same_iff _ _).2 (Ty.same_unitSum 1),
    Ty.same_bound _ _ ((Ty.same_iff _ _).2 (Ty.same_unitSum n))⟩

/-- In general: types that compare equal have the same bound; equality is not blind (a sum with a
    different number of rows, or rows of different length, is different). -/
theorem same_types_same_bound (a b : Ty) (h : Ty.same a b = true) : Ty.bound a = Ty.bound b := Ty.same_bound a b h

example : Ty.same (.unitSum 2) (.sum [[], [], []]) = false := by decide +kernel
example : Ty.same (Ty.tuple [B]) (.sum [[B, B]]) = false := by decide +kernel
example : Ty.same (Ty.option [Ty.bool]) (.sum [[], [.sum [[], []]]]) = true := by decide +kernel

/-- **Sugar values compare equal to their general `Sum` forms** (`val.Sum.__eq__`: tag, type,
    fields) **with the same type**: `Tuple(vs)` — which encodes differently — equals the sum with
    tag 0 over the one row of its fields' types; `Some/None/Left/Right` *are* such sums;
    `UnitSum(tag, n)` (incl. `TRUE`, `FALSE`, `Unit`) equals the tagged empty variant of the general
    sum of `n` empty rows. -/
theorem sugar_values_eq (vs : List Value) (ts : List Ty) (tag n : Nat) (b : Bool) :
    Value.eqPy (.tuple vs) (.sum 0 (.sum [Value.typesOf vs]) vs) = true ∧
    Value.eqPy (Value.some vs) (.sum 1 (.sum [[], Value.typesOf vs]) vs) = true ∧
    Value.eqPy (Value.none ts) (.sum 0 (.sum [[], ts]) []) = true ∧
    Value.eqPy (Value.left vs ts) (.sum 0 (.sum [Value.typesOf vs, ts]) vs) = true ∧
    Value.eqPy (Value.right ts vs) (.sum 1 (.sum [ts, Value.typesOf vs]) vs) = true ∧
    Value.eqPy (Value.unitSum tag n) (.sum tag (.sum (List.replicate n [])) []) = true ∧
    Value.eqPy (Value.boolValue b) (.sum (if b then 1 else 0) (.sum [[], []]) []) = true ∧
    Value.eqPy Value.unit (.sum 0 (.sum [[]]) []) = true := by
  refine ⟨?_, Value.eqPy_refl _, Value.eqPy_refl _, Value.eqPy_refl _, Value.eqPy_refl _, ?_, ?_, ?_⟩
  · rw [Value.eqPy_iff]; rfl
  · rw [Value.eqPy_iff]; simp [Value.unitSum, Value.canon, Ty.canon, Value.canonList, Ty.canonRows_replicate_nil]
  · rw [Value.eqPy_iff]; rfl
  · rw [Value.eqPy_iff]; rfl

/-- Values that compare equal report types that compare equal (hence with the same bound). -/
theorem equal_values_same_type (a b : Value) (h : Value.eqPy a b = true) :
    Ty.same a.typeOf b.typeOf = true ∧ Ty.bound a.typeOf = Ty.bound b.typeOf :=
  ⟨Value.eqPy_same_type a b h, Ty.same_bound _ _ (Value.eqPy_same_type a b h)⟩

example : Value.eqPy (.tuple [Value.boolValue true]) (.sum 0 (.sum [[.sum [[], []]]]) [.sum 1 (.sum [[], []]) []]) = true := by
  decide +kernel
example : Value.eqPy (.tuple [Value.boolValue true]) (.tuple [Value.boolValue false]) = false := by decide +kernel
example : Value.eqPy (Value.unitSum 0 2) (Value.unitSum 0 3) = false := by decide +kernel

/-- **The sugar tag operations are `Tag`s**: `Some(*tys)` is `Tag(1, Option(*tys))`, `Left`/`Continue`
    is `Tag(0, either)`, `Right`/`Break` is `Tag(1, either)` — same signature, same encoding. -/
theorem sugar_tags_are_tag (tys l r : List Ty) (p : Int) :
    (tagSome tys = .tag 1 (.general [[], tys]) ∧ outerSig (tagSome tys) = .ok ⟨tys, [Ty.option tys], []⟩ ∧
      encOp (tagSome tys) p = encOp (.tag 1 (.general [[], tys])) p) ∧
    (tagLeft l r = .tag 0 (.general [l, r]) ∧ outerSig (tagLeft l r) = .ok ⟨l, [Ty.either l r], []⟩ ∧
      encOp (tagLeft l r) p = encOp (.tag 0 (.general [l, r])) p) ∧
    (tagRight l r = .tag 1 (.general [l, r]) ∧ outerSig (tagRight l r) = .ok ⟨r, [Ty.either l r], []⟩ ∧
      encOp (tagRight l r) p = encOp (.tag 1 (.general [l, r])) p) ∧
    tagContinue l r = tagLeft l r ∧ tagBreak l r = tagRight l r :=
  ⟨⟨rfl, rfl, rfl⟩, ⟨rfl, rfl, rfl⟩, ⟨rfl, rfl, rfl⟩, rfl, rfl⟩

/-- the encoding of the general `Tag`: kind, tag, variant rows -/
theorem tag_encoding (t : Int) (rows : List (List Ty)) (p : Int) (jr : Json) (h : encRowsJ rows = .ok jr) :
    encOp (.tag t (.general rows)) p =
      .ok (.obj [("parent", .int p), ("op", .str "Tag"), ("tag", .int t), ("variants", jr)]) := by
  simp [encOp, SumTy.rows, h, bind, Except.bind, pure, Except.pure]

example : ∃ j, encOp (tagSome [Q]) 0 = .ok j ∧ decOp 6 j = .ok (.tag 1 (.general [[], [Q]]), 0) := ⟨_, rfl, rfl⟩

/-! ## DIRECTION (B): what load + re-save preserves of a foreign document -/

/-- **Type parameters**: whatever the decoder accepts is re-saved as the projection of the foreign
    document (`Proj.param`: kind, bound / upper bound, nested parameters). -/
theorem abs_dec_param (f : Nat) (j : Json) (p : TypeParam) (h : decParam f j = .ok p) :
    encParam p = Proj.param f j := Proj.abs_param f j p h

/-- **Types** (`Proj.ty`: constructor, rows, variable index and bound, alias name and bound,
    requirement set — `[]` when the member is absent —, sum form `Unit`/`General` with size / rows,
    opaque extension, id, arguments, bound). -/
theorem abs_dec_ty (f : Nat) (j : Json) (t : Ty) (h : decTy f j = .ok t) : encTy t = .ok (Proj.ty f j) :=
  (Proj.abs_ty f j t h).2

/-- **Polymorphic function types** as a member: the type parameters and the body. -/
theorem abs_dec_poly (f : Nat) (j : Json) (t : Ty) (h : decPoly f j = .ok t) : encTy t = .ok (Proj.poly f true j) := by
  obtain ⟨ps, i, o, r, rfl, e, _⟩ := Proj.abs_poly f j t h
  exact e

/-- **Type arguments.** -/
theorem abs_dec_arg (f : Nat) (j : Json) (a : TypeArg) (h : decArg f j = .ok a) : encArg a = .ok (Proj.arg f j) :=
  Proj.abs_arg f j a h

/-- **Constants** (`Proj.val`: kind, tag, sum type, element values, the verbatim body document of
    a function constant, name / type / verbatim payload / extension list of an extension constant),
    for any reader of function bodies. -/
theorem abs_dec_value (fnSig : Json → Except DecErr (List Ty × List Ty × List String)) (f : Nat) (j : Json)
    (v : Value) (h : decVal fnSig f j = .ok v) : encVal v = .ok (Proj.val f j) := Proj.abs_val fnSig f j v h

/-- **Operations** (`Proj.op`; see the header of `Proofs/C05ProjOps.lean` for the members kept per
    kind): the node re-saved after loading is the projection of the foreign node … -/
theorem abs_dec_op (f : Nat) (j : Json) (o : Op) (p : Int) (h : decOp (f + 1) j = .ok (o, p)) :
    encOp o p = .ok (Proj.op (Proj.val f) f j) := Proj.abs_op f j o p h

/-- … and, when re-saving renumbers the nodes, the same projection with the new parent index. -/
theorem abs_dec_op_at (f : Nat) (j : Json) (o : Op) (p : Int) (h : decOp (f + 1) j = .ok (o, p)) (q : Int) :
    encOp o q = .ok (Proj.opAt (.int q) (Proj.val f) f j) := Proj.abs_op_at f j o p h q

/-- The projection is a projection: a document written by this library is its own projection —
    so `project (enc x) = project j` for the `x` decoded from a foreign `j`. -/
theorem project_own_ty (t : Ty) (j : Json) (f : Nat) (h : encTy t = .ok j) (hp : t.isPoly = false)
    (hd : t.depth ≤ f) : Proj.ty f j = j := by
  have h1 := decTy_encTy t j f h hp hd
  have h2 := (Proj.abs_ty f j _ h1).2
  rw [encTy_norm, h] at h2
  exact (Except.ok.inj h2).symm

theorem project_own_op (op : Op) (p : Int) (j : Json) (N f : Nat) (h : encOp op p = .ok j) (hc : CallOK op)
    (hw : C05.OpWF N op) (hd : C05.opDepth N op ≤ f) : Proj.op (Proj.val f) f j = j := by
  have h1 := C05.decOp_encOp op p j N f h hc hw hd
  have h2 := Proj.abs_op f j _ p h1
  rw [C05.encOp_norm op p j h hc] at h2
  exact (Except.ok.inj h2).symm

theorem abs_dec_ty_projected (f f' : Nat) (j j' : Json) (t : Ty) (h : decTy f j = .ok t) (he : encTy t = .ok j')
    (hd : t.depth ≤ f') : Proj.ty f' j' = Proj.ty f j := by
  obtain ⟨hp, h2⟩ := Proj.abs_ty f j t h
  rw [project_own_ty t j' f' he hp hd]
  rw [he] at h2
  exact Except.ok.inj h2

/-- A foreign `DFG` node in the Rust writer's conventions — an extra member (`input_extensions`), the
    `t` tag of the signature and its `runtime_reqs` omitted — loads, and is re-saved with kind,
    parent, rows kept and the defaults made explicit. -/
example : ∃ o p, decOp 9 (.obj [("parent", .int 4), ("input_extensions", .arr []), ("op", .str "DFG"),
      ("signature", .obj [("input", .arr [.obj [("t", .str "Q"), ("extra", .null)]]), ("output", .arr [])])])
    = .ok (o, p) ∧ encOp o p = .ok (.obj [("parent", .int 4), ("op", .str "DFG"), ("signature",
      .obj [("t", .str "G"), ("input", .arr [.obj [("t", .str "Q")]]), ("output", .arr []), ("runtime_reqs", .arr [])])]) :=
  ⟨_, _, rfl, rfl⟩
/-- a `Tuple` constant with a `UnitSum`-typed element and a nested function constant -/
example : ∃ v, decVal (Op.fnSig 9) 9 (.obj [("v", .str "Tuple"), ("vs", .arr [
      .obj [("v", .str "Sum"), ("tag", .int 1), ("typ", .obj [("s", .str "Unit"), ("size", .int 2)]), ("vs", .arr [])],
      .obj [("v", .str "Function"), ("hugr", bodyDoc)]])]) = .ok v ∧
    v = .tuple [.sum 1 (.unitSum 2) [], fnVal] := ⟨_, rfl, rfl⟩

/-! ### document level -/

/-- **Every node of a foreign document is loaded** at its index, with the operation the node decodes
    to, the parent it names and the metadata entry of its index. -/
theorem foreign_nodes_loaded (f : Nat) (d : Doc) (s : St Op) (h : fromSerial (opsCodec (f + 1)) d = .ok s) :
    ∀ k (hk : k < d.nodes.length), ∃ op par nd, decOp (f + 1) d.nodes[k] = .ok (op, par) ∧
      getNode s k = .ok nd ∧ nd.op = op ∧ nd.md = getMeta d.metadata k ∧ nd.parent = C05Doc.parentOf k par := by
  intro k hk
  obtain ⟨op, par, nd, h1, h2, h3, h4, h5⟩ := C05Doc.fromSerial_nodes (opsCodec (f + 1)) d s h k hk
  refine ⟨op, par, nd, ?_, h2, h3, h4, h5⟩
  simp only [opsCodec] at h1
  cases hd : decOp (f + 1) d.nodes[k] with
  | error e => simp [hd] at h1
  | ok r => simp only [hd, Except.ok.injEq] at h1; rw [h1]

/-- **Every node is re-saved with all its listed attributes**: for whatever order `_to_serial` lists
    the nodes in, the node written for the loaded node `k` is the projection of the foreign node `k`
    with the `parent` member set to the new position of its parent, and its metadata entry is the
    foreign one (`null` for none). -/
theorem foreign_node_resaved (f : Nat) (d : Doc) (s : St Op) (h : fromSerial (opsCodec (f + 1)) d = .ok s)
    (order : List Nat) (k : Nat) (hk : k < d.nodes.length) (r : Json × Option Meta)
    (hs : serialNode (opsCodec (f + 1)) s order k = .ok r) :
    ∃ (par : Int) (p : Nat), Proj.get "parent" (Proj.members d.nodes[k]) = .int par ∧
      rekey order ((C05Doc.parentOf k par).getD k) = .ok p ∧
      r.1 = Proj.opAt (.int p) (Proj.val f) f d.nodes[k] ∧
      r.2 = C05Doc.savedEntry (getMeta d.metadata k) := by
  obtain ⟨op, par, nd, h1, h2, h3, h4, h5⟩ := foreign_nodes_loaded f d s h k hk
  obtain ⟨p, e1, e2, e3⟩ := C05Doc.serialNode_loaded (opsCodec (f + 1)) s order k nd h2 r hs
  have hpar : Proj.get "parent" (Proj.members d.nodes[k]) = .int par := by
    have := h1
    rw [decOp] at this
    exact (Proj.abs_decWith _ (Proj.val f) (fun jv v hv => Proj.abs_val (fnSig f) f jv v hv) f _ op par this).1
  refine ⟨par, p, hpar, by rw [← h5]; exact e1, ?_, by rw [e3, h4]⟩
  have e4 := Proj.abs_op_at f d.nodes[k] op par h1 (p : Int)
  simp only [opsCodec, h3] at e2
  rw [e4] at e2
  simp only [liftO, Except.ok.injEq] at e2
  exact e2.symm

/-! #### function constants: nested documents

`FunctionValue.deserialize` loads the nested document and `Function._to_serial` saves it again, so at
document level the body of a function constant is *re-saved* (direction (B) applies to it
recursively).  `Nested.codecWith g` is the operation codec that does this with `g` as the re-save of
a nested document (`Nested.resave`: `g` = load + save with the same codec, one nesting level less). -/

/-- **What is loaded for a node with function constants**: the decoded operation with the body
    document of every function constant re-saved; every other operation exactly as decoded. -/
theorem nested_bodies_resaved (g : Json → Except Serial.Err Json) (fuel : Nat) (j : Json) (op : Op) (p : Int)
    (h : (Nested.codecWith g fuel).dec j = .ok (op, p)) :
    ∃ op0, decOp fuel j = .ok (op0, p) ∧ Nested.mapConst g op0 = .ok op ∧
      ((∀ v, op0 ≠ .const v) → op = op0) := by
  obtain ⟨op0, h1, h2⟩ := Nested.codecWith_dec g fuel j op p h
  refine ⟨op0, h1, h2, fun hn => ?_⟩
  cases op0 <;> first
    | (simp only [Nested.mapConst, pure, Except.pure, Except.ok.injEq] at h2; exact h2.symm)
    | exact absurd rfl (hn _)

/-- **Body documents that are fixed points of load/save are carried verbatim** — the case the value
    model describes (every document the library wrote itself: C02). -/
theorem nested_fixed_bodies_verbatim (g : Json → Except Serial.Err Json) (fuel : Nat) (j : Json) (op : Op) (p : Int)
    (h0 : decOp fuel j = .ok (op, p))
    (hfix : ∀ v, op = .const v → Nested.AllBodies (fun b => g b = .ok b) v) :
    (Nested.codecWith g fuel).dec j = .ok (op, p) :=
  Nested.codecWith_dec_fixed g fuel j op p h0 hfix

/-- **Re-saving a loaded node, nested documents included**: the node written is the encoding of the
    decoded operation with its function bodies re-saved, where the decoded operation itself encodes
    to the projection of the foreign node (so for every node other than a `Const` with a function
    constant, the node written *is* that projection); metadata as before. -/
theorem foreign_node_resaved_nested (g : Json → Except Serial.Err Json) (f : Nat) (d : Doc) (s : St Op)
    (h : fromSerial (Nested.codecWith g (f + 1)) d = .ok s)
    (order : List Nat) (k : Nat) (hk : k < d.nodes.length) (r : Json × Option Meta)
    (hs : serialNode (Nested.codecWith g (f + 1)) s order k = .ok r) :
    ∃ (par : Int) (p : Nat) (op0 op : Op), decOp (f + 1) d.nodes[k] = .ok (op0, par) ∧
      Nested.mapConst g op0 = .ok op ∧ rekey order ((C05Doc.parentOf k par).getD k) = .ok p ∧
      encOp op0 p = .ok (Proj.opAt (.int p) (Proj.val f) f d.nodes[k]) ∧ encOp op p = .ok r.1 ∧
      r.2 = C05Doc.savedEntry (getMeta d.metadata k) := by
  obtain ⟨op, par, nd, h1, h2, h3, h4, h5⟩ := C05Doc.fromSerial_nodes (Nested.codecWith g (f + 1)) d s h k hk
  obtain ⟨op0, e0, e1⟩ := Nested.codecWith_dec g (f + 1) _ op par h1
  obtain ⟨p, a1, a2, a3⟩ := C05Doc.serialNode_loaded (Nested.codecWith g (f + 1)) s order k nd h2 r hs
  refine ⟨par, p, op0, op, e0, e1, by rw [← h5]; exact a1, Proj.abs_op_at f _ op0 par e0 (p : Int), ?_, by rw [a3, h4]⟩
  simp only [Nested.codecWith, opsCodec, h3] at a2
  cases he : encOp op (p : Int) with
  | error e => simp [he, liftO] at a2
  | ok j' =>
    simp only [he, liftO, Except.ok.injEq] at a2
    rw [a2]

/-- **Port offsets are preserved; an edge end without offset becomes the order port**: an end written
    with offset `o` is re-saved with `o`; an end written *without* offset (how the Rust writer
    addresses every port that is not a dataflow port) is attached to the order port `-1` when the
    operation has one, and re-saved at the layout offset of that port; to port 0 otherwise. -/
theorem foreign_offset_resaved {Ω : Type} (c : OpCodec Ω) (s s' : St Ω) (node node' : Nat) (incoming : Bool)
    (off? : Option Int) (w : Int) (d d' : NodeData Ω Meta) (r : Option Nat)
    (hd : getNode s node = .ok d) (hd' : getNode s' node' = .ok d')
    (hr : c.orderOff d.op incoming = .ok r) (hop : c.orderOff d'.op incoming = c.orderOff d.op incoming)
    (hnn : ∀ o, off? = some o → 0 ≤ o) (hl : loadOffset c s node off? incoming = .ok w) :
    (off? = none → w = if r.isSome then -1 else 0) ∧
    constrainOffset c s' node' w incoming = .ok (C05Doc.savedOffset off? r) :=
  C05Doc.offset_resaved c s s' node node' incoming off? w d d' r hd hd' hr hop hnn hl

/-- where the order port is: after the value ports of the (instantiated) signature and the static
    input — `Hugr._order_port_offset`, i.e. `OpType::other_port` of `hugr-core/src/ops.rs` -/
theorem order_port_layout (i o : List Ty) (d : List String) (t : Ty) (p : Poly) (inst : Sig) (a : List TypeArg) :
    opOrderOff (.dfg i (some o) d) true = .ok (some i.length) ∧
    opOrderOff (.dfg i (some o) d) false = .ok (some o.length) ∧
    opOrderOff (.loadConst (some t)) true = .ok (some 1) ∧ opOrderOff (.loadConst (some t)) false = .ok (some 1) ∧
    opOrderOff (.call p inst a) true = .ok (some (inst.inp.length + 1)) ∧
    opOrderOff (.call p inst a) false = .ok (some inst.out.length) ∧
    opOrderOff (.input o) false = .ok (some o.length) ∧
    opOrderOff .module true = .ok none ∧ opOrderOff (.exitBlock (some o)) true = .ok none :=
  ⟨rfl, rfl, rfl, rfl, rfl, rfl, rfl, rfl, rfl⟩

/-- **Every edge is loaded**: loading adds exactly one link per edge of the document, in document
    order (multiplicity kept). -/
theorem foreign_edges_loaded {Ω : Type} (c : OpCodec Ω) (es : List Edge) (s s' : St Ω) (hl : LInv s.links)
    (h : loadEdges c es s = .ok s') :
    ∃ ls, Props.C02.loadedLinks c es s = .ok ls ∧ linksList s' = linksList s ++ ls ∧ LInv s'.links :=
  Props.C02.loadEdges_links c es s s' hl h

/-- **All metadata is preserved**: the entry re-saved for node `idx` is the entry the document had
    for it; absent member, short array, `null` and `{}` all mean "none" and are re-saved as `null`. -/
theorem foreign_meta_resaved (md : Option (List (Option Meta))) (idx : Nat) :
    C05Doc.savedEntry (getMeta md idx) =
      match md with
      | none => none
      | some l =>
        match l[idx]? with
        | some (some m) => C05Doc.savedEntry m
        | _ => none :=
  C05Doc.meta_resaved md idx

/-- **The envelope**: unknown top-level members (`version`, …) are ignored; `metadata` and `encoder`
    may be absent; an `encoder` string of another writer is accepted. -/
theorem foreign_envelope_extra (k : String) (v : Json) (hk : k ∉ ["nodes", "edges", "metadata", "encoder"])
    (pre post : List (String × Json)) : decDoc (.obj (pre ++ (k, v) :: post)) = decDoc (.obj (pre ++ post)) :=
  C05Doc.decDoc_extra_field k v hk pre post

theorem foreign_envelope_defaults (ns es : Json) :
    decDoc (.obj [("nodes", ns), ("edges", es)]) =
      decDoc (.obj [("nodes", ns), ("edges", es), ("metadata", .null), ("encoder", .null)]) :=
  C05Doc.decDoc_defaults ns es

/-- The document layer itself is lossless (C02): parsing the dumped document gives it back. -/
theorem document_layer_lossless (d : Doc) : ∃ d', decDoc (encDoc d) = .ok d' ∧ d'.nodes = d.nodes ∧
    d'.edges = d.edges ∧ d'.metadata = d.metadata ∧ d'.encoder = d.encoder :=
  Props.C02.doc_roundtrip d

/-- the order port of the operation the document's node `k` decodes to -/
def orderOfNode (f : Nat) (d : Doc) (k : Nat) (incoming : Bool) : Option Nat :=
  match d.nodes[k]? with
  | some j =>
    match decOp (f + 1) j with
    | .ok (op, _) =>
      match opOrderOff op incoming with
      | .ok r => r
      | .error _ => none
    | .error _ => none
  | none => none

/-- the nodes are listed root first and every other node after its parent (what every writer does:
    `canonical_order` in hugr-core, `_hierarchy_order` here) -/
def ParentsFirst (d : Doc) : Prop :=
  ∀ k (hk : k < d.nodes.length),
    match Proj.get "parent" (Proj.members d.nodes[k]) with
    | .int p => (k = 0 ∧ p = 0) ∨ (0 < k ∧ 0 ≤ p ∧ p < (k : Int))
    | _ => False

/-- FULL STATEMENT of direction (B) at document level (kept as a definition; its components are the
    `foreign_*` theorems above, which hold for whatever order `_hierarchy_order` lists the loaded nodes
    in — what is not proved is that this order is the document's own for a parents-first document):
    loading and saving gives, node for node, the projection of each node, every edge with its offsets
    (`savedOffset` for absent ones) and the metadata entries. -/
def ForeignPreserved (f : Nat) (enc : String) (j : Json) : Prop :=
  ∀ d s j', decDoc j = .ok d → ParentsFirst d → loadJson (opsCodec (f + 1)) j = .ok s →
    toJson (opsCodec (f + 1)) enc s = .ok j' →
    ∃ d', decDoc j' = .ok d' ∧
      d'.nodes = d.nodes.map (Proj.op (Proj.val f) f) ∧
      d'.edges = d.edges.map (fun e =>
        ⟨e.src, some (C05Doc.savedOffset e.srcOff (orderOfNode f d e.src false)),
         e.dst, some (C05Doc.savedOffset e.dstOff (orderOfNode f d e.dst true))⟩) ∧
      d'.metadata = some ((List.range d.nodes.length).map fun k => C05Doc.savedEntry (getMeta d.metadata k))

/-- What is proved of `ForeignPreserved`: for a loaded foreign document, **every node** is present with
    its decoded operation, parent and metadata, and **whatever position `_to_serial` gives it**, the node
    written there is the projection of the foreign node (with the parent's new position) together with
    the foreign metadata entry.  Edges: `foreign_offset_resaved`, `foreign_edges_loaded`. -/
theorem foreign_preserved_partial (f : Nat) (d : Doc) (s : St Op) (h : fromSerial (opsCodec (f + 1)) d = .ok s) :
    (∀ k (hk : k < d.nodes.length), ∃ op par nd, decOp (f + 1) d.nodes[k] = .ok (op, par) ∧
      getNode s k = .ok nd ∧ nd.op = op ∧ nd.md = getMeta d.metadata k ∧ nd.parent = C05Doc.parentOf k par) ∧
    (∀ (order : List Nat) (k : Nat) (hk : k < d.nodes.length) (r : Json × Option Meta),
      serialNode (opsCodec (f + 1)) s order k = .ok r →
      ∃ (par : Int) (p : Nat), Proj.get "parent" (Proj.members d.nodes[k]) = .int par ∧
        rekey order ((C05Doc.parentOf k par).getD k) = .ok p ∧
        r.1 = Proj.opAt (.int p) (Proj.val f) f d.nodes[k] ∧
        r.2 = C05Doc.savedEntry (getMeta d.metadata k)) :=
  ⟨foreign_nodes_loaded f d s h, fun order k hk r hs => foreign_node_resaved f d s h order k hk r hs⟩

/-- the parent member of a node a decoder accepts is the decoded parent -/
theorem parent_member_of_dec (f : Nat) (j : Json) (op : Op) (par : Int) (h : decOp (f + 1) j = .ok (op, par)) :
    Proj.get "parent" (Proj.members j) = .int par := by
  rw [decOp] at h
  exact (Proj.abs_decWith _ (Proj.val f) (fun jv v hv => Proj.abs_val (fnSig f) f jv v hv) f _ op par h).1

/-- **`ForeignPreserved`, with the conditions under which loading and saving succeed made explicit**:
    for a parents-first document whose nodes all decode to operations with a defined port layout
    (complete operations) and whose edges join existing nodes with non-negative explicit offsets
    (what the schema admits), loading succeeds, saving succeeds, and the saved document has, node for
    node at the same index, the projection of each foreign node, every edge in order with its offsets
    (an absent one re-saved at the order port's layout offset, or 0), and the metadata entries. -/
theorem foreign_preserved (f : Nat) (d : Doc) (hne : d.nodes ≠ []) (hpf : ParentsFirst d)
    (hdec : ∀ k (hk : k < d.nodes.length), ∃ op par, decOp (f + 1) d.nodes[k] = .ok (op, par) ∧
      ∀ inc, ∃ r, opOrderOff op inc = .ok r)
    (hedges : ∀ e ∈ d.edges, EdgeOKO d.nodes.length e) :
    ∃ s, fromSerial (opsCodec (f + 1)) d = .ok s ∧ ∃ d', toSerial (opsCodec (f + 1)) s = .ok d' ∧
      d'.nodes = d.nodes.map (Proj.op (Proj.val f) f) ∧
      d'.edges = d.edges.map (fun e =>
        ⟨e.src, some (C05Doc.savedOffset e.srcOff (orderOfNode f d e.src false)),
         e.dst, some (C05Doc.savedOffset e.dstOff (orderOfNode f d e.dst true))⟩) ∧
      d'.metadata = some ((List.range d.nodes.length).map fun k => C05Doc.savedEntry (getMeta d.metadata k)) := by
  -- total functions of the position
  let opOf : Nat → Op := fun k => match d.nodes[k]? with
    | some j => (match decOp (f + 1) j with | .ok (op, _) => op | .error _ => .input [])
    | none => .input []
  let parOf : Nat → Nat := fun k => match d.nodes[k]? with
    | some j => (match decOp (f + 1) j with | .ok (_, par) => par.toNat | .error _ => 0)
    | none => 0
  let ordOf : Nat → Bool → Option Nat := fun k inc => orderOfNode f d k inc
  let resaved : Nat → Json := fun k => match d.nodes[k]? with
    | some j => Proj.op (Proj.val f) f j
    | none => .null
  have hfacts : ∀ k (hk : k < d.nodes.length), ∃ op par, decOp (f + 1) d.nodes[k] = .ok (op, par) ∧
      opOf k = op ∧ (parOf k : Int) = par ∧ ((k = 0 ∧ parOf k = 0) ∨ (0 < k ∧ parOf k < k)) ∧
      ∀ inc, opOrderOff op inc = .ok (ordOf k inc) := by
    intro k hk
    obtain ⟨op, par, h1, h2⟩ := hdec k hk
    have hpm := parent_member_of_dec f _ op par h1
    have hp := hpf k hk
    rw [hpm] at hp
    simp only at hp
    have hpar0 : 0 ≤ par := by rcases hp with ⟨_, e⟩ | ⟨_, e, _⟩ <;> omega
    refine ⟨op, par, h1, ?_, ?_, ?_, ?_⟩
    · simp only [opOf, List.getElem?_eq_getElem hk, h1]
    · simp only [parOf, List.getElem?_eq_getElem hk, h1]; omega
    · simp only [parOf, List.getElem?_eq_getElem hk, h1]
      rcases hp with ⟨a, b⟩ | ⟨a, b, c⟩
      · left; exact ⟨a, by omega⟩
      · right; exact ⟨a, by omega⟩
    · intro inc
      obtain ⟨r, hr⟩ := h2 inc
      simp only [ordOf, orderOfNode, List.getElem?_eq_getElem hk, h1, hr]
  have hn : ForeignDoc (opsCodec (f + 1)) d opOf parOf ordOf resaved := by
    refine ⟨hne, ⟨?_, ?_, ?_⟩, ?_, ?_, hedges⟩
    · intro k j hj
      have hk : k < d.nodes.length := (List.getElem?_eq_some_iff.mp hj).1
      have hj' : d.nodes[k] = j := (List.getElem?_eq_some_iff.mp hj).2
      obtain ⟨op, par, h1, h2, h3, _, _⟩ := hfacts k hk
      subst hj'
      simp only [opsCodec, h1, h2, h3]
    · have h0 : 0 < d.nodes.length := List.length_pos_iff.mpr hne
      obtain ⟨_, _, _, _, _, h4, _⟩ := hfacts 0 h0
      rcases h4 with ⟨_, e⟩ | ⟨e, _⟩
      · exact e
      · omega
    · intro k hk0 hk
      obtain ⟨_, _, _, _, _, h4, _⟩ := hfacts k hk
      rcases h4 with ⟨e, _⟩ | ⟨_, e⟩
      · omega
      · exact e
    · intro k hk
      obtain ⟨op, par, h1, h2, h3, _, _⟩ := hfacts k hk
      have := abs_dec_op f d.nodes[k] op par h1
      simp only [opsCodec, h2, h3, this, resaved, List.getElem?_eq_getElem hk]
    · intro m inc hm
      obtain ⟨op, par, h1, h2, _, _, h5⟩ := hfacts m hm
      show opOrderOff (opOf m) inc = _
      rw [h2]; exact h5 inc
  obtain ⟨s, hs, d', hd', e1, e2, e3⟩ := foreign_load_save (opsCodec (f + 1)) d opOf parOf ordOf resaved hn
  refine ⟨s, hs, d', hd', ?_, ?_, ?_⟩
  · rw [e1]
    apply List.ext_getElem
    · simp
    · intro i h1 h2
      simp only [List.length_map, List.length_range] at h1
      simp [resaved, List.getElem?_eq_getElem h1]
  · rw [e2]
    apply List.map_congr_left
    intro e _
    have hoff : ∀ (o : Option Int) (r : Option Nat), resavedOff o r = C05Doc.savedOffset o r := by
      intro o r; cases o <;> cases r <;> rfl
    simp only [resavedEdge, hoff, ordOf]
  · rw [e3]; rfl

/-- Non-vacuity at document level, by evaluation of the model: a foreign document in the Rust
    writer's conventions — no `metadata`/`encoder` member, an extra `version`, a state-order edge
    between two dataflow nodes written with `null` offsets — loads; the edge sits on the order ports
    (`-1`), and is re-saved at the layout offset of the order port. -/
def demoDoc : Json :=
  .obj [("version", .str "live"),
    ("nodes", .arr [.obj [("parent", .int 0), ("op", .str "Module")],
      .obj [("parent", .int 0), ("op", .str "Extension"), ("name", .str "a")],
      .obj [("parent", .int 0), ("op", .str "Extension"), ("name", .str "b")]]),
    ("edges", .arr [.arr [.arr [.int 1, .null], .arr [.int 2, .null]], .arr [.arr [.int 1, .int 0], .arr [.int 2, .int 3]]]),
    ("metadata", .arr [.null, .obj [("k", .int 1)]])]

def demo : Except Serial.Err (List (Port × Port) × List Edge × Option (List (Option Meta))) := do
  let s ← loadJson labelCodec demoDoc
  let d ← toSerial labelCodec s
  pure (linksList s, d.edges, d.metadata)

example : (match demo with
    | .ok (ls, es, md) => ls == [((1, -1), (2, -1)), ((1, 0), (2, 3))] &&
        es == [⟨1, some 4, 2, some 4⟩, ⟨1, some 0, 2, some 3⟩] && md == some [none, some [("k", .int 1)], none]
    | .error _ => false) = true := by decide

end HugrVerif.Props.C05
