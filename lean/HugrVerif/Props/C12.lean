/-
  C12 — The model export is well scoped and faithful to the HUGR.
  Property theorems only; the model is `Export.lean` (mirror of the REPAIRED `hugr/model/export.py`), the
  specification predicates are `ExportSpec.lean`, helper lemmas `Proofs/Export.lean`, the translated
  attribute tables `Gen/ModelAttrs.lean` (regenerated from /repo on every run).

  What is proved for every store, and what is decided per program:

  * proved here, for every `export_node` / `export_region_*` call of the model exporter (so for every node
    and region of every exported module): ports per signature, region sources/targets, applied symbols,
    order hints and keys, metadata, constants not exported, one region per case, and the naming discipline
    of `link_name` (names coincide iff union-find roots coincide; the table is threaded monotonically through
    the whole export);
  * the FULL statements — the seven executable predicates of `ExportSpec` hold of `exportModule s` for every
    valid module-rooted store — are kept as `def … : Prop` below (`Faithful…`).  They additionally need
    (a) the lifting of the per-call facts along the parallel walk `mirrorModule`, and (b) that the executable
    closure `ExportSpec.component` computes the relation `Conn` (joined by edges, transitively) for which the
    naming theorem `linkName_eq_iff_connected` is proved; neither is proved.
    They are DECIDED PER PROGRAM: the driver evaluates the predicates on the model's module and on the
    implementation's module for every generated HUGR (`spec_model`, `spec` in the reply).
-/
import HugrVerif.Proofs.Export
import HugrVerif.Proofs.ExportClasses
import HugrVerif.Gen.ModelAttrs

namespace HugrVerif.Props.C12
open HugrVerif HugrVerif.Model HugrVerif.Export HugrVerif.ExportProofs

/-! ## the Python model classes expose exactly the attributes the Rust binding reads -/

/-- Every dataclass of `hugr.model` has exactly the fields (same names, same order) that
    `hugr-model/src/v0/ast/python.rs` reads with `getattr` when it extracts the class, and there is no class
    on one side only.  Both tables are regenerated from the sources on every run. -/
theorem python_attrs_eq_rust_attrs : Gen.ModelAttrs.pythonFields = Gen.ModelAttrs.rustReads := by decide

/-- When the binding constructs a Python object it passes one positional argument per dataclass field. -/
theorem rust_constructor_arity_eq_field_count :
    Gen.ModelAttrs.pythonFields.map (fun c => (c.1, c.2.length)) = Gen.ModelAttrs.rustCallArity := by decide

/-- The Lean data model (`Model.lean`) has the same classes and fields. -/
theorem attrs_table : Model.modelledFields = Gen.ModelAttrs.pythonFields := by decide

/-! ## link names -/

/-- **Core**: two `link_name` calls of one export run return the same name iff the two ports have the same
    union-find root (`rep`, the abstraction of `self.link_ports[port]`): names depend only on the partition. -/
theorem linkName_eq_iff (cs : Classes) (st : Names) (h : NamesInv st) (p q : DPort)
    (st2 : Names) (hext : Extends (linkName cs st p).2 st2) (h2 : NamesInv st2) :
    (linkName cs st2 q).1 = (linkName cs st p).1 ↔ rep cs q = rep cs p :=
  linkName_eq_iff_rep cs st h p q st2 hext h2

/-- **The union-find abstraction is the component partition**: after `for a, b in hugr.links(): union(a, b)`
    two ports have the same root iff edges of the HUGR join them, transitively (`Conn`). -/
theorem partition_is_components (links : List (Port × Port)) (p q : DPort) :
    rep (classes links) p = rep (classes links) q ↔ Conn links p q := rep_eq_iff_conn links p q

/-- **LinkFaithful for `link_name`**: two calls of one export run return the same name iff an edge of the
    HUGR joins the two ports (transitively). -/
theorem linkName_eq_iff_connected (links : List (Port × Port)) (st : Names) (h : NamesInv st) (p q : DPort)
    (st2 : Names) (hext : Extends (linkName (classes links) st p).2 st2) (h2 : NamesInv st2) :
    (linkName (classes links) st2 q).1 = (linkName (classes links) st p).1 ↔ Conn links q p :=
  (linkName_eq_iff_rep _ st h p q st2 hext h2).trans (rep_eq_iff_conn links q p)

-- (`NoHyperedge` is a consequence for valid HUGRs only — one source per in-port outside CFGs — and is decided
-- per program, not claimed here.)
example : Conn [((1, 0), (2, 0))] ⟨.out, 1, 0⟩ ⟨.inc, 2, 0⟩ := Conn.link (l := ((1, 0), (2, 0))) (by simp)

example : NamesInv [] := namesInv_nil
example : Extends (linkName [] [] (inPort 1 0)).2 (linkName [] [] (inPort 1 0)).2 := Extends.refl _

/-- The table of link names is threaded through the whole export: every `export_node` call (with everything
    it exports below the node) only appends entries and keeps the table well formed — so `linkName_eq_iff`
    applies to any two listed ports of an exported module. -/
theorem link_names_threaded (dfuel fuel : Nat) (cs : Classes) (s : St) (st st' : Names) (n : Nat)
    (r : Option Node) (h : exportNode dfuel fuel cs s st n = .ok (r, st')) :
    Extends st st' ∧ (NamesInv st → NamesInv st') :=
  exportNode_good dfuel fuel cs s st n r st' h

/-! ## ports per signature [F22, F23] -/

/-- An exported node lists exactly the value ports of the layout table of the specification (§4.1;
    control-flow ports for a basic block) — not the store's tracked counters. -/
theorem ports_per_signature_partial {dfuel fuel : Nat} {cs : Classes} {s : St} {st st' : Names} {n : Nat} {nd : Node}
    (h : exportNode dfuel (fuel + 1) cs s st n = .ok (some nd, st')) :
    ∃ d k, Store.getNode s n = .ok d ∧
      ExportSpec.layout d.op = some (nd.inputs.length, nd.outputs.length, k) := by
  obtain ⟨d, ni, no, hd, hp, hi, ho⟩ := exportNode_ports h
  have hx : ExportSpec.isExit d.op = false := by
    -- an `ExitBlock` is never exported as a node (`export_node` raises "Unknown operation")
    obtain ⟨d', _, _, _, hd', _, _, parts, hop, _⟩ := exportNode_ok h
    rw [hd] at hd'; cases hd'
    cases hdop : d.op <;> simp [ExportSpec.isExit]
    simp [exportOp, hdop] at hop
  obtain ⟨k, hk⟩ := numValuePorts_layout hp hx
  exact ⟨d, k, hd, by rw [hi, ho]; exact hk⟩

/-- The layout table is the one the signatures of the C06 specification give (rows of `HasSig`). -/
theorem layout_agrees_with_signatures {op : Op} {sig : Sig} {i o k : Nat}
    (h : ExportSpec.layout op = some (i, o, k)) (hs : Spec.HasSig op sig) :
    sig.inp.length = i ∧ sig.out.length = o := layout_hasSig h hs

/-- Region sources: one per type of the region's `Input` node. -/
theorem region_sources_partial {rec : Rec} {cs : Classes} {s : St} {st st' : Names} {p : Nat} {r : Region}
    (h : exportRegionDfg rec cs s st p = .ok (r, st'))
    {pre post : List Nat} {c : Nat} {ts : List Ty} (hk : ExportSpec.childIdxs s p = pre ++ c :: post)
    (hc : getOp s c = .ok (.input ts)) (hpost : ∀ x ∈ post, ∀ ts', getOp s x ≠ .ok (.input ts')) :
    r.sources.length = ts.length := exportRegionDfg_sources h hk hc hpost

/-- Region targets: one per type of the region's `Output` node. -/
theorem region_targets_partial {rec : Rec} {cs : Classes} {s : St} {st st' : Names} {p : Nat} {r : Region}
    (h : exportRegionDfg rec cs s st p = .ok (r, st'))
    {pre post : List Nat} {c : Nat} {ts : List Ty} (hk : ExportSpec.childIdxs s p = pre ++ c :: post)
    (hc : getOp s c = .ok (.output (some ts))) (hpost : ∀ x ∈ post, ∀ ts', getOp s x ≠ .ok (.output ts')) :
    r.targets.length = ts.length := exportRegionDfg_targets h hk hc hpost

/-- A control-flow region has exactly one source. -/
theorem cfg_region_source_partial {rec : Rec} {cs : Classes} {s : St} {st st' : Names} {p : Nat} {r : Region}
    (h : exportRegionCfg rec cs s st p = .ok (r, st')) : r.sources.length = 1 ∧ r.kind = .controlFlow :=
  exportRegionCfg_source h

/-! ## calls resolve [F21] -/

/-- The symbol an exported `Call` applies is the symbol under which the function node its static input is
    linked to is exported; if that node is a child of the module root, the symbol is defined or declared in
    the exported module. -/
theorem calls_resolve_partial {dfuel fuel fuel' : Nat} {cs : Classes} {s : St} {st st' : Names} {n : Nat}
    {nd : Node} {d : Store.NodeData Op Serial.Meta} {p : Poly} {inst : Sig} {args : List TypeArg} {m : Module}
    (hd : Store.getNode s n = .ok d) (hop : d.op = .call p inst args)
    (h : exportNode dfuel (fuel + 1) cs s st n = .ok (some nd, st'))
    (hm : exportModule dfuel (fuel' + 1) s = .ok m) :
    ∃ f name,
      findStaticSrc s n d.op isFunctionKind (incomingOffsets s d.numInps) = .ok (some f) ∧
      ExportSpec.appliedSymbol d.op nd.operation = some (mangleName f name) ∧
      (f ∈ ExportSpec.childIdxs s s.root → mangleName f name ∈ ExportSpec.funcSymbolsRegion m.root) := by
  obtain ⟨f, name, ins, outs, fargs, hs, hk, ho⟩ := exportNode_call hd hop h
  refine ⟨f, name, hs, ?_, fun hf => module_defines_func hm hf hk⟩
  rw [ho, hop]; rfl

/-- The same for an exported `LoadFunc`. -/
theorem load_func_resolves_partial {dfuel fuel fuel' : Nat} {cs : Classes} {s : St} {st st' : Names} {n : Nat}
    {nd : Node} {d : Store.NodeData Op Serial.Meta} {p : Poly} {inst : Sig} {args : List TypeArg} {m : Module}
    (hd : Store.getNode s n = .ok d) (hop : d.op = .loadFunc p inst args)
    (h : exportNode dfuel (fuel + 1) cs s st n = .ok (some nd, st'))
    (hm : exportModule dfuel (fuel' + 1) s = .ok m) :
    ∃ f name,
      findStaticSrc s n d.op isFunctionKind (incomingOffsets s d.numInps) = .ok (some f) ∧
      ExportSpec.appliedSymbol d.op nd.operation = some (mangleName f name) ∧
      (f ∈ ExportSpec.childIdxs s s.root → mangleName f name ∈ ExportSpec.funcSymbolsRegion m.root) := by
  obtain ⟨f, name, sig, fargs, hs, hk, ho⟩ := exportNode_loadFunc hd hop h
  refine ⟨f, name, hs, ?_, fun hf => module_defines_func hm hf hk⟩
  rw [ho, hop]; rfl

/-! ## order hints [F20] -/

/-- A state-order edge `c → x` between two exported, non-boundary children of a dataflow region appears as
    the hint `(c, x)` in the region's metadata, node `c` carries the key `c` and node `x` the key `x`
    (all order neighbours of the two nodes being live nodes). -/
theorem order_hints_partial {dfuel fuel : Nat} {cs : Classes} {s : St} {st st' : Names} {p : Nat} {r : Region}
    (h : exportRegionDfg (exportNode dfuel (fuel + 1) cs s) cs s st p = .ok (r, st'))
    {c x : Nat} {oc ox : Op} (hc : c ∈ ExportSpec.childIdxs s p)
    (hoc : getOp s c = .ok oc) (hci : isInput oc = false) (hco : isOutput oc = false)
    (hcc : ExportSpec.isConst oc = false)
    (hx : x ∈ orderSuccs s c) (hc' : c ∈ orderPreds s x)
    (hox : getOp s x = .ok ox) (hxo : isOutput ox = false)
    (live : ∀ n ∈ [c, x], (∀ y ∈ orderSuccs s n, ∃ oy, getOp s y = .ok oy) ∧
                          (∀ y ∈ orderPreds s n, ∃ oy, getOp s y = .ok oy)) :
    orderHintTerm c x ∈ r.metas ∧
    (∀ st1 st2 nd, exportNode dfuel (fuel + 1) cs s st1 c = .ok (some nd, st2) → orderKeyTerm c ∈ nd.metas) ∧
    (∀ st1 st2 nd, exportNode dfuel (fuel + 1) cs s st1 x = .ok (some nd, st2) → orderKeyTerm x ∈ nd.metas) := by
  have hrec : ∀ st r, exportNode dfuel (fuel + 1) cs s st c = .ok r → r.1.isSome = true := by
    intro st1 r1 hr
    obtain ⟨o, st2⟩ := r1
    cases o with
    | some _ => rfl
    | none =>
      obtain ⟨d, v, hd, hv⟩ := exportNode_none hr
      have : oc = .const v := by
        have : getOp s c = .ok d.op := by simp [getOp, hd]
        rw [hoc] at this; rw [← hv]; exact Except.ok.inj this
      subst this
      simp [ExportSpec.isConst] at hcc
  refine ⟨exportRegionDfg_hints h hc hoc hci hco hrec hx hox hxo, ?_, ?_⟩
  · intro st1 st2 nd hn
    obtain ⟨d, b, _, hb, hm⟩ := exportNode_metas hn
    have := needsOrderKey_of_succ (live c (by simp)).1 hx hox hxo
    rw [this] at hb; cases hb
    rw [hm]; simp
  · intro st1 st2 nd hn
    obtain ⟨d, b, _, hb, hm⟩ := exportNode_metas hn
    have := needsOrderKey_of_pred (live x (by simp)).1 (live x (by simp)).2 hc' hoc hci
    rw [this] at hb; cases hb
    rw [hm]; simp

/-! ## metadata -/

/-- The metadata of an exported node is carried over exactly: the `compat.meta_json` entries of its `meta`
    are the items of the HUGR node's metadata, in order, each denoting the item's JSON value. -/
theorem meta_carried_partial {dfuel fuel : Nat} {cs : Classes} {s : St} {st st' : Names} {n : Nat} {nd : Node}
    (h : exportNode dfuel (fuel + 1) cs s st n = .ok (some nd, st')) :
    ∃ d, Store.getNode s n = .ok d ∧
      ExportSpec.metaJsonEntries nd.metas = d.md.map (fun kv => (kv.1, jsonText true kv.2)) ∧
      ExportSpec.metaMatches d.md (ExportSpec.metaJsonEntries nd.metas) = true := by
  obtain ⟨d, b, hd, _, hm⟩ := exportNode_metas h
  have e : ExportSpec.metaJsonEntries nd.metas = d.md.map (fun kv => (kv.1, jsonText true kv.2)) := by
    rw [hm, metaJsonEntries_append, metaJsonEntries_metaTerms]
    cases b <;> simp [orderKey_not_metaJson, ExportSpec.metaJsonEntries]
  exact ⟨d, hd, e, by rw [e]; exact metaMatches_self d.md⟩

/-! ## regions mirror the hierarchy -/

/-- Only constants are not exported as nodes (they are inlined into their loads). -/
theorem only_constants_not_exported {dfuel fuel : Nat} {cs : Classes} {s : St} {st st' : Names} {n : Nat}
    (h : exportNode dfuel (fuel + 1) cs s st n = .ok (none, st')) :
    ∃ d v, Store.getNode s n = .ok d ∧ d.op = .const v := exportNode_none h

/-- A conditional gets one region per case, in the order of the cases. -/
theorem cases_keep_count {rec : Rec} {cs : Classes} {s : St} {st st' : Names} {kids : List Nat} {rs : List Region}
    (h : exportCaseRegions rec cs s st kids = .ok (rs, st')) : rs.length = kids.length :=
  exportCaseRegions_length h

/-- The module region holds the exported children of the root: every child's export is among them. -/
theorem module_children_partial {dfuel fuel : Nat} {s : St} {m : Module} {c : Nat}
    (hm : exportModule dfuel fuel s = .ok m) (hc : c ∈ ExportSpec.childIdxs s s.root) :
    m.root.kind = .module ∧ m.root.sources = [] ∧ m.root.targets = [] ∧
    ∃ st1 r st2, exportNode dfuel fuel (classes (Store.linksList s)) s st1 c = .ok (r, st2) ∧
      ∀ nd, r = some nd → nd ∈ m.root.children := by
  obtain ⟨d, nds, st', hd, hch, hroot⟩ := exportModuleWith_ok hm
  have hc' : c ∈ d.children.map (·.1) := by simpa [ExportSpec.childIdxs, hd] using hc
  obtain ⟨st1, r, st2, hr, hmem⟩ := exportChildren_mem hch hc'
  rw [hroot]
  exact ⟨rfl, rfl, rfl, st1, r, st2, hr, hmem⟩

/-! ## the full statements (decided per program, not proved for all stores) -/

/-- fuel the driver uses -/
def exportOf (s : St) : Except Err Module := exportModule 0 (defaultFuel s) s

/-- `s` is exported and the verdict named `v` of the specification holds of the result. -/
def Verdict (v : String) (s : St) : Prop :=
  ∀ m, exportOf s = .ok m → (ExportSpec.verdicts s m).lookup v = some true

/-- FULL statements: for every valid module-rooted store `WF s` (the stores `Hugr.load_json` produces from
    the documents of well-formed builder programs). -/
def FaithfulPortsPerSignature (WF : St → Prop) : Prop := ∀ s, WF s → Verdict "PortsPerSignature" s
def FaithfulLinks (WF : St → Prop) : Prop := ∀ s, WF s → Verdict "LinkFaithful" s ∧ Verdict "NoHyperedge" s
def FaithfulCallsResolve (WF : St → Prop) : Prop := ∀ s, WF s → Verdict "CallsResolve" s
def FaithfulOrderHints (WF : St → Prop) : Prop := ∀ s, WF s → Verdict "OrderHints" s
def FaithfulMetaCarried (WF : St → Prop) : Prop := ∀ s, WF s → Verdict "MetaCarried" s
def FaithfulRegionsMirror (WF : St → Prop) : Prop := ∀ s, WF s → Verdict "RegionsMirror" s

/-! ## a concrete module: the theorems' hypotheses are satisfiable, and the predicates have teeth -/

namespace Ex
def B : Ty := .unitSum 2
def fsig : Poly := ⟨[], ⟨[B], [B], []⟩⟩

/-- module { f(Bool)->Bool = id;  main(Bool)->Bool = f(f(x)) with an order edge between the two calls,
    metadata on the first call } -/
def build : Except Store.Err St := do
  let s : St := Store.init Op.module []
  let (s, _) ← Store.addNode s (.funcDefn "f" [B] [] (some [B])) (some 0) none []        -- 1
  let (s, _) ← Store.addNode s (.input [B]) (some 1) none []                            -- 2
  let (s, _) ← Store.addNode s (.output (some [B])) (some 1) none []                    -- 3
  let (s, _) ← Store.addNode s (.funcDefn "main" [B] [] (some [B])) (some 0) none []     -- 4
  let (s, _) ← Store.addNode s (.input [B]) (some 4) none []                            -- 5
  let (s, _) ← Store.addNode s (.output (some [B])) (some 4) none []                    -- 6
  let (s, _) ← Store.addNode s (.call fsig fsig.body []) (some 4) none [("k", .int 1)]  -- 7
  let (s, _) ← Store.addNode s (.call fsig fsig.body []) (some 4) none []               -- 8
  let s ← Store.addLink s (2, 0) (3, 0)
  let s ← Store.addLink s (1, 0) (7, 1)
  let s ← Store.addLink s (1, 0) (8, 1)
  let s ← Store.addLink s (5, 0) (7, 0)
  let s ← Store.addLink s (7, 0) (8, 0)
  let s ← Store.addLink s (8, 0) (6, 0)
  Store.addOrderLink s 7 8

def store : St := match build with | .ok s => s | .error _ => Store.init Op.module []

def modl : Option Module := (exportOf store).toOption

mutual
  def mapNode (fn : Node → Node) (fr : Region → Region) : Node → Node
    | .mk o i ou regions m sg => fn (.mk o i ou (mapRegions fn fr regions) m sg)
  def mapRegion (fn : Node → Node) (fr : Region → Region) : Region → Region
    | .mk k so t children m sg => fr (.mk k so t (mapNodes fn fr children) m sg)
  def mapNodes (fn : Node → Node) (fr : Region → Region) : List Node → List Node
    | [] => []
    | n :: ns => mapNode fn fr n :: mapNodes fn fr ns
  def mapRegions (fn : Node → Node) (fr : Region → Region) : List Region → List Region
    | [] => []
    | r :: rs => mapRegion fn fr r :: mapRegions fn fr rs
end

def verdictOf (v : String) (f : Module → Module) : Option Bool :=
  modl.bind fun m => (ExportSpec.verdicts store (f m)).lookup v

/-- [F20] as it was: the region metadata is dropped -/
def dropRegionMeta (m : Module) : Module :=
  ⟨mapRegion id (fun | .mk k so t c _ sg => .mk k so t c [] sg) m.root⟩
/-- [F22] as it was: a call lists its static function port as an extra input (link "0" of the function) -/
def listStaticPort (m : Module) : Module :=
  ⟨mapRegion (fun | .mk (.custom t) i ou r mt sg => .mk (.custom t) (i ++ ["s"]) ou r mt sg | n => n) id m.root⟩
/-- [F21] as it was: the applied symbol is not one of the module -/
def wrongSymbol (m : Module) : Module :=
  ⟨mapRegion (fun
    | .mk (.custom (.apply "core.call" [a, b, .apply _ args])) i ou r mt sg =>
      .mk (.custom (.apply "core.call" [a, b, .apply "_f_7" args])) i ou r mt sg
    | n => n) id m.root⟩
/-- node metadata dropped -/
def dropNodeMeta (m : Module) : Module :=
  ⟨mapRegion (fun | .mk o i ou r _ sg => .mk o i ou r [] sg) id m.root⟩
/-- all listed ports get the same name -/
def oneName (m : Module) : Module :=
  ⟨mapRegion (fun | .mk o i ou r mt sg => .mk o (i.map fun _ => "0") (ou.map fun _ => "0") r mt sg) id m.root⟩
end Ex

/-- the example store is the intended one and its export succeeds -/
example : Ex.build.toOption.isSome = true := by decide +kernel
example : Ex.modl.isSome = true := by decide +kernel
/-- all seven predicates hold of the model's export of the example … -/
example : Ex.modl.map (ExportSpec.holds Ex.store) = some true := by decide +kernel
/-- … and each one fails on the corresponding corruption of it (the predicates have teeth) -/
example : Ex.verdictOf "OrderHints" Ex.dropRegionMeta = some false := by decide +kernel
example : Ex.verdictOf "PortsPerSignature" Ex.listStaticPort = some false := by decide +kernel
example : Ex.verdictOf "CallsResolve" Ex.wrongSymbol = some false := by decide +kernel
example : Ex.verdictOf "MetaCarried" Ex.dropNodeMeta = some false := by decide +kernel
example : Ex.verdictOf "LinkFaithful" Ex.oneName = some false := by decide +kernel
example : Ex.verdictOf "OrderHints" id = some true := by decide +kernel
/-- instances of the hypotheses of the per-call theorems: node 7 (a call) and node 1 (a definition) export -/
example : (exportNode 0 9 (classes (Store.linksList Ex.store)) Ex.store [] 7).toOption.isSome = true := by
  decide +kernel
example : (exportRegionDfg (exportNode 0 9 (classes (Store.linksList Ex.store)) Ex.store)
    (classes (Store.linksList Ex.store)) Ex.store [] 4).toOption.isSome = true := by decide +kernel
example : 7 ∈ ExportSpec.childIdxs Ex.store 4 ∧ 8 ∈ orderSuccs Ex.store 7 ∧ 7 ∈ orderPreds Ex.store 8 := by
  decide +kernel
example : ExportSpec.childIdxs Ex.store 4 = [] ++ 5 :: [6, 7, 8] := by decide +kernel
example : Spec.HasSig (.call Ex.fsig Ex.fsig.body []) ⟨[Ex.B], [Ex.B], []⟩ := Spec.HasSig.call _ _ _ _

end HugrVerif.Props.C12
