/-
  C16 — Node handles enumerate exactly their operation's value outputs.
  Property theorems only; helper lemmas are in `Proofs/Handle.lean`, the model in `Handle.lean`,
  the specification of slicing (`range(n)[s:e:k]`, CPython) in `Py/Slice.lean`.

  Nothing is claimed about non-positive steps (the statement excludes them); the model still follows
  the code there so that the correspondence check covers those inputs.
-/
import HugrVerif.Proofs.Handle
import HugrVerif.Proofs.Build
import HugrVerif.Proofs.Ops

namespace HugrVerif.Props.C16
open HugrVerif HugrVerif.Handle HugrVerif.Py

/-- The step a slice uses: `None` means 1. -/
def stepOf : Option Int → Int
  | none => 1
  | some k => k

/-- "step > 0, including None". -/
def PosStep (k : Option Int) : Prop := ∀ k', k = some k' → 0 < k'

/-- "the bound is None or ≥ -n". -/
def BoundOk (n : Nat) (b : Option Int) : Prop := ∀ b', b = some b' → -(n : Int) ≤ b'

/-! ### Integer indexing, known count -/

/-- Known count `n`: integer `i` is accepted with Python's meaning (`i mod n`) iff `-n ≤ i < n`. -/
theorem index_ok_iff (h : Node) (n : Nat) (hn : h.numOut = some n) (i : Int) :
    getInt h i = .ok (out h (i % (n : Int))) ↔ (-(n : Int) ≤ i ∧ i < n) := by
  unfold getInt
  rw [hn, normalizeIndex_strict]
  by_cases c : -(n : Int) ≤ i ∧ i < n <;> simp [c]

/-- … and raises `IndexError` otherwise (and nothing else ever). -/
theorem index_err_iff (h : Node) (n : Nat) (hn : h.numOut = some n) (i : Int) :
    getInt h i = .error .indexError ↔ ¬ (-(n : Int) ≤ i ∧ i < n) := by
  unfold getInt
  rw [hn, normalizeIndex_strict]
  by_cases c : -(n : Int) ≤ i ∧ i < n <;> simp [c]

/-- The same, phrased against the specification of `range(n)[i]`. -/
theorem index_eq_range_item (h : Node) (n : Nat) (hn : h.numOut = some n) (i : Int) :
    getInt h i = match Slice.item n i with
      | some j => .ok (out h (j : Int))
      | none => .error .indexError := by
  unfold getInt Slice.item
  rw [hn, normalizeIndex_strict]
  by_cases c : -(n : Int) ≤ i ∧ i < n
  · have e := emod_of_range n i c.1 c.2
    by_cases h0 : 0 ≤ i
    · have a : ¬ i < 0 := by omega
      have b : ¬ i ≥ (n : Int) := by omega
      simp only [c, and_self, if_true, a, b, if_false]
      rw [e]; simp only [h0, if_true]
      congr 2; omega
    · have a : i < 0 := by omega
      have b : ¬ (i + (n : Int) < 0) := by omega
      simp only [c, and_self, if_true, a, b, if_false]
      rw [e]; simp only [h0, if_false]
      congr 2; omega
  · simp only [c, if_false]
    by_cases a : i < 0
    · have b : i + (n : Int) < 0 := by omega
      simp [a, b]
    · have b : i ≥ (n : Int) := by omega
      simp [a, b]

/-- A tuple of integers is indexed element by element (`(self[i] for i in xs)`). -/
theorem tuple_ok (h : Node) (n : Nat) (hn : h.numOut = some n) (xs : List Int)
    (hx : ∀ i ∈ xs, -(n : Int) ≤ i ∧ i < n) :
    getTuple h xs = .ok (xs.map fun i => out h (i % (n : Int))) :=
  collect_ok (getInt h) (fun i => out h (i % (n : Int))) xs
    (fun i hi => (index_ok_iff h n hn i).mpr (hx i hi))

/-! ### Slicing, known count, positive step -/

/-- Known count `n`, step `> 0` (or `None`), both bounds `None` or `≥ -n`: the slice is exactly
    `range(n)[s:e:k]` (CPython semantics, positive overflow clamped), as output ports in order. -/
theorem slice_eq_range (h : Node) (n : Nat) (hn : h.numOut = some n) (s e k : Option Int)
    (hk : PosStep k) (hs : BoundOk n s) (he : BoundOk n e) :
    getSlice h s e k = .ok ((Slice.range n s e (stepOf k)).map (fun (j : Nat) => out h (j : Int))) := by
  obtain ⟨hkpos, hkeq⟩ := pyOr_step k hk
  have hstep : pyOr k 1 = stepOf k := by rw [hkeq]; cases k <;> rfl
  rw [hstep] at hkpos
  obtain ⟨stop1, hstop, hadj, hnone, hsome⟩ := adjStop_eq n (stepOf k) hkpos e
  have hb : -(n : Int) ≤ stop1 := by
    cases e with
    | none => rw [hnone rfl]; omega
    | some e' => rw [hsome e' rfl]; exact he e' rfl
  have ha : -(n : Int) ≤ pyOr s 0 := by
    cases s with
    | none => simp [pyOr]
    | some s' =>
      have := hs s' rfl
      simp only [pyOr]; split <;> omega
  unfold getSlice
  rw [hn, hstop]
  simp only [hstep]
  rw [sliceFrom_ok h n hn _ _ _ hkpos ha hb, ← adjStart_eq n _ hkpos s, ← hadj]
  congr 1
  unfold Slice.range Slice.positions
  rw [List.map_map, List.map_map]
  apply List.map_congr_left
  intro j hj
  simp only [Function.comp]
  have hp := positions_bounds n s e (stepOf k) hkpos
    (Slice.adjStart n (stepOf k) s + (j : Int) * stepOf k)
    (by unfold Slice.positions; exact List.mem_map.mpr ⟨j, hj, rfl⟩)
  congr 1; omega

/-- Known count `n`, step `> 0` (or `None`): `IndexError` iff a bound is below `-n`. -/
theorem slice_err_iff (h : Node) (n : Nat) (hn : h.numOut = some n) (s e k : Option Int)
    (hk : PosStep k) :
    getSlice h s e k = .error .indexError ↔
      ((∃ s', s = some s' ∧ s' < -(n : Int)) ∨ (∃ e', e = some e' ∧ e' < -(n : Int))) := by
  constructor
  · intro herr
    by_cases hs : BoundOk n s
    · by_cases he : BoundOk n e
      · rw [slice_eq_range h n hn s e k hk hs he] at herr; cases herr
      · right
        cases e with
        | none => exact absurd (fun _ h => by cases h) he
        | some e' =>
          refine ⟨e', rfl, ?_⟩
          apply Classical.byContradiction
          intro hc; exact he (fun b hb => by cases hb; omega)
    · left
      cases s with
      | none => exact absurd (fun _ h => by cases h) hs
      | some s' =>
        refine ⟨s', rfl, ?_⟩
        apply Classical.byContradiction
        intro hc; exact hs (fun b hb => by cases hb; omega)
  · intro hbad
    unfold getSlice
    rw [hn]
    rcases hbad with ⟨s', rfl, hlt⟩ | ⟨e', rfl, hlt⟩
    · have e2 : pyOr (some s') 0 = s' := by simp only [pyOr]; split <;> omega
      rw [e2]
      cases hsc : stopOrCount e (some n) with
      | none => cases e <;> simp_all [stopOrCount]
      | some stop1 => exact sliceFrom_err_start h n hn _ _ _ hlt
    · exact sliceFrom_err_stop h n hn _ _ _ hlt

/-- Hence, with a known count and a positive step, slicing never raises anything but `IndexError`. -/
theorem slice_ok_or_indexError (h : Node) (n : Nat) (hn : h.numOut = some n) (s e k : Option Int)
    (hk : PosStep k) :
    getSlice h s e k = .ok ((Slice.range n s e (stepOf k)).map (fun (j : Nat) => out h (j : Int))) ∨
    getSlice h s e k = .error .indexError := by
  by_cases hs : BoundOk n s
  · by_cases he : BoundOk n e
    · exact .inl (slice_eq_range h n hn s e k hk hs he)
    · right
      rw [slice_err_iff h n hn s e k hk]
      right
      cases e with
      | none => exact absurd (fun _ h => by cases h) he
      | some e' =>
        refine ⟨e', rfl, ?_⟩
        apply Classical.byContradiction
        intro hc; exact he (fun b hb => by cases hb; omega)
  · right
    rw [slice_err_iff h n hn s e k hk]
    left
    cases s with
    | none => exact absurd (fun _ h => by cases h) hs
    | some s' =>
      refine ⟨s', rfl, ?_⟩
      apply Classical.byContradiction
      intro hc; exact hs (fun b hb => by cases hb; omega)

/-- Slices of a handle only contain in-range positions: every yielded port is an output `j < n` of the
    handle's own node. -/
theorem slice_ports_in_range (n : Nat) (s e : Option Int) (k : Int) (hk : 0 < k) :
    ∀ j ∈ Slice.range n s e k, j < n := by
  intro j hj
  unfold Slice.range at hj
  simp only [List.mem_map] at hj
  obtain ⟨x, hx, rfl⟩ := hj
  have := positions_bounds n s e k hk x hx
  omega

/-! ### Iteration -/

theorem range_all (n : Nat) : Slice.range n none none 1 = List.range n := by
  have hl : Slice.sliceLen (Slice.adjStart n 1 none) (Slice.adjStop n 1 none) 1 = n := by
    rw [sliceLen_pos_step _ _ _ (by omega)]
    simp only [Slice.adjStart, Slice.adjStop]
    cases n with
    | zero => simp
    | succ m => simp
  show List.map Int.toNat (List.map (fun (j : Nat) => Slice.adjStart n 1 none + (j : Int) * 1)
    (List.range (Slice.sliceLen (Slice.adjStart n 1 none) (Slice.adjStop n 1 none) 1))) = List.range n
  rw [hl, List.map_map]
  have : (List.range n).map (Int.toNat ∘ fun (j : Nat) => Slice.adjStart n 1 none + (j : Int) * 1)
      = (List.range n).map id := by
    apply List.map_congr_left
    intro j _
    simp [Slice.adjStart]
  rw [this, List.map_id]

/-- Iterating a handle with known count `n` yields outputs `0 .. n-1` in order. -/
theorem iter_eq (h : Node) (n : Nat) (hn : h.numOut = some n) :
    iter h = .ok ((List.range n).map (fun (j : Nat) => out h (j : Int))) := by
  unfold iter outputs
  rw [slice_eq_range h n hn none none none (fun _ hh => by cases hh) (fun _ hh => by cases hh)
    (fun _ hh => by cases hh)]
  show Except.ok ((Slice.range n none none 1).map _) = _
  rw [range_all]

/-- `outputs()` is the same generator. -/
theorem outputs_eq_iter (h : Node) : outputs h = iter h := rfl

/-! ### Unknown count -/

/-- Unknown count: exactly the non-negative integers are accepted (unchanged); negatives raise `IndexError`. -/
theorem unknown_nonneg (h : Node) (hn : h.numOut = none) (i : Int) :
    getInt h i = if 0 ≤ i then .ok (out h i) else .error .indexError := by
  unfold getInt
  rw [hn, normalizeIndex_unknown]
  by_cases c : 0 ≤ i <;> simp [c]

/-- Unknown count: iteration (and `outputs()`, and any slice without a stop) raises `ValueError`. -/
theorem unknown_iter_err (h : Node) (hn : h.numOut = none) : iter h = .error .valueError := by
  unfold iter outputs getSlice
  rw [hn]; rfl

theorem unknown_open_slice_err (h : Node) (hn : h.numOut = none) (s k : Option Int) :
    getSlice h s none k = .error .valueError := by
  unfold getSlice
  rw [hn]; rfl

/-- The `assert` in `_normalize_index` can never fail. -/
theorem no_assertion_error (numOut : Option Nat) (i : Int) (ov : Bool) :
    normalizeIndex numOut i ov ≠ .error .assertionError :=
  normalizeIndex_never_assert numOut i ov

/-! ### Wires and port identity -/

/-- A node used as a wire is its output 0. -/
theorem wire_is_out0 (h : Node) :
    outPort h = out h 0 ∧ (outPort h).node = h ∧ (outPort h).offset = 0 ∧ (outPort h).dir = .outgoing :=
  ⟨rfl, rfl, rfl, rfl⟩

/-- … which is also what `h[0]` gives whenever that is defined (unknown count, or at least one output). -/
theorem wire_is_index0 (h : Node) (hc : h.numOut = none ∨ ∃ n, h.numOut = some (n + 1)) :
    getInt h 0 = .ok (outPort h) := by
  rcases hc with hn | ⟨n, hn⟩
  · rw [unknown_nonneg h hn]; rfl
  · have := (index_ok_iff h (n + 1) hn 0).mpr ⟨by omega, by omega⟩
    rw [this]; simp [out, outPort]

/-- Ports compare by node index, offset (and class, i.e. direction) only … -/
theorem port_eq_iff (p q : Handle.Port) :
    Port.eq p q = true ↔ (p.node.idx = q.node.idx ∧ p.offset = q.offset ∧ p.dir = q.dir) := by
  simp [Port.eq, Node.eq]
  constructor
  · rintro ⟨a, b, c⟩; exact ⟨b, c, a⟩
  · rintro ⟨a, b, c⟩; exact ⟨c, a, b⟩

/-- … and hash by node index and offset only. -/
theorem port_hash_iff (p q : Handle.Port) :
    Port.hashKey p = Port.hashKey q ↔ (p.node.idx = q.node.idx ∧ p.offset = q.offset) := by
  simp [Port.hashKey, Node.hashKey]

/-- Equal ports hash equally. -/
theorem port_eq_hash (p q : Handle.Port) (h : Port.eq p q = true) : Port.hashKey p = Port.hashKey q := by
  rw [port_eq_iff] at h
  exact (port_hash_iff p q).mpr ⟨h.1, h.2.1⟩

/-- Metadata and the known output count play no role in port (and node) identity. -/
theorem port_eq_ignores_metadata_and_count (a : Node) (md : List (String × String)) (c : Option Nat)
    (o : Int) (d : Direction) :
    Port.eq ⟨a, o, d⟩ ⟨{ a with metadata := md, numOut := c }, o, d⟩ = true ∧
    Port.hashKey ⟨a, o, d⟩ = Port.hashKey ⟨{ a with metadata := md, numOut := c }, o, d⟩ := by
  simp [Port.eq, Node.eq, Port.hashKey, Node.hashKey]

theorem node_eq_iff (a b : Node) : Node.eq a b = true ↔ a.idx = b.idx := by simp [Node.eq]

/-! ### Where handles get their count -/

/-- `Hugr.add_node(op, parent, num_outs=k)` returns a handle that knows `k`. -/
theorem addNode_handle_count (idx : Nat) (k : Option Nat) (md : List (String × String)) :
    (addNode idx k md).numOut = k ∧ (addNode idx k md).idx = idx := ⟨rfl, rfl⟩

/-- `add_op` (hence `add`, `extend`, `load`) returns a handle that knows `op.num_out`. -/
theorem addOp_handle_count (idx m : Nat) (md : List (String × String)) :
    (addOp idx m md).numOut = some m ∧ (addOp idx m md).idx = idx := ⟨rfl, rfl⟩

theorem call_handle_count (idx m : Nat) : (call idx m).numOut = some m ∧ (call idx m).idx = idx :=
  ⟨rfl, rfl⟩

/-- `_update_port_count` with an output count returns a handle that knows it (same node);
    without one it returns the handle unchanged. -/
theorem updatePortCount_count (node : Node) (ni : Option Nat) (k : Nat) :
    (updatePortCount node ni (some k)).numOut = some k ∧ (updatePortCount node ni (some k)).idx = node.idx := by
  cases ni <;> simp [updatePortCount, replaceNumOut]

theorem updatePortCount_none (node : Node) (ni : Option Nat) : updatePortCount node ni none = node := by
  cases ni <;> simp [updatePortCount]

theorem container_handle_count (idx m : Nat) :
    (containerAfterOutputs idx m).numOut = some m ∧ (containerAfterOutputs idx m).idx = idx := ⟨rfl, rfl⟩

theorem inserted_handle_count (idx m : Nat) :
    (inserted idx m).numOut = some m ∧ (inserted idx m).idx = idx := ⟨rfl, rfl⟩

/-- Putting it together: a handle from `add_op` for an operation with `m` value outputs iterates as
    exactly its outputs `0 .. m-1`. -/
theorem addOp_iter (idx m : Nat) (md : List (String × String)) :
    iter (addOp idx m md) = .ok ((List.range m).map (fun (j : Nat) => out (addOp idx m md) (j : Int))) :=
  iter_eq _ m (addOp_handle_count idx m md).1

/-! ### Non-vacuity -/

/-- Hypotheses of `slice_eq_range` are satisfiable with negative, overflowing and `None` bounds. -/
example : PosStep (some 2) ∧ BoundOk 5 (some (-5)) ∧ BoundOk 5 (some 99) ∧ BoundOk 5 none ∧ PosStep none := by
  refine ⟨?_, ?_, ?_, ?_, ?_⟩ <;> intro x hx <;> cases hx <;> omega

example : (addOp 3 5).numOut = some 5 ∧ (addNode 3 none).numOut = none ∧ (addNode 3 (some 0)).numOut = some 0 :=
  ⟨rfl, rfl, rfl⟩
example : getTuple (addOp 3 5) [0, -1, 4] = .ok [out (addOp 3 5) 0, out (addOp 3 5) 4, out (addOp 3 5) 4] := by rfl
example : Slice.range 5 (some (-5)) (some 99) 2 = [0, 2, 4] := by decide
example : Slice.range 5 (some (-2)) none 1 = [3, 4] := by decide
example : Slice.range 5 (some 7) (some 9) 1 = [] := by decide
example : Slice.range 7 (some 1) (some (-1)) 3 = [1, 4] := by decide
example : Slice.range 5 none none (-2) = [4, 2, 0] := by decide
example : (getSlice (addOp 3 5) (some (-5)) (some 99) (some 2)).toOption.map (·.map (·.offset)) = some [0, 2, 4] := by
  decide
example : getSlice (addOp 3 5) (some (-6)) none none = .error .indexError := by rfl
example : getSlice (addOp 3 5) none (some (-6)) (some 3) = .error .indexError := by rfl
example : getInt (addOp 3 5) (-5) = .ok (out (addOp 3 5) 0) := by rfl
example : getInt (addOp 3 5) 5 = .error .indexError := by rfl
example : getInt (addOp 3 0) 0 = .error .indexError := by rfl
example : getInt (addNode 3 none) 7 = .ok (out (addNode 3 none) 7) := by rfl
example : getInt (addNode 3 none) (-1) = .error .indexError := by rfl
example : iter (addNode 3 none) = .error .valueError := by rfl
example : iter (addOp 3 0) = .ok [] := by rfl
/-- Outside the statement (negative step), recorded only to show the model follows the code there:
    `range(3)[5:0:-1]` is `[2, 1]` but the handle raises. -/
example : getSlice (addOp 3 3) (some 5) (some 0) (some (-1)) = .error .indexError := by rfl
example : Port.eq (out (addOp 3 5 [("a", "b")]) 1) (out (addNode 3 none) 1) = true := by decide
example : Port.eq (out (addOp 3 5) 1) (inp (addOp 3 5) 1) = false := by decide

end HugrVerif.Props.C16

/-! ### Where handles get their count — in the builder model (`Build/State.lean`, tied to `hugr/build/*` by the
    C13 / C15 / C01 correspondence streams)

  The statements of the section "Where handles get their count" above are about the thin provenance model of
  `Handle.lean`; the ones below are about the full builder-state model: the handle a builder call returns carries
  the number of value outputs of the operation the HUGR holds at that node after wiring (`add_op`: read off the
  completed operation), of the instantiated signature (`call`), the number of wires given to `set_outputs`
  (container builders), the output-port count recorded for the inserted root (`insert_*`). -/

namespace HugrVerif.Props.C16.BuilderModel
open HugrVerif HugrVerif.Build HugrVerif.Build.BuildState


theorem getHugr_setHugr (st : BuildState) (hid : Nat) (s0 s : St) (h : st.getHugr hid = .ok s0) :
    (st.setHugr hid s).getHugr hid = .ok s := by
  unfold BuildState.getHugr at h ⊢
  unfold BuildState.setHugr
  cases hx : st.hugrs[hid]? with
  | none => simp [hx] at h
  | some x =>
    have hlt : hid < st.hugrs.length := by
      rcases Nat.lt_or_ge hid st.hugrs.length with h1 | h1
      · exact h1
      · simp [List.getElem?_eq_none h1] at hx
    simp [hlt]

/-- `add_op` of the builder model: the handle knows `num_out` of the operation the node carries after wiring. -/
theorem build_addOp_handle (st st' : BuildState) (bi : Nat) (op : Op) (ws : List Wire) (md : Serial.Meta) (h : Build.Handle)
    (hok : addOp st bi op ws md = .ok (st', h)) :
    ∃ r s' op' k, st.getB bi = .ok r ∧ st'.getHugr r.hid = .ok s' ∧ nodeOp s' h.1 = .ok op' ∧
      Op.numOut op' = .ok k ∧ h.2 = some k := by
  unfold addOp at hok
  split at hok
  · cases hok
  · rename_i r hr
    split at hok
    · cases hok
    · rename_i s hs
      split at hok
      · cases hok
      · rename_i s1 n h1
        split at hok
        · cases hok
        · rename_i s2 tys h2
          split at hok
          · cases hok
          · rename_i op' hop
            split at hok
            · cases hok
            · rename_i k hk
              cases hok
              exact ⟨r, s2, op', k, hr, getHugr_setHugr st r.hid s s2 hs, hop, hk, rfl⟩

theorem getB_setHugr (st : BuildState) (hid bi : Nat) (s : St) : (st.setHugr hid s).getB bi = st.getB bi := rfl

/-- `call` of the builder model: the handle knows the number of outputs of the *instantiated* signature of the
    `Call` operation that was built [F08]. -/
theorem build_call_handle (st st' : BuildState) (bi func : Nat) (ws : List Wire) (inst : Option Sig)
    (targs : Option (List TypeArg)) (h : Build.Handle) (hok : call st bi func ws inst targs = .ok (st', h)) :
    ∃ r s sig cop k, st.getB bi = .ok r ∧ st.getHugr r.hid = .ok s ∧ fnSig s func = .ok sig ∧
      Op.mkCall sig inst targs = .ok cop ∧ Op.numOut cop = .ok k ∧ h.2 = some k := by
  unfold call at hok
  split at hok
  · cases hok
  · rename_i r hr
    split at hok
    · cases hok
    · rename_i s hs
      split at hok
      · cases hok
      · rename_i sig hsig
        split at hok
        · cases hok
        · rename_i cop hcop
          split at hok
          · rename_i k fpo hk hf
            split at hok
            · cases hok
            · split at hok
              · cases hok
              · split at hok
                · cases hok
                · cases hok
                  exact ⟨r, s, sig, cop, k, hr, hs, hsig, hcop, hk, rfl⟩
          · cases hok
          · cases hok

/-- a container builder once its outputs are set (`Dfg.set_outputs`): the builder's parent handle knows the number
    of wires given, and so does the store's output-port counter of the container node. -/
theorem build_setParentOutputCount (st st' : BuildState) (bi count : Nat)
    (hok : setParentOutputCount st bi count = .ok st') :
    ∃ r r', st.getB bi = .ok r ∧ st'.getB bi = .ok r' ∧ r'.parent = (r.parent.1, some count) := by
  unfold setParentOutputCount at hok
  split at hok
  · cases hok
  · rename_i r hr
    split at hok
    · cases hok
    · split at hok
      · cases hok
      · cases hok
        exact ⟨r, { r with parent := (r.parent.1, some count) }, hr,
          getB_setB (st.setHugr r.hid _) bi r _ (by rw [getB_setHugr]; exact hr), rfl⟩

theorem build_setOutputsDfg_handle (st st' : BuildState) (bi : Nat) (ws : List Wire)
    (hok : setOutputsDfg st bi ws = .ok st') :
    ∃ r', st'.getB bi = .ok r' ∧ r'.parent.2 = some ws.length := by
  unfold setOutputsDfg at hok
  split at hok
  · cases hok
  · rename_i st1 h1
    obtain ⟨r, r', _, h2, h3⟩ := build_setParentOutputCount st1 st' bi ws.length hok
    exact ⟨r', h2, by rw [h3]⟩

/-- a tail-loop builder once its outputs are set (`TailLoop.set_outputs(sum_wire, *rest)`): the builder's parent handle
    knows `len(just_outputs) + len(rest)` — the BREAK row (the second variant) of the control sum plus the wires that
    follow it — whatever the length of the continue row. -/
theorem build_setOutputsTailLoop_handle (st st' : BuildState) (bi : Nat) (w : Wire) (rest : List Wire)
    (hok : setOutputsTailLoop st bi (w :: rest) = .ok st') :
    ∃ (st1 : BuildState) (r : BRec) (s : St) (sm : SumTy) (r0 r1 : List Ty) (r' : BRec), st1.getB bi = .ok r ∧ st1.getHugr r.hid = .ok s ∧ sumOfWire s w = .ok sm ∧
      sm.rows = [r0, r1] ∧ st'.getB bi = .ok r' ∧ r'.parent.2 = some (r1.length + rest.length) := by
  unfold setOutputsTailLoop at hok
  split at hok
  · cases hok
  · rename_i st1 h1
    simp only [] at hok
    split at hok
    · cases hok
    · rename_i r hr
      split at hok
      · cases hok
      · rename_i s hs
        split at hok
        · cases hok
        · rename_i sm hsm
          split at hok
          · rename_i r0 r1 hrows
            obtain ⟨ra, r', h2, h3, h4⟩ := build_setParentOutputCount st1 st' bi _ hok
            refine ⟨st1, r, s, sm, r0, r1, r', hr, hs, hsm, hrows, h3, ?_⟩
            rw [h4]
            simp only [List.length_cons]
            congr 1
          · cases hok

/-- a basic-block builder once its outputs are set (`Block.set_outputs(branch_wire, *other)`): the block's handle knows
    one output (control-flow port) per variant of the branching sum — the number of successors. -/
theorem build_setOutputsBlock_handle (st st' : BuildState) (bi : Nat) (w : Wire) (rest : List Wire)
    (hok : setOutputsBlock st bi (w :: rest) = .ok st') :
    ∃ (st1 : BuildState) (r : BRec) (s : St) (sm : SumTy) (r' : BRec), st1.getB bi = .ok r ∧ st1.getHugr r.hid = .ok s ∧ sumOfWire s w = .ok sm ∧
      st'.getB bi = .ok r' ∧ r'.parent.2 = some sm.rows.length := by
  unfold setOutputsBlock at hok
  split at hok
  · cases hok
  · rename_i st1 h1
    simp only [] at hok
    split at hok
    · cases hok
    · rename_i r hr
      split at hok
      · cases hok
      · rename_i s hs
        split at hok
        · cases hok
        · rename_i sm hsm
          obtain ⟨ra, r', h2, h3, h4⟩ := build_setParentOutputCount st1 st' bi _ hok
          exact ⟨st1, r, s, sm, r', hr, hs, hsm, h3, by rw [h4]⟩

/-- a conditional builder when the first case sets its outputs (`Conditional._update_outputs`): the conditional's
    handle knows the number of outputs of that case; later cases leave the count alone (they are compared). -/
theorem build_condUpdateOutputs_handle (st st' : BuildState) (ci : Nat) (outs : List Ty)
    (hok : condUpdateOutputs st ci outs = .ok st') :
    ∃ c s op, st.getB ci = .ok c ∧ st.getHugr c.hid = .ok s ∧ nodeOp s c.parent.1 = .ok op ∧
      ((∃ sm oi, op = .conditional sm oi none ∧ ∃ c', st'.getB ci = .ok c' ∧ c'.parent.2 = some outs.length) ∨
       (∃ sm oi prev, op = .conditional sm oi (some prev) ∧ st' = st)) := by
  unfold condUpdateOutputs at hok
  split at hok
  · cases hok
  · rename_i c hc
    split at hok
    · cases hok
    · rename_i s hs
      split at hok
      · cases hok
      · rename_i sm oi hop
        split at hok
        · cases hok
        · split at hok
          · cases hok
          · cases hok
            exact ⟨c, s, _, hc, hs, hop, .inl ⟨sm, oi, rfl, _, getB_setB (st.setHugr c.hid _) ci c _ (by rw [getB_setHugr]; exact hc), rfl⟩⟩
      · rename_i sm oi prev hop
        split at hok
        · cases hok
          exact ⟨c, s, _, hc, hs, hop, .inr ⟨sm, oi, prev, rfl, rfl⟩⟩
        · cases hok
      · cases hok

/-- a CFG builder when the first branch to the exit block is made (`Cfg.branch_exit`): the CFG's handle knows the length
    of the row that successor carries (`_nth_outputs`); later exit branches leave the builder record alone. -/
theorem build_branchExit_handle (st st' : BuildState) (ci : Nat) (w : Wire) (hok : branchExit st ci w = .ok st') :
    ∃ (c : BRec) (s s1 : St) (outTypes : List Ty), st.getB ci = .ok c ∧ st.getHugr c.hid = .ok s ∧
      nthOutputsOf s1 w = .ok outTypes ∧
      ((typedOp s1 c.exit.1 isExitOp = .ok (.exitBlock none) ∧
          ∃ c', st'.getB ci = .ok c' ∧ c'.parent.2 = some outTypes.length) ∨
       (∃ prev, typedOp s1 c.exit.1 isExitOp = .ok (.exitBlock (some prev)) ∧ st'.getB ci = .ok c)) := by
  unfold branchExit at hok
  split at hok
  · cases hok
  · rename_i c hc
    split at hok
    · cases hok
    · rename_i s hs
      split at hok
      · cases hok
      · rename_i s1 h1
        split at hok
        · cases hok
        · rename_i outTypes hot
          split at hok
          · cases hok
          · rename_i prev hex
            split at hok
            · cases hok
              exact ⟨c, s, s1, outTypes, hc, hs, hot, .inr ⟨prev, hex, by rw [getB_setHugr]; exact hc⟩⟩
            · cases hok
          · rename_i hex
            split at hok
            · cases hok
            · split at hok
              · cases hok
              · split at hok
                · cases hok
                · split at hok
                  · cases hok
                  · cases hok
                    exact ⟨c, s, s1, outTypes, hc, hs, hot, .inl ⟨hex, _,
                      getB_setB (st.setHugr c.hid _) ci c _ (by rw [getB_setHugr]; exact hc), rfl⟩⟩
              · cases hok
          · cases hok

/-- `insert_nested` (and `insert_cfg / insert_conditional / insert_tail_loop`, which share `_insert_nested_impl`):
    the handle knows the output-port count recorded for the inserted HUGR's root. -/
theorem build_insertNested_handle (st st' : BuildState) (bi oi : Nat) (ws : List Wire) (h : Build.Handle)
    (hok : insertNested st bi oi ws = .ok (st', h)) :
    ∃ o sb d, st.getB oi = .ok o ∧ st.getHugr o.hid = .ok sb ∧ Store.getNode sb o.parent.1 = .ok d ∧
      h.2 = some d.numOuts := by
  unfold insertNested at hok
  split at hok
  · rename_i r o hr ho
    split at hok
    · cases hok
    · split at hok
      · rename_i s sb hs hsb
        split at hok
        · cases hok
        · split at hok
          · cases hok
          · split at hok
            · cases hok
            · split at hok
              · cases hok
              · rename_i d hd
                cases hok
                exact ⟨o, sb, d, ho, hsb, hd, rfl⟩
      · cases hok
      · cases hok
  · cases hok
  · cases hok

/-- … and that count is the number of outputs of the operation's signature whenever it has one. -/
theorem build_addOp_handle_sig (st st' : BuildState) (bi : Nat) (op : Op) (ws : List Wire) (md : Serial.Meta)
    (h : Build.Handle) (hok : addOp st bi op ws md = .ok (st', h)) :
    ∃ r s' op', st.getB bi = .ok r ∧ st'.getHugr r.hid = .ok s' ∧ nodeOp s' h.1 = .ok op' ∧
      ∀ sg, Op.outerSig op' = .ok sg → h.2 = some sg.out.length := by
  obtain ⟨r, s', op', k, a, b, c, d, e⟩ := build_addOp_handle st st' bi op ws md h hok
  refine ⟨r, s', op', a, b, c, fun sg hsg => ?_⟩
  have := OpProofs.numOut_of_outerSig op' sg hsg
  rw [d] at this
  injection this with this
  rw [e, this]

/-- non-vacuity: `Dfg(Bool).add_op(Not, inputs()[0])` returns a handle that knows its one output -/
example : (match newStandaloneDf {} .dfg (.dfg [.unitSum 2] none []) with
    | .ok (st, bi) => (match addOp st bi (.custom "Not" ⟨[.unitSum 2], [.unitSum 2], []⟩ "" "logic" []) [(1, 0)] [] with
      | .ok (_, h) => some h
      | .error _ => none)
    | .error _ => none) = some (3, some 1) := by decide +kernel

/-- non-vacuity: `t = TailLoop([Bool], [Bool]); brk = t.add_op(Tag(1, Sum([[Bool], []]))); t.set_loop_outputs(brk[0],
    t.inputs()[1])` — the continue row has one element, the break row none: the loop's handle knows ONE output (the break
    row plus the one rest wire), not two. -/
example : (match Build.run "" {} [
      .newTailLoop "t" [.unitSum 2] [.unitSum 2],
      .addOp "t" "tag" (.tag 1 (.general [[.unitSum 2], []])) [] [],
      .setLoopOutputs "t" (.idx (.var "tag") 0) [.inp "t" 1]] with
    | .ok st => (match st.bvar "t" with
      | .ok bi => (match st.getB bi with | .ok r => some r.parent | .error _ => none)
      | .error _ => none)
    | .error _ => none) = some (0, some 1) := by decide +kernel

end HugrVerif.Props.C16.BuilderModel
