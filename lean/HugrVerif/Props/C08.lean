/-
  C08 — Inserting a HUGR embeds it isomorphically and disturbs nothing else.
  Property theorems only; model `Store.insertHugr` (mirrors `Hugr.insert_hugr`, base.py), lemmas in
  `Proofs/StoreInsert.lean`.  "B itself is not modified" is immediate in the model (values, not
  references) and is checked on the implementation by the oracle.
-/
import HugrVerif.Proofs.StoreInsert
import HugrVerif.Proofs.StoreInsertOrder
import HugrVerif.Proofs.StoreInsertTotal
import HugrVerif.Proofs.StoreInsertCounts
import HugrVerif.Props.C04

namespace HugrVerif.Props.C08
open HugrVerif HugrVerif.Store HugrVerif.Py

variable {Ω μ : Type}

/-- Unfolding of a successful `insert_hugr`. -/
theorem insertHugr_ok (a a' b : Store Ω μ) (parent : Option Nat) (mp : Dict Nat Nat)
    (h : insertHugr a b parent = .ok (a', mp)) :
    ∃ order s1, hierarchyOrder b = .ok order ∧ insertNodes a b parent order [] = .ok (s1, mp) ∧
      insertLinks s1 mp b.links.fwd = .ok a' := by
  unfold insertHugr at h
  simp only [bind, Except.bind] at h
  cases ho : hierarchyOrder b with
  | error e => simp [ho] at h
  | ok order =>
    simp only [ho] at h
    cases hr : insertNodes a b parent order [] with
    | error e => simp [hr] at h
    | ok r =>
      obtain ⟨s1, mp1⟩ := r
      simp only [hr] at h
      cases h2 : insertLinks s1 mp1 b.links.fwd with
      | error e => simp [h2] at h
      | ok s2 =>
        simp only [h2, pure, Except.pure] at h
        injection h with h
        obtain ⟨rfl, rfl⟩ := Prod.mk.inj h
        exact ⟨order, s1, rfl, hr, h2⟩

/-- **The node mapping is an embedding of B**: it is defined exactly on B's nodes (in insertion
    order), injective, its images were not nodes of A, and every image carries B's operation and
    metadata, at least B's out-port count, and hangs under the image of B's parent — B's root under the
    requested parent (A's root by default). -/
theorem mapping_embeds (a a' b : Store Ω μ) (hs : SInv a) (parent : Option Nat) (mp : Dict Nat Nat)
    (order : List Nat) (ho : hierarchyOrder b = .ok order) (hnd : order.Nodup)
    (h : insertHugr a b parent = .ok (a', mp)) :
    Dict.keys mp = order ∧
    (∀ i j x, Dict.get i mp = some x → Dict.get j mp = some x → i = j) ∧
    (∀ i x, Dict.get i mp = some x → (∀ d, getNode a x ≠ .ok d) ∧
      ∃ db dx, getNode b i = .ok db ∧ getNode a' x = .ok dx ∧ dx.op = db.op ∧ dx.md = db.md ∧
        db.numOuts ≤ dx.numOuts ∧
        (∀ p, db.parent = some p → ∃ p', Dict.get p mp = some p' ∧ dx.parent = some p') ∧
        (db.parent = none → dx.parent = some (parent.getD a.root))) := by
  obtain ⟨order', s1, ho', hn, hl⟩ := insertHugr_ok a a' b parent mp h
  rw [ho] at ho'; injection ho' with ho'; subst ho'
  obtain ⟨hc, _⟩ := insertNodes_spec a b parent order a s1 [] [] mp (copied_init a b parent hs.free)
    (by simp [Dict.NodupKeys]) (by simp) hnd hn
  have hl1 : LInv s1.links := by rw [hc.links]; exact hs.links
  obtain ⟨_, G, _, _⟩ := insertLinks_spec mp b.links.fwd s1 a' hl1 hl
  refine ⟨by simpa using hc.keys, hc.inj, ?_⟩
  intro i x hi
  obtain ⟨h1, db, ds, e1, e2, e3, e4, e5, e6, e7⟩ := hc.image i x hi
  obtain ⟨dx, ex, gr⟩ := G.fwd x ds e2
  refine ⟨h1, db, dx, e1, ex, by rw [gr.op, e3], by rw [gr.md, e4], by rw [← e5]; exact gr.outs, ?_, ?_⟩
  · intro p hp
    obtain ⟨p', g1, g2⟩ := e6 p hp
    exact ⟨p', g1, by rw [gr.parent, g2]⟩
  · intro hp; rw [gr.parent]; exact e7 hp

/-- **Every link of B is copied with its offsets and multiplicity, order links included, and
    nothing else is added**: `links()` of the result is `links()` of A followed by the links of B
    renamed through the mapping, in B's order. -/
theorem links_embedded (a a' b : Store Ω μ) (hs : SInv a) (parent : Option Nat) (mp : Dict Nat Nat)
    (order : List Nat) (ho : hierarchyOrder b = .ok order) (hnd : order.Nodup)
    (h : insertHugr a b parent = .ok (a', mp)) :
    linksList a' = linksList a ++ b.links.fwd.filterMap (renameLink mp) ∧
    (∀ e ∈ b.links.fwd, (renameLink mp e).isSome) := by
  obtain ⟨order', s1, ho', hn, hl⟩ := insertHugr_ok a a' b parent mp h
  rw [ho] at ho'; injection ho' with ho'; subst ho'
  obtain ⟨hc, _⟩ := insertNodes_spec a b parent order a s1 [] [] mp (copied_init a b parent hs.free)
    (by simp [Dict.NodupKeys]) (by simp) hnd hn
  have hl1 : LInv s1.links := by rw [hc.links]; exact hs.links
  obtain ⟨e, _, hsome, _⟩ := insertLinks_spec mp b.links.fwd s1 a' hl1 hl
  exact ⟨by rw [e, linksList_congr a s1 hc.links], hsome⟩

/-- **All nodes A had before are unchanged** (same operation, parent, metadata; only children lists
    of the insertion parent and port counts that received links may differ — none of A's own ports
    receives one, see `links_embedded`), and nothing but the images became live. -/
theorem frame (a a' b : Store Ω μ) (hs : SInv a) (parent : Option Nat) (mp : Dict Nat Nat)
    (order : List Nat) (ho : hierarchyOrder b = .ok order) (hnd : order.Nodup)
    (h : insertHugr a b parent = .ok (a', mp)) :
    (∀ j d, getNode a j = .ok d → ∃ d', getNode a' j = .ok d' ∧ NodeSame d d') ∧
    (∀ j d', getNode a' j = .ok d' → (∃ d, getNode a j = .ok d) ∨ (∃ i, Dict.get i mp = some j)) := by
  obtain ⟨order', s1, ho', hn, hl⟩ := insertHugr_ok a a' b parent mp h
  rw [ho] at ho'; injection ho' with ho'; subst ho'
  obtain ⟨hc, _⟩ := insertNodes_spec a b parent order a s1 [] [] mp (copied_init a b parent hs.free)
    (by simp [Dict.NodupKeys]) (by simp) hnd hn
  have hl1 : LInv s1.links := by rw [hc.links]; exact hs.links
  obtain ⟨_, G, _, _⟩ := insertLinks_spec mp b.links.fwd s1 a' hl1 hl
  refine ⟨?_, ?_⟩
  · intro j d hd
    obtain ⟨d1, e1, sm, _, _⟩ := hc.frame j d hd
    obtain ⟨d2, e2, gr⟩ := G.fwd j d1 e1
    exact ⟨d2, e2, sm.trans gr.same⟩
  · intro j d' hd'
    obtain ⟨d1, e1⟩ := G.bwd j d' hd'
    exact hc.only j d1 e1

/-- **The hierarchy is copied with its child order**: the children of the image of a node of B are
    the images of that node's children, in B's order; the image of B's root is appended to the
    children of the insertion parent; every other children list of A is unchanged.  (B built through
    the API; the insertion parent is a node of A.) -/
theorem child_order_preserved (rootOp : Ω) (m : μ) (a a' b : Store Ω μ) (hs : SInv a)
    (hb : C04.ReachT rootOp m b) (parent : Option Nat)
    (htl : ∃ d, getNode a (parent.getD a.root) = .ok d)
    (mp : Dict Nat Nat) (h : insertHugr a b parent = .ok (a', mp)) :
    (∀ i x, Dict.get i mp = some x → ∃ db dx, getNode b i = .ok db ∧ getNode a' x = .ok dx ∧
      childIdxs dx = imgs mp (childIdxs db)) ∧
    (∀ j d, getNode a j = .ok d → ∃ d', getNode a' j = .ok d' ∧
      childIdxs d' = childIdxs d ++ (if j = parent.getD a.root then imgs mp [b.root] else [])) := by
  obtain ⟨order, _, ho, hnd, hcl, hmem⟩ := C04.hierarchy_order_exact rootOp m b hb
  obtain ⟨_, hhb, hrb, _⟩ := C04.reachT_inv rootOp m b hb
  obtain ⟨order', s1, ho', hn, hl⟩ := insertHugr_ok a a' b parent mp h
  rw [ho] at ho'; injection ho' with ho'; subst ho'
  have hc0 := copied_init a b parent hs.free
  have hk0 : KidsInv a a b (parent.getD a.root) [] [] := by
    refine ⟨by intro i x hx; simp [Dict.get] at hx, ?_⟩
    intro j d hd
    refine ⟨d, hd, ?_⟩
    by_cases hj : j = parent.getD a.root <;> simp [hj, imgs]
  obtain ⟨hc, _⟩ := insertNodes_spec a b parent order a s1 [] [] mp hc0 (by simp [Dict.NodupKeys]) (by simp) hnd hn
  have hk := insertNodes_kids a b parent htl order a s1 [] [] mp hc0 hk0 (by simp) hnd hn
  simp only [List.nil_append] at hk
  have hl1 : LInv s1.links := by rw [hc.links]; exact hs.links
  obtain ⟨_, G, _, _⟩ := insertLinks_spec mp b.links.fwd s1 a' hl1 hl
  refine ⟨?_, ?_⟩
  · intro i x hix
    obtain ⟨ds, hds, hch⟩ := hk.img i x hix
    obtain ⟨dx, ex, gr⟩ := G.fwd x ds hds
    obtain ⟨_, db, _, e1, _⟩ := hc.image i x hix
    refine ⟨db, dx, e1, ex, ?_⟩
    have : childIdxs dx = childIdxs ds := by unfold childIdxs; rw [gr.children]
    rw [this, hch, order_filter_kids b hhb order hnd hcl hmem i]
    simp [kidsOf, e1]
  · intro j d hd
    obtain ⟨d1, e1, c1⟩ := hk.old j d hd
    obtain ⟨d', e', gr⟩ := G.fwd j d1 e1
    refine ⟨d', e', ?_⟩
    have : childIdxs d' = childIdxs d1 := by unfold childIdxs; rw [gr.children]
    rw [this, c1]
    have hroot : order.filter (fun j => parentOf b j == none) = [b.root] := by
      apply eq_of_same_order
      · exact hnd.filter _
      · simp
      · intro c
        obtain ⟨hp0, hl0⟩ := root_parent hrb
        simp only [List.mem_filter, beq_iff_eq, List.mem_singleton]
        constructor
        · rintro ⟨hco, hp⟩; exact only_root hrb ((hmem c).mp hco) hp
        · intro e; subst e; exact ⟨(hmem _).mpr hl0, hp0⟩
      · intro c hc y hy
        simp at hc; subst hc
        simp [before] at hy
    rw [hroot]

/-- **For a B built through the API the hypotheses on its hierarchy walk hold** (so the three
    theorems above apply unconditionally): `_hierarchy_order` returns normally, without duplicates,
    exactly B's nodes — hence the mapping is defined on exactly the nodes of B. -/
theorem mapping_total (rootOp : Ω) (m : μ) (a a' b : Store Ω μ) (hs : SInv a) (hb : C04.ReachT rootOp m b)
    (parent : Option Nat) (mp : Dict Nat Nat) (h : insertHugr a b parent = .ok (a', mp)) :
    ∃ order, hierarchyOrder b = .ok order ∧ order.Nodup ∧ Dict.keys mp = order ∧
      (∀ i, (∃ x, Dict.get i mp = some x) ↔ ∃ d, getNode b i = .ok d) := by
  obtain ⟨order, _, ho, hnd, _, hmem⟩ := C04.hierarchy_order_exact rootOp m b hb
  obtain ⟨hk, _, _⟩ := mapping_embeds a a' b hs parent mp order ho hnd h
  refine ⟨order, ho, hnd, hk, ?_⟩
  intro i
  show _ ↔ liveN b i
  rw [← hmem i, ← hk]
  constructor
  · rintro ⟨x, hx⟩
    exact (Dict.get_isSome_iff i mp).mp (by simp [hx])
  · intro hi
    have := (Dict.get_isSome_iff i mp).mpr hi
    cases hg : Dict.get i mp with
    | none => simp [hg] at this
    | some x => exact ⟨x, rfl⟩

/-- **Inserting never raises on a valid call**: for every B built through the API and every
    insertion parent that is a node of A (A's root by default), `insert_hugr` returns a mapping — in
    particular no `ParentBeforeChild`, also when B has deleted nodes and reused indices. -/
theorem insert_total (rootOp : Ω) (m : μ) (a b : Store Ω μ) (hs : SInv a) (hb : C04.ReachT rootOp m b)
    (parent : Option Nat) (htl : ∃ d, getNode a (parent.getD a.root) = .ok d) :
    ∃ a' mp, insertHugr a b parent = .ok (a', mp) := by
  obtain ⟨hsb, hhb, hrb, hab⟩ := C04.reachT_inv rootOp m b hb
  exact insertHugr_succeeds a b hs hsb hhb hrb hab parent htl

/-- **Output port counts are preserved exactly** (the statement's "output port counts … are preserved"): the
    copy of every node of B has the very out-port count B records for it — `insert_hugr` stamps it when it copies
    the node, and the link copies cannot raise it because every link of B already lies below B's counts
    (`PortBound`, an invariant of every B built through the API). -/
theorem out_counts_exact (a a' b : Store Ω μ) (hs : SInv a) (hpb : PortBound b) (parent : Option Nat)
    (mp : Dict Nat Nat) (order : List Nat) (ho : hierarchyOrder b = .ok order) (hnd : order.Nodup)
    (h : insertHugr a b parent = .ok (a', mp)) :
    ∀ i x, Dict.get i mp = some x → ∃ db dx, getNode b i = .ok db ∧ getNode a' x = .ok dx ∧
      dx.numOuts = db.numOuts := by
  obtain ⟨order', s1, ho', hn, hl⟩ := insertHugr_ok a a' b parent mp h
  rw [ho] at ho'; injection ho' with ho'; subst ho'
  obtain ⟨hc, _⟩ := insertNodes_spec a b parent order a s1 [] [] mp (copied_init a b parent hs.free)
    (by simp [Dict.NodupKeys]) (by simp) hnd hn
  have hl1 : LInv s1.links := by rw [hc.links]; exact hs.links
  obtain ⟨_, G, _, _⟩ := insertLinks_spec mp b.links.fwd s1 a' hl1 hl
  let cap : Nat → Nat := fun j => match getNode s1 j with | .ok d => d.numOuts | .error _ => 0
  have hcap := insertLinks_outs_cap mp cap b.links.fwd s1 a' hl
    (by intro j d hd; simp only [cap, hd]; exact Nat.le_refl _)
    (by
      intro e he x hx
      obtain ⟨_, db, ds, e1, e2, _, _, e5, _⟩ := hc.image e.1.node x hx
      simp only [cap, e2, e5]
      have hm : (e.1.port, e.2.port) ∈ linksList b := by
        unfold linksList
        exact List.mem_map.mpr ⟨e, he, rfl⟩
      obtain ⟨⟨d, hd, h1, h2⟩, _⟩ := hpb _ hm
      simp only [SubPort.port] at hd h1 h2
      rw [e1] at hd; injection hd with hd; subst hd
      unfold offsetPlusOne; omega)
  intro i x hi
  obtain ⟨_, db, ds, e1, e2, _, _, e5, _⟩ := hc.image i x hi
  obtain ⟨dx, ex, gr⟩ := G.fwd x ds e2
  refine ⟨db, dx, e1, ex, ?_⟩
  have hle := hcap x dx ex
  simp only [cap, e2] at hle
  have hge := gr.outs
  omega

/-- The same for every B built through the API (no hypothesis on B's hierarchy walk or port counts). -/
theorem out_counts_exact_reach (rootOp : Ω) (m : μ) (a a' b : Store Ω μ) (hs : SInv a) (hb : C04.ReachT rootOp m b)
    (parent : Option Nat) (mp : Dict Nat Nat) (h : insertHugr a b parent = .ok (a', mp)) :
    ∀ i x, Dict.get i mp = some x → ∃ db dx, getNode b i = .ok db ∧ getNode a' x = .ok dx ∧
      dx.numOuts = db.numOuts := by
  obtain ⟨order, _, ho, hnd, _, _⟩ := C04.hierarchy_order_exact rootOp m b hb
  obtain ⟨hsb, _, _, _⟩ := C04.reachT_inv rootOp m b hb
  exact out_counts_exact a a' b hs hsb.bound parent mp order ho hnd h

/-- The result satisfies the store invariant again (C04), so every query on it is determined by
    the embedded multigraph. -/
theorem result_inv (a a' b : Store Ω μ) (hs : SInv a) (hb : SInv b) (parent : Option Nat) (mp : Dict Nat Nat)
    (h : insertHugr a b parent = .ok (a', mp)) : SInv a' :=
  sinv_insertHugr a a' b hs hb parent mp h

/-- Non-vacuity: inserting a HUGR with a multi-linked port, an order link and a reused index
    (child listed before its parent in index order) succeeds and maps parents first. -/
def demo : Except Err (Dict Nat Nat × List (Port × Port)) := do
  let b0 := init "module" ([] : List Nat)
  let (b, _) ← addNode b0 "x" none none []
  let (b, _) ← addNode b "y" none (some 1) []
  let b ← deleteNode b 1
  let (b, _) ← addNode b "z" (some 2) none []       -- reuses index 1 under node 2
  let b ← addLink b (2, 0) (1, 0)
  let b ← addLink b (2, 0) (1, 0)
  let b ← addOrderLink b 2 1
  let (a, mp) ← insertHugr (init "module" []) b none
  pure (mp, linksList a)

example :
    (match demo with
     | .ok (mp, ls) => mp == [(0, 1), (2, 2), (1, 3)] &&
        ls == [((2, 0), (3, 0)), ((2, 0), (3, 0)), ((2, -1), (3, -1))]
     | .error _ => false) = true := by
  decide

end HugrVerif.Props.C08
