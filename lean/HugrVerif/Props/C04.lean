/-
  C04 — The HUGR graph store agrees with a sequential port-multigraph model.
  Property theorems only.  Model: `Store.lean` (mirrors hugr/hugr/base.py);
  lemmas: `Proofs/StoreLinks.lean`, `Proofs/Store.lean`, `Proofs/StoreNodes.lean`, `Proofs/StoreInv.lean`.

  The abstract ("sequential port-multigraph") view of a store is: the live nodes with their data
  (`getNode`), and the LIST of links `linksList` (`links()`).  The theorems say that every mutator
  acts on this view exactly as the plain model does, and that every query is a function of it.
-/
import HugrVerif.Proofs.StoreInv
import HugrVerif.Proofs.StoreHier
import HugrVerif.Proofs.StoreWalk

namespace HugrVerif.Props.C04
open HugrVerif HugrVerif.Store HugrVerif.Py

variable {Ω μ : Type}

/-- The mutators the property quantifies over (`add_const` is `add_node` with a constant payload). -/
inductive Op (Ω μ : Type) where
  | addNode (op : Ω) (parent : Option Nat) (numOuts : Option Nat) (m : μ)
  | addLink (src dst : Port)
  | addOrderLink (src dst : Nat)
  | deleteLink (src dst : Port)
  | deleteNode (n : Nat)
  | insertHugr (b : Store Ω μ) (parent : Option Nat)

/-- Ports are value ports (offset ≥ 0) or the order port (-1); an inserted HUGR is itself reachable. -/
def Op.WF : Op Ω μ → Prop
  | .addLink src dst => -1 ≤ src.2 ∧ -1 ≤ dst.2
  | .deleteLink _ _ => True
  | .insertHugr b _ => SInv b
  | _ => True

def step (s : Store Ω μ) : Op Ω μ → Except Err (Store Ω μ)
  | .addNode op p k m => (addNode s op p k m).map (·.1)
  | .addLink a b => addLink s a b
  | .addOrderLink a b => addOrderLink s a b
  | .deleteLink a b => deleteLink s a b
  | .deleteNode n => deleteNode s n
  | .insertHugr b p => (insertHugr s b p).map (·.1)

/-- A history: every call returns normally (a raising call ends the history). -/
def run (s : Store Ω μ) : List (Op Ω μ) → Except Err (Store Ω μ)
  | [] => .ok s
  | o :: os => match step s o with
    | .ok s' => run s' os
    | .error e => .error e

theorem step_inv (s s' : Store Ω μ) (hs : SInv s) (o : Op Ω μ) (hw : o.WF) (h : step s o = .ok s') : SInv s' := by
  cases o with
  | addNode op p k m =>
    simp only [step] at h
    cases ha : addNode s op p k m with
    | error e => simp [ha, Except.map] at h
    | ok r => simp [ha, Except.map] at h; subst h; exact sinv_addNode s r.1 hs op p k m r.2 ha
  | addLink a b => exact sinv_addLink s s' hs a b hw.1 hw.2 h
  | addOrderLink a b => exact sinv_addOrderLink s s' hs a b h
  | deleteLink a b => exact sinv_deleteLink s s' hs a b h
  | deleteNode n => exact sinv_deleteNode s s' hs n h
  | insertHugr b p =>
    simp only [step] at h
    cases ha : insertHugr s b p with
    | error e => simp [ha, Except.map] at h
    | ok r => simp [ha, Except.map] at h; subst h; exact sinv_insertHugr s r.1 b hs hw p r.2 ha

/-- **Main invariant, for every finite history** from a fresh HUGR: the link map is an exact
    bijection with contiguous sub-offsets, every link endpoint is a live node whose reported port
    count exceeds the offset, and the free list is exactly the set of deleted slots. -/
theorem reachable_inv (rootOp : Ω) (m : μ) (ops : List (Op Ω μ)) (hw : ∀ o ∈ ops, o.WF)
    (s : Store Ω μ) (h : run (init rootOp m) ops = .ok s) : SInv s := by
  have gen : ∀ (ops : List (Op Ω μ)) (s0 s : Store Ω μ), SInv s0 → (∀ o ∈ ops, o.WF) → run s0 ops = .ok s → SInv s := by
    intro ops
    induction ops with
    | nil => intro s0 s h0 _ h; simp [run] at h; subst h; exact h0
    | cons o os ih =>
      intro s0 s h0 hw h
      simp only [run] at h
      cases hs : step s0 o with
      | error e => simp [hs] at h
      | ok s1 =>
        simp only [hs] at h
        exact ih s1 s (step_inv s0 s1 h0 o (hw o (by simp)) hs) (fun o' ho' => hw o' (by simp [ho'])) h
  exact gen ops _ s (sinv_init rootOp m) hw h

/-! ### queries are functions of the multigraph view -/

/-- **Every link is reported exactly once from its source end**: `linked_ports(out_port)` is a
    permutation of the targets that `links()` lists for that port. -/
theorem linked_ports_out (s : Store Ω μ) (hs : SInv s) (p : Port) :
    (linkedOut s p).Perm (((linksList s).filter (fun l => decide (l.1 = p))).map (·.2)) :=
  linkedOut_perm s hs.links p

/-- … and exactly once from its target end. -/
theorem linked_ports_in (s : Store Ω μ) (hs : SInv s) (p : Port) :
    (linkedIn s p).Perm (((linksList s).filter (fun l => decide (l.2 = p))).map (·.1)) :=
  linkedIn_perm s hs.links p

/-- `has_link` is membership in `links()`. -/
theorem has_link_iff (s : Store Ω μ) (hs : SInv s) (src dst : Port) :
    hasLink s src dst = true ↔ (src, dst) ∈ linksList s :=
  hasLink_iff s hs.links src dst

/-- **Reported port counts are never smaller than the highest offset in use plus one**, and no link
    mentions a node that is not live. -/
theorem port_count_lower_bound (s : Store Ω μ) (hs : SInv s) (l : Port × Port) (hl : l ∈ linksList s) :
    (∃ d, getNode s l.1.1 = .ok d ∧ l.1.2 + 1 ≤ (d.numOuts : Int)) ∧
    (∃ d, getNode s l.2.1 = .ok d ∧ l.2.2 + 1 ≤ (d.numInps : Int)) := by
  obtain ⟨⟨d1, a, _, b⟩, ⟨d2, c, _, e⟩⟩ := hs.bound l hl
  exact ⟨⟨d1, a, b⟩, ⟨d2, c, e⟩⟩

/-! ### mutators act on the view as the sequential model does -/

/-- `add_link` appends exactly one link; nodes keep their data, port counts only grow. -/
theorem add_link_appends (s s' : Store Ω μ) (hs : SInv s) (src dst : Port) (h : addLink s src dst = .ok s') :
    linksList s' = linksList s ++ [(src, dst)] ∧ StoreGrow s s' :=
  ⟨(addLink_links s s' hs.links src dst h).1, (addLink_nodes s s' src dst h).1⟩

/-- `add_order_link` adds the order link unless it is already there. -/
theorem add_order_link_spec (s s' : Store Ω μ) (hs : SInv s) (a b : Nat) (h : addOrderLink s a b = .ok s') :
    linksList s' = if ((a, -1), (b, -1)) ∈ linksList s then linksList s else linksList s ++ [((a, -1), (b, -1))] := by
  unfold addOrderLink at h
  by_cases hh : hasLink s (a, -1) (b, -1) = true
  · simp [hh, pure, Except.pure] at h; subst h
    simp [(has_link_iff s hs _ _).mp hh]
  · simp only [hh] at h
    have hn : ((a, (-1 : Int)), (b, (-1 : Int))) ∉ linksList s := fun hm => hh ((has_link_iff s hs _ _).mpr hm)
    simp only [hn, if_false]
    exact (addLink_links s s' hs.links _ _ h).1

/-- **Deleting one link removes exactly that one**; it never raises; nodes are untouched. -/
theorem delete_link_exactly_one (s : Store Ω μ) (hs : SInv s) (src dst : Port) :
    ∃ s', deleteLink s src dst = .ok s' ∧ s'.nodes = s.nodes ∧
      (((src, dst) ∈ linksList s ∧ (linksList s).Perm ((src, dst) :: linksList s')) ∨
       ((src, dst) ∉ linksList s ∧ s' = s)) := by
  obtain ⟨s', e, _, hn, _, hc⟩ := deleteLink_links s hs.links src dst
  exact ⟨s', e, hn, hc⟩

/-- **A deleted node is unreachable and no remaining link mentions it**; exactly the links that
    mentioned it are gone; every other node keeps its index and data. -/
theorem delete_node_spec (s s' : Store Ω μ) (hs : SInv s) (n : Nat) (h : deleteNode s n = .ok s') :
    (∀ x, getNode s' n ≠ .ok x) ∧
    (linksList s').Perm ((linksList s).filter (fun l => decide (l.1.1 ≠ n) && decide (l.2.1 ≠ n))) ∧
    (∀ l ∈ linksList s', l.1.1 ≠ n ∧ l.2.1 ≠ n) ∧
    (∀ j d, j ≠ n → getNode s j = .ok d → ∃ d', getNode s' j = .ok d' ∧ NodeKeep d d') := by
  obtain ⟨_, a, b, _, _, _, _, c, _⟩ := deleteNode_spec s s' hs.links hs.bound hs.free n h
  refine ⟨a, b, ?_, c⟩
  intro l hl
  have := (List.mem_filter.mp (b.mem_iff.mp hl)).2
  simpa using this

/-- **`add_node` returns an index that was not live** (a new one or a reused free slot), the node
    is live afterwards with the given operation, parent, metadata and the requested number of
    out-ports; links are untouched and **every live node keeps its index** and data. -/
theorem add_node_spec (s s' : Store Ω μ) (hs : SInv s) (op : Ω) (parent : Option Nat)
    (numOuts : Option Nat) (m : μ) (i : Nat) (h : addNode s op parent numOuts m = .ok (s', i)) :
    (∀ x, getNode s i ≠ .ok x) ∧
    (∃ d, getNode s' i = .ok d ∧ d.op = op ∧ d.parent = some (parent.getD s.root) ∧ d.md = m ∧
      d.numOuts = numOuts.getD 0) ∧
    linksList s' = linksList s ∧
    (∀ j d, j ≠ i → getNode s j = .ok d → ∃ d', getNode s' j = .ok d' ∧ NodeSame d d' ∧
      d'.numInps = d.numInps ∧ d'.numOuts = d.numOuts) := by
  obtain ⟨a, ⟨d, b1, b2, b3, b4, _, b6⟩, c, _, e, _, _⟩ := addNodeRaw_spec s s' hs.free op _ numOuts m i h
  exact ⟨a, ⟨d, b1, b2, b3, b4, b6⟩, linksList_congr s s' e, c⟩


/-! ### the hierarchy: parent pointers and ordered children lists -/

/-- `delete_node` is applied to leaves only (the statement's quantifier). -/
def LeafOK (s : Store Ω μ) : Op Ω μ → Prop
  | .deleteNode n => n ≠ s.root ∧ ∀ d, getNode s n = .ok d → d.children = []
  | _ => True

/-- States reachable from a fresh HUGR by well-formed calls that return normally. -/
inductive Reach (rootOp : Ω) (m : μ) : Store Ω μ → Prop where
  | init : Reach rootOp m (init rootOp m)
  | step {s s' : Store Ω μ} (o : Op Ω μ) : Reach rootOp m s → o.WF → LeafOK s o → step s o = .ok s' →
      Reach rootOp m s'

theorem step_hier (s s' : Store Ω μ) (hs : SInv s) (hh : HierInv s) (o : Op Ω μ) (hleaf : LeafOK s o)
    (h : step s o = .ok s') : HierInv s' := by
  cases o with
  | addNode op p k m =>
    simp only [step] at h
    cases ha : addNode s op p k m with
    | error e => simp [ha, Except.map] at h
    | ok r => simp [ha, Except.map] at h; subst h; exact hier_addNodeRaw s r.1 hh hs.free op _ k m r.2 ha
  | addLink a b => exact hier_addLink s s' hh a b h
  | addOrderLink a b => exact hier_addOrderLink s s' hh a b h
  | deleteLink a b => exact hier_deleteLink s s' hh a b h
  | deleteNode n =>
    simp only [step] at h
    cases h0 : getNode s n with
    | error e => simp [deleteNode, h0] at h
    | ok d0 => exact hier_deleteNode s s' hh hs.links n d0 h0 (hleaf.2 d0 h0) h
  | insertHugr b p =>
    simp only [step] at h
    cases ha : insertHugr s b p with
    | error e => simp [ha, Except.map] at h
    | ok r => simp [ha, Except.map] at h; subst h; exact hier_insertHugr s r.1 b hh hs.free p r.2 ha

theorem step_root (s s' : Store Ω μ) (hs : SInv s) (hr : RootInv s) (o : Op Ω μ) (hleaf : LeafOK s o)
    (h : step s o = .ok s') : RootInv s' := by
  cases o with
  | addNode op p k m =>
    simp only [step] at h
    cases ha : addNode s op p k m with
    | error e => simp [ha, Except.map] at h
    | ok r => simp [ha, Except.map] at h; subst h; exact root_addNodeRaw s r.1 hr hs.free op _ k m r.2 ha
  | addLink a b => exact root_addLink s s' hr a b h
  | addOrderLink a b => exact root_addOrderLink s s' hr a b h
  | deleteLink a b => exact root_deleteLink s s' hr a b h
  | deleteNode n => exact root_deleteNode s s' hr hs n hleaf.1 h
  | insertHugr b p =>
    simp only [step] at h
    cases ha : insertHugr s b p with
    | error e => simp [ha, Except.map] at h
    | ok r => simp [ha, Except.map] at h; subst h; exact root_insertHugr s r.1 b hr hs.free p r.2 ha

/-- **In every reachable state the children lists and parent pointers describe one forest**:
    `c` is listed (once) among the children of `p` exactly when `c` is live with parent `p`; the root
    is live and is the only node without a parent; together with the store invariant of
    `reachable_inv`. -/
theorem reach_inv (rootOp : Ω) (m : μ) (s : Store Ω μ) (h : Reach rootOp m s) :
    SInv s ∧ HierInv s ∧ RootInv s := by
  induction h with
  | init => exact ⟨sinv_init rootOp m, hier_init rootOp m, root_init rootOp m⟩
  | step o _ hw hl he ih =>
    exact ⟨step_inv _ _ ih.1 o hw he, step_hier _ _ ih.1 ih.2.1 o hl he, step_root _ _ ih.1 ih.2.2 o hl he⟩

theorem children_iff_parent (rootOp : Ω) (m : μ) (s : Store Ω μ) (h : Reach rootOp m s) (p c : Nat)
    (dp : NodeData Ω μ) (hp : getNode s p = .ok dp) :
    c ∈ childIdxs dp ↔ ∃ dc, getNode s c = .ok dc ∧ dc.parent = some p := by
  obtain ⟨_, hh, _⟩ := reach_inv rootOp m s h
  constructor
  · exact hh.childParent p dp c hp
  · rintro ⟨dc, hc, hpar⟩
    obtain ⟨dp', hp', hm⟩ := hh.parentChild c dc p hc hpar
    rw [hp] at hp'; injection hp' with hp'; subst hp'; exact hm

theorem children_nodup (rootOp : Ω) (m : μ) (s : Store Ω μ) (h : Reach rootOp m s) (p : Nat)
    (dp : NodeData Ω μ) (hp : getNode s p = .ok dp) : (childIdxs dp).Nodup :=
  (reach_inv rootOp m s h).2.1.nodup p dp hp

/-- `add_node` appends the new node at the END of its parent's ordered children and changes no
    other children list; `delete_node` removes the node from its parent's list and from no other. -/
theorem add_node_children (s s' : Store Ω μ) (hs : SInv s) (op : Ω) (parent : Option Nat)
    (numOuts : Option Nat) (m : μ) (i : Nat) (h : addNode s op parent numOuts m = .ok (s', i)) :
    ∀ j d, j ≠ i → getNode s j = .ok d → ∃ d', getNode s' j = .ok d' ∧ d'.parent = d.parent ∧
      childIdxs d' = childIdxs d ++ (if parent.getD s.root = j then [i] else []) := by
  intro j d hj hd
  obtain ⟨d', a, b, c⟩ := (addNodeRaw_children s s' hs.free op _ numOuts m i h).1 j d hj hd
  refine ⟨d', a, b, ?_⟩
  rw [c]; simp

theorem delete_node_children (s s' : Store Ω μ) (hs : SInv s) (n : Nat) (d0 : NodeData Ω μ)
    (h0 : getNode s n = .ok d0) (h : deleteNode s n = .ok s') :
    ∀ j d, j ≠ n → getNode s j = .ok d → ∃ d', getNode s' j = .ok d' ∧ d'.parent = d.parent ∧
      childIdxs d' = (if d0.parent = some j then (childIdxs d).erase n else childIdxs d) :=
  (deleteNode_children s s' hs.links n d0 h0 h).1

/-! ### the hierarchy is a tree; `_hierarchy_order` enumerates it -/

/-- Node arguments are nodes of this HUGR: the `parent` handed to `add_node` / `insert_hugr` is live. -/
def ParentOK (s : Store Ω μ) : Op Ω μ → Prop
  | .addNode _ (some p) _ _ => liveN s p
  | .insertHugr _ (some p) => liveN s p
  | _ => True

/-- `Reach`, with every `parent` argument a live node (what every caller holding `Node`s obtained
    from this HUGR does). -/
inductive ReachT (rootOp : Ω) (m : μ) : Store Ω μ → Prop where
  | init : ReachT rootOp m (init rootOp m)
  | step {s s' : Store Ω μ} (o : Op Ω μ) : ReachT rootOp m s → o.WF → LeafOK s o → ParentOK s o →
      step s o = .ok s' → ReachT rootOp m s'

theorem reachT_reach (rootOp : Ω) (m : μ) (s : Store Ω μ) (h : ReachT rootOp m s) : Reach rootOp m s := by
  induction h with
  | init => exact Reach.init
  | step o _ hw hl _ he ih => exact Reach.step o ih hw hl he

theorem step_acyc (s s' : Store Ω μ) (hs : SInv s) (hh : HierInv s) (hr : RootInv s) (ha : Acyc s)
    (o : Op Ω μ) (hp : ParentOK s o) (h : step s o = .ok s') : Acyc s' := by
  cases o with
  | addNode op p k m =>
    simp only [step] at h
    cases hadd : addNode s op p k m with
    | error e => simp [hadd, Except.map] at h
    | ok r =>
      simp [hadd, Except.map] at h; subst h
      refine acyc_addNodeRaw s r.1 ha hh hs.free op _ k m r.2 hadd ?_
      cases p with
      | none => exact hr.live
      | some p => exact hp
  | addLink a b => exact acyc_addLink s s' ha a b h
  | addOrderLink a b => exact acyc_addOrderLink s s' ha a b h
  | deleteLink a b => exact acyc_deleteLink s s' ha a b h
  | deleteNode n => exact acyc_deleteNode s s' ha hs n h
  | insertHugr b p =>
    simp only [step] at h
    cases hi : insertHugr s b p with
    | error e => simp [hi, Except.map] at h
    | ok r =>
      simp [hi, Except.map] at h; subst h
      refine acyc_insertHugr s r.1 b hh hr hs.free ha p ?_ r.2 hi
      intro q hq; subst hq; exact hp

/-- **In every state reachable with live `parent` arguments the hierarchy is a tree**: besides
    `reach_inv`, parent pointers are acyclic. -/
theorem reachT_inv (rootOp : Ω) (m : μ) (s : Store Ω μ) (h : ReachT rootOp m s) :
    SInv s ∧ HierInv s ∧ RootInv s ∧ Acyc s := by
  induction h with
  | init => exact ⟨sinv_init rootOp m, hier_init rootOp m, root_init rootOp m, acyc_init rootOp m⟩
  | step o _ hw hl hp he ih =>
    exact ⟨step_inv _ _ ih.1 o hw he, step_hier _ _ ih.1 ih.2.1 o hl he, step_root _ _ ih.1 ih.2.2.1 o hl he,
      step_acyc _ _ ih.1 ih.2.1 ih.2.2.1 ih.2.2.2 o hp he⟩

/-- **`_hierarchy_order()` is total and exact on every such state**: it returns normally; the list
    has no duplicates and contains exactly the live nodes; every node is listed after its parent and
    after the siblings that precede it in its parent's `children` (`Closed`). -/
theorem hierarchy_order_exact (rootOp : Ω) (m : μ) (s : Store Ω μ) (h : ReachT rootOp m s) :
    ∃ order, hierLoop s (s.nodes.length + 1) [s.root] [] [] = .ok order ∧
      hierarchyOrder s = .ok order ∧ order.Nodup ∧ Closed s order ∧ (∀ c, c ∈ order ↔ liveN s c) := by
  obtain ⟨_, hh, hr, ha⟩ := reachT_inv rootOp m s h
  exact hierarchyOrder_tree hh hr ha

/-- Non-vacuity: a concrete history with fan-out, an order link, a deletion in the middle of a
    multiply connected port, a node deletion and index reuse runs without raising. -/
example :
    (run (init "module" ([] : List Nat))
      [.addNode "a" none (some 2) [], .addNode "b" none none [], .addLink (1, 0) (2, 0),
       .addLink (1, 0) (2, 1), .addLink (1, 0) (2, 0), .addOrderLink 1 2,
       .deleteLink (1, 0) (2, 1), .deleteNode 2, .addNode "c" (some 1) (some 1) []]).isOk = true := by
  decide

end HugrVerif.Props.C04
