import HugrVerif.Store
namespace HugrVerif.Props.C04
theorem placeholder : True := trivial
end HugrVerif.Props.C04
