import HugrVerif.SerialCodecs
namespace HugrVerif.Props.C03
theorem placeholder : True := trivial
end HugrVerif.Props.C03
