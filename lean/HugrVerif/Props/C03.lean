/-
  C03 — Emitted documents conform to the published wire format.
  Property theorems about the serialiser model `Serial.toSerial` (mirrors `Hugr._to_serial`,
  base.py) for every store reachable through the public mutators (`Props.C04.Reach`).

  Conformance of the emitted documents to the published strict JSON schema is decided per document
  by executing the JSON-Schema semantics `Schema.eval` (whose schema terms are regenerated from
  specification/schema on every run, C17) on what the implementation emits; it is not a theorem here.
-/
import HugrVerif.Proofs.Serial
import HugrVerif.SerialCodecs
import HugrVerif.Props.C04

namespace HugrVerif.Props.C03
open HugrVerif HugrVerif.Store HugrVerif.Serial HugrVerif.Py

variable {Ω : Type}

/-- **Index sanity, nodes**: in the document of any reachable HUGR, node 0 is the root and is
    written as its own parent, and the parent written for every other node is a node listed earlier
    — also after node deletion and index reuse.  (`order` is the hierarchy walk from the root; that
    it reaches every live node is tied by the correspondence.) -/
theorem index_sane_nodes (rootOp : Ω) (m : Meta) (s : St Ω) (hr : C04.Reach rootOp m s)
    (order : List Nat) (hl : hierLoop s (s.nodes.length + 1) [s.root] [] [] = .ok order) :
    order[0]? = some s.root ∧
    (∀ p, parentIndex s order s.root = .ok p → p = 0) ∧
    (∀ k i p, 0 < k → order[k]? = some i → parentIndex s order i = .ok p → p < k) := by
  obtain ⟨_, hh, hroot⟩ := C04.reach_inv rootOp m s hr
  obtain ⟨h0, hk⟩ := parents_listed_earlier s hh hroot.noParent hroot.only order hl
  exact ⟨(h0 0).1, fun p => (h0 p).2, hk⟩

/-- **Index sanity, nodes, unconditionally**: for every HUGR built through the API (node arguments
    live), `_to_serial` lists every live node exactly once (`order` is a duplicate-free enumeration
    of the live nodes), node 0 is the root written as its own parent, and every other node's parent is
    a node listed earlier. -/
theorem index_sane_nodes_exact (rootOp : Ω) (m : Meta) (s : St Ω) (hr : C04.ReachT rootOp m s) :
    ∃ order, hierarchyOrder s = .ok order ∧ order.Nodup ∧ (∀ c, c ∈ order ↔ ∃ d, getNode s c = .ok d) ∧
      order[0]? = some s.root ∧
      (∀ p, parentIndex s order s.root = .ok p → p = 0) ∧
      (∀ k i p, 0 < k → order[k]? = some i → parentIndex s order i = .ok p → p < k) := by
  obtain ⟨order, hl, ho, hnd, _, hmem⟩ := C04.hierarchy_order_exact rootOp m s hr
  obtain ⟨a, b, c⟩ := index_sane_nodes rootOp m s (C04.reachT_reach rootOp m s hr) order hl
  exact ⟨order, ho, hnd, hmem, a, b, c⟩

/-- The parent index analysed above is exactly the one handed to the operation encoder. -/
theorem node_parent_field (c : OpCodec Ω) (s : St Ω) (order : List Nat) (i : Nat) (r : Json × Option Meta)
    (h : serialNode c s order i = .ok r) :
    ∃ d p, getNode s i = .ok d ∧ parentIndex s order i = .ok p ∧ c.enc d.op p = .ok r.1 :=
  serialNode_parent c s order i r h

/-- … and the encoders write it into the `parent` field. -/
theorem labelCodec_parent (l : String) (p : Nat) (j : Json) (h : labelCodec.enc l p = .ok j) :
    ∃ kvs, j = .obj kvs ∧ fld "parent" kvs = some (.int p) := by
  simp only [labelCodec] at h
  split at h
  · injection h with h; subst h; exact ⟨_, rfl, by simp [fld]⟩
  · split at h
    · injection h with h; subst h; exact ⟨_, rfl, by simp [fld]⟩
    · injection h with h; subst h; exact ⟨_, rfl, by simp [fld]⟩

/-- **Index sanity, edges**: both endpoints of every serialised edge name an existing node. -/
theorem index_sane_edges (c : OpCodec Ω) (s : St Ω) (order : List Nat) (e : SubPort × SubPort) (ed : Edge)
    (h : serialLink c s order e = .ok ed) : ed.src < order.length ∧ ed.dst < order.length :=
  serialLink_in_range c s order e ed h

theorem doc_shape (c : OpCodec Ω) (s : St Ω) (d : Doc) (order : List Nat)
    (ho : hierarchyOrder s = .ok order) (h : toSerial c s = .ok d) :
    d.nodes.length = order.length ∧ d.edges.length = s.links.fwd.length := by
  unfold toSerial at h
  simp only [ho, liftS] at h
  cases hn : order.mapM (serialNode c s order) with
  | error e => simp [hn] at h
  | ok ns =>
    simp only [hn] at h
    cases he : s.links.fwd.mapM (serialLink c s order) with
    | error e => simp [he] at h
    | ok es =>
      simp only [he] at h
      injection h with h; subst h
      have l1 : ns.length = order.length := by
        have : ∀ (l : List Nat) (r : List (Json × Option Meta)), l.mapM (serialNode c s order) = .ok r → r.length = l.length := by
          intro l
          induction l with
          | nil => intro r hr; simp [List.mapM_nil, pure, Except.pure] at hr; subst hr; rfl
          | cons a t ih =>
            intro r hr
            simp only [List.mapM_cons, bind, Except.bind] at hr
            cases h1 : serialNode c s order a with
            | error e => simp [h1] at hr
            | ok x =>
              simp only [h1] at hr
              cases h2 : t.mapM (serialNode c s order) with
              | error e => simp [h2] at hr
              | ok xs => simp [h2, pure, Except.pure] at hr; subst hr; simp [ih xs h2]
        exact this order ns hn
      have l2 : es.length = s.links.fwd.length := by
        have : ∀ (l : List (SubPort × SubPort)) (r : List Edge), l.mapM (serialLink c s order) = .ok r → r.length = l.length := by
          intro l
          induction l with
          | nil => intro r hr; simp [List.mapM_nil, pure, Except.pure] at hr; subst hr; rfl
          | cons a t ih =>
            intro r hr
            simp only [List.mapM_cons, bind, Except.bind] at hr
            cases h1 : serialLink c s order a with
            | error e => simp [h1] at hr
            | ok x =>
              simp only [h1] at hr
              cases h2 : t.mapM (serialLink c s order) with
              | error e => simp [h2] at hr
              | ok xs => simp [h2, pure, Except.pure] at hr; subst hr; simp [ih xs h2]
        exact this _ es he
      simp [l1, l2]

/-- **A state order edge is addressed at the first port after the value ports and the static input
    port of the operation, independently of how many of the node's ports are connected** (the
    connected-port counters `numInps`/`numOuts` do not occur in the result). -/
theorem order_port_after_static (fuel : Nat) (s : St Op) (node : Nat) (d : NodeData Op Meta)
    (hd : getNode s node = .ok d) (sig : Sig) (hdf : Op.isDataflowOp d.op = true)
    (hsig : Op.outerSig d.op = .ok sig) (hcall : ∀ a b c, d.op ≠ .call a b c) :
    constrainOffset (opsCodec fuel) s node (-1) true =
      .ok ((sig.inp.length + (match d.op with | .loadConst _ | .loadFunc .. => 1 | _ => 0) : Nat) : Int) ∧
    constrainOffset (opsCodec fuel) s node (-1) false = .ok (sig.out.length : Int) := by
  have hoff : ∀ inc, (opsCodec fuel).orderOff d.op inc =
      .ok (some (if inc then sig.inp.length + (match d.op with | .loadConst _ | .loadFunc .. => 1 | _ => 0)
                 else sig.out.length)) := by
    intro inc
    simp only [opsCodec, opOrderOff]
    cases hop : d.op <;> simp_all
  constructor
  · have := constrainOffset_order (opsCodec fuel) s node true d _ hd (hoff true)
    simpa using this
  · have := constrainOffset_order (opsCodec fuel) s node false d _ hd (hoff false)
    simpa using this

/-- `Call`: the order port comes after the value inputs of the INSTANTIATED signature and the
    function port (which sits immediately after the value inputs). -/
theorem call_order_port (fuel : Nat) (s : St Op) (node : Nat) (d : NodeData Op Meta) (p : Poly) (inst : Sig)
    (args : List TypeArg) (hd : getNode s node = .ok d) (hop : d.op = .call p inst args) :
    constrainOffset (opsCodec fuel) s node (-1) true = .ok ((inst.inp.length + 1 : Nat) : Int) ∧
    constrainOffset (opsCodec fuel) s node (-1) false = .ok (inst.out.length : Int) ∧
    Op.functionPortOffset d.op = .ok inst.inp.length := by
  have hoff : ∀ inc, (opsCodec fuel).orderOff d.op inc =
      .ok (some (if inc then inst.inp.length + 1 else inst.out.length)) := by
    intro inc; simp [opsCodec, opOrderOff, hop]
  refine ⟨?_, ?_, ?_⟩
  · have := constrainOffset_order (opsCodec fuel) s node true d _ hd (hoff true); simpa using this
  · have := constrainOffset_order (opsCodec fuel) s node false d _ hd (hoff false); simpa using this
  · simp [hop, Op.functionPortOffset]

/-- **Value and static ports are addressed by their own position** (the in-memory offset is
    written unchanged). -/
theorem value_ports_by_position (c : OpCodec Ω) (s : St Ω) (node : Nat) (incoming : Bool) (off : Int)
    (h : 0 ≤ off) : constrainOffset c s node off incoming = .ok off :=
  constrainOffset_value c s node incoming off h

/-- Non-vacuity: after deletion and index reuse (child index smaller than its parent's) the document
    of the store model lists the parent first. -/
def demoParents : Except Serial.Err (List (Option Int)) := do
  let s0 := Store.init "module" ([] : Meta)
  let (s, _) ← liftS (Store.addNode s0 "a" none none [])
  let (s, _) ← liftS (Store.addNode s "b" none none [])
  let s ← liftS (Store.deleteNode s 1)
  let (s, _) ← liftS (Store.addNode s "c" (some 2) none [])    -- reuses index 1 under node 2
  let d : Doc ← toSerial labelCodec s
  pure (d.nodes.map fun j => match j with
    | HugrVerif.Json.obj kvs => (match fld "parent" kvs with | some (HugrVerif.Json.int p) => some p | _ => none)
    | _ => none)

example : (match demoParents with | .ok ps => ps == [some 0, some 0, some 1] | .error _ => false) = true := by
  decide

end HugrVerif.Props.C03
