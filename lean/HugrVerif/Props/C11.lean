/-
  C11 — Extension resolution is conservative, idempotent and invisible on the wire.
  Property theorems only.  Model: `Resolve.lean` (registry lookups, `resolve` of types, type arguments
  and operations, `Hugr.resolve_extensions`, the exported model term of a type), over the shared
  layers `Tys.lean` (`Ty.bound`, `Codec.encTy`), `Ops.lean` (`Op.encOp`, `outerSig`, `portKind`),
  `Ext.lean` (`Extension`, `TypeDef`, `OpDef`), `Store.lean`, `Serial.lean` (`toJson`).
  Helper lemmas: `Proofs/Resolve.lean`.

  Hypotheses.
  * `RegistryWf r` — registry keys equal extension names, definition dict keys equal definition
    names, definitions are owned by the extension that holds them (what `add_extension`,
    `add_type_def`, `add_op_def` establish; `registryWf_of_check` turns the executable check into it).
  * `BoundsConsistent r t` — every opaque type of `t` that names a definition known to `r` stores
    the bound that definition computes for its arguments.  Without it resolution legitimately
    changes the emitted bound (`bounds_hypothesis_needed`).
  The statements about *which* types are replaced, about the exported model and idempotence need
  no consistency hypothesis; idempotence needs no hypothesis at all.
-/
import HugrVerif.Proofs.Resolve

namespace HugrVerif.Props.C11
open HugrVerif HugrVerif.Py HugrVerif.Resolve HugrVerif.Codec HugrVerif.Op

/-! ### fixtures for the non-vacuity examples: three extensions shaped like the standard ones -/

def intDef : Ext.TypeDef :=
  { owner := some "arithmetic.int.types", name := "int", description := "integral value of a given bit width",
    params := [.boundedNat (some 7)], bound := .explicit .copyable }
def listDef : Ext.TypeDef :=
  { owner := some "collections.list", name := "List", description := "Generic dynamically sized list of type T.",
    params := [.type .any], bound := .fromParams [0] }
def notDef : Ext.OpDef :=
  { owner := some "logic", name := "Not", sig := ⟨some ⟨[], [.unitSum 2], [.unitSum 2], ["logic"]⟩, false⟩,
    description := "logical 'not'", misc := [] }
def popDef : Ext.OpDef :=
  { owner := some "collections.list", name := "pop", sig := ⟨none, true⟩, description := "Pop from the back of list", misc := [] }

def intExt : Ext.Extension :=
  { name := "arithmetic.int.types", version := "0.1.0", runtimeReqs := [], types := [("int", intDef)], values := [], operations := [] }
def listExt : Ext.Extension :=
  { name := "collections.list", version := "0.1.0", runtimeReqs := [], types := [("List", listDef)], values := [],
    operations := [("pop", popDef)] }
def logicExt : Ext.Extension :=
  { name := "logic", version := "0.1.0", runtimeReqs := [], types := [], values := [], operations := [("Not", notDef)] }

/-- complete, partial (only the list extension) and empty registries -/
def regAll : Registry := ⟨[("arithmetic.int.types", intExt), ("collections.list", listExt), ("logic", logicExt)]⟩
def regList : Registry := ⟨[("collections.list", listExt)]⟩
def regEmpty : Registry := ⟨[]⟩
/-- the list extension without its type definition: extension present, definition absent -/
def regNoDef : Registry := ⟨[("collections.list", { listExt with types := [] }), ("arithmetic.int.types", intExt)]⟩

def int5 : Ty := .opaque "int" .copyable [.boundedNat 5] "arithmetic.int.types"
/-- `List<int<5>>` as it is loaded from a document: both levels opaque -/
def listInt5 : Ty := .opaque "List" .copyable [.type int5] "collections.list"
def int5R : Ty := .extType (typeDefRef intDef) [.boundedNat 5]
/-- a `Custom` operation as loaded: `collections.list.pop` on `List<int<5>>` -/
def popOp : Op := .custom "pop" ⟨[listInt5], [listInt5, Ty.option [int5]], ["collections.list"]⟩ "old text" "collections.list" [.type int5]

theorem regAll_wf : RegistryWf regAll := registryWf_of_check _ (by decide)
theorem regList_wf : RegistryWf regList := registryWf_of_check _ (by decide)
theorem regNoDef_wf : RegistryWf regNoDef := registryWf_of_check _ (by decide)
theorem regEmpty_wf : RegistryWf regEmpty := registryWf_of_check _ (by decide)

/-! ### the registry lookups -/

/-- The executable check of the registry hypotheses is sound. -/
theorem registryWf_of_check (r : Registry) (h : registryWfB r = true) : RegistryWf r :=
  Resolve.registryWf_of_check r h

/-- `get_extension(ext).get_type(id)` returns a definition exactly when the registry holds an
    extension under that name whose type definitions hold one under that name. -/
theorem lookup_type_iff (r : Registry) (ext id : String) (td : Ext.TypeDef) :
    lookupType r ext id = some td ↔ ∃ e, Dict.get ext r.extensions = some e ∧ Dict.get id e.types = some td :=
  lookupType_eq_some_iff r ext id td

theorem lookup_op_iff (r : Registry) (ext name : String) (od : Ext.OpDef) :
    lookupOp r ext name = some od ↔ ∃ e, Dict.get ext r.extensions = some e ∧ Dict.get name e.operations = some od :=
  lookupOp_eq_some_iff r ext name od

/-- Otherwise the lookup raises one of the two exceptions `Opaque.resolve` catches … -/
theorem lookup_type_fails_iff (r : Registry) (ext id : String) :
    lookupType r ext id = none ↔
      getExtension r ext = .error .extension ∨ ∃ e, getExtension r ext = .ok e ∧ getType e id = .error .type :=
  lookupType_eq_none_iff r ext id

/-- … respectively the two `Custom.resolve` catches. -/
theorem lookup_op_fails_iff (r : Registry) (ext name : String) :
    lookupOp r ext name = none ↔
      getExtension r ext = .error .extension ∨ ∃ e, getExtension r ext = .ok e ∧ getOp e name = .error .operation :=
  lookupOp_eq_none_iff r ext name

/-- Under `RegistryWf` a found definition is the one of that name, owned by the extension of that name. -/
theorem found_type_def_names (r : Registry) (hwf : RegistryWf r) (ext id : String) (td : Ext.TypeDef)
    (h : lookupType r ext id = some td) : (typeDefRef td).ext = ext ∧ (typeDefRef td).name = id :=
  typeDefRef_names r hwf ext id td h

theorem found_op_def_names (r : Registry) (hwf : RegistryWf r) (ext name : String) (od : Ext.OpDef)
    (h : lookupOp r ext name = some od) : (opDefRef od).ext = some ext ∧ (opDefRef od).name = name :=
  opDefRef_names r hwf ext name od h

example : lookupType regAll "collections.list" "List" = some listDef := rfl
example : getExtension regList "arithmetic.int.types" = .error .extension := rfl
example : getType { listExt with types := [] } "List" = .error .type := rfl
example : (typeDefRef listDef).ext = "collections.list" ∧ (typeDefRef listDef).name = "List" :=
  found_type_def_names regAll regAll_wf _ _ _ rfl
example : (opDefRef popDef).ext = some "collections.list" ∧ (opDefRef popDef).name = "pop" :=
  found_op_def_names regAll regAll_wf "collections.list" "pop" popDef rfl

/-! ### resolves_iff — replaced exactly when the registry has extension and definition -/

/-- An opaque type becomes a definition-backed type exactly when the registry holds an extension of
    that name containing a type definition of that name. -/
theorem resolves_iff (r : Registry) (id : String) (b : Bound) (args : List TypeArg) (ext : String) :
    (∃ d a, resolveTy r (.opaque id b args ext) = .extType d a) ↔
      ∃ e, Dict.get ext r.extensions = some e ∧ ∃ td, Dict.get id e.types = some td := by
  rw [resolveTy]
  cases hl : lookupType r ext id with
  | some td =>
    obtain ⟨e, h1, h2⟩ := (lookupType_eq_some_iff r ext id td).1 hl
    exact ⟨fun _ => ⟨e, h1, td, h2⟩, fun _ => ⟨_, _, rfl⟩⟩
  | none =>
    constructor
    · rintro ⟨d, a, h⟩; cases h
    · rintro ⟨e, h1, td, h2⟩
      rw [(lookupType_eq_some_iff r ext id td).2 ⟨e, h1, h2⟩] at hl
      cases hl

/-- The definition-backed form: the found definition with the resolved arguments. -/
theorem resolved_type_form (r : Registry) (id : String) (b : Bound) (args : List TypeArg) (ext : String)
    (td : Ext.TypeDef) (h : lookupType r ext id = some td) :
    resolveTy r (.opaque id b args ext) = .extType (typeDefRef td) (resolveArgs r args) := by
  rw [resolveTy, h]

/-- Not found: the type stays opaque with its name and bound (its arguments are still resolved). -/
theorem unresolved_type_form (r : Registry) (id : String) (b : Bound) (args : List TypeArg) (ext : String)
    (h : lookupType r ext id = none) :
    resolveTy r (.opaque id b args ext) = .opaque id b (resolveArgs r args) ext := by
  rw [resolveTy, h]

/-- The same for operations: a `Custom` operation becomes an `ExtOp` exactly when the registry
    holds an extension of that name containing an operation definition of that name. -/
theorem resolves_iff_op (r : Registry) (n : String) (s : Sig) (d e : String) (a : List TypeArg) :
    (∃ dd s' a', resolveOp r (.custom n s d e a) = .extOp dd s' a') ↔
      ∃ x, Dict.get e r.extensions = some x ∧ ∃ od, Dict.get n x.operations = some od := by
  rw [resolveOp]
  cases hl : lookupOp r e n with
  | some od =>
    obtain ⟨x, h1, h2⟩ := (lookupOp_eq_some_iff r e n od).1 hl
    exact ⟨fun _ => ⟨x, h1, od, h2⟩, fun _ => ⟨_, _, _, rfl⟩⟩
  | none =>
    constructor
    · rintro ⟨dd, s', a', h⟩; cases h
    · rintro ⟨x, h1, od, h2⟩
      rw [(lookupOp_eq_some_iff r e n od).2 ⟨x, h1, h2⟩] at hl
      cases hl

/-- … together with the opaque types in its signature and type arguments. -/
theorem resolved_op_form (r : Registry) (n : String) (s : Sig) (d e : String) (a : List TypeArg) (od : Ext.OpDef)
    (h : lookupOp r e n = some od) :
    resolveOp r (.custom n s d e a) = .extOp (opDefRef od) (some (resolveSig r s)) (resolveArgs r a) := by
  rw [resolveOp, h]

/-- Not found: the operation is returned as it is — its signature is *not* resolved on its own. -/
theorem unresolved_op_form (r : Registry) (n : String) (s : Sig) (d e : String) (a : List TypeArg)
    (h : lookupOp r e n = none) : resolveOp r (.custom n s d e a) = .custom n s d e a := by
  rw [resolveOp, h]

/-- Every operation that is not a `Custom` (an `ExtOp` already resolved, `DFG`, `Call`, `Const`, …)
    is left untouched, whatever types it mentions. -/
theorem other_ops_untouched (r : Registry) (op : Op) (h : ∀ n s d e a, op ≠ .custom n s d e a) : resolveOp r op = op :=
  resolveOp_not_custom r op h

/-- Types that are not opaque and have no constituents are returned as they are; so is an already
    resolved extension type, arguments included. -/
theorem other_types_untouched (r : Registry) :
    (∀ n, resolveTy r (.unitSum n) = .unitSum n) ∧ (∀ i b, resolveTy r (.variable i b) = .variable i b) ∧
    (∀ i b, resolveTy r (.rowVariable i b) = .rowVariable i b) ∧ resolveTy r .usize = .usize ∧
    (∀ n b, resolveTy r (.alias n b) = .alias n b) ∧ resolveTy r .qubit = .qubit ∧
    (∀ d a, resolveTy r (.extType d a) = .extType d a) ∧
    (∀ n, resolveArg r (.boundedNat n) = .boundedNat n) ∧ (∀ s, resolveArg r (.string s) = .string s) ∧
    (∀ es, resolveArg r (.extensions es) = .extensions es) ∧ (∀ i p, resolveArg r (.variable i p) = .variable i p) := by
  simp [resolveTy, resolveArg]

/-- **Conservative**: an expression is returned unchanged exactly when none of its opaque types
    (at any depth resolution reaches) names a definition known to the registry. -/
theorem unchanged_iff (r : Registry) (t : Ty) :
    resolveTy r t = t ↔ ∀ x ∈ opaques t, lookupType r x.1 x.2 = none := by
  constructor
  · intro h x hx
    have := (remaining_all r).1 t x
    rw [h] at this
    exact this hx
  · exact (untouched_all r).1 t

/-- In a HUGR exactly the operations of the live nodes are rewritten (by `resolveOp`); hierarchy,
    metadata, port counts, links, free list and root are untouched. -/
theorem hugr_nodes (r : Registry) {μ : Type} (s : Store Op μ) (i : Nat) :
    Store.getNode (resolveStore r s) i = (Store.getNode s i).map (fun d => { d with op := resolveOp r d.op }) := by
  rw [resolveStore_eq_mapOps, getNode_mapOps]

theorem hugr_structure (r : Registry) {μ : Type} (s : Store Op μ) :
    (resolveStore r s).links = s.links ∧ (resolveStore r s).free = s.free ∧ (resolveStore r s).root = s.root ∧
    Store.liveNodes (resolveStore r s) = Store.liveNodes s ∧ Store.hierarchyOrder (resolveStore r s) = Store.hierarchyOrder s := by
  refine ⟨rfl, rfl, rfl, ?_, ?_⟩
  · rw [resolveStore_eq_mapOps, liveNodes_mapOps]
  · rw [resolveStore_eq_mapOps, hierarchyOrder_mapOps]

-- complete registry: both levels replaced; partial: only what is known; empty / definition absent: untouched
example : resolveTy regAll listInt5 = .extType (typeDefRef listDef) [.type int5R] := rfl
example : resolveTy regList listInt5 = .extType (typeDefRef listDef) [.type int5] := rfl
example : resolveTy regEmpty listInt5 = listInt5 := rfl
example : resolveTy regNoDef listInt5 = .opaque "List" .copyable [.type int5R] "collections.list" := rfl
example : ∃ d a, resolveTy regAll listInt5 = .extType d a := (resolves_iff regAll _ _ _ _).2 ⟨listExt, rfl, listDef, rfl⟩
example : ¬ ∃ d a, resolveTy regNoDef listInt5 = .extType d a := fun h => by
  obtain ⟨e, h1, td, h2⟩ := (resolves_iff regNoDef _ _ _ _).1 h
  cases h1; cases h2
example : resolveOp regAll popOp =
    .extOp (opDefRef popDef)
      (some ⟨[resolveTy regAll listInt5], [resolveTy regAll listInt5, Ty.option [int5R]], ["collections.list"]⟩) [.type int5R] := rfl
example : resolveOp regEmpty popOp = popOp := rfl
example : resolveOp regAll (.dfg [listInt5] (some [listInt5]) []) = .dfg [listInt5] (some [listInt5]) [] :=
  other_ops_untouched regAll _ (fun _ _ _ _ _ h => nomatch h)
example : resolveOp regAll (resolveOp regAll popOp) = resolveOp regAll popOp :=
  other_ops_untouched regAll _ (fun _ _ _ _ _ h => nomatch h)   -- an `ExtOp` is not visited again
example : resolveTy regAll (Ty.tuple [.usize, .variable 0 .any]) = Ty.tuple [.usize, .variable 0 .any] :=
  (unchanged_iff regAll _).2 (fun x hx => by
    have h : opaques (Ty.tuple [.usize, .variable 0 .any]) = [] := rfl
    rw [h] at hx; cases hx)

/-! ### reaches_every_depth -/

/-- Resolution descends into sums, function types, polymorphic function types, type arguments,
    sequence arguments **and the arguments of opaque types** (found or not). -/
theorem reaches_every_depth (r : Registry) :
    (∀ rows, resolveTy r (.sum rows) = .sum (rows.map (fun row => row.map (resolveTy r)))) ∧
    (∀ i o rq, resolveTy r (.function i o rq) = .function (i.map (resolveTy r)) (o.map (resolveTy r)) rq) ∧
    (∀ ps i o rq, resolveTy r (.poly ps i o rq) = .poly ps (i.map (resolveTy r)) (o.map (resolveTy r)) rq) ∧
    (∀ t, resolveArg r (.type t) = .type (resolveTy r t)) ∧
    (∀ es, resolveArg r (.sequence es) = .sequence (es.map (resolveArg r))) ∧
    (∀ id b args ext td, lookupType r ext id = some td →
      resolveTy r (.opaque id b args ext) = .extType (typeDefRef td) (args.map (resolveArg r))) ∧
    (∀ id b args ext, lookupType r ext id = none →
      resolveTy r (.opaque id b args ext) = .opaque id b (args.map (resolveArg r)) ext) := by
  refine ⟨?_, ?_, ?_, ?_, ?_, ?_, ?_⟩
  · intro rows
    rw [resolveTy, resolveRows_eq_map]
    congr 1
    exact List.map_congr_left (fun row _ => resolveRow_eq_map r row)
  · intro i o rq; rw [resolveTy, resolveRow_eq_map, resolveRow_eq_map]
  · intro ps i o rq; rw [resolveTy, resolveRow_eq_map, resolveRow_eq_map]
  · intro t; rw [resolveArg]
  · intro es; rw [resolveArg, resolveArgs_eq_map]
  · intro id b args ext td h; rw [resolveTy, h, resolveArgs_eq_map]
  · intro id b args ext h; rw [resolveTy, h, resolveArgs_eq_map]

/-- Consequently nothing resolvable is left: in the result no opaque type, at any depth, names a
    definition known to the registry. -/
theorem no_known_opaque_left (r : Registry) (t : Ty) : ∀ x ∈ opaques (resolveTy r t), lookupType r x.1 x.2 = none :=
  (remaining_all r).1 t

theorem no_known_opaque_left_arg (r : Registry) (a : TypeArg) :
    ∀ x ∈ opaquesArg (resolveArg r a), lookupType r x.1 x.2 = none :=
  (remaining_all r).2 a

-- an opaque type four levels down: sum → function type → sequence argument of an unknown opaque type → type argument
example : resolveTy regAll (.sum [[.function [.opaque "unknown" .any [.sequence [.type int5]] "nowhere"] [] []], []]) =
    .sum [[.function [.opaque "unknown" .any [.sequence [.type int5R]] "nowhere"] [] []], []] := rfl
example : opaques (resolveTy regAll listInt5) = [] := rfl

/-! ### wire_invariant — the serialised form does not change -/

/-- **Types.** -/
theorem wire_invariant (r : Registry) (hwf : RegistryWf r) (t : Ty) (hc : BoundsConsistent r t) :
    encTy (resolveTy r t) = encTy t :=
  ((wire_all r hwf).1 t hc).1

theorem wire_invariant_arg (r : Registry) (hwf : RegistryWf r) (a : TypeArg) (hc : ArgConsistent r a) :
    encArg (resolveArg r a) = encArg a :=
  ((wire_all r hwf).2 a hc).1

/-- **Operations**: the serialised operation is that of the original with its free-text description
    replaced by the definition's (where a definition is found) … -/
theorem wire_invariant_op (r : Registry) (hwf : RegistryWf r) (op : Op) (hc : OpConsistent r op) (p : Int) :
    encOp (resolveOp r op) p = encOp (withDefDescription r op) p :=
  encOp_resolveOp r hwf op hc p

/-- … so apart from the member `description` the two documents are the same. -/
theorem wire_invariant_op_modulo_description (r : Registry) (hwf : RegistryWf r) (op : Op) (hc : OpConsistent r op) (p : Int) :
    (encOp (resolveOp r op) p).map eraseDescription = (encOp op p).map eraseDescription := by
  rw [encOp_resolveOp r hwf op hc p, encOp_withDefDescription]

/-- What `withDefDescription` changes: nothing but the description of a `Custom` whose definition is known. -/
theorem withDefDescription_spec (r : Registry) (op : Op) :
    (∀ n s d e a, op = .custom n s d e a →
      withDefDescription r op = .custom n s (match lookupOp r e n with | some od => od.description | none => d) e a) ∧
    ((∀ n s d e a, op ≠ .custom n s d e a) → withDefDescription r op = op) := by
  refine ⟨?_, withDefDescription_not_custom r op⟩
  rintro n s d e a rfl
  rw [withDefDescription]
  cases lookupOp r e n <;> rfl

/-- **HUGRs**: `to_json` of the resolved HUGR is `to_json` of the original with those descriptions replaced … -/
theorem wire_invariant_hugr (r : Registry) (hwf : RegistryWf r) (s : Serial.St Op) (hc : StoreConsistent r s)
    (fuel : Nat) (enc : String) :
    Serial.toJson (Serial.opsCodec fuel) enc (resolveStore r s)
      = Serial.toJson (Serial.opsCodec fuel) enc (mapOps (withDefDescription r) s) :=
  toJson_resolveStore r hwf s hc fuel enc

/-- … and the very same document when the descriptions already are the definitions'. -/
theorem wire_invariant_hugr_same_descriptions (r : Registry) (hwf : RegistryWf r) (s : Serial.St Op)
    (hc : StoreConsistent r s) (hd : ∀ i d, Store.getNode s i = .ok d → withDefDescription r d.op = d.op)
    (fuel : Nat) (enc : String) :
    Serial.toJson (Serial.opsCodec fuel) enc (resolveStore r s) = Serial.toJson (Serial.opsCodec fuel) enc s := by
  rw [toJson_resolveStore r hwf s hc fuel enc, mapOps_congr _ (fun op => op) s hd, mapOps_id]

theorem listInt5_consistent : BoundsConsistent regAll listInt5 := rfl
theorem popOp_consistent : OpConsistent regAll popOp := rfl
example : encTy (resolveTy regAll listInt5) = encTy listInt5 := wire_invariant _ regAll_wf _ listInt5_consistent
example : ∃ j, encTy listInt5 = .ok j := ⟨_, rfl⟩
example : encOp (resolveOp regAll popOp) 3 =
    encOp (.custom "pop" ⟨[listInt5], [listInt5, Ty.option [int5]], ["collections.list"]⟩ "Pop from the back of list"
      "collections.list" [.type int5]) 3 :=
  wire_invariant_op _ regAll_wf popOp popOp_consistent 3
theorem popStore_consistent : StoreConsistent regAll (Store.init popOp ([] : Serial.Meta)) := by
  intro i d h
  cases i with
  | zero => cases h; exact popOp_consistent
  | succ n => cases h
example : ArgConsistent regAll (.sequence [.type listInt5]) := rfl
example : encArg (resolveArg regAll (.sequence [.type listInt5])) = encArg (.sequence [.type listInt5]) :=
  wire_invariant_arg _ regAll_wf _ rfl
example : (encOp (resolveOp regAll popOp) 3).map eraseDescription = (encOp popOp 3).map eraseDescription :=
  wire_invariant_op_modulo_description _ regAll_wf popOp popOp_consistent 3
example : ∃ j, encOp popOp 3 = .ok j := ⟨_, rfl⟩
example : Serial.toJson (Serial.opsCodec 0) "enc" (resolveStore regAll (Store.init popOp []))
    = Serial.toJson (Serial.opsCodec 0) "enc" (mapOps (withDefDescription regAll) (Store.init popOp [])) :=
  wire_invariant_hugr _ regAll_wf _ popStore_consistent 0 "enc"
/-- the same operation with the description its definition has: the document does not change at all -/
def popOp' : Op := .custom "pop" ⟨[listInt5], [listInt5, Ty.option [int5]], ["collections.list"]⟩ "Pop from the back of list" "collections.list" [.type int5]
example : Serial.toJson (Serial.opsCodec 0) "enc" (resolveStore regAll (Store.init popOp' []))
    = Serial.toJson (Serial.opsCodec 0) "enc" (Store.init popOp' ([] : Serial.Meta)) :=
  wire_invariant_hugr_same_descriptions _ regAll_wf _
    (by intro i d h
        cases i with
        | zero => cases h; rfl
        | succ n => cases h)
    (by intro i d h
        cases i with
        | zero => cases h; rfl
        | succ n => cases h) 0 "enc"
example : ∃ j, Serial.toJson (Serial.opsCodec 0) "enc" (Store.init popOp' ([] : Serial.Meta)) = .ok j := ⟨_, rfl⟩

/-- The consistency hypothesis is needed: an opaque `int<5>` that claims to be linear is emitted
    with bound `A` before and with the definition's bound `C` after resolution. -/
theorem bounds_hypothesis_needed :
    encTy (resolveTy regAll (.opaque "int" .any [.boundedNat 5] "arithmetic.int.types"))
      ≠ encTy (.opaque "int" .any [.boundedNat 5] "arithmetic.int.types") := by
  intro h
  have h1 : encTy (resolveTy regAll (.opaque "int" .any [.boundedNat 5] "arithmetic.int.types"))
      = .ok (opaqueJson "arithmetic.int.types" "int" [.obj [("tya", .str "BoundedNat"), ("n", .int 5)]] .copyable) := rfl
  have h2 : encTy (.opaque "int" .any [.boundedNat 5] "arithmetic.int.types")
      = .ok (opaqueJson "arithmetic.int.types" "int" [.obj [("tya", .str "BoundedNat"), ("n", .int 5)]] .any) := rfl
  rw [h1, h2] at h
  simp [opaqueJson, encBound] at h

/-! ### facts_invariant — signatures, port kinds and types, bounds -/

/-- The bound of a type does not change. -/
theorem bound_invariant (r : Registry) (hwf : RegistryWf r) (t : Ty) (hc : BoundsConsistent r t) :
    Ty.bound (resolveTy r t) = Ty.bound t :=
  ((wire_all r hwf).1 t hc).2

/-- The signature of an operation as seen from outside (serialised form, bounds of the port
    types), its number of outputs, and of every port the kind, the serialised type and the bound. -/
theorem facts_invariant (r : Registry) (hwf : RegistryWf r) (op : Op) (hc : OpConsistent r op) :
    (outerSig (resolveOp r op)).map sigView = (outerSig op).map sigView ∧
    numOut (resolveOp r op) = numOut op ∧
    ∀ dir off, (portKind (resolveOp r op) dir off).map kindView = (portKind op dir off).map kindView :=
  facts_resolveOp r hwf op hc

/-- Structurally: the signature of a resolved operation is the resolved signature of the original,
    port by port. -/
theorem signature_resolved (r : Registry) (n : String) (s : Sig) (d e : String) (a : List TypeArg) (od : Ext.OpDef)
    (h : lookupOp r e n = some od) :
    outerSig (resolveOp r (.custom n s d e a)) = .ok (resolveSig r s) ∧
    ∀ dir off, portType (resolveOp r (.custom n s d e a)) dir off
      = (portType (.custom n s d e a) dir off).map (resolveTy r) := by
  rw [resolveOp, h]
  refine ⟨rfl, fun dir off => ?_⟩
  simp only [portType, isDataflowOp, outerSig, if_true, bind, Except.bind]
  exact sigPortType_resolveSig r s dir off

example : Ty.bound (resolveTy regAll listInt5) = .ok .copyable := rfl
example : Ty.bound (resolveTy regAll listInt5) = Ty.bound listInt5 := bound_invariant _ regAll_wf _ listInt5_consistent
example : outerSig (resolveOp regAll popOp) = .ok (resolveSig regAll ⟨[listInt5], [listInt5, Ty.option [int5]], ["collections.list"]⟩) :=
  (signature_resolved regAll _ _ _ _ _ popDef rfl).1
example : (portKind (resolveOp regAll popOp) .out 1).map kindView = (portKind popOp .out 1).map kindView :=
  (facts_invariant regAll regAll_wf popOp popOp_consistent).2.2 .out 1

/-! ### model_invariant — the exported model -/

/-- The hugr-model term a type is exported as does not change (no consistency hypothesis: the
    bound is not exported). -/
theorem model_invariant (r : Registry) (hwf : RegistryWf r) (t : Ty) : toModel (resolveTy r t) = toModel t :=
  (model_all r hwf).1 t

theorem model_invariant_arg (r : Registry) (hwf : RegistryWf r) (a : TypeArg) :
    toModelArg (resolveArg r a) = toModelArg a :=
  (model_all r hwf).2 a

/-- In particular the symbol: an opaque type and its definition-backed form are exported under the
    same qualified name `extension.id`. -/
theorem model_name_invariant (r : Registry) (hwf : RegistryWf r) (id : String) (b : Bound) (args : List TypeArg) (ext : String) :
    toModelName (resolveTy r (.opaque id b args ext)) = some (qualName ext id) := by
  rw [resolveTy]
  cases hl : lookupType r ext id with
  | none => rfl
  | some td =>
    obtain ⟨h1, h2⟩ := typeDefRef_names r hwf ext id td hl
    simp [toModelName, h1, h2]

example : toModel listInt5 =
    .ok (.apply "collections.list.List" [.apply "arithmetic.int.types.int" [.litInt 5]]) := rfl
example : toModel (resolveTy regAll listInt5) = toModel listInt5 := model_invariant _ regAll_wf _
example : toModelArg (resolveArg regAll (.type listInt5)) = toModelArg (.type listInt5) := model_invariant_arg _ regAll_wf _
example : toModelName (resolveTy regAll listInt5) = some "collections.list.List" :=
  model_name_invariant regAll regAll_wf "List" .copyable [.type int5] "collections.list"

/-! ### idempotent — resolving twice is resolving once (no hypotheses) -/

theorem idempotent (r : Registry) (t : Ty) : resolveTy r (resolveTy r t) = resolveTy r t := (idem_all r).1 t

theorem idempotent_arg (r : Registry) (a : TypeArg) : resolveArg r (resolveArg r a) = resolveArg r a := (idem_all r).2 a

theorem idempotent_op (r : Registry) (op : Op) : resolveOp r (resolveOp r op) = resolveOp r op := resolveOp_idem r op

theorem idempotent_hugr (r : Registry) {μ : Type} (s : Store Op μ) :
    resolveStore r (resolveStore r s) = resolveStore r s :=
  resolveStore_idem r s

example : resolveTy regList (resolveTy regList listInt5) = resolveTy regList listInt5 := idempotent _ _
example : resolveTy regList listInt5 ≠ listInt5 := by
  intro h
  have := (unchanged_iff regList listInt5).1 h ("collections.list", "List")
    (show _ ∈ [("collections.list", "List"), ("arithmetic.int.types", "int")] from List.mem_cons_self)
  cases this

/-! ### resolution reads nothing but the definitions it looks up -/

/-- Two registries that agree on the definitions the opaque types of an expression name resolve it
    alike (the harness sends the Lean driver large standard extensions pruned to the definitions a
    case can name). -/
theorem resolve_congr (r r' : Registry) (t : Ty)
    (h : ∀ x ∈ opaques t, lookupType r x.1 x.2 = lookupType r' x.1 x.2) : resolveTy r t = resolveTy r' t :=
  (congr_all r r').1 t h

example : resolveTy regAll int5 = resolveTy regNoDef int5 :=
  resolve_congr regAll regNoDef int5 (fun x hx => by
    have h : opaques int5 = [("arithmetic.int.types", "int")] := rfl
    rw [h, List.mem_singleton] at hx
    subst hx; rfl)

end HugrVerif.Props.C11
