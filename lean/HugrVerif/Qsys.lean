/-
  Model of `hugr.qsystem.result` (hugr-py/src/hugr/qsystem/result.py), statement by statement,
  as the code stands after the repairs F17 (replay `self.entries`, not `dict(self.entries)`),
  F18 (`str(int(data))`) and F19 (`strict_names` compares with the registers seen so far
  *before* adding the shot).  Core Lean only (plus the import-free `Py.Dict`).

  Python `str` is modelled as `List Char` (a sequence of code points).

  * `parseTag`            `re.match(REG_INDEX_PATTERN, tag)` for `^([a-z][\w_]*)\[(\d+)\]$`
                          on ASCII tags (`$` also matches before one final newline)
  * `castBit`             `_cast_primitive_bit`
  * `toRegisterBits`      `QsysShot.to_register_bits`
  * `collateTags`         `QsysShot.collate_tags`
  * `registerBitstrings`  `QsysResult.register_bitstrings(strict_names, strict_lengths)`
  * `registerCounts`      `QsysResult.register_counts(strict_names, strict_lengths)`
  * `collatedCounts`      `QsysResult.collated_counts`
  * `replay`              the SPECIFICATION: entries replayed in order as writes to registers of bits
-/
import HugrVerif.Py.Dict

namespace HugrVerif.Qsys
open HugrVerif.Py

/-- Python `str`. -/
abbrev Str := List Char

/-- `DataPrimitive = int | float | bool`; a float is carried as its literal text. -/
inductive Prim where
  | int (n : Int)
  | bool (b : Bool)
  | float (lit : Str)
deriving DecidableEq, Repr

/-- `DataValue`, with arbitrarily nested lists (`_flatten` is recursive). -/
inductive Data where
  | prim (p : Prim)
  | list (xs : List Data)
deriving Repr

/-- `TaggedResult = tuple[str, DataValue]`. -/
abbrev Entry := Str × Data

/-- The `ValueError` raised by `_cast_primitive_bit`. -/
structure ValueError where
deriving DecidableEq, Repr

/-- Exceptions of the multi-shot functions.  `indexError` is what `shot_dct[reg][0]` would raise on
    an empty list; `Props.C19.registerBitstrings_decides` shows it never happens. -/
inductive PyErr where
  | valueError
  | indexError
deriving DecidableEq, Repr

def liftV {α : Type} : Except ValueError α → Except PyErr α
  | .ok a => .ok a
  | .error _ => .error .valueError

/-! ### REG_INDEX_PATTERN -/

/-- The pattern text the matcher below was written for (compared with the regenerated
    `Gen.QsysPattern.pattern` in `Props.C19.pattern_is_modelled`). -/
def modelledPattern : String := "^([a-z][\\w_]*)\\[(\\d+)\\]$"
/-- … compiled without flags, applied with `re.match(REG_INDEX_PATTERN, tag)`. -/
def modelledFlags : String := ""
def modelledUse : String := "match(P,_)"

def isLower (c : Char) : Bool := 97 ≤ c.toNat && c.toNat ≤ 122
def isUpper (c : Char) : Bool := 65 ≤ c.toNat && c.toNat ≤ 90
def isDigit (c : Char) : Bool := 48 ≤ c.toNat && c.toNat ≤ 57
/-- `[\w_]` on ASCII. -/
def isWord (c : Char) : Bool := isLower c || isUpper c || isDigit c || c == '_'

/-- `int(digits)` for ASCII decimal digits (leading zeros allowed). -/
def digitsVal (ds : List Char) : Nat := ds.foldl (fun acc c => 10 * acc + (c.toNat - 48)) 0

/-- Split at the first `[`: (text before, text after). -/
def splitBracket : List Char → Option (List Char × List Char)
  | [] => none
  | c :: cs =>
    if c = '[' then some ([], cs)
    else match splitBracket cs with
      | some (a, b) => some (c :: a, b)
      | none => none

/-- Longest prefix of digits, and the rest. -/
def takeDigits : List Char → List Char × List Char
  | [] => ([], [])
  | c :: cs => if isDigit c then ((takeDigits cs).1.cons c, (takeDigits cs).2) else ([], c :: cs)

/-- `re.match(REG_INDEX_PATTERN, tag)`: `some (group 1, int(group 2))`.
    No character of group 1 can be `[`, so group 1 ends at the first `[`; `\d+` takes the whole digit
    run because the next character must be `]`; `$` matches at the end or before a final newline. -/
def parseTag (t : Str) : Option (Str × Nat) :=
  match splitBracket t with
  | none => none
  | some (name, rest) =>
    match name with
    | [] => none
    | c :: cs =>
      if isLower c && cs.all isWord then
        let ds := (takeDigits rest).1
        let tail := (takeDigits rest).2
        if !ds.isEmpty && (tail == [']'] || tail == [']', '\n']) then some (c :: cs, digitsVal ds)
        else none
      else none

/-- Is every character of every tag ASCII?  (Outside: the driver answers `!unsupported`.) -/
def asciiTag (t : Str) : Bool := t.all (fun c => c.toNat < 128)

/-! ### `_cast_primitive_bit` -/

/-- `if isinstance(data, int) and data in {0, 1}: return str(int(data))` else `ValueError`.
    `bool` is a subclass of `int` and `True == 1`, `False == 0`. -/
def castBit : Data → Except ValueError Str
  | .prim (.int n) =>
    if n = 0 ∨ n = 1 then .ok (if n = 0 then ['0'] else ['1']) else .error {}
  | .prim (.bool b) => .ok (if b then ['1'] else ['0'])
  | .prim (.float _) => .error {}
  | .list _ => .error {}

/-- `[_cast_primitive_bit(v) for v in vs]`. -/
def castBits : List Data → Except ValueError (List Str)
  | [] => .ok []
  | v :: vs =>
    match castBit v with
    | .error e => .error e
    | .ok c =>
      match castBits vs with
      | .error e => .error e
      | .ok cs => .ok (c :: cs)

/-! ### `QsysShot.to_register_bits` -/

/-- One iteration of `for tag, data in self.entries:` on `reg_bits`. -/
def stepBits (regBits : Dict Str (List Str)) (e : Entry) : Except ValueError (Dict Str (List Str)) :=
  match parseTag e.1 with
  | some (regName, regIndex) =>
    -- `if reg_name not in reg_bits: reg_bits[reg_name] = ["0"] * (reg_index + 1)`; `bitlst = reg_bits[reg_name]`
    let bitlst := match Dict.get regName regBits with
      | none => List.replicate (regIndex + 1) ['0']
      | some l => l
    -- `if reg_index >= len(bitlst): bitlst += ["0"] * (reg_index - len(bitlst) + 1)`
    let bitlst := if regIndex ≥ bitlst.length then
        bitlst ++ List.replicate (regIndex - bitlst.length + 1) ['0'] else bitlst
    -- `bitlst[reg_index] = _cast_primitive_bit(data)`   (the list lives in the dict)
    match castBit e.2 with
    | .error err => .error err
    | .ok c => .ok (Dict.set regName (bitlst.set regIndex c) regBits)
  | none =>
    match e.2 with
    | .list vs =>
      match castBits vs with
      | .error err => .error err
      | .ok cs => .ok (Dict.set e.1 cs regBits)
    | d =>
      match castBit d with
      | .error err => .error err
      | .ok c => .ok (Dict.set e.1 [c] regBits)

def loopBits : List Entry → Dict Str (List Str) → Except ValueError (Dict Str (List Str))
  | [], regBits => .ok regBits
  | e :: es, regBits =>
    match stepBits regBits e with
    | .error err => .error err
    | .ok regBits' => loopBits es regBits'

/-- `{reg: "".join(bits) for reg, bits in reg_bits.items()}`. -/
def joinBits (regBits : Dict Str (List Str)) : Dict Str Str :=
  regBits.map fun p => (p.1, p.2.flatten)

def toRegisterBits (es : List Entry) : Except ValueError (Dict Str Str) :=
  match loopBits es [] with
  | .error err => .error err
  | .ok regBits => .ok (joinBits regBits)

/-! ### SPECIFICATION: replay of the entries, in order, as writes -/

/-- A register is a sequence of bits. -/
abbrev RegMap := Dict Str (List Bool)

/-- The bit denoted by a value: the ints 0, 1 and the bools. -/
def asBit : Data → Except ValueError Bool
  | .prim (.int n) => if n = 0 then .ok false else if n = 1 then .ok true else .error {}
  | .prim (.bool b) => .ok b
  | .prim (.float _) => .error {}
  | .list _ => .error {}

def asBits : List Data → Except ValueError (List Bool)
  | [] => .ok []
  | v :: vs =>
    match asBit v with
    | .error e => .error e
    | .ok b =>
      match asBits vs with
      | .error e => .error e
      | .ok bs => .ok (b :: bs)

/-- Write bit `b` at position `n`, growing the register with zeros as needed. -/
def writeBit (bits : List Bool) (n : Nat) (b : Bool) : List Bool :=
  (bits ++ List.replicate (n + 1 - bits.length) false).set n b

/-- One write.  `name[n]` writes one bit (an absent register is empty); any other tag overwrites
    the whole register with the bit, or the list of bits, given. -/
def write (m : RegMap) (e : Entry) : Except ValueError RegMap :=
  match parseTag e.1 with
  | some (r, n) =>
    match asBit e.2 with
    | .error err => .error err
    | .ok b =>
      let old := match Dict.get r m with
        | some bits => bits
        | none => []
      .ok (Dict.set r (writeBit old n b) m)
  | none =>
    match e.2 with
    | .list vs =>
      match asBits vs with
      | .error err => .error err
      | .ok bs => .ok (Dict.set e.1 bs m)
    | d =>
      match asBit d with
      | .error err => .error err
      | .ok b => .ok (Dict.set e.1 [b] m)

def replayFrom : List Entry → RegMap → Except ValueError RegMap
  | [], m => .ok m
  | e :: es, m =>
    match write m e with
    | .error err => .error err
    | .ok m' => replayFrom es m'

/-- The specification of `to_register_bits`. -/
def replay (es : List Entry) : Except ValueError RegMap := replayFrom es []

def bitChar (b : Bool) : Char := if b then '1' else '0'
def render (bits : List Bool) : Str := bits.map bitChar
def renderMap (m : RegMap) : Dict Str Str := m.map fun p => (p.1, render p.2)

/-! ### `QsysShot.collate_tags` -/

/-- `tags[tag].append(data)` on a `defaultdict(list)`. -/
def appendAt {β : Type} (k : Str) (v : β) (d : Dict Str (List β)) : Dict Str (List β) :=
  match Dict.get k d with
  | some l => Dict.set k (l ++ [v]) d
  | none => Dict.set k [v] d

def collateFrom : List Entry → Dict Str (List Data) → Dict Str (List Data)
  | [], tags => tags
  | e :: es, tags => collateFrom es (appendAt e.1 e.2 tags)

def collateTags (es : List Entry) : Dict Str (List Data) := collateFrom es []

/-! ### `QsysResult.register_bitstrings` -/

/-- `bitstrs.keys() != shot_dct.keys()` is a comparison of key *sets*. -/
def sameKeySet (a b : List Str) : Bool := a.all (fun k => b.contains k) && b.all (fun k => a.contains k)

/-- `for reg, bitstr in bitstrs.items(): …` -/
def shotLoop (strictLengths : Bool) :
    List (Str × Str) → Dict Str (List Str) → Except PyErr (Dict Str (List Str))
  | [], shotDct => .ok shotDct
  | (reg, bitstr) :: rest, shotDct =>
    -- `strict_lengths and reg in shot_dct and len(shot_dct[reg][0]) != len(bitstr)`
    let clash : Except PyErr Bool :=
      if strictLengths then
        match Dict.get reg shotDct with
        | none => .ok false
        | some [] => .error .indexError
        | some (first :: _) => .ok (first.length != bitstr.length)
      else .ok false
    match clash with
    | .error e => .error e
    | .ok true => .error .valueError
    | .ok false => shotLoop strictLengths rest (appendAt reg bitstr shotDct)

/-- `for i, shot in enumerate(self.results): …` from index `i` on. -/
def resultLoop (strictNames strictLengths : Bool) :
    Nat → List (List Entry) → Dict Str (List Str) → Except PyErr (Dict Str (List Str))
  | _, [], shotDct => .ok shotDct
  | i, shot :: rest, shotDct =>
    match toRegisterBits shot with
    | .error _ => .error .valueError
    | .ok bitstrs =>
      if strictNames && decide (i > 0) && !sameKeySet (Dict.keys bitstrs) (Dict.keys shotDct) then
        .error .valueError
      else
        match shotLoop strictLengths bitstrs shotDct with
        | .error e => .error e
        | .ok shotDct' => resultLoop strictNames strictLengths (i + 1) rest shotDct'

def registerBitstrings (strictNames strictLengths : Bool) (shots : List (List Entry)) :
    Except PyErr (Dict Str (List Str)) :=
  resultLoop strictNames strictLengths 0 shots []

/-! ### `Counter`, `register_counts` -/

/-- `c[x] += 1` on a `Counter` (a missing key counts 0). -/
def bump {α : Type} [DecidableEq α] (x : α) (c : Dict α Nat) : Dict α Nat :=
  match Dict.get x c with
  | some n => Dict.set x (n + 1) c
  | none => Dict.set x 1 c

def counterFrom {α : Type} [DecidableEq α] : List α → Dict α Nat → Dict α Nat
  | [], c => c
  | x :: xs, c => counterFrom xs (bump x c)

/-- `Counter(iterable)`. -/
def counter {α : Type} [DecidableEq α] (xs : List α) : Dict α Nat := counterFrom xs []

def registerCounts (strictNames strictLengths : Bool) (shots : List (List Entry)) :
    Except PyErr (Dict Str (Dict Str Nat)) :=
  match registerBitstrings strictNames strictLengths shots with
  | .error e => .error e
  | .ok d => .ok (d.map fun p => (p.1, counter p.2))

/-! ### `_flatten`, `_flat_bitstring`, `collated_counts` -/

mutual
  /-- `_flatten` of one value. -/
  def flatten : Data → List Prim
    | .prim p => [p]
    | .list xs => flattenL xs
  /-- `_flatten(itr)`. -/
  def flattenL : List Data → List Prim
    | [] => []
    | x :: xs => flatten x ++ flattenL xs
end

/-- `"".join(_cast_primitive_bit(prim) for prim in prims)`. -/
def castPrims : List Prim → Except ValueError Str
  | [] => .ok []
  | p :: ps =>
    match castBit (.prim p) with
    | .error e => .error e
    | .ok c =>
      match castPrims ps with
      | .error e => .error e
      | .ok s => .ok (c ++ s)

def flatBitstring (data : List Data) : Except ValueError Str := castPrims (flattenL data)

/-- `tuple((tag, _flat_bitstring(data)) for tag, data in d.items())`. -/
def keyOf : List (Str × List Data) → Except ValueError (List (Str × Str))
  | [] => .ok []
  | (tag, data) :: rest =>
    match flatBitstring data with
    | .error e => .error e
    | .ok s =>
      match keyOf rest with
      | .error e => .error e
      | .ok k => .ok ((tag, s) :: k)

def collatedKey (es : List Entry) : Except ValueError (List (Str × Str)) := keyOf (collateTags es)

def collatedKeys : List (List Entry) → Except ValueError (List (List (Str × Str)))
  | [] => .ok []
  | s :: ss =>
    match collatedKey s with
    | .error e => .error e
    | .ok k =>
      match collatedKeys ss with
      | .error e => .error e
      | .ok ks => .ok (k :: ks)

def collatedCounts (shots : List (List Entry)) : Except PyErr (Dict (List (Str × Str)) Nat) :=
  match collatedKeys shots with
  | .error _ => .error .valueError
  | .ok ks => .ok (counter ks)

end HugrVerif.Qsys
