/-
  L7: model of node handles and ports, `hugr-py/src/hugr/hugr/node_port.py:33-225`, statement by
  statement, plus the three places where a handle receives its output count
  (`hugr/base.py` `_add_node` / `_update_port_count`, `build/dfg.py` `add_op`).

  Python exceptions are modelled explicitly (`Except Err`).  Generators are modelled by the list
  they yield when fully consumed; the first exception (raised either when `__getitem__` is
  called or while the generator is consumed) is the result.  Import-free.
-/
namespace HugrVerif.Handle

/-- The exception classes that `node_port.py` can raise from indexing. -/
inductive Err where
  | indexError      -- `raise IndexError(msg)` in `_normalize_index`
  | valueError      -- `raise ValueError(msg)` in `_index` (slice without a stop on an unknown count)
  | assertionError  -- `assert self._num_out_ports is not None` (proved unreachable)
deriving DecidableEq, Repr, Inhabited

/-- `class Direction(Enum)`. -/
inductive Direction where
  | incoming | outgoing
deriving DecidableEq, Repr, Inhabited

/-- `@dataclass(frozen=True, eq=True, order=True) class Node`:
    `idx`; `_metadata` (`compare=False`); `_num_out_ports : int | None` (`compare=False`).
    The metadata dictionary is opaque here (a list of key/value strings). -/
structure Node where
  idx : Nat
  metadata : List (String × String) := []
  numOut : Option Nat := none
deriving DecidableEq, Repr, Inhabited

/-- `InPort` / `OutPort`: dataclass fields `node`, `offset`; the direction is the class. -/
structure Port where
  node : Node
  offset : Int
  dir : Direction
deriving DecidableEq, Repr, Inhabited

/-- dataclass `__eq__` of `Node`: same class and equal tuples of the `compare=True` fields, i.e. `(idx,)`. -/
def Node.eq (a b : Node) : Bool := a.idx == b.idx

/-- dataclass `__hash__` of `Node` (frozen, eq): `hash((idx,))` — a function of this key only. -/
def Node.hashKey (a : Node) : Nat := a.idx

/-- dataclass `__eq__` of a port: `other.__class__ is self.__class__` and
    `(node, offset) == (node, offset)` (node compared by `Node.__eq__`). -/
def Port.eq (p q : Port) : Bool := p.dir == q.dir && (Node.eq p.node q.node && p.offset == q.offset)

/-- dataclass `__hash__` of a port: `hash((node, offset))` — a function of this key only
    (`direction` is a `ClassVar`, not a field). -/
def Port.hashKey (p : Port) : Nat × Int := (Node.hashKey p.node, p.offset)

/-- `ToNode.out(offset)`: `OutPort(self.to_node(), offset)`. -/
def out (h : Node) (offset : Int) : Port := ⟨h, offset, .outgoing⟩

/-- `ToNode.inp(offset)`: `InPort(self.to_node(), offset)`. -/
def inp (h : Node) (offset : Int) : Port := ⟨h, offset, .incoming⟩

/-- `ToNode.port(offset, direction)`. -/
def port (h : Node) (offset : Int) (d : Direction) : Port :=
  if d = .incoming then inp h offset else out h offset

/-- `ToNode.out_port()`: a node used as a `Wire` is `OutPort(self.to_node(), 0)`. -/
def outPort (h : Node) : Port := ⟨h, 0, .outgoing⟩

/-- `Node._normalize_index(index, allow_overflow)` (`node_port.py:187-219`):
    first the range checks, then the three-way return. -/
def normalizeIndex (numOut : Option Nat) (index : Int) (allowOverflow : Bool := false) : Except Err Int :=
  -- if self._num_out_ports is not None: ... else: ...
  let check : Except Err Unit :=
    match numOut with
    | some n =>
      if index ≥ (n : Int) && !allowOverflow then .error .indexError
      else if index < -(n : Int) then .error .indexError
      else .ok ()
    | none =>
      if index < 0 then .error .indexError else .ok ()
  match check with
  | .error e => .error e
  | .ok () =>
    match numOut with
    | some n =>
      if index ≥ 0 then .ok (min index (n : Int))      -- `min(index, self._num_out_ports)`
      else .ok ((n : Int) + index)                       -- `self._num_out_ports + index`
    | none =>
      if index ≥ 0 then .ok index
      else .error .assertionError

/-- `_index` with an `int`: `self.out(self._normalize_index(index))`. -/
def getInt (h : Node) (i : Int) : Except Err Port :=
  match normalizeIndex h.numOut i false with
  | .error e => .error e
  | .ok k => .ok (out h k)

/-- Python's `range(start, stop, step)` for `step > 0`, by iteration: `fuel` bounds the number of
    elements (`stop - start` suffices since every step advances by at least one). -/
def rangeUp (stop step : Int) : Nat → Int → List Int
  | 0, _ => []
  | fuel + 1, cur => if cur < stop then cur :: rangeUp stop step fuel (cur + step) else []

/-- … and for `step < 0`. -/
def rangeDown (stop step : Int) : Nat → Int → List Int
  | 0, _ => []
  | fuel + 1, cur => if cur > stop then cur :: rangeDown stop step fuel (cur + step) else []

/-- `list(range(start, stop, step))`; `step = 0` does not occur (`index.step or 1`). -/
def pyRange (start stop step : Int) : List Int :=
  if step > 0 then rangeUp stop step (stop - start).toNat start
  else if step < 0 then rangeDown stop step (start - stop).toNat start
  else []

/-- Consume a generator `(f(i) for i in xs)`: the yielded items, or the first exception. -/
def collect (f : Int → Except Err Port) : List Int → Except Err (List Port)
  | [] => .ok []
  | i :: rest =>
    match f i with
    | .error e => .error e
    | .ok p =>
      match collect f rest with
      | .error e => .error e
      | .ok ps => .ok (p :: ps)

/-- Python's `x or d` for `x : int | None`: `None` and `0` are both falsy. -/
def pyOr (x : Option Int) (d : Int) : Int :=
  match x with
  | none => d
  | some v => if v = 0 then d else v

/-- `index.stop if index.stop is not None else self._num_out_ports`. -/
def stopOrCount (stop : Option Int) (numOut : Option Nat) : Option Int :=
  match stop with
  | some e => some e
  | none => numOut.map Int.ofNat

/-- The tail of the slice branch once `start`, `stop` and `step` are integers:
    normalise both bounds with `allow_overflow=True`, then `(self[i] for i in range(start, stop, step))`. -/
def sliceFrom (h : Node) (start0 stop1 step1 : Int) : Except Err (List Port) :=
  match normalizeIndex h.numOut start0 true with
  | .error e => .error e
  | .ok a =>
    match normalizeIndex h.numOut stop1 true with
    | .error e => .error e
    | .ok b => collect (getInt h) (pyRange a b step1)

/-- `_index` with a `slice(start, stop, step)` (`node_port.py:169-183`), fully consumed:
    `start = index.start or 0`; `stop = … else self._num_out_ports`; `if stop is None: raise ValueError`;
    the two normalisations; `step = index.step or 1`; the generator. -/
def getSlice (h : Node) (start stop step : Option Int) : Except Err (List Port) :=
  let start0 := pyOr start 0
  match stopOrCount stop h.numOut with
  | none => .error .valueError
  | some stop1 => sliceFrom h start0 stop1 (pyOr step 1)

/-- `_index` with a tuple of ints: `(self[i] for i in xs)`, fully consumed. -/
def getTuple (h : Node) (xs : List Int) : Except Err (List Port) := collect (getInt h) xs

/-- `ToNode.outputs()`: `self[:]`. -/
def outputs (h : Node) : Except Err (List Port) := getSlice h none none none

/-- `ToNode.__iter__()`: `self.outputs()`. -/
def iter (h : Node) : Except Err (List Port) := outputs h

/-! ### Where handles get their count -/

/-- `dataclasses.replace(node, _num_out_ports=k)`. -/
def replaceNumOut (node : Node) (k : Option Nat) : Node := { node with numOut := k }

/-- `Hugr._update_port_count(node, num_inps=…, num_outs=…)` (`base.py:189-213`): the returned handle
    (the stored `NodeData` counts are not part of this model). -/
def updatePortCount (node : Node) (numInps numOuts : Option Nat) : Node :=
  if numInps.isNone && numOuts.isNone then node
  else match numOuts with
    | some k => replaceNumOut node (some k)
    | none => node

/-- `Hugr._add_node(op, parent, num_outs, metadata)` (`base.py:159-180`): a fresh `Node(idx, {})`, then
    `replace(node, _num_out_ports=num_outs, _metadata=…)`; the result of the trailing
    `_update_node_outs` call is discarded, `node` is returned. -/
def addNode (idx : Nat) (numOuts : Option Nat) (metadata : List (String × String) := []) : Node :=
  let node : Node := { idx := idx, metadata := [] }
  let node := { node with numOut := numOuts, metadata := metadata }
  let _discarded := updatePortCount node none numOuts
  node

/-- `DfBase.add_op(op, *args)` (`dfg.py:193-196`): `add_node(op, parent)` without a count, wiring,
    then `replace(new_n, _num_out_ports=op.num_out)`. -/
def addOp (idx : Nat) (opNumOut : Nat) (metadata : List (String × String) := []) : Node :=
  replaceNumOut (addNode idx none metadata) (some opNumOut)

/-- `DfBase.call`: `add_node(call_op, parent, call_op.num_out)`. -/
def call (idx : Nat) (opNumOut : Nat) : Node := addNode idx (some opNumOut)

/-- Container builders: the parent handle is created by `add_node(parent_op, parent)` (no count) and
    replaced by `_update_node_outs(parent_node, count)` when the outputs are set
    (`Dfg.set_outputs`, `TailLoop.set_outputs`, `Cfg.branch_exit`, `Conditional._update_outputs`). -/
def containerAfterOutputs (idx : Nat) (count : Nat) : Node :=
  updatePortCount (addNode idx none) none (some count)

/-- `insert_nested` / `insert_cfg` / `insert_conditional` / `insert_tail_loop`: `insert_hugr` re-adds
    the root with `num_outs=node_data._num_outs`, the count stored when the outputs were set. -/
def inserted (idx : Nat) (storedNumOuts : Nat) : Node := addNode idx (some storedNumOuts)

end HugrVerif.Handle
