import HugrVerif.Sexp
import HugrVerif.Bridge.Json
import HugrVerif.Drive.Serial
import HugrVerif.Validate
/-
  Line-protocol handler for the validity oracle (C01).

  stream `doc.validate`   payload: the JSON document as an s-expression (`Bridge.jsonOfSexp`)
     -> `valid`
      | `(invalid (<rule> <loc>…) …)`   every violated rule with every offending item, in rule order;
                                         loc = node | node port | edge index (position in "edges")
      | `!unsupported undecodable <class>`   the document is not a `SerialHugr` of the current format
-/
namespace HugrVerif.Drive.Validate
open HugrVerif HugrVerif.Sexp HugrVerif.Bridge HugrVerif.Validate

def showViolation (v : Violation) : String :=
  "(" ++ " ".intercalate (v.rule :: v.loc.map (fun (n : Nat) => Nat.repr n)) ++ ")"

def verdict (d : VDoc) : String :=
  match violations d with
  | [] => "valid"
  | vs => "(invalid " ++ " ".intercalate (vs.map showViolation) ++ ")"

def handleDoc (payload : Sexp) : String :=
  match jsonOfSexp payload with
  | none => "!bad-payload"
  | some doc =>
    let fuel := Drive.Serial.jsonSize doc + 8
    match ofJson fuel doc with
    | .error e => "!unsupported undecodable " ++ e
    | .ok d => verdict d

end HugrVerif.Drive.Validate
