import HugrVerif.Sexp
import HugrVerif.Qsys
/- Line-protocol handler for stream `qsys.result`.
   payload:  ((shot ("tag" <data>) ...) ...)     <data> ::= (i n) | (b true|false) | (f "lit") | (l <data>*)
   reply:    (result (shots (shot <bits> <collate>) ...) (bitstrings ff ft tf tt) (counts ff ft tf tt) (collated c))
   where the four flag combinations are (strict_names, strict_lengths) = ff, ft, tf, tt. -/
namespace HugrVerif.Drive.Qsys
open HugrVerif HugrVerif.Sexp HugrVerif.Qsys

partial def parseData : Sexp → Option Data
  | .list [.atom "i", n] => n.toInt?.map fun k => .prim (.int k)
  | .list [.atom "b", .atom "true"] => some (.prim (.bool true))
  | .list [.atom "b", .atom "false"] => some (.prim (.bool false))
  | .list [.atom "f", .str s] => some (.prim (.float s.toList))
  | .list (.atom "l" :: xs) => (xs.mapM parseData).map .list
  | _ => none

def parseEntry : Sexp → Option Entry
  | .list [.str t, d] => (parseData d).map fun v => (t.toList, v)
  | _ => none

def parseShot : Sexp → Option (List Entry)
  | .list (.atom "shot" :: es) => es.mapM parseEntry
  | _ => none

def sstr (s : Str) : Sexp := .str (String.ofList s)

partial def dataSexp : Data → Sexp
  | .prim (.int n) => .list [.atom "i", Sexp.ofInt n]
  | .prim (.bool b) => .list [.atom "b", Sexp.ofBool b]
  | .prim (.float s) => .list [.atom "f", sstr s]
  | .list xs => .list (.atom "l" :: xs.map dataSexp)

def dictSexp {β : Type} (val : β → Sexp) (d : List (Str × β)) : Sexp :=
  .list (.atom "dict" :: d.map fun p => .list [sstr p.1, val p.2])

def errV : ValueError → Sexp := fun _ => .atom "ValueError"
def errP : PyErr → Sexp
  | .valueError => .atom "ValueError"
  | .indexError => .atom "Exception"

def exc {ε α : Type} (err : ε → Sexp) (ok : α → Sexp) : Except ε α → Sexp
  | .ok a => ok a
  | .error e => err e

def flagCombos : List (Bool × Bool) := [(false, false), (false, true), (true, false), (true, true)]

def handle (payload : Sexp) : String :=
  match payload with
  | .list shots =>
    match shots.mapM parseShot with
    | none => "!bad-payload"
    | some shots =>
      if !(shots.all fun sh => sh.all fun e => asciiTag e.1) then "!unsupported"
      else
        let perShot := shots.map fun sh =>
          Sexp.list [.atom "shot",
            exc errV (dictSexp sstr) (toRegisterBits sh),
            dictSexp (fun vs => .list (.atom "vals" :: vs.map dataSexp)) (collateTags sh)]
        let bitstrings := flagCombos.map fun (sn, sl) =>
          exc errP (dictSexp fun ss => .list (.atom "list" :: ss.map sstr)) (registerBitstrings sn sl shots)
        let counts := flagCombos.map fun (sn, sl) =>
          exc errP (dictSexp fun c => .list (.atom "dict" :: c.map fun p => .list [sstr p.1, Sexp.ofNat p.2]))
            (registerCounts sn sl shots)
        let collated := exc errP
          (fun c => .list (.atom "counter" :: c.map fun p =>
            .list [.list (.atom "tuple" :: p.1.map fun q => .list [sstr q.1, sstr q.2]), Sexp.ofNat p.2]))
          (collatedCounts shots)
        (Sexp.list [.atom "result", .list (.atom "shots" :: perShot), .list (.atom "bitstrings" :: bitstrings),
          .list (.atom "counts" :: counts), .list [.atom "collated", collated]]).toString
  | _ => "!bad-payload"

end HugrVerif.Drive.Qsys
