/-
  Line-protocol handlers for the operation layer (used by C06, reusable by C05).

  ops.facts      payload  (CTOR (ACTION…) maxoff)       ACTION ::= (setin R) | (setout R)
                 reply    ((ctor ok|Err) (pre ok|Err …) (op O) (outer SIG|Err) (inner SIG|Err) (inputs R|Err)
                           (numout n|Err) (fpo n|Err) (df true|false)
                           (in (off KIND|Err T|Err T|none|Err)…) (out …) (nth (n R|Err)…))
                 every derived fact, for every offset in [-1, maxoff] in both directions:
                 `port_kind`, `port_type` (op level), `Hugr.port_type`; `nth_inputs/nth_outputs` for
                 n in [-1, maxoff].
  ops.enc        payload  (CTOR parent)                 reply  J <json text> | Err
  ops.roundtrip  payload  (CTOR parent)                 reply  (enc Err) | (dec Err) | (ok O parent J <re-encoded>)
  ops.dec        payload  JSON                          reply  (ok O parent) | ValidationError | NoConcreteFunc
-/
import HugrVerif.Sexp
import HugrVerif.Ops
import HugrVerif.Bridge.Ops

namespace HugrVerif.Drive.Ops
open HugrVerif HugrVerif.Bridge HugrVerif.Bridge.Ops

/-- Python `==` on type rows, as far as the driver needs it (`TailLoop._set_out_types`): structural
    equality of the printed types after replacing `UnitSum(n)` by the general sum of `n` empty rows. -/
partial def genTy : Sexp → Sexp
  | .list [.atom "unit", n] =>
    match n.toNat? with
    | some k => .list [.atom "sum", .list (List.replicate k (.list []))]
    | none => .list [.atom "unit", n]
  | .list xs => .list (xs.map genTy)
  | s => s

def rowEq (a b : List Ty) : Bool := (genTy (rowSexp a)).toString == (genTy (rowSexp b)).toString

def resSexp {α : Type} (f : α → Sexp) : Except OpErr α → Sexp
  | .ok a => f a
  | .error e => .atom (errName e)

def offsets (maxoff : Nat) : List Int := (List.range (maxoff + 2)).map (fun (n : Nat) => Int.ofNat n - 1)

def portFacts (op : Op) (dir : Dir) (maxoff : Nat) : List Sexp :=
  (offsets maxoff).map fun off =>
    .list [Sexp.ofInt off,
      resSexp kindSexp (Op.hugrPortKind op dir off),
      resSexp tySexp (Op.portType op dir off),
      resSexp (optSexp tySexp) (Op.hugrPortType op dir off)]

def nthFacts (op : Op) (maxoff : Nat) : List Sexp :=
  match op with
  | .conditional .. => (offsets maxoff).map fun n => .list [Sexp.ofInt n, resSexp rowSexp (Op.nthInputs op n)]
  | .dataflowBlock .. => (offsets maxoff).map fun n => .list [Sexp.ofInt n, resSexp rowSexp (Op.nthOutputs op n)]
  | _ => []

def applyAction (op : Op) : Sexp → Option (Except OpErr Op)
  | .list [.atom "setin", r] => (rowOfSexp r).map (Op.setInTypes op)
  | .list [.atom "setout", r] => (rowOfSexp r).map (Op.setOutTypes rowEq op)
  | _ => none

def facts (payload : Sexp) : String :=
  match payload with
  | .list [c, .list actions, m] =>
    match ctorOfSexp c, m.toNat? with
    | some (.error e), some _ => (Sexp.list [.list [.atom "ctor", .atom (errName e)]]).toString
    | some (.ok op0), some maxoff =>
      let step := fun (acc : Option (Op × List Sexp)) (a : Sexp) =>
        match acc with
        | none => none
        | some (op, outs) =>
          match applyAction op a with
          | none => none
          | some (.ok op') => some (op', .atom "ok" :: outs)
          | some (.error e) => some (op, .atom (errName e) :: outs)
      match actions.foldl step (some (op0, [])) with
      | none => "!bad-action"
      | some (op, outs) =>
        (Sexp.list [
          .list [.atom "ctor", .atom "ok"],
          .list (.atom "pre" :: outs.reverse),
          .list [.atom "op", opSexp op],
          .list [.atom "outer", resSexp sigSexp (Op.outerSig op)],
          .list [.atom "inner", resSexp sigSexp (Op.innerSig op)],
          .list [.atom "inputs", resSexp rowSexp (Op.inputs op)],
          .list [.atom "numout", resSexp Sexp.ofNat (Op.numOut op)],
          .list [.atom "fpo", resSexp Sexp.ofNat (Op.functionPortOffset op)],
          .list [.atom "df", Sexp.ofBool op.isDataflowOp],
          .list (.atom "in" :: portFacts op .inc maxoff),
          .list (.atom "out" :: portFacts op .out maxoff),
          .list (.atom "nth" :: nthFacts op maxoff)]).toString
    | _, _ => "!bad-payload"
  | _ => "!bad-payload"

/-- number of constructors of a JSON tree: a decoding fuel that is never exhausted -/
partial def jsonSize : Json → Nat
  | .arr xs => xs.foldl (fun n x => n + jsonSize x) 1
  | .obj kvs => kvs.foldl (fun n kv => n + jsonSize kv.2) 1
  | _ => 1

def fuelFor (j : Json) : Nat := jsonSize j + 8

def enc (payload : Sexp) : String :=
  match payload with
  | .list [c, p] =>
    match ctorOfSexp c, p.toInt? with
    | some (.error e), some _ => "ctor " ++ errName e
    | some (.ok op), some parent =>
      match Op.encOp op parent with
      | .ok j => "J " ++ jsonText j
      | .error e => errName e
    | _, _ => "!bad-payload"
  | _ => "!bad-payload"

def decReply (j : Json) : Except Op.DecOpErr (Op × Int) := Op.decOp (fuelFor j) j

def roundtrip (payload : Sexp) : String :=
  match payload with
  | .list [c, p] =>
    match ctorOfSexp c, p.toInt? with
    | some (.error e), some _ => (Sexp.list [.atom "ctor", .atom (errName e)]).toString
    | some (.ok op), some parent =>
      match Op.encOp op parent with
      | .error e => (Sexp.list [.atom "enc", .atom (errName e)]).toString
      | .ok j =>
        match decReply j with
        | .error e => (Sexp.list [.atom "dec", .atom (decErrName e)]).toString
        | .ok (op', parent') =>
          let re := match Op.encOp op' parent' with
            | .ok j' => "J " ++ jsonText j'
            | .error e => errName e
          (Sexp.list [.atom "ok", opSexp op', Sexp.ofInt parent']).toString ++ " " ++ re
    | _, _ => "!bad-payload"
  | _ => "!bad-payload"

def dec (payload : Sexp) : String :=
  match jsonOfSexp payload with
  | none => "!bad-payload"
  | some j =>
    match decReply j with
    | .error e => decErrName e
    | .ok (op, parent) => (Sexp.list [.atom "ok", opSexp op, Sexp.ofInt parent]).toString

def handle (stream : String) (p : Sexp) : Option String :=
  match stream with
  | "ops.facts" => some (facts p)
  | "ops.enc" => some (enc p)
  | "ops.roundtrip" => some (roundtrip p)
  | "ops.dec" => some (dec p)
  | _ => none

end HugrVerif.Drive.Ops
