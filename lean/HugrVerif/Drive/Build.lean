/-
  Line-protocol handler for builder programs (C13, C15, C01).

  stream `build.run`   payload  ("encoder" (CMD…))           (Bridge/Prog.lean)
        reply  {"outcomes": [["ok", RESULT] | ["err", "Class"]…], "docs": [document…]}   (JSON text)
        RESULT as printed by harness/progs.py `run_program`; execution stops at the first raise.
        `!unsupported` when the program leaves the modelled fragment.
-/
import HugrVerif.Sexp
import HugrVerif.Bridge.Prog

namespace HugrVerif.Drive.Build
open HugrVerif HugrVerif.Bridge HugrVerif.Build

def hJson (h : Handle) : Json := .arr [.int h.1, match h.2 with | none => .null | some k => .int k]

def kindName : BKind → String
  | .dfg => "dfg" | .function => "function" | .case => "case" | .ifB => "if" | .elseB => "else"
  | .block => "block" | .tailLoop => "tailloop" | .tracked => "tracked"
  | .cfg => "cfg" | .conditional => "cond" | .module => "module"

def builderJson (st : BuildState) (bi : Nat) : Json :=
  match st.builders[bi]? with
  | none => .null
  | some r =>
    match r.kind with
    | .module => .arr [.str "module", hJson r.parent]
    | .cfg =>
      let e := match r.entry.bind (st.builders[·]?) with | some er => hJson er.parent | none => .null
      .arr [.str "cfg", hJson r.parent, e, hJson r.exit]
    | .conditional =>
      .arr [.str "cond", hJson r.parent,
        .arr (r.cases.map fun (cb, _) => match st.builders[cb]? with | some cr => hJson cr.parent | none => .null)]
    | k => .arr [.str "df", .str (kindName k), hJson r.parent, hJson r.input, hJson r.output]

def reply (os : List Outcome) : String :=
  let rec go : List Outcome → Nat → List Json → List Json → List Json × List Json
    | [], _, outs, docs => (outs.reverse, docs.reverse)
    | .err e :: rest, k, outs, docs => go rest k (.arr [.str "err", .str e.name] :: outs) docs
    | .ok st r :: rest, k, outs, docs =>
      match r with
      | .doc j => go rest (k + 1) (.arr [.str "ok", .arr [.str "doc", .int k]] :: outs) (j :: docs)
      | r =>
        let rj : Json := match r with
          | .none => .arr [.str "none"]
          | .node h => .arr [.str "node", .int h.1, match h.2 with | none => .null | some m => .int m]
          | .nodes hs => .arr [.str "nodes", .arr (hs.map hJson)]
          | .builder bi => builderJson st bi
          | .int i => .arr [.str "int", .int i]
          | .ints is => .arr [.str "ints", .arr (is.map fun (i : Nat) => Json.int i)]
          | .wire w => .arr [.str "wire", .int w.1, .int w.2]
          | .doc _ => .null
        go rest k (.arr [.str "ok", rj] :: outs) docs
  let (outs, docs) := go os 0 [] []
  jsonText (.obj [("outcomes", .arr outs), ("docs", .arr docs)])

def isUnsupported : List Outcome → Bool
  | [] => false
  | .err .unsupported :: _ => true
  | .err .fuel :: _ => true
  | _ :: rest => isUnsupported rest

def handleRun (payload : Sexp) : String :=
  match Prog.progOfSexp payload with
  | none => "!bad-payload"
  | some (enc, cmds) =>
    let (os, _) := runProgram enc {} cmds
    if isUnsupported os then "!unsupported" else reply os

end HugrVerif.Drive.Build
