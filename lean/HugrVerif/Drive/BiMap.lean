import HugrVerif.Sexp
import HugrVerif.BiMap
/- Line-protocol handler for stream `bimap.run`. -/
namespace HugrVerif.Drive.BiMap
open HugrVerif HugrVerif.Sexp

abbrev M := HugrVerif.BiMap String String

def parseOp : Sexp → Option (HugrVerif.BiMap.Op String String)
  | .list [.atom "il", k, v] => do some (.insertLeft (← k.text?) (← v.text?))
  | .list [.atom "ir", k, v] => do some (.insertRight (← k.text?) (← v.text?))
  | .list [.atom "dl", k] => do some (.deleteLeft (← k.text?))
  | .list [.atom "dr", k] => do some (.deleteRight (← k.text?))
  | .list [.atom "set", k, v] => do some (.setitem (← k.text?) (← v.text?))
  | .list [.atom "del", k] => do some (.delitem (← k.text?))
  | _ => none

def parsePair : Sexp → Option (String × String)
  | .list [k, v] => do some (← k.text?, ← v.text?)
  | _ => none

def dictSexp (d : List (String × String)) : Sexp :=
  .list (d.map fun (k, v) => .list [.str k, .str v])

def obsState (m : M) : List Sexp := [dictSexp m.fwd, dictSexp m.bck, Sexp.ofNat (HugrVerif.BiMap.len m)]

def handle (payload : Sexp) : String :=
  match payload with
  | .list (.list (.atom "init" :: ps) :: ops) =>
    match ps.mapM parsePair, ops.mapM parseOp with
    | some ps, some ops =>
      match HugrVerif.BiMap.init ps with
      | none => "notBijection"
      | some m0 =>
        let (_, outs) := ops.foldl (fun (acc : M × List Sexp) op =>
          let (m, out) := HugrVerif.BiMap.step acc.1 op
          let tag := match out with | .ok => "ok" | .keyError => "KeyError"
          (m, Sexp.list (.atom tag :: obsState m) :: acc.2)) (m0, [Sexp.list (.atom "init" :: obsState m0)])
        (Sexp.list outs.reverse).toString
    | _, _ => "!bad-payload"
  | _ => "!bad-payload"

end HugrVerif.Drive.BiMap
