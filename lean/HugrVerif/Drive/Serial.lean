import HugrVerif.Sexp
import HugrVerif.Bridge.Json
import HugrVerif.SerialCodecs
/-
  Line-protocol handlers for the serialisation streams (C02, C03; reused by C05).
  Observations are JSON texts (compared as JSON values by the harness).

  stream `serial.history`  payload ("encoder" cmd…)   cmd as in `store.run` but metadata values are JSON:
        (add_node parent|none numOuts|none ((key json)…)) (add_const parent|none) (add_link s so d do)
        (add_order_link s d) (delete_link s so d do) (delete_node n) (insert_hugr (cmd…) parent|none)
     -> [doc1 | {"error": cls}, doc2 | {"error": cls} | null, snapshot-of-reloaded | null, snapshot-of-original]
  stream `serial.doc`      payload ("encoder" json)
     -> [{"error": cls} | "ok", doc2 | {"error": cls} | null, snapshot-of-loaded | null]
-/
namespace HugrVerif.Drive.Serial
open HugrVerif HugrVerif.Sexp HugrVerif.Store HugrVerif.Serial HugrVerif.Bridge

abbrev S := Serial.St String

inductive Cmd where
  | addNode (parent : Option Nat) (numOuts : Option Nat) (m : Serial.Meta)
  | addConst (parent : Option Nat)
  | addLink (s : Nat) (so : Int) (d : Nat) (do_ : Int)
  | addOrderLink (s d : Nat)
  | deleteLink (s : Nat) (so : Int) (d : Nat) (do_ : Int)
  | deleteNode (n : Nat)
  | insertHugr (sub : List Cmd) (parent : Option Nat)

def optNat : Sexp → Option (Option Nat)
  | .atom "none" => some none
  | x => x.toNat?.map some

def parseMeta : Sexp → Option Serial.Meta
  | .list xs => xs.mapM fun (kv : Sexp) => match kv with
    | Sexp.list [a, b] => do some (← a.text?, ← jsonOfSexp b)
    | _ => none
  | _ => none

partial def parseCmd : Sexp → Option Cmd
  | .list [.atom "add_node", p, k, m] => do some (.addNode (← optNat p) (← optNat k) (← parseMeta m))
  | .list [.atom "add_const", p] => do some (.addConst (← optNat p))
  | .list [.atom "add_link", s, so, d, do_] => do
      some (.addLink (← s.toNat?) (← so.toInt?) (← d.toNat?) (← do_.toInt?))
  | .list [.atom "add_order_link", s, d] => do some (.addOrderLink (← s.toNat?) (← d.toNat?))
  | .list [.atom "delete_link", s, so, d, do_] => do
      some (.deleteLink (← s.toNat?) (← so.toInt?) (← d.toNat?) (← do_.toInt?))
  | .list [.atom "delete_node", n] => do some (.deleteNode (← n.toNat?))
  | .list [.atom "insert_hugr", .list sub, p] => do
      some (.insertHugr (← sub.mapM parseCmd) (← optNat p))
  | _ => none

structure Run where
  s : S
  counter : Nat

def Run.new : Run := ⟨Store.init "module" [], 0⟩

partial def runAll (r : Run) : List Cmd → Option Run
  | [] => some r
  | c :: cs =>
    let step : Option Run := match c with
      | .addNode p k m =>
        match Store.addNode r.s s!"n{r.counter + 1}" p k m with
        | .ok (s, _) => some ⟨s, r.counter + 1⟩
        | .error _ => none
      | .addConst p =>
        match Store.addNode r.s "const" p none [] with
        | .ok (s, _) => some ⟨s, r.counter⟩
        | .error _ => none
      | .addLink a ao b bo => (Store.addLink r.s (a, ao) (b, bo)).toOption.map (⟨·, r.counter⟩)
      | .addOrderLink a b => (Store.addOrderLink r.s a b).toOption.map (⟨·, r.counter⟩)
      | .deleteLink a ao b bo => (Store.deleteLink r.s (a, ao) (b, bo)).toOption.map (⟨·, r.counter⟩)
      | .deleteNode n => (Store.deleteNode r.s n).toOption.map (⟨·, r.counter⟩)
      | .insertHugr sub p =>
        match runAll Run.new sub with
        | none => none
        | some rb => (Store.insertHugr r.s rb.s p).toOption.map (fun x => ⟨x.1, r.counter⟩)
    match step with
    | none => none
    | some r' => runAll r' cs

def errJson (e : Serial.Err) : Json := .obj [("error", .str e.name)]

/-- Structural dump of a store: per live node (index order) `[idx, op, parent|null, [children], meta, nIn, nOut]`
    and `links()` as `[s, so, d, do]`. -/
def snapshot {Ω : Type} (opJ : Ω → Nat → Json) (s : Serial.St Ω) : Json :=
  let nodes := (Store.liveNodes s).filterMap fun i =>
    match Store.getNode s i with
    | .error _ => none
    | .ok d => some (Json.arr [.int i, opJ d.op i,
        (match d.parent with | none => .null | some p => .int p),
        .arr (d.children.map fun c => .int c.1), .obj d.md, .int d.numInps, .int d.numOuts])
  let links := (Store.linksList s).map fun (a, b) => Json.arr [.int a.1, .int a.2, .int b.1, .int b.2]
  .arr [.int s.root, .arr nodes, .arr links]

def handleHistory (payload : Sexp) : String :=
  match payload with
  | .list (.str enc :: cmds) =>
    match cmds.mapM parseCmd with
    | none => "!bad-payload"
    | some cs =>
      match runAll Run.new cs with
      | none => "!unsupported"
      | some r =>
        let c := labelCodec
        let lab : String → Nat → Json := fun l _ => .str l
        let orig := snapshot lab r.s
        match toJson c enc r.s with
        | .error e => jsonText (.arr [errJson e, .null, .null, orig])
        | .ok doc1 =>
          match loadJson c doc1 with
          | .error e => jsonText (.arr [doc1, errJson e, .null, orig])
          | .ok s2 =>
            match toJson c enc s2 with
            | .error e => jsonText (.arr [doc1, errJson e, snapshot lab s2, orig])
            | .ok doc2 => jsonText (.arr [doc1, doc2, snapshot lab s2, orig])
  | _ => "!bad-payload"

def jsonSize : Json → Nat
  | .arr xs => 1 + sizeList xs
  | .obj kvs => 1 + sizeFields kvs
  | _ => 1
where
  sizeList : List Json → Nat
    | [] => 0
    | x :: xs => jsonSize x + sizeList xs
  sizeFields : List (String × Json) → Nat
    | [] => 0
    | (_, v) :: rest => jsonSize v + sizeFields rest

def handleDoc (payload : Sexp) : String :=
  match payload with
  | .list [.str enc, docS] =>
    match jsonOfSexp docS with
    | none => "!bad-payload"
    | some doc =>
      let fuel := jsonSize doc + 8
      let c := opsCodec fuel
      let opJ : Op → Nat → Json := fun op i =>
        match Op.encOp op i with
        | .ok j => j
        | .error e => .obj [("error", .str (opErrName e))]
      match loadJson c doc with
      | .error e => jsonText (.arr [errJson e, .null, .null])
      | .ok s =>
        match toJson c enc s with
        | .error e => jsonText (.arr [.str "ok", errJson e, snapshot opJ s])
        | .ok doc2 => jsonText (.arr [.str "ok", doc2, snapshot opJ s])
  | _ => "!bad-payload"

end HugrVerif.Drive.Serial
