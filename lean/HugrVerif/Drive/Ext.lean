/-
  Line-protocol handlers for extension definitions (C10).  Syntax: Bridge/Ext.lean.

  stream `ext.roundtrip`  program -> (rt BUILT DOC RELOADED REDOC) | (error ValueError)
        BUILT    = dump of the extension the program builds
        DOC      = (doc J) | (error tojson)            `to_json()`; J with the set-typed lists sorted, keys sorted
        RELOADED = dump of `from_json(doc)` | (error validation|fuel|ValueError|AssertionError)
        REDOC    = (doc J') | (error tojson) | -       `to_json()` of the reloaded extension
        `(error ValueError)`: an `OpDefSig(None, False)` while the program runs.
  stream `ext.load`       J       -> (load RELOADED REDOC)        `from_json` of any document
  stream `std.helper`     H       -> (helper "ext" type|op "def" (A…) (params P…)|missing fits) | (error ValueError)
        H ::= (int_t w) | float_t | string_t | (array T n) | (list T) | (sarray T) | (divmod w) | not
  `!unsupported`: a value expression that cannot be evaluated, a value for which the value layer's round trip
  (hypothesis `ValRT` of the theorem) fails, or a document with lowering functions.
-/
import HugrVerif.Sexp
import HugrVerif.Bridge.Ext
import HugrVerif.Drive.Val
import HugrVerif.Gen.StdDefs

namespace HugrVerif.Drive.Ext
open HugrVerif HugrVerif.Bridge HugrVerif.Codec HugrVerif.Ext

def so : SetOrd := SetOrd.std

def errName : Err → String
  | .noParent => "NoParentExtension"
  | .enc _ => "tojson"
  | .dec .validation => "validation"
  | .dec .fuel => "fuel"
  | .valueError => "ValueError"
  | .assertion => "AssertionError"
  | .lowerings => "lowerings"

def err (s : String) : Sexp := .list [.atom "error", .atom s]

def dump (e : Extension) : Sexp := extObs Drive.Val.obsValue e

def docObs (e : Extension) : Sexp × Option Json :=
  match encExt e with
  | .ok j => (.list [.atom "doc", jsonSexp (canonDoc j).canon], some j)
  | .error _ => (err "tojson", none)

def load (j : Json) : Except Err Extension := decExt so Drive.Val.fnSig (Drive.Val.jsonSize j + 1) j

/-- RELOADED and REDOC of a document; `none` = outside the fragment -/
def loadObs (j : Json) : Option (Sexp × Sexp) :=
  match load j with
  | .error .lowerings => none
  | .error e => some (err (errName e), .atom "-")
  | .ok e' => some (dump e', (docObs e').1)

inductive BuildErr where
  | valueError
  | unsupported

def runStep (e : Extension) : Step → Except BuildErr Extension
  | .type td => pure (addTypeDef e td).1
  | .op n d m s b =>
    match OpDefSig.new s b with
    | .error _ => throw .valueError
    | .ok sig => pure (addOpDef so e { owner := none, name := n, sig, description := d, misc := m }).1
  | .regop c doc n s d m =>
    match s with
    | .inl p => pure (registerOp so e c doc n (.inl p) d m).1
    | .inr (p, b) =>
      match OpDefSig.new p b with
      | .error _ => throw .valueError
      | .ok sig => pure (registerOp so e c doc n (.inr sig) d m).1
  | .value n x =>
    match x.eval with
    | .ok v => pure (addExtensionValue e { owner := none, name := n, val := v }).1
    | .error _ => throw .unsupported

def build (p : Program) : Except BuildErr Extension :=
  p.steps.foldlM runStep (Extension.new p.name p.version p.reqs)

/-- the hypothesis `ValRT` of the round-trip theorem, decided for one value (a value that cannot be
    serialised at all is reported as `(error tojson)` by the round trip itself) -/
def valRTok (v : Value) : Bool :=
  match encVal v with
  | .error _ => true
  | .ok j =>
    match Drive.Val.decode j with
    | .error _ => false
    | .ok v' =>
      match encVal v' with
      | .ok j' => Json.beq j' j
      | .error _ => false

def handleRoundtrip (p : Sexp) : String :=
  match programOfSexp p with
  | none => "!bad-payload"
  | some prog =>
    match build prog with
    | .error .valueError => (err "ValueError").toString
    | .error .unsupported => "!unsupported"
    | .ok e =>
      if e.values.any (fun kv => !valRTok kv.2.val) then "!unsupported valrt" else
      let (d, j?) := docObs e
      match j? with
      | none => (Sexp.list [.atom "rt", dump e, d, .atom "-", .atom "-"]).toString
      | some j =>
        match loadObs j with
        | none => "!unsupported"
        | some (r, rd) => (Sexp.list [.atom "rt", dump e, d, r, rd]).toString

def handleLoad (p : Sexp) : String :=
  match jsonOfSexp p with
  | none => "!bad-payload"
  | some j =>
    match loadObs j with
    | none => "!unsupported"
    | some (r, rd) => (Sexp.list [.atom "load", r, rd]).toString

def helperOfSexp : Sexp → Option (Except Unit HelperUse)
  | .list [.atom "int_t", w] => w.toInt?.map (fun w => .ok (intT w))
  | .atom "float_t" => some (.ok floatT)
  | .atom "string_t" => some (.ok stringT)
  | .list [.atom "array", t, n] => do some (.ok (arrayT (← tyOfSexp t) (← n.toInt?)))
  | .list [.atom "list", t] => do some (.ok (listT (← tyOfSexp t)))
  | .list [.atom "sarray", t] => do
    let ty ← tyOfSexp t
    -- `StaticArray.__init__` raises `ValueError` unless the element type is copyable
    match Ty.bound ty with
    | .ok .copyable => some (.ok (staticArrayT ty))
    | _ => some (.error ())
  | .list [.atom "divmod", w] => w.toInt?.map (fun w => .ok (divMod w))
  | .atom "not" => some (.ok notOp)
  | _ => none

def handleHelper (p : Sexp) : String :=
  match helperOfSexp p with
  | none => "!bad-payload"
  | some (.error _) => (err "ValueError").toString
  | some (.ok h) =>
    let ps := match h.params? Gen.StdDefs.table with
      | some ps => Sexp.list (.atom "params" :: ps.map paramSexp)
      | none => .atom "missing"
    (Sexp.list [.atom "helper", .str h.ext, .atom (if h.isOp then "op" else "type"), .str h.defName,
      .list (h.args.map argSexp), ps, Sexp.ofBool (h.matches Gen.StdDefs.table)]).toString

def handle (stream : String) (p : Sexp) : Option String :=
  match stream with
  | "ext.roundtrip" => some (handleRoundtrip p)
  | "ext.load" => some (handleLoad p)
  | "std.helper" => some (handleHelper p)
  | _ => none

end HugrVerif.Drive.Ext
