/-
  Generic line-protocol loop shared by the per-property drivers in `Drivers/`.
  request:  <case-id> TAB <stream> TAB <payload (s-expression)>
  reply:    <case-id> TAB <observation>
  Replies starting with `!` are protocol errors, except `!unsupported` (input outside the
  modelled fragment: counted in the evidence, never compared).
-/
import HugrVerif.Sexp

namespace HugrVerif.Drive
open HugrVerif

partial def loop (dispatch : String → Sexp → String) (h out : IO.FS.Stream) : IO Unit := do
  let line ← h.getLine
  if line.isEmpty then return ()
  let line := if line.endsWith "\n" then (line.dropEnd 1).toString else line
  match line.splitOn "\t" with
  | [cid, stream, payload] =>
    let reply := match Sexp.parse payload with
      | none => "!parse-error"
      | some p => dispatch stream p
    out.putStrLn (cid ++ "\t" ++ reply)
  | _ => out.putStrLn ("?\t!bad-line")
  loop dispatch h out

def run (dispatch : String → Sexp → String) : IO Unit := do
  let stdin ← IO.getStdin
  let stdout ← IO.getStdout
  loop dispatch stdin stdout
  stdout.flush

end HugrVerif.Drive
