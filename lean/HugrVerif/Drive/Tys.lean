/-
  Line-protocol handlers for the type layer (shared by C07 and C05).

  General streams (payload = an *item*):
    item ::= T | (arg A) | (param P) | (polyfield T)        T, A, P: syntax of Bridge/Tys.lean
      a bare type is serialised as a `Type` root (`_to_serial_root()`: a polymorphic function type
      raises `ValidationError`); `(polyfield T)` is a `PolyFuncType` field (`_to_serial()`).
    tys.bound      T                 ->  C | A | IndexError
    tys.enc        item              ->  J:<json text> | IndexError | ValidationError
    tys.roundtrip  item              ->  <enc> [TAB <decoded item as sexp> TAB J:<its re-encoding>]
    tys.dec        (what <json sexp>) with what ∈ type arg param poly functype sumtype, or a bare json sexp (= type)
                                     ->  <decoded item as sexp> | ValidationError
  Streams of the C07 check (several observations per case, TAB separated):
    c07.type T | c07.poly T | c07.arg A | c07.param P     bound (types only), then tys.roundtrip
    c07.std  (array T A) | (list T) | (static T)          constructor outcome, override bound, generic bound, tys.roundtrip
-/
import HugrVerif.Sexp
import HugrVerif.Tys
import HugrVerif.StdTys
import HugrVerif.Bridge.Json
import HugrVerif.Bridge.Tys

namespace HugrVerif.Drive.Tys
open HugrVerif HugrVerif.Bridge HugrVerif.Codec

/-- decoders are fuel-indexed; documents are far smaller than this -/
def bigFuel : Nat := 1000000

inductive Item where
  | ty (t : Ty)
  | arg (a : TypeArg)
  | param (p : TypeParam)
  | polyField (t : Ty)

def parseItem : Sexp → Option Item
  | .list [.atom "arg", a] => (argOfSexp a).map .arg
  | .list [.atom "param", p] => (paramOfSexp p).map .param
  | .list [.atom "polyfield", t] => (tyOfSexp t).map .polyField
  | s => (tyOfSexp s).map .ty

def boundObs (r : Except Ty.BErr Bound) : String :=
  match r with
  | .ok .copyable => "C"
  | .ok .any => "A"
  | .error .indexError => "IndexError"

def encErrObs : EncErr → String
  | .indexError => "IndexError"
  | .validationError => "ValidationError"

/-- `_to_serial_root()` of a type: a polymorphic function type is not in the `Type` union -/
def encRoot : Ty → Except EncErr Json
  | .poly _ _ _ _ => throw .validationError
  | t => encTy t

def encItem : Item → Except EncErr Json
  | .ty t => encRoot t
  | .arg a => encArg a
  | .param p => pure (encParam p)
  | .polyField t => encTy t

def decItem (fuel : Nat) (it : Item) (j : Json) : Except DecErr Item :=
  match it with
  | .ty _ => do pure (.ty (← decTy fuel j))
  | .arg _ => do pure (.arg (← decArg fuel j))
  | .param _ => do pure (.param (← decParam fuel j))
  | .polyField _ => do pure (.polyField (← decPoly fuel j))

def itemSexp : Item → Sexp
  | .ty t => tySexp t
  | .arg a => argSexp a
  | .param p => paramSexp p
  | .polyField t => tySexp t

def encObs (r : Except EncErr Json) : String :=
  match r with
  | .ok j => "J:" ++ jsonText j
  | .error e => encErrObs e

def decErrObs : DecErr → String
  | .validation => "ValidationError"
  | .fuel => "!fuel"

def roundtripObs (it : Item) : String :=
  match encItem it with
  | .error e => encErrObs e
  | .ok j =>
    match decItem bigFuel it j with
    | .error e => "J:" ++ jsonText j ++ "\tdec:" ++ decErrObs e
    | .ok it' => "J:" ++ jsonText j ++ "\t" ++ (itemSexp it').toString ++ "\t" ++ encObs (encItem it')

def handleBound (p : Sexp) : String :=
  match tyOfSexp p with
  | some t => boundObs (Ty.bound t)
  | none => "!bad-payload"

def handleEnc (p : Sexp) : String :=
  match parseItem p with
  | some it => encObs (encItem it)
  | none => "!bad-payload"

def handleRoundtrip (p : Sexp) : String :=
  match parseItem p with
  | some it => roundtripObs it
  | none => "!bad-payload"

def decObs (what : String) (j : Json) : String :=
  let show' (r : Except DecErr Sexp) : String :=
    match r with
    | .ok s => s.toString
    | .error e => decErrObs e
  match what with
  | "type" => show' do pure (tySexp (← decTy bigFuel j))
  | "arg" => show' do pure (argSexp (← decArg bigFuel j))
  | "param" => show' do pure (paramSexp (← decParam bigFuel j))
  | "poly" => show' do pure (tySexp (← decPoly bigFuel j))
  | "functype" => show' do
      let (i, o, r) ← decFuncType bigFuel j
      pure (tySexp (.function i o r))
  | "sumtype" => show' do pure (tySexp (← decSumType bigFuel j))
  | _ => "!bad-payload"

def handleDec (p : Sexp) : String :=
  match p with
  | .list [.atom "type", j] | .list [.atom "arg", j] | .list [.atom "param", j] | .list [.atom "poly", j]
  | .list [.atom "functype", j] | .list [.atom "sumtype", j] =>
    match p, jsonOfSexp j with
    | .list [.atom what, _], some doc => decObs what doc
    | _, _ => "!bad-payload"
  | j =>
    match jsonOfSexp j with
    | some doc => decObs "type" doc
    | none => "!bad-payload"

/-! ### C07 streams -/

def handleC07Type (p : Sexp) : String :=
  match tyOfSexp p with
  | some t => boundObs (Ty.bound t) ++ "\t" ++ roundtripObs (.ty t)
  | none => "!bad-payload"

def handleC07Poly (p : Sexp) : String :=
  match tyOfSexp p with
  | some t => boundObs (Ty.bound t) ++ "\t" ++ roundtripObs (.polyField t)
  | none => "!bad-payload"

def handleC07Arg (p : Sexp) : String :=
  match argOfSexp p with
  | some a => roundtripObs (.arg a)
  | none => "!bad-payload"

def handleC07Param (p : Sexp) : String :=
  match paramOfSexp p with
  | some a => roundtripObs (.param a)
  | none => "!bad-payload"

def ovObs (r : Except Std.OvErr Bound) : String :=
  match r with
  | .ok .copyable => "C"
  | .ok .any => "A"
  | .error .indexError => "IndexError"
  | .error .assertion => "Exception"

def stdObs (made : Except Std.CtorErr Ty) (override : Ty → Except Std.OvErr Bound) : String :=
  match made with
  | .error .valueError => "ValueError"
  | .error .indexError => "IndexError"
  | .ok a => "ok\t" ++ ovObs (override a) ++ "\t" ++ boundObs (Ty.bound a) ++ "\t" ++ roundtripObs (.ty a)

def handleC07Std (p : Sexp) : String :=
  match p with
  | .list [.atom "array", t, size] =>
    match tyOfSexp t, argOfSexp size with
    | some t, some size => stdObs (Std.mkArray t size) Std.arrayTypeBound
    | _, _ => "!bad-payload"
  | .list [.atom "list", t] =>
    match tyOfSexp t with
    | some t => stdObs (.ok (Std.mkList t)) Std.listTypeBound
    | none => "!bad-payload"
  | .list [.atom "static", t] =>
    match tyOfSexp t with
    | some t => stdObs (Std.mkStaticArray t) Std.staticArrayTypeBound
    | none => "!bad-payload"
  | _ => "!bad-payload"

/-- dispatcher for all streams of this file (`none`: not one of ours) -/
def dispatch? (stream : String) (p : Sexp) : Option String :=
  match stream with
  | "tys.bound" => some (handleBound p)
  | "tys.enc" => some (handleEnc p)
  | "tys.roundtrip" => some (handleRoundtrip p)
  | "tys.dec" => some (handleDec p)
  | "c07.type" => some (handleC07Type p)
  | "c07.poly" => some (handleC07Poly p)
  | "c07.arg" => some (handleC07Arg p)
  | "c07.param" => some (handleC07Param p)
  | "c07.std" => some (handleC07Std p)
  | _ => none

end HugrVerif.Drive.Tys
