import HugrVerif.Sexp
import HugrVerif.EnvelopePy
/-
  Line-protocol handlers for C09.

  stream `env.hdr`   payload `((b0 b1 ..) (n0 n1 ..))`
                     reply   `(o0 o1 ..)`, `oi` = outcome of `fromBytes py (bytes.take ni)`:
                             `(ok <FORMAT> <zstd>)` | `ValueError` | `IndexError` | `Exception`
  stream `env.enc`   payload `(<FORMAT> <bool>)`: `toBytes py {format, zstd}`;
                     `(<FORMAT> cfg none|<level>)`: `toBytes py (makeHeader {format, zstd})`; reply = hex string
  stream `env.pkg`   payload `((b0 b1 ..) (cfg ..))`, `cfg` = `default` | `(<FORMAT> none)` | `(<FORMAT> <level>)`;
                     the bytes are an ASCII stand-in for the package's JSON document
                     reply   `((bytes ..) (str ..)) ..` per configuration, computed with the model
                     functions in the toy environment `toyEnv` of EnvelopePy.lean (`compress` prepends two bytes,
                     UTF-8 = bytes < 0x80); `?` where the outcome depends on the real
                     compressor / the native model encoder.
-/
namespace HugrVerif.Drive.Envelope
open HugrVerif HugrVerif.Sexp HugrVerif.Envelope

def errName : Err → String
  | .valueError => "ValueError"
  | .indexError => "IndexError"
  | .other => "Exception"

def hex (bs : List UInt8) : String :=
  let digit (n : Nat) : Char := if n < 10 then Char.ofNat (48 + n) else Char.ofNat (87 + n)
  bs.foldl (fun acc b => (acc.push (digit (b.toNat / 16))).push (digit (b.toNat % 16))) ""

def parseBytes : Sexp → Option (List UInt8)
  | .list xs => xs.mapM fun x => do
      let n ← x.toNat?
      if n < 256 then some (UInt8.ofNat n) else none
  | _ => none

def parseNats : Sexp → Option (List Nat)
  | .list xs => xs.mapM Sexp.toNat?
  | _ => none

def obsHeader (r : Except Err Header) : Sexp :=
  match r with
  | .ok h => .list [.atom "ok", .atom h.format.pyName, Sexp.ofBool h.zstd]
  | .error e => .atom (errName e)

def handleHdr (payload : Sexp) : String :=
  match payload with
  | .list [bs, ns] =>
    match parseBytes bs, parseNats ns with
    | some bs, some ns => (Sexp.list (ns.map fun n => obsHeader (fromBytes py (bs.take n)))).toString
    | _, _ => "!bad-payload"
  | _ => "!bad-payload"

def parseCfg : Sexp → Option (Option Config)
  | .atom "default" => some none
  | .list [.atom f, z] => do
    let f ← formatOfName f
    match z with
    | .atom "none" => some (some { format := f, zstd := none })
    | z => do
      let l ← z.toInt?
      some (some { format := f, zstd := some l })
  | _ => none

def handleEnc (payload : Sexp) : String :=
  match payload with
  | .list [.atom f, .atom "cfg", z] =>
    match parseCfg (.list [.atom f, z]) with
    | some (some cfg) => (Sexp.str (hex (toBytes py (makeHeader cfg)))).toString
    | _ => "!bad-payload"
  | .list [.atom f, .atom z] =>
    match formatOfName f, z with
    | some f, "true" => (Sexp.str (hex (toBytes py { format := f, zstd := true }))).toString
    | some f, "false" => (Sexp.str (hex (toBytes py { format := f, zstd := false }))).toString
    | _, _ => "!bad-payload"
  | _ => "!bad-payload"

def beqExcept (a b : Except Err (List UInt8)) : Bool :=
  match a, b with
  | .ok x, .ok y => x == y
  | .error x, .error y => x == y
  | _, _ => false

def obsRoundtrip (want got : Except Err (List UInt8)) : List Sexp :=
  match got with
  | .ok _ => [.atom "ok", .atom (if beqExcept want got then "same" else "differs")]
  | .error e => [.atom (errName e)]

def obsCfg (p : List UInt8) (cfg : Option Config) : Sexp :=
  let eff : Config := match cfg with
    | none => py.binaryDefault
    | some c => c
  let effStr : Config := match cfg with
    | none => py.textDefault
    | some c => c
  let want := toyEnv.loadJson (toyEnv.utf8enc p)
  let bytesObs : Sexp :=
    if eff.format != .json then .atom "?"           -- needs the native model encoder
    else match pkgToBytes py toyEnv p cfg with
      | .error e => .list [.atom "bytes", .atom (errName e)]
      | .ok b => .list ([.atom "bytes", .atom "ok", .str (hex (b.take 10))] ++ obsRoundtrip want (pkgFromBytes py toyEnv b))
  let strObs : Sexp :=
    if effStr.format == .json && effStr.zstd.isSome then .atom "?"   -- is the compressed payload UTF-8?
    else match pkgToStr py toyEnv p cfg with
      | .error e => .list [.atom "str", .atom (errName e)]
      | .ok s => .list ([.atom "str", .atom "ok", .str (hex (s.take 10))] ++ obsRoundtrip want (pkgFromStr py toyEnv s))
  .list [bytesObs, strObs]

def handlePkg (payload : Sexp) : String :=
  match payload with
  | .list [bs, .list cfgs] =>
    match parseBytes bs, cfgs.mapM parseCfg with
    | some p, some cfgs => (Sexp.list (cfgs.map (obsCfg p))).toString
    | _, _ => "!bad-payload"
  | _ => "!bad-payload"

end HugrVerif.Drive.Envelope
