/-
  Line-protocol handler for the model export (C12).

  stream `export.run`   payload = the JSON document of a HUGR (Bridge/Json syntax)
     -> {"module": dump, "spec": {predicate: bool…}}   the dump of `exportModule (loadJson doc)` (Bridge/Model)
                                                       and the verdicts of the specification predicates on it
      | {"error": cls}                                   `to_model()` raised
     `!unsupported` if the document does not load.
-/
import HugrVerif.Sexp
import HugrVerif.Bridge.Json
import HugrVerif.Bridge.Model
import HugrVerif.Export
import HugrVerif.ExportSpec

namespace HugrVerif.Drive.Export
open HugrVerif HugrVerif.Sexp HugrVerif.Bridge

def jsonSize : Json → Nat
  | .arr xs => 1 + sizeList xs
  | .obj kvs => 1 + sizeFields kvs
  | _ => 1
where
  sizeList : List Json → Nat
    | [] => 0
    | x :: xs => jsonSize x + sizeList xs
  sizeFields : List (String × Json) → Nat
    | [] => 0
    | (_, v) :: rest => jsonSize v + sizeFields rest

def handleRun (payload : Sexp) : String :=
  match jsonOfSexp payload with
  | none => "!bad-payload"
  | some doc =>
    let dfuel := jsonSize doc + 8
    match Serial.loadJson (Serial.opsCodec dfuel) doc with
    | .error _ => "!unsupported"
    | .ok s =>
      match Export.exportModule dfuel (Export.defaultFuel s) s with
      | .error e => jsonText (.obj [("error", .str e.name)])
      | .ok m =>
        jsonText (.obj [("module", Bridge.Model.moduleJson m),
          ("spec", .obj ((ExportSpec.verdicts s m).map fun (kv : String × Bool) => (kv.1, Json.bool kv.2)))])

end HugrVerif.Drive.Export
