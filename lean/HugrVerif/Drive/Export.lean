/-
  Line-protocol handler for the model export (C12).

  stream `export.run`   payload = [doc, impl]: the JSON document of a HUGR and the dumped module the
                        implementation exported for it (or null), both in Bridge/Json syntax
     -> {"module": dump, "spec": {predicate: bool…}, "spec_model": {…}}
            dump        = `exportModule (loadJson doc)` (Bridge/Model);
            spec        = the verdicts of the specification predicates (ExportSpec) on the IMPLEMENTATION's module;
            spec_model  = their verdicts on the model's own module
      | {"error": cls}                                   `to_model()` raised
     `!unsupported` if the document does not load.
-/
import HugrVerif.Sexp
import HugrVerif.Bridge.Json
import HugrVerif.Bridge.Model
import HugrVerif.Export
import HugrVerif.ExportSpec

namespace HugrVerif.Drive.Export
open HugrVerif HugrVerif.Sexp HugrVerif.Bridge

def jsonSize : Json → Nat
  | .arr xs => 1 + sizeList xs
  | .obj kvs => 1 + sizeFields kvs
  | _ => 1
where
  sizeList : List Json → Nat
    | [] => 0
    | x :: xs => jsonSize x + sizeList xs
  sizeFields : List (String × Json) → Nat
    | [] => 0
    | (_, v) :: rest => jsonSize v + sizeFields rest

def specJson (s : Export.St) (m : Model.Module) : Json :=
  .obj ((ExportSpec.verdicts s m).map fun (kv : String × Bool) => (kv.1, Json.bool kv.2))

/-- `doc`: the document; `impl`: the module the implementation exported (dumped), or `null`. -/
def run (doc impl : Json) : String :=
  let dfuel := jsonSize doc + 8
  match Serial.loadJson (Serial.opsCodec dfuel) doc with
  | .error _ => "!unsupported"
  | .ok s =>
    match Export.exportModule dfuel (Export.defaultFuel s) s with
    | .error e => jsonText (.obj [("error", .str e.name)])
    | .ok m =>
      let implSpec : Json :=
        match impl with
        | .null => .null
        | j =>
          match Bridge.Model.moduleOf j with
          | none => .str "unreadable"
          | some mi => specJson s mi
      jsonText (.obj [("module", Bridge.Model.moduleJson m), ("spec", implSpec), ("spec_model", specJson s m)])

def handleRun (payload : Sexp) : String :=
  match jsonOfSexp payload with
  | some (.arr [doc, impl]) => run doc impl
  | _ => "!bad-payload"

end HugrVerif.Drive.Export
