/-
  Line-protocol handlers for extension resolution (property C11).  Observations are JSON texts
  (compared as JSON values by the harness); structural dumps are s-expression texts inside them.

  resolve.ty    payload (REG T)                 reply [TS, TS, TS]    states before / after one / after two resolutions
  resolve.arg   payload (REG A)                 reply [AS, AS, AS]
                TS ::= [dump, enc | {"error": cls}, bound | {"error": cls}, model | {"error": cls}]
                AS ::= [dump, enc | {"error": cls}, null, model | {"error": cls}]
  resolve.op    payload (REG "encoder" O)       reply [HS, HS, HS]    the operation as the root of a fresh HUGR
  resolve.doc   payload (REG "encoder" JSON)    reply [HS, HS, HS]    `Hugr.load_json(doc)`
                HS ::= [[[idx, op-dump | "const", FACTS | null]…], document | {"error": cls}]
                FACTS (extension operations only) ::= [{"error": cls}]
                       | [signature, num_out | {"error": cls}, [kind…], [kind…], [bound…]]   kinds at offsets −1 … len
  resolve.reg   payload REG                     reply the registry printed back (transport self-check)
  REG as in Bridge/Resolve.lean; a registry holding a type definition without owner is `!unsupported`.
-/
import HugrVerif.Sexp
import HugrVerif.Bridge.Json
import HugrVerif.Bridge.Resolve
import HugrVerif.SerialCodecs

namespace HugrVerif.Drive.Resolve
open HugrVerif HugrVerif.Bridge HugrVerif.Bridge.Ops HugrVerif.Bridge.Resolve HugrVerif.Resolve

def errJ (cls : String) : Json := .obj [("error", .str cls)]

def encErrName : Codec.EncErr → String
  | .indexError => "IndexError"
  | .validationError => "ValidationError"

def encJ : Except Codec.EncErr Json → Json
  | .ok j => j
  | .error e => errJ (encErrName e)

def boundStr : Bound → String
  | .copyable => "C"
  | .any => "A"

def boundJ : Except Ty.BErr Bound → Json
  | .ok b => .str (boundStr b)
  | .error .indexError => errJ "IndexError"

def modelJ : Except MErr MTerm → Json
  | .ok m => .str (mtermSexp m).toString
  | .error .typeError => errJ "TypeError"

def tyState (t : Ty) : Json :=
  .arr [.str (tySexp t).toString, encJ (Codec.encTy t), boundJ (Ty.bound t), modelJ (toModel t)]

def argState (a : TypeArg) : Json :=
  .arr [.str (argSexp a).toString, encJ (Codec.encArg a), .null, modelJ (toModelArg a)]

def handleTy (payload : Sexp) : String :=
  match payload with
  | .list [rs, ts] =>
    match registryOfSexp rs, tyOfSexp ts with
    | some r, some t =>
      if !allOwned r then "!unsupported" else
      let t1 := resolveTy r t
      let t2 := resolveTy r t1
      jsonText (.arr [tyState t, tyState t1, tyState t2])
    | _, _ => "!bad-payload"
  | _ => "!bad-payload"

def handleArg (payload : Sexp) : String :=
  match payload with
  | .list [rs, as] =>
    match registryOfSexp rs, argOfSexp as with
    | some r, some a =>
      if !allOwned r then "!unsupported" else
      let a1 := resolveArg r a
      let a2 := resolveArg r a1
      jsonText (.arr [argState a, argState a1, argState a2])
    | _, _ => "!bad-payload"
  | _ => "!bad-payload"

/-- offsets `range(-1, n + 1)` -/
def offsets (n : Nat) : List Int := (List.range (n + 2)).map (fun (k : Nat) => (k : Int) - 1)

def kindJ : Except OpErr Kind → Json
  | .ok k => .str (kindSexp k).toString
  | .error e => errJ (errName e)

def factsJ (op : Op) : Json :=
  match op with
  | .custom .. | .extOp .. =>
    match Op.outerSig op with
    | .error e => .arr [errJ (errName e)]
    | .ok s =>
      .arr [.str (sigSexp s).toString,
        (match Op.numOut op with | .ok n => .int n | .error e => errJ (errName e)),
        .arr ((offsets s.inp.length).map fun off => kindJ (Op.portKind op .inc off)),
        .arr ((offsets s.out.length).map fun off => kindJ (Op.portKind op .out off)),
        .arr ((s.inp ++ s.out).map fun t => boundJ (Ty.bound t))]
  | _ => .null

def nodeObs (i : Nat) (op : Op) : Json :=
  match op with
  | .const _ => .arr [.int i, .str "const", .null]
  | _ => .arr [.int i, .str (opSexp op).toString, factsJ op]

def storeState (enc : String) (s : Serial.St Op) : Json :=
  let nodes := (Store.liveNodes s).filterMap fun i =>
    match Store.getNode s i with
    | .error _ => none
    | .ok d => some (nodeObs i d.op)
  let doc := match Serial.toJson (Serial.opsCodec 0) enc s with
    | .ok j => j
    | .error e => errJ e.name
  .arr [.arr nodes, doc]

def storeReply (r : Registry) (enc : String) (s : Serial.St Op) : String :=
  let s1 := resolveStore r s
  let s2 := resolveStore r s1
  jsonText (.arr [storeState enc s, storeState enc s1, storeState enc s2])

def handleOp (payload : Sexp) : String :=
  match payload with
  | .list [rs, .str enc, os] =>
    match registryOfSexp rs, opOfSexp os with
    | some r, some op =>
      if !allOwned r then "!unsupported" else storeReply r enc (Store.init op [])
    | _, _ => "!bad-payload"
  | _ => "!bad-payload"

def jsonSize : Json → Nat
  | .arr xs => 1 + sizeList xs
  | .obj kvs => 1 + sizeFields kvs
  | _ => 1
where
  sizeList : List Json → Nat
    | [] => 0
    | x :: xs => jsonSize x + sizeList xs
  sizeFields : List (String × Json) → Nat
    | [] => 0
    | (_, v) :: rest => jsonSize v + sizeFields rest

def handleDoc (payload : Sexp) : String :=
  match payload with
  | .list [rs, .str enc, ds] =>
    match registryOfSexp rs, jsonOfSexp ds with
    | some r, some doc =>
      if !allOwned r then "!unsupported" else
      match Serial.loadJson (Serial.opsCodec (jsonSize doc + 8)) doc with
      | .error e => jsonText (.arr [errJ e.name])
      | .ok s => storeReply r enc s
    | _, _ => "!bad-payload"
  | _ => "!bad-payload"

def handleReg (payload : Sexp) : String :=
  match registryOfSexp payload with
  | some r => (registrySexp r).toString
  | none => "!bad-payload"

def handle (stream : String) (p : Sexp) : Option String :=
  match stream with
  | "resolve.ty" => some (handleTy p)
  | "resolve.arg" => some (handleArg p)
  | "resolve.op" => some (handleOp p)
  | "resolve.doc" => some (handleDoc p)
  | "resolve.reg" => some (handleReg p)
  | _ => none

end HugrVerif.Drive.Resolve
