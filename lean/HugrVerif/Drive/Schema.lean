import HugrVerif.Sexp
import HugrVerif.Schema
import HugrVerif.Gen.SchemaTables
/-
  Line-protocol handlers for the streams `schema.accepts` and `schema.eval`.
  payload: (<file-name prefix> <"pub"|"gen"> <root definition> <document>)
  document: null | true | false | <integer atom> | (num "<literal>") | "<string>" | (arr d …) | (obj ("k" d) …)
  reply:   true | false | !unsupported   (no verdict: keyword/pattern outside the model, fuel)
  Depends on the generated *terms* only (not on the equality theorems), so it also runs when an
  equality fails.  `pattern` is instantiated with a hand-written matcher for the one regular
  expression the schemas use (semantic versions, ASCII input); any other pattern gives no verdict.
-/
namespace HugrVerif.Drive.Schema
open HugrVerif HugrVerif.Sexp

partial def toJson : Sexp → Option Json
  | .atom "null" => some .null
  | .atom "true" => some (.bool true)
  | .atom "false" => some (.bool false)
  | .atom s => s.toInt?.map .int
  | .str s => some (.str s)
  | .list [.atom "num", .str lit] => some (.num lit)
  | .list (.atom "arr" :: xs) => (xs.mapM toJson).map .arr
  | .list (.atom "obj" :: ms) =>
    (ms.mapM fun (m : Sexp) => match m with
      | Sexp.list [Sexp.str k, v] => (toJson v).map (fun j => (k, j))
      | _ => none).map .obj
  | _ => none

def semverPattern : String :=
  "^(0|[1-9]\\d*)\\.(0|[1-9]\\d*)\\.(0|[1-9]\\d*)(?:-((?:0|[1-9]\\d*|\\d*[a-zA-Z-][0-9a-zA-Z-]*)(?:\\.(?:0|[1-9]\\d*|\\d*[a-zA-Z-][0-9a-zA-Z-]*))*))?(?:\\+([0-9a-zA-Z-]+(?:\\.[0-9a-zA-Z-]+)*))?$"

def isNumId (cs : List Char) : Bool :=
  !cs.isEmpty && cs.all Char.isDigit && (cs.length == 1 || cs.head? != some '0')
def isIdChar (c : Char) : Bool := c.isDigit || (c ≥ 'a' && c ≤ 'z') || (c ≥ 'A' && c ≤ 'Z') || c == '-'
def isBuildId (cs : List Char) : Bool := !cs.isEmpty && cs.all isIdChar
def isPreId (cs : List Char) : Bool :=
  isNumId cs || (isBuildId cs && cs.any (fun c => !c.isDigit))

def splitOnChar (c : Char) : List Char → List (List Char)
  | [] => [[]]
  | x :: xs =>
    match splitOnChar c xs with
    | [] => [[]]
    | h :: t => if x == c then [] :: h :: t else (x :: h) :: t

/-- Everything before / after the first occurrence of `c`. -/
def cutAt (c : Char) : List Char → List Char × Option (List Char)
  | [] => ([], none)
  | x :: xs => if x == c then ([], some xs) else
    let (a, b) := cutAt c xs; (x :: a, b)

def isSemver (s : String) : Option Bool :=
  if !s.toList.all (fun c => c.toNat < 128 && c != '\n') then none else
  let (main, build) := cutAt '+' s.toList
  let (core, pre) := cutAt '-' main
  let coreOk := match splitOnChar '.' core with
    | [a, b, c] => isNumId a && isNumId b && isNumId c
    | _ => false
  let preOk := match pre with
    | none => true
    | some p => (splitOnChar '.' p).all isPreId
  let buildOk := match build with
    | none => true
    | some b => (splitOnChar '.' b).all isBuildId
  some (coreOk && preOk && buildOk)

def matcher (pat text : String) : Option Bool :=
  if pat == semverPattern then isSemver text else none

def fuel : Nat := 2000

def handle (payload : Sexp) : String :=
  match payload with
  | .list [cfg, side, root, doc] =>
    match cfg.text?, side.text?, root.text?, toJson doc with
    | some cfg, some side, some root, some j =>
      let tables := if side == "gen" then Gen.Schema.genTables else Gen.Schema.pubTables
      match tables.lookup cfg with
      | none => "!unknown-config"
      | some defs =>
        match HugrVerif.Schema.eval matcher defs fuel (HugrVerif.Schema.ref root) j with
        | some true => "true"
        | some false => "false"
        | none => "!unsupported"
    | _, _, _, _ => "!bad-payload"
  | _ => "!bad-payload"

/-- Stream `schema.eval`: payload (<$defs table as (obj ("name" schema) …)> <root definition> <document>):
    the same evaluation on a table given in the request (synthetic schemas that exercise every
    modelled keyword, also combinations the published files do not use). -/
def handleEval (payload : Sexp) : String :=
  match payload with
  | .list [defs, root, doc] =>
    match toJson defs, root.text?, toJson doc with
    | some (.obj table), some root, some j =>
      match HugrVerif.Schema.eval matcher table fuel (HugrVerif.Schema.ref root) j with
      | some true => "true"
      | some false => "false"
      | none => "!unsupported"
    | _, _, _ => "!bad-payload"
  | _ => "!bad-payload"

end HugrVerif.Drive.Schema
