import HugrVerif.Sexp
import HugrVerif.Handle
import HugrVerif.Py.Slice
/-
  Line-protocol handlers for C16.

  stream `pyslice`        payload (n s e k)            -> (j ...)            Py.Slice.range   (k ≠ 0)
  stream `pyitem`         payload (n i)                -> (ok j) | IndexError  Py.Slice.item
  stream `handle.get`     payload (cnt idx expr)       -> (ok port ...) | IndexError | ValueError
       cnt  = none | <nat>;   expr = (int i) | (slice s e k) | (tuple i ...) | (iter) | (outputs) | (wire)
       s, e, k = none | <int>;   port = (o idx off) | (i idx off)
  stream `handle.ports`   payload ((dir idx off cnt (meta ...)) (dir idx off cnt (meta ...)))
                                                       -> (eq hashEq|- nodeEq nodeHashEq|-)   (hash equality reported for equal objects only)
  stream `handle.build`   payload ((how idx k) ...)    -> ((count|none  iter-result  first  last  past) ...)
       how = addnode | addnode-none | addop | call | container | inserted
-/
namespace HugrVerif.Drive.Handle
open HugrVerif HugrVerif.Sexp HugrVerif.Handle

def optInt? : Sexp → Option (Option Int)
  | .atom "none" => some none
  | s => (s.toInt?).map some

def optNat? : Sexp → Option (Option Nat)
  | .atom "none" => some none
  | s => (s.toNat?).map some

def portSexp (p : Port) : Sexp :=
  .list [.atom (match p.dir with | .outgoing => "o" | .incoming => "i"), Sexp.ofNat p.node.idx, Sexp.ofInt p.offset]

def errName : Err → String
  | .indexError => "IndexError"
  | .valueError => "ValueError"
  | .assertionError => "AssertionError"

def obsPorts : Except Err (List Port) → Sexp
  | .ok ps => .list (.atom "ok" :: ps.map portSexp)
  | .error e => .atom (errName e)

def obsPort : Except Err Port → Sexp
  | .ok p => .list [.atom "ok", portSexp p]
  | .error e => .atom (errName e)

def handlePySlice (payload : Sexp) : String :=
  match payload with
  | .list [n, s, e, k] =>
    match n.toNat?, optInt? s, optInt? e, k.toInt? with
    | some n, some s, some e, some k =>
      if k = 0 then "!unsupported"
      else (Sexp.list ((Py.Slice.range n s e k).map Sexp.ofNat)).toString
    | _, _, _, _ => "!bad-payload"
  | _ => "!bad-payload"

def handlePyItem (payload : Sexp) : String :=
  match payload with
  | .list [n, i] =>
    match n.toNat?, i.toInt? with
    | some n, some i =>
      match Py.Slice.item n i with
      | some j => (Sexp.list [.atom "ok", Sexp.ofNat j]).toString
      | none => "IndexError"
    | _, _ => "!bad-payload"
  | _ => "!bad-payload"

def handleGet (payload : Sexp) : String :=
  match payload with
  | .list [cnt, idx, expr] =>
    match optNat? cnt, idx.toNat? with
    | some cnt, some idx =>
      let h : Node := { idx := idx, numOut := cnt }
      match expr with
      | .list [.atom "int", i] =>
        match i.toInt? with
        | some i => (obsPort (getInt h i)).toString
        | none => "!bad-payload"
      | .list [.atom "slice", s, e, k] =>
        match optInt? s, optInt? e, optInt? k with
        | some s, some e, some k => (obsPorts (getSlice h s e k)).toString
        | _, _, _ => "!bad-payload"
      | .list (.atom "tuple" :: xs) =>
        match xs.mapM Sexp.toInt? with
        | some xs => (obsPorts (getTuple h xs)).toString
        | none => "!bad-payload"
      | .list [.atom "iter"] => (obsPorts (iter h)).toString
      | .list [.atom "outputs"] => (obsPorts (outputs h)).toString
      | .list [.atom "wire"] => (obsPort (.ok (outPort h))).toString
      | _ => "!bad-payload"
    | _, _ => "!bad-payload"
  | _ => "!bad-payload"

def parseMeta : Sexp → Option (List (String × String))
  | .list xs => xs.mapM fun
    | .list [k, v] => do some (← k.text?, ← v.text?)
    | _ => none
  | _ => none

def parsePort : Sexp → Option Port
  | .list [.atom d, idx, off, cnt, md] => do
    let dir ← (match d with | "o" => some Direction.outgoing | "i" => some Direction.incoming | _ => none)
    let node : Node := { idx := ← idx.toNat?, metadata := ← parseMeta md, numOut := ← optNat? cnt }
    some ⟨node, ← off.toInt?, dir⟩
  | _ => none

def handlePorts (payload : Sexp) : String :=
  match payload with
  | .list [p, q] =>
    match parsePort p, parsePort q with
    | some p, some q =>
      let dash (b : Bool) (x : Bool) : Sexp := if b then Sexp.ofBool x else .atom "-"
      let e := Port.eq p q
      let ne := Node.eq p.node q.node
      (Sexp.list [Sexp.ofBool e, dash e (Port.hashKey p == Port.hashKey q),
                  Sexp.ofBool ne, dash ne (Node.hashKey p.node == Node.hashKey q.node)]).toString
    | _, _ => "!bad-payload"
  | _ => "!bad-payload"

/-- What the builder stream observes of one handle: its count, the fully consumed iteration (offsets only
    plus whether every port sits on the handle's own node), `h[0]`-free probes `h[-1]` and `h[count]`. -/
def obsHandle (h : Node) : Sexp :=
  let cnt : Sexp := match h.numOut with | some n => Sexp.ofNat n | none => .atom "none"
  let it : Sexp := match iter h with
    | .ok ps => .list (.atom "ok" :: Sexp.ofBool (ps.all fun p => p.node.idx == h.idx && p.dir == .outgoing)
                      :: ps.map fun p => Sexp.ofInt p.offset)
    | .error e => .atom (errName e)
  let probe (i : Int) : Sexp := match getInt h i with
    | .ok p => Sexp.ofInt p.offset
    | .error e => .atom (errName e)
  let past : Int := match h.numOut with | some n => n | none => 0
  .list [cnt, it, probe (-1), probe past]

def parseBuilt : Sexp → Option Node
  | .list [.atom how, idx, k] => do
    let idx ← idx.toNat?
    match how with
    | "addnode" => some (addNode idx (some (← k.toNat?)))
    | "addnode-none" => some (addNode idx none)
    | "addop" => some (addOp idx (← k.toNat?))
    | "call" => some (call idx (← k.toNat?))
    | "container" => some (containerAfterOutputs idx (← k.toNat?))
    | "inserted" => some (inserted idx (← k.toNat?))
    | _ => none
  | _ => none

def handleBuild (payload : Sexp) : String :=
  match payload with
  | .list hs =>
    match hs.mapM parseBuilt with
    | some hs => (Sexp.list (hs.map obsHandle)).toString
    | none => "!bad-payload"
  | _ => "!bad-payload"

end HugrVerif.Drive.Handle
