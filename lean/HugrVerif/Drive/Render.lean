import HugrVerif.Sexp
import HugrVerif.Bridge.Json
import HugrVerif.Bridge.Render
import HugrVerif.RenderCheck
import HugrVerif.SerialCodecs
import HugrVerif.Drive.Serial
/-
  Line-protocol handler for the rendering stream (C20).

  stream `render.run`   payload ((config…) (cp…) json)
        configs as in `Bridge/Render.lean`; (cp…) the non-printable non-ASCII code points occurring in the
        document (`str.isprintable`); json the document `Hugr.to_json()` produced.
     -> {"hyps": b, "outs": [o…]} with, per config, the dump of `render (loadJson doc) config` or
        {"error": cls}, and b = the loaded store passes `hypsB` (the decidable store hypotheses of the C20
        theorems); a bare array of errors if no store was loaded
        (`KeyError` for an unknown palette name; `Load:<cls>` if the document does not load);
        `!unsupported` if a string the renderer prints is outside `PyStr.lean`.
-/
namespace HugrVerif.Drive.Render
open HugrVerif HugrVerif.Sexp HugrVerif.Bridge HugrVerif.Bridge.Render HugrVerif.Render

def errJson (cls : String) : Json := .obj [("error", .str cls)]

def handle (payload : Sexp) : String :=
  match payload with
  | .list [.list cfgS, .list nps, docS] =>
    match cfgS.mapM parseConfig, nps.mapM Sexp.toNat?, jsonOfSexp docS with
    | some cfgs, some np, some doc =>
      if cfgs.all Option.isNone then jsonText (.arr (cfgs.map fun _ => errJson "KeyError"))
      else
        let fuel := Drive.Serial.jsonSize doc + 8
        match Serial.loadJson (Serial.opsCodec fuel) doc with
        | .error e => jsonText (.arr (cfgs.map fun
            | none => errJson "KeyError"
            | some _ => errJson ("Load:" ++ e.name)))
        | .ok s =>
          if !supported np s then "!unsupported"
          else
            let E := pyStrs np
            jsonText (.obj [("hyps", .bool (hypsB s)), ("outs", .arr (cfgs.map fun
              | none => errJson "KeyError"
              | some cfg =>
                match render E s cfg with
                | .error e => errJson e.name
                | .ok out => dump out))])
    | _, _, _ => "!bad-payload"
  | _ => "!bad-payload"

end HugrVerif.Drive.Render
