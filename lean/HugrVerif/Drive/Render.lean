import HugrVerif.Sexp
import HugrVerif.Bridge.Json
import HugrVerif.Bridge.Render
import HugrVerif.SerialCodecs
import HugrVerif.Drive.Serial
/-
  Line-protocol handler for the rendering stream (C20).

  stream `render.run`   payload (config (cp…) json)
        config as in `Bridge/Render.lean`; (cp…) the non-printable non-ASCII code points occurring in the
        document (`str.isprintable`); json the document `Hugr.to_json()` produced.
     -> the JSON dump of `render (loadJson doc) config`, or {"error": cls}
        (`KeyError` for an unknown palette name; `Load:<cls>` if the document does not load).
-/
namespace HugrVerif.Drive.Render
open HugrVerif HugrVerif.Sexp HugrVerif.Bridge HugrVerif.Bridge.Render HugrVerif.Render

def errJson (cls : String) : String := jsonText (.obj [("error", .str cls)])

def handle (payload : Sexp) : String :=
  match payload with
  | .list [cfgS, .list nps, docS] =>
    match parseConfig cfgS, nps.mapM Sexp.toNat?, jsonOfSexp docS with
    | some cfg?, some np, some doc =>
      match cfg? with
      | none => errJson "KeyError"
      | some cfg =>
        let fuel := Drive.Serial.jsonSize doc + 8
        match Serial.loadJson (Serial.opsCodec fuel) doc with
        | .error e => errJson ("Load:" ++ e.name)
        | .ok s =>
          if !supported np s then "!unsupported"
          else
            match render (pyStrs np) s cfg with
            | .error e => errJson e.name
            | .ok out => jsonText (dump out)
    | _, _, _ => "!bad-payload"
  | _ => "!bad-payload"

end HugrVerif.Drive.Render
