import HugrVerif.Drive.BiMap
