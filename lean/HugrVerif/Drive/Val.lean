/-
  Line-protocol handlers for the value layer (C14; reusable by C05).

  E = constant-building expression, V = value, T = type, J = JSON (Bridge/Val.lean, Bridge/Tys.lean,
  Bridge/Json.lean).  In observations JSON is printed with object keys sorted (`Json.canon`) and the
  body document of a function value is elided (`(vfn (T…) (T…) ("req"…) body)`): the codec of the
  body belongs to the document layer.  An expression whose evaluation needs something outside the
  modelled fragment (an element that cannot be encoded) gives `!unsupported`; the `ValueError` of
  `StaticArray` gives `(error ValueError)` on every stream.

  stream `val.type`       E      -> (ok T)
  stream `val.enc`        E      -> (ok J) | (error enc)
  stream `val.roundtrip`  E      -> (ok V) | (error enc|validation|fuel)        decVal (encVal v)
  stream `val.dec`        J      -> (ok V) | (error validation|fuel)
  stream `val.inhabits`   E      -> (inh b b')   b = inhabits v (typeOf v);  b' = the same on the decoded
                                     serialised forms of value and type (`-` if they do not decode)
                          (E T)  -> (inh b')     inhabits on the decoded serialised forms of v and T (the types of
                                                 the specification are the serialised ones: an extension type and
                                                 its opaque form are the same type there)
  stream `std.const`      E      -> (ok V)       the evaluated value with its payload
  stream `val.all`        E      -> (all (type T) (enc J) (rt V) (inh b'))   with `error` for failed parts
  stream `const.load`     E      -> (load (constkind K) (type T) (sig (T…) (T…)) (in K) (out K) (link s t)
                                          (badconst ERR) (badload ERR))      K = (const T) | (value T)
-/
import HugrVerif.Sexp
import HugrVerif.Bridge.Val
import HugrVerif.Inhabits
import HugrVerif.ConstOps

namespace HugrVerif.Drive.Val
open HugrVerif HugrVerif.Bridge HugrVerif.Codec HugrVerif.StdConsts

mutual
  def jsonSize : Json → Nat
    | .arr xs => 1 + jsonSizeList xs
    | .obj kvs => 1 + jsonSizeFields kvs
    | _ => 1
  def jsonSizeList : List Json → Nat
    | [] => 0
    | x :: xs => jsonSize x + jsonSizeList xs
  def jsonSizeFields : List (String × Json) → Nat
    | [] => 0
    | (_, x) :: xs => jsonSize x + jsonSizeFields xs
end

/-- Inner signature of the root operation of a serialised HUGR, for the root kinds the harness
    builds (`DFG`: its `signature`, default empty; `FuncDefn`: the body of its `signature`). -/
def fnSig (j : Json) : Except DecErr (List Ty × List Ty × List String) := do
  let fuel := jsonSize j + 1
  let kvs ← asObj j
  match ← asArr (← req "nodes" kvs) with
  | root :: _ => do
    let rkvs ← asObj root
    match ← asStr (← req "op" rkvs) with
    | "DFG" =>
      match field "signature" rkvs with
      | none => pure ([], [], [])
      | some s => decFuncType fuel s
    | "FuncDefn" => do
      let skvs ← asObj (← req "signature" rkvs)
      decFuncType fuel (← req "body" skvs)
    | _ => throw .validation
  | [] => throw .validation

partial def obsValue : Value → Sexp
  | .sum tag typ vals => .list [.atom "vsum", Sexp.ofNat tag, tySexp typ, .list (vals.map obsValue)]
  | .tuple vals => .list [.atom "vtuple", .list (vals.map obsValue)]
  | .function i o r _ => .list [.atom "vfn", rowSexp i, rowSexp o, .list (r.map .str), .atom "body"]
  | .ext name typ payload exts =>
    .list [.atom "vext", .str name, tySexp typ, jsonSexp payload.canon, .list (exts.map .str)]

def decErrName : DecErr → String
  | .validation => "validation"
  | .fuel => "fuel"

def err (s : String) : Sexp := .list [.atom "error", .atom s]
def ok (s : Sexp) : Sexp := .list [.atom "ok", s]

/-- evaluate an expression payload; `none` = reply given directly -/
def withExpr (p : Sexp) (k : Value → String) : String :=
  match exprOfSexp p with
  | none => "!bad-payload"
  | some e =>
    match e.eval with
    | .ok v => k v
    | .error .valueError => (err "ValueError").toString
    | .error _ => "!unsupported"

/-- a general sum whose `typ` is not a sum type cannot be serialised by the Python
    (`stys.SumType(root=…)` rejects it): outside the fragment -/
partial def sumTypsOk : Value → Bool
  | .sum _ typ vals => typ.isSum && vals.all sumTypsOk
  | .tuple vals => vals.all sumTypsOk
  | _ => true

def decode (j : Json) : Except DecErr Value := decVal fnSig (jsonSize j + 1) j

def encObs (v : Value) : Sexp :=
  match encVal v with
  | .ok j => ok (jsonSexp j.canon)
  | .error _ => err "enc"

def rtObs (v : Value) : Sexp :=
  match encVal v with
  | .error _ => err "enc"
  | .ok j =>
    match decode j with
    | .ok v' => ok (obsValue v')
    | .error e => err (decErrName e)

/-- `inhabits` on the decoded serialised forms of the value and of a type -/
def inhSerialisedAt (v : Value) (t : Ty) : Sexp :=
  match encVal v, encTy t with
  | .ok j, .ok jt =>
    match decode j, decTy (jsonSize jt + 1) jt with
    | .ok v', .ok t' => Sexp.ofBool (Value.inhabits v' t')
    | _, _ => .atom "-"
  | _, _ => .atom "-"

/-- … of the type it reports -/
def inhSerialised (v : Value) : Sexp := inhSerialisedAt v v.typeOf

def handleType (p : Sexp) : String := withExpr p fun v => (ok (tySexp v.typeOf)).toString

def handleEnc (p : Sexp) : String :=
  withExpr p fun v => if sumTypsOk v then (encObs v).toString else "!unsupported"

def handleRoundtrip (p : Sexp) : String :=
  withExpr p fun v => if sumTypsOk v then (rtObs v).toString else "!unsupported"

def handleDec (p : Sexp) : String :=
  match jsonOfSexp p with
  | none => "!bad-payload"
  | some j =>
    match decode j with
    | .ok v => (ok (obsValue v)).toString
    | .error e => (err (decErrName e)).toString

def handleInhabits (p : Sexp) : String :=
  match p with
  | .list [e, t] =>
    match exprOfSexp e, tyOfSexp t with
    | some _, some t =>
      withExpr e fun v => (Sexp.list [.atom "inh", inhSerialisedAt v t]).toString
    | _, _ =>
      withExpr p fun v =>
        (Sexp.list [.atom "inh", Sexp.ofBool (Value.inhabits v v.typeOf), inhSerialised v]).toString
  | _ =>
    withExpr p fun v =>
      (Sexp.list [.atom "inh", Sexp.ofBool (Value.inhabits v v.typeOf), inhSerialised v]).toString

def handleStdConst (p : Sexp) : String := withExpr p fun v => (ok (obsValue v)).toString

def handleAll (p : Sexp) : String :=
  withExpr p fun v =>
    if !sumTypsOk v then "!unsupported" else
    (Sexp.list [.atom "all", .list [.atom "type", tySexp v.typeOf], .list [.atom "enc", encObs v],
      .list [.atom "rt", rtObs v], .list [.atom "inh", inhSerialised v]]).toString

open ConstOps in
def kindSexp : Except OpErr Kind → Sexp
  | .ok (.const t) => .list [.atom "const", tySexp t]
  | .ok (.value t) => .list [.atom "value", tySexp t]
  | .error .invalidPort => .atom "InvalidPort"
  | .error .incompleteOp => .atom "IncompleteOp"

open ConstOps in
def handleLoad (p : Sexp) : String :=
  withExpr p fun v =>
    let l := load v
    let ty := match l.load.type_ with
      | .ok t => tySexp t
      | .error _ => .atom "IncompleteOp"
    let sig := match l.load.outerSig with
      | .ok (i, o) => Sexp.list [.atom "sig", rowSexp i, rowSexp o]
      | .error _ => .atom "IncompleteOp"
    (Sexp.list [.atom "load",
      .list [.atom "constkind", kindSexp (constPortKind l.const .out 0)],
      .list [.atom "type", ty], sig,
      .list [.atom "in", kindSexp (l.load.portKind .inp 0)],
      .list [.atom "out", kindSexp (l.load.portKind .out 0)],
      .list [.atom "link", Sexp.ofInt l.link.1, Sexp.ofInt l.link.2],
      .list [.atom "badconst", kindSexp (constPortKind l.const .out 1), kindSexp (constPortKind l.const .inp 0)],
      .list [.atom "badload", kindSexp (l.load.portKind .inp 1), kindSexp (l.load.portKind .out 1)]]).toString

def handle (stream : String) (p : Sexp) : Option String :=
  match stream with
  | "val.type" => some (handleType p)
  | "val.enc" => some (handleEnc p)
  | "val.roundtrip" => some (handleRoundtrip p)
  | "val.dec" => some (handleDec p)
  | "val.inhabits" => some (handleInhabits p)
  | "std.const" => some (handleStdConst p)
  | "val.all" => some (handleAll p)
  | "const.load" => some (handleLoad p)
  | _ => none

end HugrVerif.Drive.Val
