/-
  Line-protocol handlers specific to C05 (the other streams of the C05 driver are the existing ones:
  `tys.*` of Drive/Tys, `ops.*` of Drive/Ops, `serial.doc` of Drive/Serial, `schema.accepts` of
  Drive/Schema).

  c05.same    (T T)        -> (same b) TAB B1 TAB B2       Python `==` on two types; their bounds
  c05.valeq   (E E)        -> (eq b) (types b)             Python `==` on two constants; `==` of their types
                              E = constant-building expression (Bridge/Val.lean)
  c05.val     E            -> <enc>  [TAB (ok V) TAB <re-enc>]   value round trip through `decVal (Op.fnSig …)`
                              (function bodies read by the operation layer, as `Value.deserialize` does);
                              V with the body document elided, JSON with sorted keys
  c05.doc     ("encoder" JSON) -> as `serial.doc` (Drive/Serial), with nested documents re-saved (Nested.lean)
  c05.abs     (what JSON)  -> ValidationError | NoConcreteFunc
                            | ok TAB J <re-encoding of the decoded object> TAB P <projection of the document>
                              what ∈ type arg param poly value op ;  direction (B) on one document
-/
import HugrVerif.Sexp
import HugrVerif.Bridge.Val
import HugrVerif.Bridge.Ops
import HugrVerif.Inhabits
import HugrVerif.Proofs.C05
import HugrVerif.Proofs.C05ProjOps
import HugrVerif.Drive.Val
import HugrVerif.Drive.Serial
import HugrVerif.Nested

namespace HugrVerif.Drive.C05
open HugrVerif HugrVerif.Bridge HugrVerif.Codec HugrVerif.StdConsts

def bigFuel : Nat := 1000000

def boundObs (r : Except Ty.BErr Bound) : String :=
  match r with
  | .ok .copyable => "C"
  | .ok .any => "A"
  | .error .indexError => "IndexError"

def handleSame (p : Sexp) : String :=
  match p with
  | .list [a, b] =>
    match tyOfSexp a, tyOfSexp b with
    | some a, some b =>
      (Sexp.list [.atom "same", Sexp.ofBool (Ty.same a b)]).toString ++ "\t" ++ boundObs (Ty.bound a) ++ "\t" ++
        boundObs (Ty.bound b)
    | _, _ => "!bad-payload"
  | _ => "!bad-payload"

def evalExpr (p : Sexp) : Option (Except Err Value) := (exprOfSexp p).map (·.eval)

def handleValEq (p : Sexp) : String :=
  match p with
  | .list [a, b] =>
    match evalExpr a, evalExpr b with
    | some (.ok a), some (.ok b) =>
      (Sexp.list [.list [.atom "eq", Sexp.ofBool (Value.eqPy a b)],
        .list [.atom "types", Sexp.ofBool (Ty.same a.typeOf b.typeOf)]]).toString
    | some _, some _ => "!unsupported"
    | _, _ => "!bad-payload"
  | _ => "!bad-payload"

def encValObs (v : Value) : String :=
  match encVal v with
  | .ok j => "J:" ++ jsonText j
  | .error _ => "enc-error"

def handleVal (p : Sexp) : String :=
  match evalExpr p with
  | none => "!bad-payload"
  | some (.error .valueError) => "ValueError"
  | some (.error _) => "!unsupported"
  | some (.ok v) =>
    if !Drive.Val.sumTypsOk v then "!unsupported" else
    match encVal v with
    | .error _ => "enc-error"
    | .ok j =>
      let fuel := Drive.Val.jsonSize j + 8
      match decVal (Op.fnSig fuel) fuel j with
      | .error .validation => "J:" ++ jsonText j ++ "\tdec:ValidationError"
      | .error .fuel => "J:" ++ jsonText j ++ "\tdec:!fuel"
      | .ok v' => "J:" ++ jsonText j ++ "\t" ++ (Drive.Val.obsValue v').toString ++ "\t" ++ encValObs v'

def okObs (enc : Except String Json) (proj : Json) : String :=
  match enc with
  | .ok j => "ok\tJ:" ++ jsonText j ++ "\tP:" ++ jsonText proj
  | .error e => "ok\tenc:" ++ e ++ "\tP:" ++ jsonText proj

def encE {α : Type} (r : Except EncErr α) : Except String α :=
  match r with
  | .ok a => .ok a
  | .error .indexError => .error "IndexError"
  | .error .validationError => .error "ValidationError"

def handleAbs (p : Sexp) : String :=
  match p with
  | .list [.atom what, js] =>
    match jsonOfSexp js with
    | none => "!bad-payload"
    | some j =>
      let fuel := Drive.Val.jsonSize j + 8
      let dec {α : Type} (r : Except DecErr α) (k : α → String) : String :=
        match r with
        | .ok a => k a
        | .error .validation => "ValidationError"
        | .error .fuel => "!fuel"
      match what with
      | "type" => dec (decTy fuel j) fun t => okObs (encE (encTy t)) (Proj.ty fuel j)
      | "arg" => dec (decArg fuel j) fun a => okObs (encE (encArg a)) (Proj.arg fuel j)
      | "param" => dec (decParam fuel j) fun q => okObs (.ok (encParam q)) (Proj.param fuel j)
      | "poly" => dec (decPoly fuel j) fun t => okObs (encE (encTy t)) (Proj.poly fuel true j)
      | "value" => dec (decVal (Op.fnSig fuel) fuel j) fun v => okObs (encE (encVal v)) (Proj.val fuel j)
      | "op" =>
        match Op.decOp (fuel + 1) j with
        | .ok (op, parent) =>
          okObs (match Op.encOp op parent with | .ok j' => .ok j' | .error e => .error (Bridge.Ops.errName e))
            (Proj.op (Proj.val fuel) fuel j)
        | .error .validation => "ValidationError"
        | .error .noConcreteFunc => "NoConcreteFunc"
        | .error .fuel => "!fuel"
      | _ => "!bad-payload"
  | _ => "!bad-payload"

/-- `serial.doc` with nested documents handled: the body of every function constant is re-saved when
    its node is decoded (`Nested.codec`), as `FunctionValue.deserialize` / `Function._to_serial` do. -/
def handleDoc (payload : Sexp) : String :=
  match payload with
  | .list [.str enc, docS] =>
    match jsonOfSexp docS with
    | none => "!bad-payload"
    | some doc =>
      let fuel := Drive.Serial.jsonSize doc + 8
      let c := Nested.codec 6 fuel
      let opJ : Op → Nat → Json := fun op i =>
        match Op.encOp op i with
        | .ok j => j
        | .error e => .obj [("error", .str (Serial.opErrName e))]
      match Serial.loadJson c doc with
      | .error e => jsonText (.arr [Drive.Serial.errJson e, .null, .null])
      | .ok s =>
        match Serial.toJson c enc s with
        | .error e => jsonText (.arr [.str "ok", Drive.Serial.errJson e, Drive.Serial.snapshot opJ s])
        | .ok doc2 => jsonText (.arr [.str "ok", doc2, Drive.Serial.snapshot opJ s])
  | _ => "!bad-payload"

def handle (stream : String) (p : Sexp) : Option String :=
  match stream with
  | "c05.same" => some (handleSame p)
  | "c05.valeq" => some (handleValEq p)
  | "c05.val" => some (handleVal p)
  | "c05.abs" => some (handleAbs p)
  | "c05.doc" => some (handleDoc p)
  | _ => none

end HugrVerif.Drive.C05
