import HugrVerif.Sexp
import HugrVerif.Store
/- Line-protocol handler for stream `store.run` (C04, C08): runs a history on the store model and
   prints, after every mutator, the same query dump as `harness/props/C04.py: snapshot`. -/
namespace HugrVerif.Drive.Store
open HugrVerif HugrVerif.Sexp HugrVerif.Store

abbrev Meta := List (String × String)
abbrev S := HugrVerif.Store String Meta

inductive Cmd where
  | addNode (parent : Option Nat) (numOuts : Option Nat) (m : Meta)
  | addConst (parent : Option Nat)
  | addLink (s : Nat) (so : Int) (d : Nat) (do_ : Int)
  | addOrderLink (s d : Nat)
  | deleteLink (s : Nat) (so : Int) (d : Nat) (do_ : Int)
  | deleteNode (n : Nat)
  | insertHugr (sub : List Cmd) (parent : Option Nat)

def optNat : Sexp → Option (Option Nat)
  | .atom "none" => some none
  | x => x.toNat?.map some

def parseMeta : Sexp → Option Meta
  | .list xs => xs.mapM fun
    | .list [a, b] => do some (← a.text?, ← b.text?)
    | _ => none
  | _ => none

partial def parseCmd : Sexp → Option Cmd
  | .list [.atom "add_node", p, k, m] => do some (.addNode (← optNat p) (← optNat k) (← parseMeta m))
  | .list [.atom "add_const", p] => do some (.addConst (← optNat p))
  | .list [.atom "add_link", s, so, d, do_] => do
      some (.addLink (← s.toNat?) (← so.toInt?) (← d.toNat?) (← do_.toInt?))
  | .list [.atom "add_order_link", s, d] => do some (.addOrderLink (← s.toNat?) (← d.toNat?))
  | .list [.atom "delete_link", s, so, d, do_] => do
      some (.deleteLink (← s.toNat?) (← so.toInt?) (← d.toNat?) (← do_.toInt?))
  | .list [.atom "delete_node", n] => do some (.deleteNode (← n.toNat?))
  | .list [.atom "insert_hugr", .list sub, p] => do
      some (.insertHugr (← sub.mapM parseCmd) (← optNat p))
  | _ => none

def errName : Err → String
  | .keyError => "KeyError"
  | .valueError => "Exception"
  | .parentBeforeChild => "ParentBeforeChild"

def portSexp (p : Port) : Sexp := .list [ofNat p.1, ofInt p.2]

def optNatSexp : Option Nat → Sexp
  | none => .atom "none"
  | some k => ofNat k

/-- max offset used on `node` (as source if `out`), default -1; computed from `links()`. -/
def maxOff (ls : List (Port × Port)) (node : Nat) (out : Bool) : Int :=
  ls.foldl (fun acc (a, b) =>
    let p := if out then a else b
    if p.1 = node then max acc p.2 else acc) (-1)

def portsRange (cnt : Nat) (extra : Int) : List Int :=
  let hi : Int := max (cnt : Int) (extra + 1)
  (-1 : Int) :: (List.range (hi.toNat + 1)).map (fun (k : Nat) => (k : Int))

def snapshot (s : S) : Sexp :=
  let live := liveNodes s
  let ls := linksList s
  let per := live.filterMap fun i =>
    match getNode s i with
    | .error _ => none
    | .ok d =>
      let outs := (portsRange d.numOuts (maxOff ls i true)).filterMap fun off =>
        let peers := linkedOut s (i, off)
        if peers.isEmpty then none else some (Sexp.list [ofInt off, .list (peers.map portSexp)])
      let ins := (portsRange d.numInps (maxOff ls i false)).filterMap fun off =>
        let peers := linkedIn s (i, off)
        if peers.isEmpty then none else some (Sexp.list [ofInt off, .list (peers.map portSexp)])
      let flat (xs : List (Int × Port)) : Sexp :=
        .list (xs.map fun (o, q) => .list [ofInt o, ofNat q.1, ofInt q.2])
      some (Sexp.list [
        ofNat i, .str d.op,
        (match d.parent with | none => .atom "none" | some p => ofNat p),
        .list (d.children.map fun (c, k) => .list [ofNat c, optNatSexp k]),
        ofNat d.numInps, ofNat d.numOuts, ofNat d.numInps, ofNat d.numOuts,
        .list outs, .list ins,
        flat (outgoingFlat s i d.numOuts), flat (incomingFlat s i d.numInps),
        .list ((linkedOut s (i, -1)).map fun q => ofNat q.1),
        .list ((linkedIn s (i, -1)).map fun q => ofNat q.1),
        .list (d.md.map fun (a, b) => .list [.str a, .str b])])
  .list [.atom "st", ofNat (numNodes s), ofNat (numNodes s), .list (live.map ofNat),
    .list (ls.map fun (a, b) => .list [ofNat a.1, ofInt a.2, ofNat b.1, ofInt b.2]), .list per]

structure Run where
  s : S
  counter : Nat

def Run.new : Run := ⟨HugrVerif.Store.init "module" [], 0⟩

mutual
  /-- Returns the new run state and the `info` printed after `ok`, or the error class. -/
  partial def apply (r : Run) : Cmd → Except String (Run × Sexp)
    | .addNode p k m =>
      let lab := r.counter + 1
      match addNode r.s s!"n{lab}" p k m with
      | .ok (s, i) => .ok (⟨s, lab⟩, ofNat i)
      | .error e => .error (errName e)
    | .addConst p =>
      match addNode r.s "const" p none [] with
      | .ok (s, i) => .ok (⟨s, r.counter⟩, ofNat i)
      | .error e => .error (errName e)
    | .addLink a ao b bo =>
      match addLink r.s (a, ao) (b, bo) with
      | .ok s => .ok (⟨s, r.counter⟩, .atom "none")
      | .error e => .error (errName e)
    | .addOrderLink a b =>
      match addOrderLink r.s a b with
      | .ok s => .ok (⟨s, r.counter⟩, .atom "none")
      | .error e => .error (errName e)
    | .deleteLink a ao b bo =>
      match deleteLink r.s (a, ao) (b, bo) with
      | .ok s => .ok (⟨s, r.counter⟩, .atom "none")
      | .error e => .error (errName e)
    | .deleteNode n =>
      match deleteNode r.s n with
      | .ok s => .ok (⟨s, r.counter⟩, .atom "none")
      | .error e => .error (errName e)
    | .insertHugr sub p =>
      match runAll Run.new sub with
      | .error _ => .error "sub-history"
      | .ok rb =>
        match insertHugr r.s rb.s p with
        | .ok (s, mp) =>
          let pairs := mp.toArray.qsort (fun a b => a.1 < b.1) |>.toList
          .ok (⟨s, r.counter⟩, .list (pairs.map fun (a, b) => .list [ofNat a, ofNat b]))
        | .error e => .error (errName e)
  partial def runAll (r : Run) : List Cmd → Except String Run
    | [] => .ok r
    | c :: cs =>
      match apply r c with
      | .ok (r, _) => runAll r cs
      | .error e => .error e
end

partial def observe (r : Run) (cmds : List Cmd) (acc : List Sexp) : List Sexp :=
  match cmds with
  | [] => acc.reverse
  | c :: cs =>
    match apply r c with
    | .error e => (Sexp.list [.atom "raise", .atom e] :: acc).reverse
    | .ok (r, info) => observe r cs (snapshot r.s :: Sexp.list [.atom "ok", info] :: acc)

def handle (payload : Sexp) : String :=
  match payload with
  | .list xs =>
    match xs.mapM parseCmd with
    | none => "!bad-payload"
    | some cmds =>
      let r := Run.new
      (Sexp.list (observe r cmds [snapshot r.s])).toString
  | _ => "!bad-payload"

end HugrVerif.Drive.Store
