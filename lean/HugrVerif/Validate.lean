/-
  L4: the REFERENCE VALIDITY SPECIFICATION of HUGR documents (oracle and theorem target of C01).

  `Valid d` is the conjunction of the rules the reference validator `hugr validate` enforces on a
  serialised HUGR, transcribed from the Rust sources (file:line next to every rule; `/repo` at the
  verified revision) and from `specification/hugr.md`:

    hugr-core/src/hugr/validate.rs   validate_node / validate_port / validate_children /
                                     validate_children_dag / validate_edge / compute_dominator
    hugr-core/src/ops/validate.rs    OpValidityFlags per operation, validate_op_children
                                     (DataflowParent, Conditional, CFG), validate_io_nodes, validate_cfg_edge
    hugr-core/src/ops/tag.rs         OpTag, immediate_supersets, is_superset
    hugr-core/src/ops.rs:150-283     port layout: value ports, static port, other ports
    hugr-core/src/hugr/serialize.rs:222-289   how a document becomes a graph (root first, `null`
                                     offset = `other_port`, `connect` on existing ports only)
    hugr-core/src/ops/constant.rs, types/check.rs   constants (via `Inhabits.lean`, C14)

  Nothing here is derived from hugr-py.  `violations d` is the executable form (all violated rules
  with the offending node / port / edge); `Proofs/Validate.lean` proves
  `violations d = [] ↔ Valid d` (`validate_iff`).

  A document is judged directly (nodes with operation + parent index, edges with the offsets as
  written), with the *Rust* port layout — not through the Python loader.

  Type equality is `Ty.same` (`Inhabits.lean`): Rust's `Type: PartialEq` on types normalised by
  `SumType::new` / `From<SumType>` (types.rs:205-217, 281-288), i.e. structural equality modulo the
  two spellings of a unit sum.

  NOT modelled (DESIGN.md §7.4):
    * extension-requirement inference and `validate_extensions` (validate.rs:58-92);
    * resolution of `OpaqueOp`s and recomputation of extension-op signatures from their definitions:
      the cached signature of an `Extension` operation is taken as is (validate.rs:155-161, 575-594);
    * type-argument / type-parameter fitting: `validate_args`, `Call::validate`,
      `LoadFunction::validate` (validate.rs:595-611), `CustomType` arguments against their `TypeDef`;
    * type-variable scoping (`validate_port_kind`, validate.rs:298-311, 626-632);
    * `CustomConst::validate` of extension constants (constant.rs:541);
    * `runtime_reqs` are compared as lists (Rust: as sets).
  Two places are deliberately *stricter* than validate.rs, following specification/hugr.md:
    * `R0.hierarchy`: the nodes are listed parent-first (what both serialisers emit:
      `canonical_order`, serialize.rs:160; the Rust loader itself only needs node 0 to be the root);
    * `R3.multi_in`: an incoming value/static port has exactly one edge (hugr.md:161; validate.rs:232-248
      only rejects an unconnected one);
    * `R9.const`: nested constant values are checked recursively (C14's `Inhabits`).
  Import-free apart from the shared model files.
-/
import HugrVerif.SerialCodecs
import HugrVerif.Inhabits

namespace HugrVerif.Validate
open HugrVerif

/-! ## 1. Operation tags (`ops/tag.rs`) -/

/-- `enum OpTag` (tag.rs:14-74); constructor names are the Rust names. -/
inductive OpTag where
  | Any | None | ModuleOp | ModuleRoot | Function | Alias | Const | FuncDefn
  | ControlFlowChild | DataflowChild | DataflowParent
  | Dfg | Cfg | Input | Output | StaticInput | StaticOutput | FnCall | LoadConst | LoadFunc
  | ScopedDefn | TailLoop | Conditional | Case | Leaf | DataflowBlock | BasicBlockExit
deriving DecidableEq, Repr

namespace OpTag

def all : List OpTag :=
  [Any, None, ModuleOp, ModuleRoot, Function, Alias, Const, FuncDefn, ControlFlowChild, DataflowChild,
   DataflowParent, Dfg, Cfg, Input, Output, StaticInput, StaticOutput, FnCall, LoadConst, LoadFunc,
   ScopedDefn, TailLoop, Conditional, Case, Leaf, DataflowBlock, BasicBlockExit]

def name : OpTag → String
  | Any => "Any" | None => "None" | ModuleOp => "ModuleOp" | ModuleRoot => "ModuleRoot"
  | Function => "Function" | Alias => "Alias" | Const => "Const" | FuncDefn => "FuncDefn"
  | ControlFlowChild => "ControlFlowChild" | DataflowChild => "DataflowChild"
  | DataflowParent => "DataflowParent" | Dfg => "Dfg" | Cfg => "Cfg" | Input => "Input"
  | Output => "Output" | StaticInput => "StaticInput" | StaticOutput => "StaticOutput"
  | FnCall => "FnCall" | LoadConst => "LoadConst" | LoadFunc => "LoadFunc" | ScopedDefn => "ScopedDefn"
  | TailLoop => "TailLoop" | Conditional => "Conditional" | Case => "Case" | Leaf => "Leaf"
  | DataflowBlock => "DataflowBlock" | BasicBlockExit => "BasicBlockExit"

/-- `immediate_supersets` (tag.rs:104-138). -/
def parents : OpTag → List OpTag
  | Any => []
  | None => [Any]
  | ModuleOp => [Any]
  | ControlFlowChild => [Any]
  | DataflowChild => [Any]
  | Input => [DataflowChild]
  | Output => [DataflowChild]
  | Function => [ModuleOp, StaticOutput]
  | Alias => [ScopedDefn]
  | FuncDefn => [Function, ScopedDefn, DataflowParent]
  | DataflowBlock => [ControlFlowChild, DataflowParent]
  | BasicBlockExit => [ControlFlowChild]
  | Case => [Any, DataflowParent]
  | ModuleRoot => [Any]
  | Const => [ScopedDefn, StaticOutput]
  | Dfg => [DataflowChild, DataflowParent]
  | Cfg => [DataflowChild]
  | ScopedDefn => [DataflowChild, ControlFlowChild, ModuleOp]
  | TailLoop => [DataflowChild, DataflowParent]
  | Conditional => [DataflowChild]
  | StaticInput => [Any]
  | StaticOutput => [Any]
  | FnCall => [StaticInput, DataflowChild]
  | LoadConst => [StaticInput, DataflowChild]
  | LoadFunc => [StaticInput, DataflowChild]
  | Leaf => [DataflowChild]
  | DataflowParent => [Any]

/-- `self.is_superset(other)` (tag.rs:79-94), with an explicit recursion budget. -/
def isSupersetF : Nat → OpTag → OpTag → Bool
  | 0, s, o => s == o
  | k + 1, s, o => s == o || (parents o).any (fun p => isSupersetF k s p)

/-- The hierarchy has depth 4 (`FuncDefn ⊂ Function ⊂ ModuleOp ⊂ Any`, …); `Proofs/Validate.lean`
    shows that the budget is a fixpoint (`isSuperset_iff`). -/
def isSuperset (s o : OpTag) : Bool := isSupersetF 6 s o

/-- The declarative reading: `s ⊇ o` iff `s` is reached from `o` through immediate supersets. -/
inductive Superset (s : OpTag) : OpTag → Prop where
  | refl : Superset s s
  | step (o p : OpTag) (hp : p ∈ parents o) (h : Superset s p) : Superset s o

end OpTag

/-! ## 2. Operation classes, tags and validity flags (`ops.rs:48-73`, `ops/validate.rs`) -/

/-- The variants of `enum OpType` (ops.rs:48-73). -/
inductive OpClass where
  | Module | FuncDefn | FuncDecl | AliasDecl | AliasDefn | Const | Input | Output | Call | CallIndirect
  | LoadConstant | LoadFunction | DFG | ExtensionOp | OpaqueOp | Tag | DataflowBlock | ExitBlock
  | TailLoop | CFG | Conditional | Case
deriving DecidableEq, Repr

namespace OpClass

def all : List OpClass :=
  [Module, FuncDefn, FuncDecl, AliasDecl, AliasDefn, Const, Input, Output, Call, CallIndirect,
   LoadConstant, LoadFunction, DFG, ExtensionOp, OpaqueOp, Tag, DataflowBlock, ExitBlock, TailLoop, CFG,
   Conditional, Case]

def name : OpClass → String
  | Module => "Module" | FuncDefn => "FuncDefn" | FuncDecl => "FuncDecl" | AliasDecl => "AliasDecl"
  | AliasDefn => "AliasDefn" | Const => "Const" | Input => "Input" | Output => "Output" | Call => "Call"
  | CallIndirect => "CallIndirect" | LoadConstant => "LoadConstant" | LoadFunction => "LoadFunction"
  | DFG => "DFG" | ExtensionOp => "ExtensionOp" | OpaqueOp => "OpaqueOp" | Tag => "Tag"
  | DataflowBlock => "DataflowBlock" | ExitBlock => "ExitBlock" | TailLoop => "TailLoop" | CFG => "CFG"
  | Conditional => "Conditional" | Case => "Case"

/-- `OpTrait::tag` / `const TAG` per operation: module.rs:37,65,103,134,177; constant.rs:76;
    dataflow.rs:104,126,201,303,334,396,504; custom.rs:174,281; sum.rs:32; controlflow.rs:30,106,152,
    202,206,332. -/
def tag : OpClass → OpTag
  | Module => .ModuleRoot
  | FuncDefn => .FuncDefn
  | FuncDecl => .Function
  | AliasDecl => .Alias
  | AliasDefn => .Alias
  | Const => .Const
  | Input => .Input
  | Output => .Output
  | Call => .FnCall
  | CallIndirect => .DataflowChild
  | LoadConstant => .LoadConst
  | LoadFunction => .LoadFunc
  | DFG => .Dfg
  | ExtensionOp => .Leaf
  | OpaqueOp => .Leaf
  | Tag => .Leaf
  | DataflowBlock => .DataflowBlock
  | ExitBlock => .BasicBlockExit
  | TailLoop => .TailLoop
  | CFG => .Cfg
  | Conditional => .Conditional
  | Case => .Case

end OpClass

/-- `struct OpValidityFlags` (ops/validate.rs:20-39); `edgeCheck` = `edge_check.is_some()`. -/
structure Flags where
  allowedChildren : OpTag
  allowedFirstChild : OpTag
  allowedSecondChild : OpTag
  requiresChildren : Bool
  requiresDag : Bool
  edgeCheck : Bool
deriving DecidableEq, Repr

/-- `impl Default for OpValidityFlags` (ops/validate.rs:41-53). -/
def Flags.default : Flags := ⟨.None, .Any, .Any, false, false, false⟩

/-- `impl<T: DataflowParent> ValidateOp for T` (ops/validate.rs:254-265); the `DataflowParent`s are
    `DFG` (dataflow.rs:497), `TailLoop` (controlflow.rs:80), `DataflowBlock` (controlflow.rs:209),
    `Case` (controlflow.rs:335), `FuncDefn` (module.rs:68). -/
def Flags.dataflowParent : Flags := ⟨.DataflowChild, .Input, .Output, true, true, false⟩

/-- `validity_flags()` per operation (ops/validate.rs:55-63 Module, 65-73 Conditional, 109-120 CFG,
    254-265 dataflow parents, 424-437 `impl_validate_op!` = the default). -/
def OpClass.flags : OpClass → Flags
  | .Module => { Flags.default with allowedChildren := .ModuleOp, requiresChildren := false }
  | .Conditional =>
    { Flags.default with allowedChildren := .Case, requiresChildren := true, requiresDag := false }
  | .CFG =>
    { Flags.default with
      allowedChildren := .ControlFlowChild
      allowedFirstChild := .DataflowBlock
      allowedSecondChild := .BasicBlockExit
      requiresChildren := true
      requiresDag := false
      edgeCheck := true }
  | .DFG | .TailLoop | .DataflowBlock | .Case | .FuncDefn => Flags.dataflowParent
  | _ => Flags.default

/-- The Rust operation an operation of the model is. -/
def classOf : Op → OpClass
  | .input _ => .Input
  | .output _ => .Output
  | .custom .. => .OpaqueOp
  | .extOp .. | .makeTuple _ | .unpackTuple _ | .noop _ => .ExtensionOp
  | .tag .. => .Tag
  | .dfg .. => .DFG
  | .cfg .. => .CFG
  | .dataflowBlock .. => .DataflowBlock
  | .exitBlock _ => .ExitBlock
  | .const _ => .Const
  | .loadConst _ => .LoadConstant
  | .conditional .. => .Conditional
  | .case .. => .Case
  | .tailLoop .. => .TailLoop
  | .funcDefn .. => .FuncDefn
  | .funcDecl .. => .FuncDecl
  | .module => .Module
  | .call .. => .Call
  | .callIndirect _ => .CallIndirect
  | .loadFunc .. => .LoadFunction
  | .aliasDecl .. => .AliasDecl
  | .aliasDefn .. => .AliasDefn

def opTag (op : Op) : OpTag := (classOf op).tag
def flags (op : Op) : Flags := (classOf op).flags

/-! ## 3. Port layout (`ops.rs:150-283`, DESIGN.md §4.1) -/

/-- `dataflow_signature()` (ops.rs:383-385 default `None`): dataflow.rs:114-117 Input, 134-137 Output,
    207-209 Call, 309-316 CallIndirect, 340-343 LoadConstant, 402-407 LoadFunction, 505-512 DFG;
    controlflow.rs:36-42 TailLoop, 112-121 Conditional, 158-160 CFG; custom.rs ExtensionOp/OpaqueOp
    (the cached signature); sum.rs:40-49 Tag (`variants.get(tag).expect(..)`: no signature for a tag
    out of range).  Rows only (`reqs` is carried along but never compared). -/
def vsig : Op → Option Sig
  | .input ts => some ⟨[], ts, []⟩
  | .output (some ts) => some ⟨ts, [], []⟩
  | .custom _ sig _ _ _ => some sig
  | .extOp _ (some s) _ => some s
  | .extOp d none _ => d.polyFunc.map (·.body)
  | .makeTuple (some ts) => some ⟨ts, [Ty.tuple ts], ["prelude"]⟩
  | .unpackTuple (some ts) => some ⟨[Ty.tuple ts], ts, ["prelude"]⟩
  | .noop (some t) => some ⟨[t], [t], ["prelude"]⟩
  | .tag tg s => if 0 ≤ tg then (s.rows[tg.toNat]?).map (fun r => ⟨r, [s.toTy], []⟩) else none
  | .dfg i (some o) d => some ⟨i, o, d⟩
  | .cfg i (some o) => some ⟨i, o, []⟩
  | .loadConst (some t) => some ⟨[], [t], []⟩
  | .conditional s oi (some o) => some ⟨s.toTy :: oi, o, []⟩
  | .tailLoop ji rest (some jo) _ => some ⟨ji ++ rest, jo ++ rest, []⟩
  | .callIndirect (some s) => some ⟨s.toTy :: s.inp, s.out, []⟩
  | .call _ inst _ => some ⟨inst.inp, inst.out, []⟩
  | .loadFunc _ inst _ => some ⟨[], [inst.toTy], []⟩
  | _ => none

/-- The operations that are `DataflowOpTrait`s (they have a dataflow signature in Rust). -/
def isDataflowOp (op : Op) : Bool :=
  match classOf op with
  | .Input | .Output | .Call | .CallIndirect | .LoadConstant | .LoadFunction | .DFG | .ExtensionOp
  | .OpaqueOp | .Tag | .TailLoop | .CFG | .Conditional => true
  | _ => false

/-- value ports in a direction (`value_port_count`, ops.rs:259-263) -/
def valuePorts (op : Op) : Dir → List Ty
  | .inc => match vsig op with | some s => s.inp | none => []
  | .out => match vsig op with | some s => s.out | none => []

/-- `static_input()` / `static_output()`: dataflow.rs:211-213 Call, 345-347 LoadConstant, 409-411
    LoadFunction; module.rs:83-85 FuncDefn, 115-117 FuncDecl; constant.rs:92-94 Const. -/
def staticKind : Op → Dir → Option Kind
  | .call p _ _, .inc => some (.function p)
  | .loadConst (some t), .inc => some (.const t)
  | .loadFunc p _ _, .inc => some (.function p)
  | .funcDefn _ i ps (some o), .out => some (.function ⟨ps, ⟨i, o, []⟩⟩)
  | .funcDecl _ p, .out => some (.function p)
  | .const v, .out => some (.const v.typeOf)
  | _, _ => none

/-- `other_input()` / `other_output()`: `StateOrder` for every `DataflowOpTrait` operation
    (dataflow.rs:31-43) except `Input` incoming (:110-112) and `Output` outgoing (:139-141) —
    this is `Spec.hasOrderPort` of `Ops.lean`; `ControlFlow` for blocks (controlflow.rs:232-238,
    270-276). -/
def otherKind (op : Op) (dir : Dir) : Option Kind :=
  match op with
  | .dataflowBlock .. | .exitBlock _ => some .cf
  | _ => if Spec.hasOrderPort op dir then some .order else none

/-- `non_df_port_count` (ops.rs:430-436 default; controlflow.rs:244-249 DataflowBlock, 278-283
    ExitBlock). -/
def nonDfCount (op : Op) (dir : Dir) : Nat :=
  match op, dir with
  | .dataflowBlock .., .inc => 1
  | .dataflowBlock _ (some s) _ _, .out => s.rows.length
  | .dataflowBlock _ none _ _, .out => 0
  | .exitBlock _, .inc => 1
  | .exitBlock _, .out => 0
  | _, _ => if (otherKind op dir).isSome then 1 else 0

/-- `port_count` (ops.rs:279-283). -/
def portCount (op : Op) (dir : Dir) : Nat :=
  (valuePorts op dir).length + (if (staticKind op dir).isSome then 1 else 0) + nonDfCount op dir

/-- `port_kind` (ops.rs:177-198), for the ports that exist. -/
def kindAt (op : Op) (dir : Dir) (i : Nat) : Option Kind :=
  if portCount op dir ≤ i then none
  else
    match (valuePorts op dir)[i]? with
    | some t => some (.value t)
    | none =>
      match staticKind op dir with
      | some k => if i = (valuePorts op dir).length then some k else otherKind op dir
      | none => otherKind op dir

/-- `other_port` (ops.rs:204-215): where an edge written without offset attaches. -/
def otherPort (op : Op) (dir : Dir) : Option Nat :=
  if (otherKind op dir).isSome ∧ 1 ≤ nonDfCount op dir then
    some ((valuePorts op dir).length + (if (staticKind op dir).isSome then 1 else 0))
  else none

/-- An offset as written in the document → port index (serialize.rs:263-283; offsets are `u16`). -/
def resolvePort (op : Op) (dir : Dir) : Option Int → Option Nat
  | none => otherPort op dir
  | some o => if 0 ≤ o then some o.toNat else none

/-- `EdgeKind: PartialEq` (types.rs:48-66) on normalised types. -/
def sameKind : Kind → Kind → Bool
  | .value a, .value b => Ty.same a b
  | .const a, .const b => Ty.same a b
  | .function p, .function q => Ty.same p.toTy q.toTy
  | .cf, .cf => true
  | .order, .order => true
  | _, _ => false

/-- `Type::copyable()`: the bound of the type is `Copyable`. -/
def copyable (t : Ty) : Bool :=
  match Ty.bound t with
  | .ok .copyable => true
  | _ => false

/-- `EdgeKind::is_static` (types.rs:74-77) -/
def isStaticK : Kind → Bool
  | .const _ | .function _ => true
  | _ => false

def isOrderK : Kind → Bool
  | .order => true
  | _ => false

/-- `port_kind.is_linear() || port_kind == ControlFlow` (validate.rs:231) -/
def singleUseK : Kind → Bool
  | .value t => !copyable t
  | .cf => true
  | _ => false

/-- incoming ports that must be connected (validate.rs:232-240; the `Case` exception is on the node) -/
def mustConnectInK : Kind → Bool
  | .value _ | .const _ | .function _ => true
  | _ => false

/-! ## 4. Documents -/

structure VNode where
  op : Op
  /-- index of the parent; the first node is the root and names itself (serialize.rs:232-241) -/
  parent : Nat

/-- A decoded document: what `serde` gives the Rust loader (operations decoded, edges as written). -/
structure VDoc where
  nodes : List VNode
  edges : List Serial.Edge

/-- an edge whose ends exist (`connect`, serialize.rs:284-288) -/
structure REdge where
  /-- position in the document -/
  idx : Nat
  src : Nat
  sp : Nat
  dst : Nat
  dp : Nat
deriving DecidableEq, Repr

namespace VDoc

def nodeIds (d : VDoc) : List Nat := List.range d.nodes.length

def op? (d : VDoc) (n : Nat) : Option Op := (d.nodes[n]?).map (·.op)

/-- hierarchy parent (`get_parent`); the root has none -/
def parent? (d : VDoc) (n : Nat) : Option Nat :=
  if n = 0 then none else (d.nodes[n]?).map (·.parent)

/-- children in order (`add_node_with_parent` appends, serialize.rs:247-249) -/
def children (d : VDoc) (p : Nat) : List Nat := d.nodeIds.filter (fun n => d.parent? n == some p)

/-- strict ancestors `[parent n, parent² n, …]` (`iter::successors(to_parent, get_parent)`) -/
def chainF (d : VDoc) : Nat → Nat → List Nat
  | 0, _ => []
  | k + 1, n =>
    match d.parent? n with
    | none => []
    | some p => p :: chainF d k p

def ancestors (d : VDoc) (n : Nat) : List Nat := chainF d d.nodes.length n

def resolveEdge (d : VDoc) (e : Serial.Edge) (idx : Nat) : Option REdge :=
  match d.op? e.src, d.op? e.dst with
  | some so, some dop =>
    match resolvePort so .out e.srcOff, resolvePort dop .inc e.dstOff with
    | some sp, some dp =>
      if sp < portCount so .out ∧ dp < portCount dop .inc then some ⟨idx, e.src, sp, e.dst, dp⟩ else none
    | _, _ => none
  | _, _ => none

/-- the edges of the graph the loader builds -/
def redges (d : VDoc) : List REdge := d.edges.zipIdx.filterMap (fun ei => d.resolveEdge ei.1 ei.2)

def srcKind (d : VDoc) (e : REdge) : Option Kind := (d.op? e.src).bind (fun op => kindAt op .out e.sp)
def dstKind (d : VDoc) (e : REdge) : Option Kind := (d.op? e.dst).bind (fun op => kindAt op .inc e.dp)

/-- all edges between children of `p` as pairs (the `SiblingGraph` of `p`) -/
def sibEdges (d : VDoc) (res : List REdge) (p : Nat) : List (Nat × Nat) :=
  res.filterMap (fun e =>
    if d.parent? e.src == some p && d.parent? e.dst == some p then some (e.src, e.dst) else none)

def inLinks (res : List REdge) (n p : Nat) : Nat := (res.filter (fun e => e.dst == n && e.dp == p)).length
def outLinks (res : List REdge) (n p : Nat) : Nat := (res.filter (fun e => e.src == n && e.sp == p)).length

/-- the ports of all non-root nodes (`validate_subtree`, validate.rs:617-624) -/
def ports (d : VDoc) (dir : Dir) : List (Nat × Nat) :=
  d.nodeIds.flatMap (fun n =>
    if n = 0 then [] else
    match d.op? n with
    | some op => (List.range (portCount op dir)).map (fun p => (n, p))
    | none => [])

end VDoc

/-! ## 5. Graph notions used by R5 and R7 -/

/-- edge relation of a list of pairs -/
def EdgeRel (es : List (Nat × Nat)) (a b : Nat) : Prop := (a, b) ∈ es

/-- **Acyclic**: no node reaches itself along one or more edges. -/
def Acyclic (es : List (Nat × Nat)) : Prop := ∀ a, ¬ Relation.TransGen (EdgeRel es) a a

/-- `Walk es a vs b`: `vs` lists the vertices of a walk from `a` to `b` (both included). -/
inductive Walk (es : List (Nat × Nat)) : Nat → List Nat → Nat → Prop where
  | nil (a : Nat) : Walk es a [a] a
  | snoc {a b c : Nat} {vs : List Nat} : Walk es a vs b → (b, c) ∈ es → Walk es a (vs ++ [c]) c

/-- **Dominance** in a control-flow graph with the given entry: `b` is reachable from the entry and
    every walk from the entry to `b` passes through `a`
    (`Dominators::dominators(b)` is `None` for unreachable `b`, validate.rs:539-541). -/
def Dominates (es : List (Nat × Nat)) (entry a b : Nat) : Prop :=
  (∃ vs, Walk es entry vs b) ∧ ∀ vs, Walk es entry vs b → a ∈ vs

/-- `n` times `f` -/
def iter {α : Type} (f : α → α) : Nat → α → α
  | 0, x => x
  | k + 1, x => iter f k (f x)

/-- Kahn's elimination: keep the nodes that still have a predecessor among the remaining ones. -/
def kahnStep (es : List (Nat × Nat)) (rem : List Nat) : List Nat :=
  let live := es.filter (fun e => rem.contains e.1)
  rem.filter (fun y => live.any (fun e => e.2 == y))

/-- executable acyclicity of the graph `(V, es)` (all end points of `es` in `V`) -/
def acyclicB (V : List Nat) (es : List (Nat × Nat)) : Bool := (iter (kahnStep es) V.length V).isEmpty

/-- one round of saturation: add the nodes of `V` with a predecessor already reached -/
def reachStep (V : List Nat) (es : List (Nat × Nat)) (S : List Nat) : List Nat :=
  let live := es.filter (fun e => S.contains e.1)
  S ++ V.filter (fun y => !S.contains y && live.any (fun e => e.2 == y))

/-- the nodes of `V` reachable from `start` -/
def reach (V : List Nat) (es : List (Nat × Nat)) (start : List Nat) : List Nat :=
  iter (reachStep V es) V.length start

/-- the graph without node `a` -/
def without (a : Nat) (es : List (Nat × Nat)) : List (Nat × Nat) := es.filter (fun e => e.1 != a && e.2 != a)

/-- executable dominance: `b` reachable, and not reachable once `a` is removed -/
def dominatesB (V : List Nat) (es : List (Nat × Nat)) (entry a b : Nat) : Bool :=
  (reach V es [entry]).contains b &&
    (a == entry || !(reach (V.filter (· != a)) (without a es) [entry]).contains b)

/-! ## 6. The rules -/

section Rules
variable (d : VDoc)

/-! ### R0 — the document is a hierarchy listed parent-first -/

/-- `R0.hierarchy`: there is a first node, it is the root (`FirstNodeNotRoot`, serialize.rs:239-241)
    and every other node names an earlier node as its parent (canonical order, serialize.rs:158-162;
    `RootNotRoot`/`NoParent`, validate.rs:108-112, 186-188, cannot arise then). -/
def R0_node (n : Nat) : Bool :=
  match d.nodes[n]? with
  | some v => if n = 0 then v.parent == 0 else decide (v.parent < n)
  | none => false
def R0_hierarchy : Prop := d.nodes ≠ [] ∧ ∀ n ∈ d.nodeIds, R0_node d n = true

/-! ### R1 — permitted parent/child pairs (`validate_node`, `validate_children`) -/

/-- `R1.parent_child` (`InvalidParentOp`, validate.rs:190-200): the parent's `allowed_children`
    is a superset of the child's tag. -/
def R1a_node (n : Nat) : Bool :=
  match d.parent? n, d.op? n with
  | some p, some op =>
    match d.op? p with
    | some pop => (flags pop).allowedChildren.isSuperset (opTag op)
    | none => false
  | _, _ => true
def R1_parentChild : Prop := ∀ n ∈ d.nodeIds, R1a_node d n = true

/-- `R1.non_container` (`NonContainerWithChildren`, validate.rs:319-325). -/
def R1b_node (n : Nat) : Bool :=
  match d.op? n with
  | some op => (d.children n).isEmpty || (flags op).allowedChildren != .None
  | none => true
def R1_nonContainer : Prop := ∀ n ∈ d.nodeIds, R1b_node d n = true

/-- `R1.first_child` (`InvalidInitialChild` "first", validate.rs:327-338). -/
def R1c_node (n : Nat) : Bool :=
  match d.op? n, d.children n with
  | some op, c :: _ =>
    match d.op? c with
    | some cop => (flags op).allowedFirstChild.isSuperset (opTag cop)
    | none => false
  | _, _ => true
def R1_firstChild : Prop := ∀ n ∈ d.nodeIds, R1c_node d n = true

/-- `R1.second_child` (`InvalidInitialChild` "second", validate.rs:340-353). -/
def R1d_node (n : Nat) : Bool :=
  match d.op? n, d.children n with
  | some op, _ :: c :: _ =>
    match d.op? c with
    | some cop => (flags op).allowedSecondChild.isSuperset (opTag cop)
    | none => false
  | _, _ => true
def R1_secondChild : Prop := ∀ n ∈ d.nodeIds, R1d_node d n = true

/-- `R1.no_children` (`ContainerWithoutChildren`, validate.rs:399-404). -/
def R1e_node (n : Nat) : Bool :=
  match d.op? n with
  | some op => !(flags op).requiresChildren || !(d.children n).isEmpty
  | none => true
def R1_requiresChildren : Prop := ∀ n ∈ d.nodeIds, R1e_node d n = true

/-! ### R2 — children in the mandated positions with the container's rows (`validate_op_children`) -/

/-- `inner_signature()` of the `DataflowParent`s: dataflow.rs:497-501 DFG; controlflow.rs:80-87
    TailLoop (`body_input_row = just_inputs ++ rest`, `body_output_row = Sum([just_inputs,
    just_outputs]) :: rest`, :67-78), 209-220 DataflowBlock (`Sum(sum_rows) :: other_outputs`),
    335-338 Case; module.rs:68-72 FuncDefn (the body of the type scheme). -/
def innerRows : Op → Option (List Ty × List Ty)
  | .dfg i (some o) _ => some (i, o)
  | .tailLoop ji rest (some jo) _ => some (ji ++ rest, Ty.sum [ji, jo] :: rest)
  | .dataflowBlock i (some s) (some oo) _ => some (i, s.toTy :: oo)
  | .case i (some o) => some (i, o)
  | .funcDefn _ i _ (some o) => some (i, o)
  | _ => none

/-- the operations whose children are checked by `validate_io_nodes` -/
def isDataflowParent (op : Op) : Bool := (flags op).requiresDag

/-- `R2.two_children`: `validate_io_nodes` (ops/validate.rs:287-288) and `CFG::validate_op_children`
    (:126-127) take the first two children with `unwrap()`: a non-empty dataflow region or CFG has
    at least two children. -/
def R2a_node (n : Nat) : Bool :=
  match d.op? n with
  | some op =>
    if isDataflowParent op || (flags op).edgeCheck then
      match d.children n with
      | [_] => false
      | _ => true
    else true
  | none => true
def R2_twoChildren : Prop := ∀ n ∈ d.nodeIds, R2a_node d n = true

/-- `R2.input_row` (`IOSignatureMismatch` "Input", ops/validate.rs:290-299): the output row of the
    first child (`dataflow_signature().unwrap_or_default().output`) is the region's input row. -/
def R2b_node (n : Nat) : Bool :=
  match d.op? n, d.children n with
  | some op, c :: _ =>
    if isDataflowParent op then
      match innerRows op, d.op? c with
      | some (i, _), some cop => Ty.sameRow (valuePorts cop .out) i
      | _, _ => false
    else true
  | _, _ => true
def R2_inputRow : Prop := ∀ n ∈ d.nodeIds, R2b_node d n = true

/-- `R2.output_row` (`IOSignatureMismatch` "Output", ops/validate.rs:300-310). -/
def R2c_node (n : Nat) : Bool :=
  match d.op? n, d.children n with
  | some op, _ :: c :: _ =>
    if isDataflowParent op then
      match innerRows op, d.op? c with
      | some (_, o), some cop => Ty.sameRow (valuePorts cop .inc) o
      | _, _ => false
    else true
  | _, _ => true
def R2_outputRow : Prop := ∀ n ∈ d.nodeIds, R2c_node d n = true

/-- `R2.internal_io` (`InternalIOChildren`, ops/validate.rs:312-331): no `Input`/`Output` after the
    second child of a dataflow region. -/
def R2d_node (n : Nat) : Bool :=
  match d.op? n with
  | some op =>
    if isDataflowParent op then
      ((d.children n).drop 2).all (fun c =>
        match d.op? c with
        | some cop => opTag cop != .Input && opTag cop != .Output
        | none => true)
    else true
  | none => true
def R2_internalIO : Prop := ∀ n ∈ d.nodeIds, R2d_node d n = true

/-- `R2.cond_count` (`InvalidConditionalSum`, ops/validate.rs:79-88): one case per variant. -/
def R2e_node (n : Nat) : Bool :=
  match d.op? n with
  | some (.conditional s _ _) => (d.children n).isEmpty || s.rows.length == (d.children n).length
  | _ => true
def R2_condCount : Prop := ∀ n ∈ d.nodeIds, R2e_node d n = true

/-- `Conditional::case_input_row` (controlflow.rs:136-138) and the case check
    (`ConditionalCaseSignature`, ops/validate.rs:92-103). -/
def caseOk (rows : List (List Ty)) (oi o : List Ty) (i : Nat) (cop : Op) : Bool :=
  match rows[i]?, cop with
  | some row, .case ci (some co) => Ty.sameRow ci (row ++ oi) && Ty.sameRow co o
  | _, _ => false

/-- `R2.case_sig`: case `i` takes variant `i` followed by the other inputs and produces the
    conditional's outputs. -/
def R2f_node (n : Nat) : Bool :=
  match d.op? n with
  | some (.conditional s oi (some o)) =>
    (d.children n).zipIdx.all (fun ci =>
      match d.op? ci.1 with
      | some cop => caseOk s.rows oi o ci.2 cop
      | none => false)
  | _ => true
def R2_caseSig : Prop := ∀ n ∈ d.nodeIds, R2f_node d n = true

/-- `R2.cfg_entry` (`IOSignatureMismatch` "BasicBlock Input", ops/validate.rs:135-144): the entry
    block's inputs are the CFG's inputs. -/
def R2g_node (n : Nat) : Bool :=
  match d.op? n, d.children n with
  | some (.cfg i _), c :: _ =>
    match d.op? c with
    | some (.dataflowBlock bi _ _ _) => Ty.sameRow bi i
    | _ => false
  | _, _ => true
def R2_cfgEntry : Prop := ∀ n ∈ d.nodeIds, R2g_node d n = true

/-- `R2.cfg_exit` (`IOSignatureMismatch` "BasicBlockExit Output", ops/validate.rs:145-153). -/
def R2h_node (n : Nat) : Bool :=
  match d.op? n, d.children n with
  | some (.cfg _ (some o)), _ :: c :: _ =>
    match d.op? c with
    | some (.exitBlock (some eo)) => Ty.sameRow eo o
    | _ => false
  | _, _ => true
def R2_cfgExit : Prop := ∀ n ∈ d.nodeIds, R2h_node d n = true

/-- `R2.internal_exit` (`InternalExitChildren`, ops/validate.rs:154-158). -/
def R2i_node (n : Nat) : Bool :=
  match d.op? n with
  | some (.cfg _ _) =>
    ((d.children n).drop 2).all (fun c =>
      match d.op? c with
      | some cop => opTag cop != .BasicBlockExit
      | none => true)
  | _ => true
def R2_internalExit : Prop := ∀ n ∈ d.nodeIds, R2i_node d n = true

/-- `validate_cfg_edge` (ops/validate.rs:336-359): `successor_input(port)` of the source block
    (`sum_rows[port] ++ other_outputs`, controlflow.rs:306-312) is the `dataflow_input()` of the
    target (block inputs / `cfg_outputs`, controlflow.rs:298-321). -/
def cfgEdgeOk (sop : Op) (sp : Nat) (dop : Op) : Bool :=
  match sop with
  | .dataflowBlock _ (some s) (some oo) _ =>
    match s.rows[sp]? with
    | some row =>
      match dop with
      | .dataflowBlock ti _ _ _ => Ty.sameRow (row ++ oo) ti
      | .exitBlock (some eo) => Ty.sameRow (row ++ oo) eo
      | _ => false
    | none => false
  | _ => false

/-- `R2.cfg_edge` (`CFGEdgeSignatureMismatch`; the `edge_check` loop, validate.rs:365-394): every
    edge between two children of a CFG. -/
def R2j_edge (e : REdge) : Bool :=
  match d.parent? e.src with
  | some p =>
    match d.op? p with
    | some pop =>
      if (flags pop).edgeCheck && d.parent? e.dst == some p then
        match d.op? e.src, d.op? e.dst with
        | some sop, some dop => cfgEdgeOk sop e.sp dop
        | _, _ => false
      else true
    | none => true
  | none => true
def R2_cfgEdge : Prop := ∀ e ∈ d.redges, R2j_edge d e = true

/-! ### R3 — port counts per signature (`connect`, `validate_node`, `validate_port`) -/

/-- `R3.offset`: both ends of every edge exist — the node (`UnknownEdgeNode`), an offset
    (`MissingPortOffset`, serialize.rs:263-283) and a port of the operation's `port_count`
    (ops.rs:279-283; `WrongNumberOfPorts`, validate.rs:164-176: the loader allocates exactly the
    operation's ports, so an offset beyond them cannot be connected). -/
def R3a_edge (ei : Serial.Edge × Nat) : Bool := (d.resolveEdge ei.1 ei.2).isSome
def R3_offsets : Prop := ∀ ei ∈ d.edges.zipIdx, R3a_edge d ei = true

/-- `R3.bad_tag`: a `Tag` operation has a signature (`expect("Not a valid tag")`, sum.rs:40-49). -/
def R3b_node (n : Nat) : Bool :=
  match d.op? n with
  | some op => !isDataflowOp op || (vsig op).isSome
  | none => true
def R3_sigDefined : Prop := ∀ n ∈ d.nodeIds, R3b_node d n = true

/-- the kind of a port of a node -/
def portKind? (dir : Dir) (np : Nat × Nat) : Option Kind := (d.op? np.1).bind (fun op => kindAt op dir np.2)

/-- `R3.unconnected_in` (`UnconnectedPort`, validate.rs:232-248): every incoming value / static
    port is connected (not order, not control flow, not on a `Case`). -/
def R3c_port (res : List REdge) (np : Nat × Nat) : Bool :=
  match portKind? d .inc np with
  | some k => !mustConnectInK k || decide (1 ≤ VDoc.inLinks res np.1 np.2)
  | none => true
def R3_inputsConnected : Prop := ∀ np ∈ d.ports .inc, R3c_port d d.redges np = true

/-- `R3.multi_in` (specification/hugr.md:161 "Incoming ports are associated with exactly one edge,
    or many ControlFlow edges"; not checked by validate.rs). -/
def R3d_port (res : List REdge) (np : Nat × Nat) : Bool :=
  match portKind? d .inc np with
  | some k => !mustConnectInK k || decide (VDoc.inLinks res np.1 np.2 ≤ 1)
  | none => true
def R3_inputsOnce : Prop := ∀ np ∈ d.ports .inc, R3d_port d d.redges np = true

/-- `R3.unconnected_out` (`UnconnectedPort`, validate.rs:231, 240-248): a linear value and a
    control-flow successor must go somewhere. -/
def R3e_port (res : List REdge) (np : Nat × Nat) : Bool :=
  match portKind? d .out np with
  | some k => !singleUseK k || decide (1 ≤ VDoc.outLinks res np.1 np.2)
  | none => true
def R3_linearConnected : Prop := ∀ np ∈ d.ports .out, R3e_port d d.redges np = true

/-- `R3.multi_out` (`TooManyConnections`, validate.rs:262-271). -/
def R3f_port (res : List REdge) (np : Nat × Nat) : Bool :=
  match portKind? d .out np with
  | some k => !singleUseK k || decide (VDoc.outLinks res np.1 np.2 ≤ 1)
  | none => true
def R3_linearOnce : Prop := ∀ np ∈ d.ports .out, R3f_port d d.redges np = true

/-- `R3.root_edges` (`RootWithEdges`, validate.rs:178-184). -/
def R3g_edge (e : REdge) : Bool := e.src != 0 && e.dst != 0
def R3_rootNoEdges : Prop := ∀ e ∈ d.redges, R3g_edge e = true

/-! ### R4 — identical kind and type at both ends (`IncompatiblePorts`, validate.rs:273-290) -/

def R4_edge (e : REdge) : Bool :=
  match d.srcKind e, d.dstKind e with
  | some a, some b => sameKind a b
  | _, _ => false
def R4_kinds : Prop := ∀ e ∈ d.redges, R4_edge d e = true

/-! ### R5 — dataflow regions are acyclic (`NotADag`, validate.rs:396-398, 413-434) -/

/-- `R5.cycle`: the sibling graph (all edges between children: value, static and order) of every
    operation with `requires_dag` is acyclic. -/
def R5_node (n : Nat) : Prop :=
  ∀ op, d.op? n = some op → (flags op).requiresDag = true → Acyclic (d.sibEdges d.redges n)
def R5_acyclic : Prop := ∀ n ∈ d.nodeIds, R5_node d n

/-! ### R6–R8 — non-local edges (`validate_edge`, validate.rs:443-563; hugr.md:541-583) -/

/-- Where the ancestors of the target meet the source (validate.rs:482-555): walking up from the
    target's parent, the first ancestor whose parent is the source's parent (`ext`) or — for
    non-static edges — the source's grandparent (`dom`).  `pre` lists the ancestors passed, the
    found one included (the nodes the edge "enters"). -/
inductive Locality where
  | ext (anc : Nat) (pre : List Nat)
  | dom (g anc : Nat) (pre : List Nat)
  | unrelated

def locateF (fp : Nat) (fpp : Option Nat) (isStatic : Bool) : List Nat → List Nat → Locality
  | [], _ => .unrelated
  | a :: rest, pre =>
    match d.parent? a with
    | none => .unrelated
    | some ap =>
      if ap = fp then .ext a (pre ++ [a])
      else if !isStatic && fpp == some ap then .dom ap a (pre ++ [a])
      else locateF fp fpp isStatic rest (pre ++ [a])

/-- a non-local edge: its source has a parent different from the target's -/
structure NonLocal where
  e : REdge
  /-- parent of the source -/
  fp : Nat
  /-- kind of the source port -/
  k : Kind
  loc : Locality

def nonLocal? (e : REdge) : Option NonLocal :=
  match d.parent? e.src, d.srcKind e with
  | some fp, some k =>
    if d.parent? e.dst == some fp then none
    else some ⟨e, fp, k, locateF d fp (d.parent? fp) (isStaticK k) (d.ancestors e.dst) []⟩
  | _, _ => none

def nonLocalsOf (res : List REdge) : List NonLocal := res.filterMap (nonLocal? d)
def nonLocals : List NonLocal := nonLocalsOf d d.redges

/-- `R6.non_copyable` (`NonCopyableData`, validate.rs:460-469): only static edges and copyable
    values cross region boundaries. -/
def R6a_nl (x : NonLocal) : Bool :=
  match x.k with
  | .value t => copyable t
  | k => isStaticK k
def R6_copyable : Prop := ∀ x ∈ nonLocals d, R6a_nl x = true

/-- `R6.relation` (`NoRelation`, validate.rs:557-562; `NonCFGAncestor`, :519-528): the source's
    parent is an ancestor of the target (Ext), or a sibling block of an ancestor in a CFG (Dom). -/
def R6b_nl (x : NonLocal) : Bool :=
  match x.loc with
  | .ext _ _ => true
  | .dom g _ _ => match d.op? g with | some op => opTag op == .Cfg | none => false
  | .unrelated => false
def R6_relation : Prop := ∀ x ∈ nonLocals d, R6b_nl d x = true

/-- an order edge from the source node to `anc` (validate.rs:500-507) -/
def HasOrderEdge (src anc : Nat) : Prop :=
  ∃ e ∈ d.redges, e.src = src ∧ e.dst = anc ∧ ((d.srcKind e).map isOrderK) = some true

def hasOrderEdge (res : List REdge) (src anc : Nat) : Bool :=
  res.any (fun e => e.src == src && e.dst == anc && ((d.srcKind e).map isOrderK) == some true)

/-- `R6.order_edge` (`MissingOrderEdge`, validate.rs:499-515; hugr.md:554-558): a value edge entering
    a nested region is accompanied by an order edge from its source to the target's ancestor that
    is a sibling of the source. -/
def R6c_nl (x : NonLocal) : Prop :=
  match x.loc with
  | .ext anc _ => isStaticK x.k = true ∨ HasOrderEdge d x.e.src anc
  | _ => True
def R6_orderEdge : Prop := ∀ x ∈ nonLocals d, R6c_nl d x

/-- `R7.dominance` (`NonDominatedAncestor`, validate.rs:530-551; `compute_dominator`, :141-145:
    the CFG's sibling graph from its first child): the source's block dominates the block that
    contains the target. -/
def R7_nl (x : NonLocal) : Prop :=
  match x.loc with
  | .dom g anc _ =>
    match d.children g with
    | entry :: _ => Dominates (d.sibEdges d.redges g) entry x.fp anc
    | [] => False
  | _ => True
def R7_dominance : Prop := ∀ x ∈ nonLocals d, R7_nl d x

/-- `R8.into_func` (`ValueEdgeIntoFunc`, validate.rs:487-495, 498, 529; hugr.md:559-560, 583): no
    non-static edge enters a `FuncDefn`. -/
def R8_nl (x : NonLocal) : Bool :=
  isStaticK x.k ||
    match x.loc with
    | .ext _ pre | .dom _ _ pre =>
      pre.all (fun a => match d.op? a with | some (.funcDefn ..) => false | _ => true)
    | .unrelated => true
def R8_noValueIntoFunc : Prop := ∀ x ∈ nonLocals d, R8_nl d x = true

/-! ### R9 — constants inhabit their type (`Const::validate`, validate.rs:208-210) -/

/-- `R9.const`: the value of every `Const` is a well-formed constant of the type it reports
    (`Value::validate`, constant.rs:538-554; `SumType::check_type`, types/check.rs:63-98); that this
    is the type its users expect is R4 on the `Const → LoadConstant` edge. -/
def R9_node (n : Nat) : Prop := ∀ v, d.op? n = some (.const v) → Value.Inhabits v v.typeOf
def R9_consts : Prop := ∀ n ∈ d.nodeIds, R9_node d n

end Rules

/-! ## 7. `Valid` -/

/-- **The validity specification**: all rules. -/
structure Valid (d : VDoc) : Prop where
  r0_hierarchy : R0_hierarchy d
  r1_parentChild : R1_parentChild d
  r1_nonContainer : R1_nonContainer d
  r1_firstChild : R1_firstChild d
  r1_secondChild : R1_secondChild d
  r1_requiresChildren : R1_requiresChildren d
  r2_twoChildren : R2_twoChildren d
  r2_inputRow : R2_inputRow d
  r2_outputRow : R2_outputRow d
  r2_internalIO : R2_internalIO d
  r2_condCount : R2_condCount d
  r2_caseSig : R2_caseSig d
  r2_cfgEntry : R2_cfgEntry d
  r2_cfgExit : R2_cfgExit d
  r2_internalExit : R2_internalExit d
  r2_cfgEdge : R2_cfgEdge d
  r3_offsets : R3_offsets d
  r3_sigDefined : R3_sigDefined d
  r3_inputsConnected : R3_inputsConnected d
  r3_inputsOnce : R3_inputsOnce d
  r3_linearConnected : R3_linearConnected d
  r3_linearOnce : R3_linearOnce d
  r3_rootNoEdges : R3_rootNoEdges d
  r4_kinds : R4_kinds d
  r5_acyclic : R5_acyclic d
  r6_copyable : R6_copyable d
  r6_relation : R6_relation d
  r6_orderEdge : R6_orderEdge d
  r7_dominance : R7_dominance d
  r8_noValueIntoFunc : R8_noValueIntoFunc d
  r9_consts : R9_consts d

/-! ## 8. The executable validator -/

/-- A violated rule with the offending item: `[node]`, `[node, port]` or `[edge index]`. -/
structure Violation where
  rule : String
  loc : List Nat
deriving DecidableEq, Repr

/-- the items on which a Boolean check fails -/
def failing {α : Type} (rule : String) (loc : α → List Nat) (items : List α) (ok : α → Bool) :
    List Violation :=
  (items.filter (fun x => !ok x)).map (fun x => ⟨rule, loc x⟩)

def nodeLoc (n : Nat) : List Nat := [n]
def portLoc (np : Nat × Nat) : List Nat := [np.1, np.2]
def edgeLoc (e : REdge) : List Nat := [e.idx]
def nlLoc (x : NonLocal) : List Nat := [x.e.idx]

section Exec
variable (d : VDoc)

def R5_nodeB (res : List REdge) (n : Nat) : Bool :=
  match d.op? n with
  | some op => !(flags op).requiresDag || acyclicB (d.children n) (d.sibEdges res n)
  | none => true

def R6c_nlB (res : List REdge) (x : NonLocal) : Bool :=
  match x.loc with
  | .ext anc _ => isStaticK x.k || hasOrderEdge d res x.e.src anc
  | _ => true

def R7_nlB (res : List REdge) (x : NonLocal) : Bool :=
  match x.loc with
  | .dom g anc _ =>
    match d.children g with
    | entry :: _ => dominatesB (d.children g) (d.sibEdges res g) entry x.fp anc
    | [] => false
  | _ => true

def R9_nodeB (n : Nat) : Bool :=
  match d.op? n with
  | some (.const v) => Value.valid v
  | _ => true

/-- All violations, rule by rule (within a rule in document order). -/
def violations : List Violation :=
  let res := d.redges
  let nls := nonLocalsOf d res
  let ids := d.nodeIds
  (if d.nodes.isEmpty then [⟨"R0.hierarchy", []⟩] else []) ++
  failing "R0.hierarchy" nodeLoc ids (R0_node d) ++
  failing "R1.parent_child" nodeLoc ids (R1a_node d) ++
  failing "R1.non_container" nodeLoc ids (R1b_node d) ++
  failing "R1.first_child" nodeLoc ids (R1c_node d) ++
  failing "R1.second_child" nodeLoc ids (R1d_node d) ++
  failing "R1.no_children" nodeLoc ids (R1e_node d) ++
  failing "R2.two_children" nodeLoc ids (R2a_node d) ++
  failing "R2.input_row" nodeLoc ids (R2b_node d) ++
  failing "R2.output_row" nodeLoc ids (R2c_node d) ++
  failing "R2.internal_io" nodeLoc ids (R2d_node d) ++
  failing "R2.cond_count" nodeLoc ids (R2e_node d) ++
  failing "R2.case_sig" nodeLoc ids (R2f_node d) ++
  failing "R2.cfg_entry" nodeLoc ids (R2g_node d) ++
  failing "R2.cfg_exit" nodeLoc ids (R2h_node d) ++
  failing "R2.internal_exit" nodeLoc ids (R2i_node d) ++
  failing "R2.cfg_edge" edgeLoc res (R2j_edge d) ++
  failing "R3.offset" (fun ei => [ei.2]) d.edges.zipIdx (R3a_edge d) ++
  failing "R3.bad_tag" nodeLoc ids (R3b_node d) ++
  failing "R3.unconnected_in" portLoc (d.ports .inc) (R3c_port d res) ++
  failing "R3.multi_in" portLoc (d.ports .inc) (R3d_port d res) ++
  failing "R3.unconnected_out" portLoc (d.ports .out) (R3e_port d res) ++
  failing "R3.multi_out" portLoc (d.ports .out) (R3f_port d res) ++
  failing "R3.root_edges" edgeLoc res R3g_edge ++
  failing "R4.kind" edgeLoc res (R4_edge d) ++
  failing "R5.cycle" nodeLoc ids (R5_nodeB d res) ++
  failing "R6.non_copyable" nlLoc nls R6a_nl ++
  failing "R6.relation" nlLoc nls (R6b_nl d) ++
  failing "R6.order_edge" nlLoc nls (R6c_nlB d res) ++
  failing "R7.dominance" nlLoc nls (R7_nlB d res) ++
  failing "R8.into_func" nlLoc nls (R8_nl d) ++
  failing "R9.const" nodeLoc ids (R9_nodeB d)

/-- `hugr validate` on a document. -/
def validate : Except (List Violation) Unit :=
  match violations d with
  | [] => .ok ()
  | vs => .error vs

end Exec

/-! ## 9. From a serialised document -/

/-- `serde` reads `func_sig`, `type_args` and `instantiation` of a `Call` / `LoadFunction` as they
    are written (dataflow.rs:186-196, 383-393).  hugr-py's `deserialize()` — which `Op.decOp`
    mirrors — replaces the instantiation of a monomorphic function by the body of its type scheme;
    that replacement is undone here. -/
def asWritten (fuel : Nat) (j : Json) (op : Op) : Op :=
  let fields : Option (Sig × List TypeArg) :=
    match j with
    | .obj kvs =>
      match Codec.field "instantiation" kvs, Codec.field "type_args" kvs with
      | some ji, some ja =>
        match Op.decSigField fuel ji, Op.decArgsField fuel ja with
        | .ok inst, .ok args => some (inst, args)
        | _, _ => none
      | _, _ => none
    | _ => none
  match op, fields with
  | .call p _ _, some (inst, args) => .call p inst args
  | .loadFunc p _ _, some (inst, args) => .loadFunc p inst args
  | op, _ => op

/-- Decode the operations of a `SerialHugr` (as `serde` does before the loader runs). -/
def ofSerial (fuel : Nat) (sd : Serial.Doc) : Except String VDoc := do
  let ns ← sd.nodes.mapM (fun j =>
    match Op.decOp fuel j with
    | .ok (op, p) => if p < 0 then .error "ValidationError" else .ok (⟨asWritten fuel j op, p.toNat⟩ : VNode)
    | .error _ => .error "ValidationError")
  pure ⟨ns, sd.edges⟩

def ofJson (fuel : Nat) (j : Json) : Except String VDoc :=
  match Serial.decDoc j with
  | .ok sd => ofSerial fuel sd
  | .error e => .error e.name

/-- Validity of a serialised document (the theorem target for `Hugr._to_serial` output). -/
def ValidSerial (fuel : Nat) (sd : Serial.Doc) : Prop := ∃ d, ofSerial fuel sd = .ok d ∧ Valid d

end HugrVerif.Validate
