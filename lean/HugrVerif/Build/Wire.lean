/-
  L5 (part 1): the store-level core of the builders — `hugr/build/dfg.py`
  (`_ancestral_sibling`, `_get_dataflow_type`, `_wire_up_port`, `_wire_up`, `_fn_sig`) and
  `hugr/build/cfg.py` (`Block._wire_up_port`), statement by statement, over the store model
  (`Store Op Meta`) and the operation model (`Ops.lean`).

  Values, not references: the Python completes operation objects in place (`op._set_in_types`); the
  model replaces the node's payload.  Faithful as long as one operation instance belongs to one
  node (W8).
-/
import HugrVerif.Store
import HugrVerif.Ops
import HugrVerif.Serial
import HugrVerif.Build.PyEq

namespace HugrVerif.Build
open HugrVerif

/-- The store the builders work on. -/
abbrev St := Store Op Serial.Meta

/-- An `OutPort` used as a `Wire`: node index and offset. -/
abbrev Wire := Nat × Int

/-- Exception classes a builder call can end with. -/
inductive BuildErr where
  | noSiblingAncestor   -- `hugr.exceptions.NoSiblingAncestor`
  | notInSameCfg        -- `hugr.exceptions.NotInSameCfg`
  | conditionalError    -- `hugr.build.cond_loop.ConditionalError`
  | mismatchedExit      -- `hugr.exceptions.MismatchedExit`
  | valueError
  | noConcreteFunc      -- `hugr.ops.NoConcreteFunc`
  | indexError
  | incompleteOp        -- `hugr.ops.IncompleteOp`
  | invalidPort         -- `hugr.ops.InvalidPort`
  | assertionError
  | keyError
  | parentBeforeChild
  | validationError     -- pydantic, while serialising
  | other               -- any other exception (`AttributeError`, `TypeError`)
  | fuel                -- recursion budget of a hierarchy walk exhausted (unreachable on a forest)
  | unsupported         -- the program leaves the modelled fragment (the driver answers `!unsupported`)
deriving DecidableEq, Repr

def BuildErr.name : BuildErr → String
  | .noSiblingAncestor => "NoSiblingAncestor"
  | .notInSameCfg => "NotInSameCfg"
  | .conditionalError => "ConditionalError"
  | .mismatchedExit => "MismatchedExit"
  | .valueError => "ValueError"
  | .noConcreteFunc => "NoConcreteFunc"
  | .indexError => "IndexError"
  | .incompleteOp => "IncompleteOp"
  | .invalidPort => "InvalidPort"
  | .assertionError => "AssertionError"
  | .keyError => "KeyError"
  | .parentBeforeChild => "ParentBeforeChild"
  | .validationError => "ValidationError"
  | .other => "Exception"
  | .fuel => "!fuel"
  | .unsupported => "!unsupported"

def ofStoreErr : Store.Err → BuildErr
  | .keyError => .keyError
  | .valueError => .valueError
  | .parentBeforeChild => .parentBeforeChild

def ofOpErr : OpErr → BuildErr
  | .incompleteOp => .incompleteOp
  | .invalidPort => .invalidPort
  | .valueError => .valueError
  | .indexError => .indexError
  | .noConcreteFunc => .noConcreteFunc
  | .assertion => .assertionError
  | .validationError => .validationError
  | .noMethod => .other

def liftS {α : Type} : Except Store.Err α → Except BuildErr α
  | .ok a => .ok a
  | .error e => .error (ofStoreErr e)

def liftO {α : Type} : Except OpErr α → Except BuildErr α
  | .ok a => .ok a
  | .error e => .error (ofOpErr e)

/-- `self.hugr[node].parent` -/
def nodeParent (s : St) (i : Nat) : Except BuildErr (Option Nat) :=
  match Store.getNode s i with
  | .ok d => .ok d.parent
  | .error e => .error (ofStoreErr e)

/-- `self.hugr[node].op` -/
def nodeOp (s : St) (i : Nat) : Except BuildErr Op :=
  match Store.getNode s i with
  | .ok d => .ok d.op
  | .error e => .error (ofStoreErr e)

/-- `self.hugr[node].op = op` (the in-place completion of an operation object). -/
def setOp (s : St) (i : Nat) (op : Op) : Except BuildErr St :=
  liftS (Store.modifyNode s i (fun d => { d with op := op }))

/-- The loop of `_ancestral_sibling`: `while (tgt_parent := h[tgt].parent) is not None: …`. -/
def ancSibLoop (s : St) (srcParent : Option Nat) : Nat → Nat → Except BuildErr (Option Nat)
  | 0, _ => .error .fuel
  | fuel + 1, tgt =>
    match nodeParent s tgt with
    | .error e => .error e
    | .ok none => .ok none
    | .ok (some tp) => if srcParent = some tp then .ok (some tgt) else ancSibLoop s srcParent fuel tp

/-- `_ancestral_sibling(h, src, tgt)`: the ancestor of `tgt` that is a sibling of `src`. -/
def ancestralSibling (s : St) (src tgt : Nat) : Except BuildErr (Option Nat) :=
  match nodeParent s src with
  | .error e => .error e
  | .ok sp => ancSibLoop s sp (s.nodes.length + 1) tgt

/-- `_get_dataflow_type(wire)`: `hugr.port_type(port)`, `ValueError` when that is `None`. -/
def getDataflowType (s : St) (w : Wire) : Except BuildErr Ty :=
  match nodeOp s w.1 with
  | .error e => .error e
  | .ok op =>
    match Op.hugrPortType op .out w.2 with
    | .error e => .error (ofOpErr e)
    | .ok none => .error .valueError
    | .ok (some t) => .ok t

/-- `_wire_types(args)` -/
def wireTypes (s : St) : List Wire → Except BuildErr (List Ty)
  | [] => .ok []
  | w :: ws =>
    match getDataflowType s w with
    | .error e => .error e
    | .ok t =>
      match wireTypes s ws with
      | .error e => .error e
      | .ok ts => .ok (t :: ts)

/-- the part of `DfBase._wire_up_port` after the sibling ancestor has been found -/
def linkPort (s : St) (anc node : Nat) (off : Nat) (w : Wire) : Except BuildErr (St × Ty) :=
  match (if anc ≠ node then liftS (Store.addOrderLink s w.1 anc) else .ok s) with
  | .error e => .error e
  | .ok s1 =>
    match liftS (Store.addLink s1 w (node, (off : Int))) with
    | .error e => .error e
    | .ok s2 =>
      match getDataflowType s2 w with
      | .error e => .error e
      | .ok t => .ok (s2, t)

/-- `DfBase._wire_up_port(node, offset, p)` -/
def wireUpPortBase (s : St) (node : Nat) (off : Nat) (w : Wire) : Except BuildErr (St × Ty) :=
  match ancestralSibling s w.1 node with
  | .error e => .error e
  | .ok none => .error .noSiblingAncestor
  | .ok (some anc) => linkPort s anc node off w

/-- The `while cfg_node != src_parent:` loop of `Block._wire_up_port`. -/
def inCfgLoop (s : St) (cfgNode : Nat) : Nat → Option Nat → Except BuildErr Unit
  | 0, _ => .error .fuel
  | fuel + 1, srcParent =>
    if srcParent = some cfgNode then .ok ()
    else
      match srcParent with
      | none => .error .notInSameCfg
      | some p =>
        if p = s.root then .error .notInSameCfg
        else
          match nodeParent s p with
          | .error e => .error e
          | .ok pp => inCfgLoop s cfgNode fuel pp

/-- `Block._wire_up_port(node, offset, p)`; `blockNode` is the block builder's `parent_node`. -/
def wireUpPortBlock (s : St) (blockNode : Nat) (node : Nat) (off : Nat) (w : Wire) : Except BuildErr (St × Ty) :=
  match nodeParent s blockNode with
  | .error e => .error e
  | .ok none => .error .assertionError
  | .ok (some cfgNode) =>
    match nodeParent s w.1 with
    | .error e => .error e
    | .ok srcParent =>
      match wireUpPortBase s node off w with
      | .ok (s1, _) =>
        match getDataflowType s1 w with
        | .error e => .error e
        | .ok t => .ok (s1, t)
      | .error .noSiblingAncestor =>
        match inCfgLoop s cfgNode (s.nodes.length + 1) srcParent with
        | .error e => .error e
        | .ok () =>
          match liftS (Store.addLink s w (node, (off : Int))) with
          | .error e => .error e
          | .ok s1 =>
            match getDataflowType s1 w with
            | .error e => .error e
            | .ok t => .ok (s1, t)
      | .error e => .error e

/-- `self._wire_up_port` as dispatched on the builder class: `ctx = some blockNode` for a `Block`. -/
def wireUpPort (s : St) (ctx : Option Nat) (node : Nat) (off : Nat) (w : Wire) : Except BuildErr (St × Ty) :=
  match ctx with
  | none => wireUpPortBase s node off w
  | some b => wireUpPortBlock s b node off w

/-- `[self._wire_up_port(node, i, p) for i, p in enumerate(ports)]` from offset `i`. -/
def wireUpPorts (ctx : Option Nat) (node : Nat) : St → Nat → List Wire → Except BuildErr (St × List Ty)
  | s, _, [] => .ok (s, [])
  | s, i, w :: ws =>
    match wireUpPort s ctx node i w with
    | .error e => .error e
    | .ok (s1, t) =>
      match wireUpPorts ctx node s1 (i + 1) ws with
      | .error e => .error e
      | .ok (s2, ts) => .ok (s2, t :: ts)

/-- `isinstance(op, ops._PartialOp)`: the classes with a `_set_in_types` method. -/
def isPartialOp : Op → Bool
  | .output _ | .makeTuple _ | .unpackTuple _ | .callIndirect _ | .noop _ => true
  | _ => false

/-- `Hugr._update_port_count(node, num_inps=i, num_outs=o)` with both counts given. -/
def updatePortCount (s : St) (node : Nat) (numInps numOuts : Nat) : Except BuildErr St :=
  match liftS (Store.modifyNode s node (fun d => { d with numInps := numInps })) with
  | .error e => .error e
  | .ok s1 => liftS (Store.updateNodeOuts s1 node numOuts)

/-- the completion part of `_wire_up`: `op._set_in_types(tys)` and the port counts -/
def completeOp (s : St) (node : Nat) (tys : List Ty) : Except BuildErr St :=
  match nodeOp s node with
  | .error e => .error e
  | .ok op =>
    if isPartialOp op then
      match Op.setInTypes op tys with
      | .error e => .error (ofOpErr e)
      | .ok op' =>
        match setOp s node op' with
        | .error e => .error e
        | .ok s1 =>
          -- `isinstance(op, ops.DataflowOp)` holds for every partial operation class
          match Op.outerSig op' with
          | .error e => .error (ofOpErr e)
          | .ok sig => updatePortCount s1 node sig.inp.length sig.out.length
    else .ok s

/-- `_wire_up(node, ports)` -/
def wireUp (s : St) (ctx : Option Nat) (node : Nat) (ws : List Wire) : Except BuildErr (St × List Ty) :=
  match wireUpPorts ctx node s 0 ws with
  | .error e => .error e
  | .ok (s1, tys) =>
    match completeOp s1 node tys with
    | .error e => .error e
    | .ok s2 => .ok (s2, tys)

/-- `_fn_sig(func)` -/
def fnSig (s : St) (func : Nat) : Except BuildErr Poly :=
  match nodeOp s func with
  | .error e => .error e
  | .ok op =>
    match Op.portKind op .out 0 with
    | .error e => .error (ofOpErr e)
    | .ok (.function p) => .ok p
    | .ok _ => .error .valueError

/-- `hugr._get_typed_op(node, cl)`: `KeyError`, or `AssertionError` when the class test fails. -/
def typedOp (s : St) (i : Nat) (isCl : Op → Bool) : Except BuildErr Op :=
  match nodeOp s i with
  | .error e => .error e
  | .ok op => if isCl op then .ok op else .error .assertionError

def isOutputOp : Op → Bool | .output _ => true | _ => false
def isInputOp : Op → Bool | .input _ => true | _ => false
def isConstOp : Op → Bool | .const _ => true | _ => false
def isBlockOp : Op → Bool | .dataflowBlock .. => true | _ => false
def isExitOp : Op → Bool | .exitBlock _ => true | _ => false

/-- Python `==` on type rows -/
def rowEq (a b : List Ty) : Bool := Ty.pyEqRow a b

end HugrVerif.Build
