/-
  L5 (part 2): builder objects and their methods — `hugr/build/{base,dfg,cfg,cond_loop,function,
  tracked_dfg}.py`, statement by statement.

  * `hugrs`    one store per `Hugr` object (a standalone builder creates one; nested builders share
               their host's);
  * `builders` one record per builder *object* (several program variables may denote the same object:
               `Cfg.add_entry()` returns `_entry_block`, `Conditional.add_case(i)` returns the stored
               `Case`; `If(case)` / `Else(case)` are NEW objects copying the case's fields);
  * `spent`    the HUGRs that have been inserted into another one: `insert_hugr` copies operation
               *references*, so building on such a HUGR afterwards would also change the copy — outside
               the model (W8, ledger F32): every mutating command on it answers `unsupported`.
-/
import HugrVerif.Build.Wire
import HugrVerif.SerialCodecs

namespace HugrVerif.Build
open HugrVerif

abbrev Handle := Store.Handle   -- a `Node` handle: index and `_num_out_ports`

inductive BKind where
  | dfg | function | case | ifB | elseB | block | tailLoop | tracked   -- `DfBase` subclasses
  | cfg | conditional | module
deriving DecidableEq, Repr

def BKind.isDf : BKind → Bool
  | .dfg | .function | .case | .ifB | .elseB | .block | .tailLoop | .tracked => true
  | _ => false

/-- `DefinitionBuilder` subclasses -/
def BKind.isDefBuilder (k : BKind) : Bool := k.isDf || k == .module

structure BRec where
  kind : BKind
  /-- which `Hugr` object -/
  hid : Nat
  /-- `parent_node` (for `Module`: `hugr.root`) -/
  parent : Handle
  input : Handle := (0, none)
  output : Handle := (0, none)
  /-- `Cfg._entry_block` (builder object) -/
  entry : Option Nat := none
  /-- `Cfg.exit` -/
  exit : Handle := (0, none)
  /-- `Conditional._case_builders`: (builder object, built) -/
  cases : List (Nat × Bool) := []
  /-- `Case._parent_cond` (builder object) -/
  parentCond : Option Nat := none
  /-- `TrackedDfg.tracked` -/
  tracked : List (Option Wire) := []
deriving Repr

structure BuildState where
  hugrs : List St := []
  spent : List Nat := []
  builders : List BRec := []
  /-- builder variable → builder object -/
  benv : List (String × Nat) := []
  /-- node variable → handle -/
  nenv : List (String × Handle) := []

namespace BuildState

def getHugr (st : BuildState) (hid : Nat) : Except BuildErr St :=
  match st.hugrs[hid]? with
  | some s => .ok s
  | none => .error .unsupported

def setHugr (st : BuildState) (hid : Nat) (s : St) : BuildState :=
  { st with hugrs := st.hugrs.set hid s }

def getB (st : BuildState) (bi : Nat) : Except BuildErr BRec :=
  match st.builders[bi]? with
  | some r => .ok r
  | none => .error .unsupported

def setB (st : BuildState) (bi : Nat) (r : BRec) : BuildState :=
  { st with builders := st.builders.set bi r }

def newHugr (st : BuildState) (s : St) : BuildState × Nat :=
  ({ st with hugrs := st.hugrs ++ [s] }, st.hugrs.length)

def newB (st : BuildState) (r : BRec) : BuildState × Nat :=
  ({ st with builders := st.builders ++ [r] }, st.builders.length)

/-- a builder whose HUGR may still be built on -/
def liveB (st : BuildState) (bi : Nat) : Except BuildErr BRec :=
  match st.getB bi with
  | .error e => .error e
  | .ok r => if st.spent.contains r.hid then .error .unsupported else .ok r

end BuildState

open BuildState

/-- `self._wire_up_port` dispatch: the `Block` override needs the block's `parent_node`. -/
def BRec.ctx (r : BRec) : Option Nat := if r.kind = .block then some r.parent.1 else none

/-! ### construction of builders -/

/-- `DfBase._init_io_nodes(parent_op)` under the node `p`. -/
def initIO (s : St) (parentOp : Op) (p : Nat) : Except BuildErr (St × Handle × Handle) :=
  match Op.inputs parentOp with
  | .error e => .error (ofOpErr e)
  | .ok ins =>
    match liftS (Store.addNode s (.input ins) (some p) (some ins.length) []) with
    | .error e => .error e
    | .ok (s1, i) =>
      match liftS (Store.addNode s1 (.output none) (some p) none []) with
      | .error e => .error e
      | .ok (s2, o) => .ok (s2, (i, some ins.length), (o, none))

/-- `DfBase.__init__(parent_op)`: a new HUGR whose root is `parent_op`. -/
def newStandaloneDf (st : BuildState) (kind : BKind) (parentOp : Op) : Except BuildErr (BuildState × Nat) :=
  let s0 : St := Store.init parentOp []
  match initIO s0 parentOp s0.root with
  | .error e => .error e
  | .ok (s, i, o) =>
    let (st1, hid) := st.newHugr s
    .ok (st1.newB { kind, hid, parent := (s0.root, some 0), input := i, output := o })

/-- `DfBase.new_nested(parent_op, hugr, parent)` on the store; returns parent / input / output handles. -/
def newNestedStore (s : St) (parentOp : Op) (parent : Nat) : Except BuildErr (St × Handle × Handle × Handle) :=
  match liftS (Store.addNode s parentOp (some parent) none []) with
  | .error e => .error e
  | .ok (s1, p) =>
    match initIO s1 parentOp p with
    | .error e => .error e
    | .ok (s2, i, o) => .ok (s2, (p, none), i, o)

/-- `cls.new_nested(parent_op, hugr, parent)` as a builder object in HUGR `hid`. -/
def newNestedDf (st : BuildState) (kind : BKind) (hid : Nat) (parentOp : Op) (parent : Nat)
    (parentCond : Option Nat := none) : Except BuildErr (BuildState × Nat) :=
  match st.getHugr hid with
  | .error e => .error e
  | .ok s =>
    match newNestedStore s parentOp parent with
    | .error e => .error e
    | .ok (s1, p, i, o) =>
      .ok ((st.setHugr hid s1).newB { kind, hid, parent := p, input := i, output := o, parentCond })

/-- `Cfg._init_impl(hugr, root, input_types)` -/
def cfgInit (st : BuildState) (hid : Nat) (root : Handle) (inputs : List Ty) : Except BuildErr (BuildState × Nat) :=
  match newNestedDf st .block hid (.dataflowBlock inputs none none []) root.1 with
  | .error e => .error e
  | .ok (st1, entry) =>
    match st1.getHugr hid with
    | .error e => .error e
    | .ok s =>
      match liftS (Store.addNode s (.exitBlock none) (some root.1) none []) with
      | .error e => .error e
      | .ok (s1, x) =>
        .ok ((st1.setHugr hid s1).newB { kind := .cfg, hid, parent := root, entry := some entry, exit := (x, none) })

/-- the `for case_id in range(n_cases)` loop of `Conditional._init_impl` -/
def condCases (hid : Nat) (self : Nat) (root : Nat) : BuildState → Nat → Nat → List (Nat × Bool) →
    Except BuildErr (BuildState × List (Nat × Bool))
  | st, _, 0, acc => .ok (st, acc)
  | st, caseId, n + 1, acc =>
    match st.getHugr hid with
    | .error e => .error e
    | .ok s =>
      match nodeOp s root with
      | .error e => .error e
      | .ok cop =>
        match Op.nthInputs cop (caseId : Int) with
        | .error e => .error (ofOpErr e)
        | .ok ins =>
          match newNestedDf st .case hid (.case ins none) root (some self) with
          | .error e => .error e
          | .ok (st1, cb) => condCases hid self root st1 (caseId + 1) n (acc ++ [(cb, false)])

/-- `Conditional._init_impl(hugr, root, n_cases)`: the conditional's own record is allocated first
    (the cases refer to it), then the cases. -/
def condInit (st : BuildState) (hid : Nat) (root : Handle) (nCases : Nat) : Except BuildErr (BuildState × Nat) :=
  let (st1, self) := st.newB { kind := .conditional, hid, parent := root }
  match condCases hid self root.1 st1 0 nCases [] with
  | .error e => .error e
  | .ok (st2, cs) => .ok (st2.setB self { kind := .conditional, hid, parent := root, cases := cs }, self)

/-! ### parent output count, set_outputs and its overrides -/

/-- `_set_parent_output_count(count)`: `self.parent_node = hugr._update_node_outs(self.parent_node, count)` -/
def setParentOutputCount (st : BuildState) (bi : Nat) (count : Nat) : Except BuildErr BuildState :=
  match st.getB bi with
  | .error e => .error e
  | .ok r =>
    match st.getHugr r.hid with
    | .error e => .error e
    | .ok s =>
      match liftS (Store.updateNodeOuts s r.parent.1 count) with
      | .error e => .error e
      | .ok s1 => .ok ((st.setHugr r.hid s1).setB bi { r with parent := (r.parent.1, some count) })

/-- `DfBase.set_outputs(*args)` on the store: wire the output node, then
    `self.parent_op._set_out_types(self._output_op().types)`. -/
def setOutputsStore (s : St) (ctx : Option Nat) (parent output : Nat) (ws : List Wire) : Except BuildErr St :=
  match wireUp s ctx output ws with
  | .error e => .error e
  | .ok (s1, _) =>
    match nodeOp s1 parent with
    | .error e => .error e
    | .ok pop =>
      match typedOp s1 output isOutputOp with
      | .error e => .error e
      | .ok oop =>
        match (match oop with | .output ts => Op.need ts | _ => .error .noMethod) with
        | .error e => .error (ofOpErr e)
        | .ok ts =>
          match Op.setOutTypes rowEq pop ts with
          | .error e => .error (ofOpErr e)
          | .ok pop' => setOp s1 parent pop'

/-- `DfBase.set_outputs` for builder object `bi`. -/
def setOutputsBase (st : BuildState) (bi : Nat) (ws : List Wire) : Except BuildErr BuildState :=
  match st.getB bi with
  | .error e => .error e
  | .ok r =>
    match st.getHugr r.hid with
    | .error e => .error e
    | .ok s =>
      match setOutputsStore s r.ctx r.parent.1 r.output.1 ws with
      | .error e => .error e
      | .ok s1 => .ok (st.setHugr r.hid s1)

/-- `Dfg.set_outputs` -/
def setOutputsDfg (st : BuildState) (bi : Nat) (ws : List Wire) : Except BuildErr BuildState :=
  match setOutputsBase st bi ws with
  | .error e => .error e
  | .ok st1 => setParentOutputCount st1 bi ws.length

/-- the declared outputs of a function builder's `FuncDefn` (`self.parent_op._outputs`) -/
def declaredOutputs (s : St) (parent : Nat) : Except BuildErr (Option (List Ty)) :=
  match nodeOp s parent with
  | .error e => .error e
  | .ok (.funcDefn _ _ _ o) => .ok o
  | .ok _ => .error .other

/-- `Function.set_outputs`: the declared-output check, then `DfBase.set_outputs`. -/
def setOutputsFunction (st : BuildState) (bi : Nat) (ws : List Wire) : Except BuildErr BuildState :=
  match st.getB bi with
  | .error e => .error e
  | .ok r =>
    match st.getHugr r.hid with
    | .error e => .error e
    | .ok s =>
      match declaredOutputs s r.parent.1 with
      | .error e => .error e
      | .ok none => setOutputsBase st bi ws
      | .ok (some declared) =>
        match wireTypes s ws with
        | .error e => .error e
        | .ok argTypes =>
          if rowEq argTypes declared then setOutputsBase st bi ws else .error .valueError

/-- `Function.declare_outputs(output_types)` -/
def declareOutputs (st : BuildState) (bi : Nat) (outs : List Ty) : Except BuildErr BuildState :=
  match setParentOutputCount st bi outs.length with
  | .error e => .error e
  | .ok st1 =>
    match st1.getB bi with
    | .error e => .error e
    | .ok r =>
      match st1.getHugr r.hid with
      | .error e => .error e
      | .ok s =>
        match nodeOp s r.parent.1 with
        | .error e => .error e
        | .ok pop =>
          match Op.setOutTypes rowEq pop outs with
          | .error e => .error (ofOpErr e)
          | .ok pop' =>
            match setOp s r.parent.1 pop' with
            | .error e => .error e
            | .ok s1 => .ok (st1.setHugr r.hid s1)

/-- `self.hugr.port_type(w.out_port())` followed by `assert isinstance(t, tys.Sum)`. -/
def sumOfWire (s : St) (w : Wire) : Except BuildErr SumTy :=
  match nodeOp s w.1 with
  | .error e => .error e
  | .ok op =>
    match Op.hugrPortType op .out w.2 with
    | .error e => .error (ofOpErr e)
    | .ok none => .error .assertionError
    | .ok (some t) =>
      match SumTy.ofTy? t with
      | none => .error .assertionError
      | some sm => .ok sm

/-- `Block.set_outputs` -/
def setOutputsBlock (st : BuildState) (bi : Nat) (ws : List Wire) : Except BuildErr BuildState :=
  match setOutputsBase st bi ws with
  | .error e => .error e
  | .ok st1 =>
    match ws with
    | [] => .error .assertionError
    | w :: _ =>
      match st1.getB bi with
      | .error e => .error e
      | .ok r =>
        match st1.getHugr r.hid with
        | .error e => .error e
        | .ok s =>
          match sumOfWire s w with
          | .error e => .error e
          | .ok sm => setParentOutputCount st1 bi sm.rows.length

/-- `TailLoop.set_outputs` -/
def setOutputsTailLoop (st : BuildState) (bi : Nat) (ws : List Wire) : Except BuildErr BuildState :=
  match setOutputsBase st bi ws with
  | .error e => .error e
  | .ok st1 =>
    match ws with
    | [] => .error .assertionError
    | w :: _ =>
      match st1.getB bi with
      | .error e => .error e
      | .ok r =>
        match st1.getHugr r.hid with
        | .error e => .error e
        | .ok s =>
          match sumOfWire s w with
          | .error e => .error e
          | .ok sm =>
            match sm.rows with
            | [_, r1] => setParentOutputCount st1 bi (r1.length + ws.length - 1)
            | _ => .error .assertionError

/-- `Conditional._update_outputs(outputs)` for the conditional builder object `ci`. -/
def condUpdateOutputs (st : BuildState) (ci : Nat) (outs : List Ty) : Except BuildErr BuildState :=
  match st.getB ci with
  | .error e => .error e
  | .ok c =>
    match st.getHugr c.hid with
    | .error e => .error e
    | .ok s =>
      match nodeOp s c.parent.1 with
      | .error e => .error e
      | .ok (.conditional sm oi none) =>
        match setOp s c.parent.1 (.conditional sm oi (some outs)) with
        | .error e => .error e
        | .ok s1 =>
          match liftS (Store.updateNodeOuts s1 c.parent.1 outs.length) with
          | .error e => .error e
          | .ok s2 => .ok ((st.setHugr c.hid s2).setB ci { c with parent := (c.parent.1, some outs.length) })
      | .ok (.conditional _ _ (some prev)) =>
        if rowEq outs prev then .ok st else .error .conditionalError
      | .ok _ => .error .other

/-- `Case.set_outputs` -/
def setOutputsCase (st : BuildState) (bi : Nat) (ws : List Wire) : Except BuildErr BuildState :=
  match setOutputsBase st bi ws with
  | .error e => .error e
  | .ok st1 =>
    match st1.getB bi with
    | .error e => .error e
    | .ok r =>
      match r.parentCond with
      | none => .ok st1
      | some ci =>
        match st1.getHugr r.hid with
        | .error e => .error e
        | .ok s =>
          match wireTypes s ws with
          | .error e => .error e
          | .ok outs => condUpdateOutputs st1 ci outs

/-- `set_outputs` as dispatched on the builder class. -/
def setOutputs (st : BuildState) (bi : Nat) (ws : List Wire) : Except BuildErr BuildState :=
  match st.getB bi with
  | .error e => .error e
  | .ok r =>
    match r.kind with
    | .dfg | .tracked => setOutputsDfg st bi ws
    | .function => setOutputsFunction st bi ws
    | .case | .ifB | .elseB => setOutputsCase st bi ws
    | .block => setOutputsBlock st bi ws
    | .tailLoop => setOutputsTailLoop st bi ws
    | _ => .error .unsupported

/-! ### adding operations -/

/-- `DfBase.add_op(op, *args, metadata=md)`; the handle carries `op.num_out` (read after wiring). -/
def addOp (st : BuildState) (bi : Nat) (op : Op) (ws : List Wire) (md : Serial.Meta) :
    Except BuildErr (BuildState × Handle) :=
  match st.getB bi with
  | .error e => .error e
  | .ok r =>
    match st.getHugr r.hid with
    | .error e => .error e
    | .ok s =>
      match liftS (Store.addNode s op (some r.parent.1) none md) with
      | .error e => .error e
      | .ok (s1, n) =>
        match wireUp s1 r.ctx n ws with
        | .error e => .error e
        | .ok (s2, _) =>
          match nodeOp s2 n with
          | .error e => .error e
          | .ok op' =>
            match Op.numOut op' with
            | .error e => .error (ofOpErr e)
            | .ok k => .ok (st.setHugr r.hid s2, (n, some k))

/-- a `ComWire`: a wire, or the index of a tracked wire -/
inductive ComWire where
  | wire (w : Wire)
  | idx (i : Nat)
deriving Repr

/-- `Dfg.add`'s generator: integers raise `ValueError`. -/
def noInts : List ComWire → Except BuildErr (List Wire)
  | [] => .ok []
  | .wire w :: rest =>
    match noInts rest with
    | .error e => .error e
    | .ok ws => .ok (w :: ws)
  | .idx _ :: _ => .error .valueError

/-- `TrackedDfg.tracked_wire(index)` -/
def trackedWire (tracked : List (Option Wire)) (i : Nat) : Except BuildErr Wire :=
  match tracked[i]? with
  | some (some w) => .ok w
  | _ => .error .indexError

/-- `TrackedDfg._to_wires(in_wires)` -/
def toWires (tracked : List (Option Wire)) : List ComWire → Except BuildErr (List Wire)
  | [] => .ok []
  | .wire w :: rest =>
    match toWires tracked rest with
    | .error e => .error e
    | .ok ws => .ok (w :: ws)
  | .idx i :: rest =>
    match trackedWire tracked i with
    | .error e => .error e
    | .ok w =>
      match toWires tracked rest with
      | .error e => .error e
      | .ok ws => .ok (w :: ws)

/-- the rebinding loop of `TrackedDfg.add`: `self.tracked[i] = n.out(port_offset)` for every integer
    argument `i` at position `port_offset`. -/
def rebind (n : Nat) : List (Option Wire) → Nat → List ComWire → List (Option Wire)
  | tr, _, [] => tr
  | tr, pos, .wire _ :: rest => rebind n tr (pos + 1) rest
  | tr, pos, .idx i :: rest => rebind n (tr.set i (some (n, (pos : Int)))) (pos + 1) rest

/-- `TrackedDfg.add(com, metadata=md)` (as repaired, F16: the metadata is passed on to `add_op`). -/
def trackedAdd (st : BuildState) (bi : Nat) (op : Op) (args : List ComWire) (md : Serial.Meta) :
    Except BuildErr (BuildState × Handle) :=
  match st.getB bi with
  | .error e => .error e
  | .ok r =>
    match toWires r.tracked args with
    | .error e => .error e
    | .ok ws =>
      match addOp st bi op ws md with
      | .error e => .error e
      | .ok (st1, h) =>
        match st1.getB bi with
        | .error e => .error e
        | .ok r1 => .ok (st1.setB bi { r1 with tracked := rebind h.1 r1.tracked 0 args }, h)

/-- `self.add(com, metadata=md)` as dispatched on the builder class. -/
def addCom (st : BuildState) (bi : Nat) (op : Op) (args : List ComWire) (md : Serial.Meta) :
    Except BuildErr (BuildState × Handle) :=
  match st.getB bi with
  | .error e => .error e
  | .ok r =>
    if r.kind = .tracked then trackedAdd st bi op args md
    else
      match noInts args with
      | .error e => .error e
      | .ok ws => addOp st bi op ws md

/-- `extend(*coms)`: `[self.add(com) for com in coms]` (no metadata). -/
def extend (bi : Nat) : BuildState → List (Op × List ComWire) → Except BuildErr (BuildState × List Handle)
  | st, [] => .ok (st, [])
  | st, (op, args) :: rest =>
    match addCom st bi op args [] with
    | .error e => .error e
    | .ok (st1, h) =>
      match extend bi st1 rest with
      | .error e => .error e
      | .ok (st2, hs) => .ok (st2, h :: hs)

/-- `DefinitionBuilder.add_const(value, parent)`: `parent or self.hugr.root` -/
def addConst (st : BuildState) (bi : Nat) (v : Value) (parent : Option Nat) : Except BuildErr (BuildState × Handle) :=
  match st.getB bi with
  | .error e => .error e
  | .ok r =>
    match st.getHugr r.hid with
    | .error e => .error e
    | .ok s =>
      match liftS (Store.addNode s (.const v) parent none []) with
      | .error e => .error e
      | .ok (s1, n) => .ok (st.setHugr r.hid s1, (n, none))

/-- plain `hugr.add_node(op, parent or root)` of the definition builders (aliases, declarations) -/
def addPlainNode (st : BuildState) (bi : Nat) (op : Op) (parent : Option Nat) : Except BuildErr (BuildState × Handle) :=
  match st.getB bi with
  | .error e => .error e
  | .ok r =>
    match st.getHugr r.hid with
    | .error e => .error e
    | .ok s =>
      match liftS (Store.addNode s op parent none []) with
      | .error e => .error e
      | .ok (s1, n) => .ok (st.setHugr r.hid s1, (n, none))

/-- the part of `load` after the constant node is known -/
def loadConstNode (st : BuildState) (bi : Nat) (c : Nat) : Except BuildErr (BuildState × Handle) :=
  match st.getB bi with
  | .error e => .error e
  | .ok r =>
    match st.getHugr r.hid with
    | .error e => .error e
    | .ok s =>
      match typedOp s c isConstOp with
      | .error e => .error e
      | .ok cop =>
        match cop with
        | .const v =>
          -- `self.add(load_op())`: no incoming wires, so `Dfg.add` and `TrackedDfg.add` coincide
          match addCom st bi (.loadConst (some v.typeOf)) [] [] with
          | .error e => .error e
          | .ok (st1, h) =>
            match st1.getHugr r.hid with
            | .error e => .error e
            | .ok s1 =>
              match liftS (Store.addLink s1 (c, 0) (h.1, 0)) with
              | .error e => .error e
              | .ok s2 => .ok (st1.setHugr r.hid s2, h)
        | _ => .error .assertionError

/-- `load(value, const_parent)` -/
def loadValue (st : BuildState) (bi : Nat) (v : Value) (constParent : Option Nat) : Except BuildErr (BuildState × Handle) :=
  match st.getB bi with
  | .error e => .error e
  | .ok r =>
    match addConst st bi v (some (constParent.getD r.parent.1)) with
    | .error e => .error e
    | .ok (st1, c) => loadConstNode st1 bi c.1

/-- `call(func, *args, instantiation, type_args)` -/
def call (st : BuildState) (bi : Nat) (func : Nat) (ws : List Wire) (inst : Option Sig)
    (targs : Option (List TypeArg)) : Except BuildErr (BuildState × Handle) :=
  match st.getB bi with
  | .error e => .error e
  | .ok r =>
    match st.getHugr r.hid with
    | .error e => .error e
    | .ok s =>
      match fnSig s func with
      | .error e => .error e
      | .ok sig =>
        match Op.mkCall sig inst targs with
        | .error e => .error (ofOpErr e)
        | .ok cop =>
          match Op.numOut cop, Op.functionPortOffset cop with
          | .ok k, .ok fpo =>
            match liftS (Store.addNode s cop (some r.parent.1) (some k) []) with
            | .error e => .error e
            | .ok (s1, n) =>
              match liftS (Store.addLink s1 (func, 0) (n, (fpo : Int))) with
              | .error e => .error e
              | .ok s2 =>
                match wireUp s2 r.ctx n ws with
                | .error e => .error e
                | .ok (s3, _) => .ok (st.setHugr r.hid s3, (n, some k))
          | .error e, _ => .error (ofOpErr e)
          | _, .error e => .error (ofOpErr e)

/-- `load_function(func, instantiation, type_args)` -/
def loadFunction (st : BuildState) (bi : Nat) (func : Nat) (inst : Option Sig)
    (targs : Option (List TypeArg)) : Except BuildErr (BuildState × Handle) :=
  match st.getB bi with
  | .error e => .error e
  | .ok r =>
    match st.getHugr r.hid with
    | .error e => .error e
    | .ok s =>
      match fnSig s func with
      | .error e => .error e
      | .ok sig =>
        match Op.mkLoadFunc sig inst targs with
        | .error e => .error (ofOpErr e)
        | .ok lop =>
          match liftS (Store.addNode s lop (some r.parent.1) none []) with
          | .error e => .error e
          | .ok (s1, n) =>
            match liftS (Store.addLink s1 (func, 0) (n, 0)) with
            | .error e => .error e
            | .ok s2 => .ok (st.setHugr r.hid s2, (n, none))

/-! ### nesting -/

/-- common tail of `add_nested / add_cfg / add_conditional / add_tail_loop`: `_wire_up(new.parent_node, args)` -/
def wireInto (st : BuildState) (bi : Nat) (node : Nat) (ws : List Wire) : Except BuildErr BuildState :=
  match st.getB bi with
  | .error e => .error e
  | .ok r =>
    match st.getHugr r.hid with
    | .error e => .error e
    | .ok s =>
      match wireUp s r.ctx node ws with
      | .error e => .error e
      | .ok (s1, _) => .ok (st.setHugr r.hid s1)

/-- the types of the argument wires as the host builder sees them (`self._wire_types(args)`) -/
def argTypes (st : BuildState) (bi : Nat) (ws : List Wire) : Except BuildErr (List Ty) :=
  match st.getB bi with
  | .error e => .error e
  | .ok r =>
    match st.getHugr r.hid with
    | .error e => .error e
    | .ok s => wireTypes s ws

/-- `add_nested(*args)` -/
def addNested (st : BuildState) (bi : Nat) (ws : List Wire) : Except BuildErr (BuildState × Nat) :=
  match st.getB bi with
  | .error e => .error e
  | .ok r =>
    match argTypes st bi ws with
    | .error e => .error e
    | .ok tys =>
      match newNestedDf st .dfg r.hid (.dfg tys none []) r.parent.1 with
      | .error e => .error e
      | .ok (st1, nb) =>
        match st1.getB nb with
        | .error e => .error e
        | .ok nr =>
          match wireInto st1 bi nr.parent.1 ws with
          | .error e => .error e
          | .ok st2 => .ok (st2, nb)

/-- `Cfg.new_nested(input_types, hugr, parent)` -/
def cfgNewNested (st : BuildState) (hid : Nat) (inputs : List Ty) (parent : Nat) : Except BuildErr (BuildState × Nat) :=
  match st.getHugr hid with
  | .error e => .error e
  | .ok s =>
    match liftS (Store.addNode s (.cfg inputs none) (some parent) none []) with
    | .error e => .error e
    | .ok (s1, root) => cfgInit (st.setHugr hid s1) hid (root, none) inputs

/-- `add_cfg(*args)` -/
def addCfg (st : BuildState) (bi : Nat) (ws : List Wire) : Except BuildErr (BuildState × Nat) :=
  match st.getB bi with
  | .error e => .error e
  | .ok r =>
    match argTypes st bi ws with
    | .error e => .error e
    | .ok tys =>
      match cfgNewNested st r.hid tys r.parent.1 with
      | .error e => .error e
      | .ok (st1, cb) =>
        match st1.getB cb with
        | .error e => .error e
        | .ok cr =>
          match wireInto st1 bi cr.parent.1 ws with
          | .error e => .error e
          | .ok st2 => .ok (st2, cb)

/-- `Conditional.new_nested(sum_ty, other_inputs, hugr, parent)` -/
def condNewNested (st : BuildState) (hid : Nat) (sm : SumTy) (other : List Ty) (parent : Nat) :
    Except BuildErr (BuildState × Nat) :=
  match st.getHugr hid with
  | .error e => .error e
  | .ok s =>
    match liftS (Store.addNode s (.conditional sm other none) (some parent) none []) with
    | .error e => .error e
    | .ok (s1, root) => condInit (st.setHugr hid s1) hid (root, none) sm.rows.length

/-- `add_conditional(cond_wire, *args)` (`ws` = `(cond_wire, *args)`) -/
def addConditional (st : BuildState) (bi : Nat) (ws : List Wire) : Except BuildErr (BuildState × Nat) :=
  match st.getB bi with
  | .error e => .error e
  | .ok r =>
    match argTypes st bi ws with
    | .error e => .error e
    | .ok tys =>
      match Op.getFirstSum tys with
      | .error e => .error (ofOpErr e)
      | .ok (sm, other) =>
        match condNewNested st r.hid sm other r.parent.1 with
        | .error e => .error e
        | .ok (st1, cb) =>
          match st1.getB cb with
          | .error e => .error e
          | .ok cr =>
            match wireInto st1 bi cr.parent.1 ws with
            | .error e => .error e
            | .ok st2 => .ok (st2, cb)

/-- Python `l[i]` on the case list -/
def pyGet {α : Type} (l : List α) (i : Int) : Option α := Ty.pyIndex l i

/-- Python `l[i] = v` (the index is known to be in range) -/
def pySet {α : Type} (l : List α) (i : Int) (v : α) : List α :=
  if 0 ≤ i then l.set i.toNat v else l.set ((l.length : Int) + i).toNat v

/-- `Conditional.add_case(case_id)`; returns the stored case builder object. -/
def addCase (st : BuildState) (ci : Nat) (caseId : Int) : Except BuildErr (BuildState × Nat) :=
  match st.getB ci with
  | .error e => .error e
  | .ok c =>
    if caseId ≥ (c.cases.length : Int) then .error .conditionalError
    else
      match pyGet c.cases caseId with
      | none => .error .indexError      -- `case_id < -len`: Python list indexing raises
      | some (cb, built) =>
        if built then .error .conditionalError
        else .ok (st.setB ci { c with cases := pySet c.cases caseId (cb, true) }, cb)

/-- `Conditional.__exit__` -/
def condExit (st : BuildState) (ci : Nat) : Except BuildErr Unit :=
  match st.getB ci with
  | .error e => .error e
  | .ok c => if c.cases.all (·.2) then .ok () else .error .conditionalError

/-- `If(case)` / `Else(case)`: a new builder object with the case's fields -/
def ifElseOf (st : BuildState) (kind : BKind) (cb : Nat) : Except BuildErr (BuildState × Nat) :=
  match st.getB cb with
  | .error e => .error e
  | .ok c =>
    .ok (st.newB { kind, hid := c.hid, parent := c.parent, input := c.input, output := c.output,
                    parentCond := c.parentCond })

/-- `add_if(cond_wire, *args)` -/
def addIf (st : BuildState) (bi : Nat) (ws : List Wire) : Except BuildErr (BuildState × Nat) :=
  match addConditional st bi ws with
  | .error e => .error e
  | .ok (st1, ci) =>
    match addCase st1 ci 1 with
    | .error e => .error e
    | .ok (st2, cb) => ifElseOf st2 .ifB cb

/-- `_IfElse._parent_conditional()` -/
def parentConditional (st : BuildState) (bi : Nat) : Except BuildErr Nat :=
  match st.getB bi with
  | .error e => .error e
  | .ok r =>
    match r.parentCond with
    | none => .error .conditionalError
    | some ci => .ok ci

/-- `If.add_else()` -/
def addElse (st : BuildState) (bi : Nat) : Except BuildErr (BuildState × Nat) :=
  match parentConditional st bi with
  | .error e => .error e
  | .ok ci =>
    match addCase st ci 0 with
    | .error e => .error e
    | .ok (st1, cb) => ifElseOf st1 .elseB cb

/-- `add_tail_loop(just_inputs, rest)` -/
def addTailLoop (st : BuildState) (bi : Nat) (ji rest : List Wire) : Except BuildErr (BuildState × Nat) :=
  match st.getB bi with
  | .error e => .error e
  | .ok r =>
    match argTypes st bi ji with
    | .error e => .error e
    | .ok jt =>
      match argTypes st bi rest with
      | .error e => .error e
      | .ok rt =>
        match newNestedDf st .tailLoop r.hid (.tailLoop jt rt none []) r.parent.1 with
        | .error e => .error e
        | .ok (st1, nb) =>
          match st1.getB nb with
          | .error e => .error e
          | .ok nr =>
            match wireInto st1 bi nr.parent.1 (ji ++ rest) with
            | .error e => .error e
            | .ok st2 => .ok (st2, nb)

/-- `_insert_nested_impl(builder, *args)`: `insert_hugr(builder.hugr, self.parent_node)`, wire the image
    of `builder.parent_node`. -/
def insertNested (st : BuildState) (bi oi : Nat) (ws : List Wire) : Except BuildErr (BuildState × Handle) :=
  match st.getB bi, st.getB oi with
  | .ok r, .ok o =>
    if r.hid = o.hid then .error .unsupported      -- a HUGR inserted into itself
    else
      match st.getHugr r.hid, st.getHugr o.hid with
      | .ok s, .ok sb =>
        match liftS (Store.insertHugr s sb (some r.parent.1)) with
        | .error e => .error e
        | .ok (s1, mp) =>
          match Py.Dict.get o.parent.1 mp with
          | none => .error .keyError
          | some n =>
            match wireUp s1 r.ctx n ws with
            | .error e => .error e
            | .ok (s2, _) =>
              match Store.getNode sb o.parent.1 with
              | .error e => .error (ofStoreErr e)
              | .ok d =>
                .ok ({ st.setHugr r.hid s2 with spent := o.hid :: st.spent }, (n, some d.numOuts))
      | .error e, _ => .error e
      | _, .error e => .error e
  | .error e, _ => .error e
  | _, .error e => .error e

/-- `define_function(name, input_types, output_types, type_params, parent)` -/
def defineFunction (st : BuildState) (bi : Nat) (name : String) (ins : List Ty) (outs : Option (List Ty))
    (params : Option (List TypeParam)) (parent : Option Nat) : Except BuildErr (BuildState × Nat) :=
  match st.getB bi with
  | .error e => .error e
  | .ok r =>
    match st.getHugr r.hid with
    | .error e => .error e
    | .ok s =>
      match newNestedDf st .function r.hid (.funcDefn name ins (params.getD []) none) (parent.getD s.root) with
      | .error e => .error e
      | .ok (st1, fb) =>
        match outs with
        | none => .ok (st1, fb)
        | some o =>
          match declareOutputs st1 fb o with
          | .error e => .error e
          | .ok st2 => .ok (st2, fb)

/-! ### control-flow graphs -/

/-- `Cfg.add_block(*input_types)` -/
def addBlock (st : BuildState) (ci : Nat) (inputs : List Ty) : Except BuildErr (BuildState × Nat) :=
  match st.getB ci with
  | .error e => .error e
  | .ok c => newNestedDf st .block c.hid (.dataflowBlock inputs none none []) c.parent.1

/-- `Cfg._nth_outputs(wire)` -/
def nthOutputsOf (s : St) (w : Wire) : Except BuildErr (List Ty) :=
  match typedOp s w.1 isBlockOp with
  | .error e => .error e
  | .ok bop =>
    match Op.nthOutputs bop w.2 with
    | .error e => .error (ofOpErr e)
    | .ok ts => .ok ts

/-- `Cfg.branch_exit(src)` -/
def branchExit (st : BuildState) (ci : Nat) (w : Wire) : Except BuildErr BuildState :=
  match st.getB ci with
  | .error e => .error e
  | .ok c =>
    match st.getHugr c.hid with
    | .error e => .error e
    | .ok s =>
      match liftS (Store.addLink s w (c.exit.1, 0)) with
      | .error e => .error e
      | .ok s1 =>
        match nthOutputsOf s1 w with
        | .error e => .error e
        | .ok outTypes =>
          match typedOp s1 c.exit.1 isExitOp with
          | .error e => .error e
          | .ok (.exitBlock (some prev)) =>
            if rowEq prev outTypes then .ok (st.setHugr c.hid s1) else .error .mismatchedExit
          | .ok (.exitBlock none) =>
            match setOp s1 c.exit.1 (.exitBlock (some outTypes)) with
            | .error e => .error e
            | .ok s2 =>
              match nodeOp s2 c.parent.1 with
              | .error e => .error e
              | .ok (.cfg i _) =>
                match setOp s2 c.parent.1 (.cfg i (some outTypes)) with
                | .error e => .error e
                | .ok s3 =>
                  match liftS (Store.updateNodeOuts s3 c.parent.1 outTypes.length) with
                  | .error e => .error e
                  | .ok s4 =>
                    .ok ((st.setHugr c.hid s4).setB ci { c with parent := (c.parent.1, some outTypes.length) })
              | .ok _ => .error .other
          | .ok _ => .error .assertionError

/-- `Cfg.branch(src, dst)` -/
def branch (st : BuildState) (ci : Nat) (w : Wire) (dst : Nat) : Except BuildErr BuildState :=
  match st.getB ci with
  | .error e => .error e
  | .ok c =>
    if dst = c.exit.1 then branchExit st ci w
    else
      match st.getHugr c.hid with
      | .error e => .error e
      | .ok s =>
        match liftS (Store.addLink s w (dst, 0)) with
        | .error e => .error e
        | .ok s1 => .ok (st.setHugr c.hid s1)

/-- `Cfg.add_successor(pred)` -/
def addSuccessor (st : BuildState) (ci : Nat) (w : Wire) : Except BuildErr (BuildState × Nat) :=
  match st.getB ci with
  | .error e => .error e
  | .ok c =>
    match st.getHugr c.hid with
    | .error e => .error e
    | .ok s =>
      match nthOutputsOf s w with
      | .error e => .error e
      | .ok ins =>
        match addBlock st ci ins with
        | .error e => .error e
        | .ok (st1, nb) =>
          match st1.getB nb with
          | .error e => .error e
          | .ok nr =>
            match branch st1 ci w nr.parent.1 with
            | .error e => .error e
            | .ok st2 => .ok (st2, nb)

/-- `Block.set_single_succ_outputs(*outputs)`: `u = self.load(val.Unit); self.set_outputs(u, *outputs)` -/
def setSingleSuccOutputs (st : BuildState) (bi : Nat) (ws : List Wire) : Except BuildErr BuildState :=
  match loadValue st bi Value.unit none with
  | .error e => .error e
  | .ok (st1, u) => setOutputsBlock st1 bi ((u.1, 0) :: ws)

/-! ### tracked wires -/

/-- `track_wire(wire)` -/
def trackWire (st : BuildState) (bi : Nat) (w : Wire) : Except BuildErr (BuildState × Nat) :=
  match st.getB bi with
  | .error e => .error e
  | .ok r => .ok (st.setB bi { r with tracked := r.tracked ++ [some w] }, r.tracked.length)

/-- `track_wires(wires)` -/
def trackWires (bi : Nat) : BuildState → List Wire → Except BuildErr (BuildState × List Nat)
  | st, [] => .ok (st, [])
  | st, w :: ws =>
    match trackWire st bi w with
    | .error e => .error e
    | .ok (st1, i) =>
      match trackWires bi st1 ws with
      | .error e => .error e
      | .ok (st2, is) => .ok (st2, i :: is)

/-- `DfBase.inputs()` -/
def inputsOf (st : BuildState) (bi : Nat) : Except BuildErr (List Wire) :=
  match st.getB bi with
  | .error e => .error e
  | .ok r =>
    match st.getHugr r.hid with
    | .error e => .error e
    | .ok s =>
      match typedOp s r.input.1 isInputOp with
      | .error e => .error e
      | .ok (.input ts) => .ok ((List.range ts.length).map fun (k : Nat) => (r.input.1, (k : Int)))
      | .ok _ => .error .assertionError

/-- `untrack_wire(index)` -/
def untrackWire (st : BuildState) (bi : Nat) (i : Nat) : Except BuildErr (BuildState × Wire) :=
  match st.getB bi with
  | .error e => .error e
  | .ok r =>
    match trackedWire r.tracked i with
    | .error e => .error e
    | .ok w => .ok (st.setB bi { r with tracked := r.tracked.set i none }, w)

/-- `set_indexed_outputs(*in_wires)` -/
def setIndexedOutputs (st : BuildState) (bi : Nat) (args : List ComWire) : Except BuildErr BuildState :=
  match st.getB bi with
  | .error e => .error e
  | .ok r =>
    match toWires r.tracked args with
    | .error e => .error e
    | .ok ws => setOutputsDfg st bi ws

/-- `set_tracked_outputs()`: the tracked wires that are not `None`, in index order -/
def setTrackedOutputs (st : BuildState) (bi : Nat) : Except BuildErr BuildState :=
  match st.getB bi with
  | .error e => .error e
  | .ok r => setOutputsDfg st bi (r.tracked.filterMap id)

/-! ### serialisation -/

def ofSerialErr : Serial.Err → BuildErr
  | .store e => ofStoreErr e
  | .op c =>
    if c = "IncompleteOp" then .incompleteOp
    else if c = "InvalidPort" then .invalidPort
    else if c = "ValueError" then .valueError
    else if c = "IndexError" then .indexError
    else if c = "NoConcreteFunc" then .noConcreteFunc
    else if c = "AssertionError" then .assertionError
    else if c = "ValidationError" then .validationError
    else .other
  | .validation => .validationError
  | .assertion => .assertionError

/-- `self.hugr.to_json()` -/
def toJson (st : BuildState) (bi : Nat) (enc : String) : Except BuildErr Json :=
  match st.getB bi with
  | .error e => .error e
  | .ok r =>
    match st.getHugr r.hid with
    | .error e => .error e
    | .ok s =>
      match Serial.toJson (Serial.opsCodec 0) enc s with
      | .error e => .error (ofSerialErr e)
      | .ok j => .ok j

end HugrVerif.Build
