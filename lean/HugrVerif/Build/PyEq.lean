/-
  Python `==` on types and type rows (`hugr/tys.py`), as the builders use it when they compare
  rows (`Function.set_outputs`, `Conditional._update_outputs`, `Cfg.branch_exit`,
  `TailLoop._set_out_types`).  Import-free apart from `Tys`/`TysEq`.

  * `Sum.__eq__` : `isinstance(other, Sum) and self.variant_rows == other.variant_rows` — inherited
    by `UnitSum` (`eq=False`), whose rows are `[[]] * size`: `UnitSum(n) == Sum([[]]*n)`.
  * `ExtType.__eq__` : `type_def == other.type_def and args == other.args`; `TypeDef` is a dataclass
    whose `_extension` field has `compare=False`: the extension name does not take part.
  * every other class is a dataclass with the generated `__eq__` (same class, equal fields).
-/
import HugrVerif.Tys
import HugrVerif.TysEq

namespace HugrVerif

/-- `rows == [[]] * n` -/
def emptyRows (n : Nat) (rows : List (List Ty)) : Bool := rows.length == n && rows.all List.isEmpty

mutual
  def Ty.pyEq : Ty → Ty → Bool
    | .sum r, .sum s => Ty.pyEqRows r s
    | .sum r, .unitSum n => emptyRows n r
    | .unitSum n, .sum s => emptyRows n s
    | .unitSum a, .unitSum b => a == b
    | .variable i b, .variable j c => i == j && b == c
    | .rowVariable i b, .rowVariable j c => i == j && b == c
    | .usize, .usize => true
    | .alias n b, .alias m c => n == m && b == c
    | .function i o r, .function i' o' r' => Ty.pyEqRow i i' && Ty.pyEqRow o o' && r == r'
    | .poly ps i o r, .poly ps' i' o' r' =>
      TypeParam.beqList ps ps' && Ty.pyEqRow i i' && Ty.pyEqRow o o' && r == r'
    | .extType d a, .extType d' a' =>
      d.name == d'.name && d.description == d'.description && TypeParam.beqList d.params d'.params &&
        d.bound == d'.bound && TypeArg.pyEqList a a'
    | .opaque id b a e, .opaque id' b' a' e' => id == id' && b == b' && TypeArg.pyEqList a a' && e == e'
    | .qubit, .qubit => true
    | _, _ => false
  def Ty.pyEqRow : List Ty → List Ty → Bool
    | [], [] => true
    | x :: xs, y :: ys => Ty.pyEq x y && Ty.pyEqRow xs ys
    | _, _ => false
  def Ty.pyEqRows : List (List Ty) → List (List Ty) → Bool
    | [], [] => true
    | x :: xs, y :: ys => Ty.pyEqRow x y && Ty.pyEqRows xs ys
    | _, _ => false
  def TypeArg.pyEq : TypeArg → TypeArg → Bool
    | .type t, .type u => Ty.pyEq t u
    | .boundedNat n, .boundedNat m => n == m
    | .string s, .string t => s == t
    | .sequence es, .sequence fs => TypeArg.pyEqList es fs
    | .extensions es, .extensions fs => es == fs
    | .variable i p, .variable j q => i == j && TypeParam.beq p q
    | _, _ => false
  def TypeArg.pyEqList : List TypeArg → List TypeArg → Bool
    | [], [] => true
    | x :: xs, y :: ys => TypeArg.pyEq x y && TypeArg.pyEqList xs ys
    | _, _ => false
end

end HugrVerif
