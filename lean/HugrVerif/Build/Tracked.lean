/-
  L5 (part 4): the tracked dataflow builder as a small command language of its own, for property C15.

  * `TCmd`      the commands of a `TrackedDfg` (argument wires already evaluated), `stepT` / `runT` run them
                on the builder object `bi` of a `BuildState` with the methods of `Build/State.lean`
                (`trackWire`, `trackWires`, `untrackWire`, `trackedAdd`, `extend`, `setIndexedOutputs`,
                `setTrackedOutputs`, mirroring `hugr/build/tracked_dfg.py`);
  * `ECmd`      the two commands of a plain dataflow builder the statement compares with: `add_op` with
                explicit wires and `set_outputs`;
  * `elaborate` replaces every integer by the wire it denotes at that point of the run and drops the
                commands that only edit the index table (`flatten` first unfolds `extend` into `add`s);
  * `plain`     the same state with the builder turned into a plain `Dfg` (no index table);
  * `Ev`, `denote`, `stepLog`, `runLog`   the history semantics of the index table.
-/
import HugrVerif.Build

namespace HugrVerif.Build.Tracked
open HugrVerif HugrVerif.Build HugrVerif.Build.BuildState

inductive TCmd where
  | trackWire (w : Wire)
  | trackWires (ws : List Wire)
  | trackInputs
  | untrack (i : Nat)
  | add (op : Op) (args : List ComWire) (md : Serial.Meta)
  | extend (coms : List (Op × List ComWire))
  | setIndexedOutputs (args : List ComWire)
  | setTrackedOutputs

def dropRes {α : Type} : Except BuildErr (BuildState × α) → Except BuildErr BuildState
  | .ok (st, _) => .ok st
  | .error e => .error e

/-- one command of the tracked builder object `bi` -/
def stepT (bi : Nat) (st : BuildState) : TCmd → Except BuildErr BuildState
  | .trackWire w => dropRes (trackWire st bi w)
  | .trackWires ws => dropRes (trackWires bi st ws)
  | .trackInputs =>
    match inputsOf st bi with
    | .error e => .error e
    | .ok ws => dropRes (trackWires bi st ws)
  | .untrack i => dropRes (untrackWire st bi i)
  | .add op args md => dropRes (trackedAdd st bi op args md)
  | .extend coms => dropRes (Build.extend bi st coms)
  | .setIndexedOutputs args => setIndexedOutputs st bi args
  | .setTrackedOutputs => setTrackedOutputs st bi

def runT (bi : Nat) : BuildState → List TCmd → Except BuildErr BuildState
  | st, [] => .ok st
  | st, c :: cs =>
    match stepT bi st c with
    | .error e => .error e
    | .ok st1 => runT bi st1 cs

/-- the commands of a plain dataflow builder -/
inductive ECmd where
  | addOp (op : Op) (ws : List Wire) (md : Serial.Meta)
  | setOutputs (ws : List Wire)

def stepE (bi : Nat) (st : BuildState) : ECmd → Except BuildErr BuildState
  | .addOp op ws md => dropRes (addOp st bi op ws md)
  | .setOutputs ws => setOutputsDfg st bi ws

def runE (bi : Nat) : BuildState → List ECmd → Except BuildErr BuildState
  | st, [] => .ok st
  | st, c :: cs =>
    match stepE bi st c with
    | .error e => .error e
    | .ok st1 => runE bi st1 cs

/-- the index table of builder object `bi` -/
def trackedOf (st : BuildState) (bi : Nat) : List (Option Wire) :=
  match st.builders[bi]? with
  | some r => r.tracked
  | none => []

/-- `extend(*coms)` is `add(com)` for each command, without metadata -/
def flatten : List TCmd → List TCmd
  | [] => []
  | .extend coms :: cs => coms.map (fun c => TCmd.add c.1 c.2 []) ++ flatten cs
  | c :: cs => c :: flatten cs

/-- the explicit command(s) a tracked command stands for, given the index table before it -/
def elabCmd (tr : List (Option Wire)) : TCmd → Except BuildErr (List ECmd)
  | .trackWire _ | .trackWires _ | .trackInputs | .untrack _ => .ok []
  | .add op args md =>
    match toWires tr args with
    | .error e => .error e
    | .ok ws => .ok [.addOp op ws md]
  | .extend _ => .error .unsupported        -- `elaborate` works on `flatten`ed programs
  | .setIndexedOutputs args =>
    match toWires tr args with
    | .error e => .error e
    | .ok ws => .ok [.setOutputs ws]
  | .setTrackedOutputs => .ok [.setOutputs (tr.filterMap id)]

/-- **Elaboration**: every integer argument is replaced by the wire it denotes when the command is
    reached; commands that only edit the index table disappear. -/
def elaborate (bi : Nat) : BuildState → List TCmd → Except BuildErr (List ECmd)
  | _, [] => .ok []
  | st, c :: cs =>
    match elabCmd (trackedOf st bi) c with
    | .error e => .error e
    | .ok es =>
      match stepT bi st c with
      | .error e => .error e
      | .ok st1 =>
        match elaborate bi st1 cs with
        | .error e => .error e
        | .ok rest => .ok (es ++ rest)

/-- the builder record as a plain `Dfg` -/
def plainRec (r : BRec) : BRec := { r with kind := .dfg, tracked := [] }

/-- the state with builder object `bi` turned into a plain `Dfg` -/
def plain (bi : Nat) (st : BuildState) : BuildState :=
  match st.builders[bi]? with
  | some r => { st with builders := st.builders.set bi (plainRec r) }
  | none => st

def IsTracked (st : BuildState) (bi : Nat) : Prop := ∃ r, st.getB bi = .ok r ∧ r.kind = .tracked

/-- position (from `pos`) of the LAST occurrence of index `i` among the arguments -/
def lastPos (i : Nat) : List ComWire → Nat → Option Nat
  | [], _ => none
  | .wire _ :: rest, pos => lastPos i rest (pos + 1)
  | .idx j :: rest, pos =>
    match lastPos i rest (pos + 1) with
    | some p => some p
    | none => if j = i then some pos else none

/-- what a successful command does to the index table -/
inductive Ev where
  | track (w : Wire)                          -- appended: the new index is the old length
  | untrack (i : Nat)                         -- the index is freed
  | add (n : Nat) (args : List ComWire)       -- `add` returned node `n`

def applyEv (tr : List (Option Wire)) : Ev → List (Option Wire)
  | .track w => tr ++ [some w]
  | .untrack i => tr.set i none
  | .add n args => rebind n tr 0 args

/-- the index table a history of events denotes -/
def denote (tr : List (Option Wire)) (evs : List Ev) : List (Option Wire) := evs.foldl applyEv tr

/-- the events of one successful flat command, given the node it returned -/
def stepLog (bi : Nat) (st : BuildState) : TCmd → Except BuildErr (BuildState × List Ev)
  | .trackWire w =>
    match trackWire st bi w with
    | .ok (st1, _) => .ok (st1, [.track w])
    | .error e => .error e
  | .trackWires ws =>
    match trackWires bi st ws with
    | .ok (st1, _) => .ok (st1, ws.map .track)
    | .error e => .error e
  | .trackInputs =>
    match inputsOf st bi with
    | .error e => .error e
    | .ok ws =>
      match trackWires bi st ws with
      | .ok (st1, _) => .ok (st1, ws.map .track)
      | .error e => .error e
  | .untrack i =>
    match untrackWire st bi i with
    | .ok (st1, _) => .ok (st1, [.untrack i])
    | .error e => .error e
  | .add op args md =>
    match trackedAdd st bi op args md with
    | .ok (st1, h) => .ok (st1, [.add h.1 args])
    | .error e => .error e
  | .extend _ => .error .unsupported
  | .setIndexedOutputs args =>
    match setIndexedOutputs st bi args with
    | .ok st1 => .ok (st1, [])
    | .error e => .error e
  | .setTrackedOutputs =>
    match setTrackedOutputs st bi with
    | .ok st1 => .ok (st1, [])
    | .error e => .error e

def runLog (bi : Nat) : BuildState → List TCmd → Except BuildErr (BuildState × List Ev)
  | st, [] => .ok (st, [])
  | st, c :: cs =>
    match stepLog bi st c with
    | .error e => .error e
    | .ok (st1, evs) =>
      match runLog bi st1 cs with
      | .error e => .error e
      | .ok (st2, evs2) => .ok (st2, evs ++ evs2)

def IsFlat : List TCmd → Prop
  | [] => True
  | .extend _ :: _ => False
  | _ :: cs => IsFlat cs

/-- `TrackedDfg(Qubit, Qubit, track_inputs=True)`; `add(CX(0, 1), metadata={"k": 1})`; `untrack_wire(1)`;
    `add(H(0))`; `set_tracked_outputs()` runs, and index 1 stays freed. -/
def demoGate (n : Nat) : Op :=
  .custom "g" ⟨List.replicate n .qubit, List.replicate n .qubit, []⟩ "" "verif" []

def demoInit : Except BuildErr (BuildState × Nat) :=
  match newStandaloneDf {} .tracked (.dfg [.qubit, .qubit] none []) with
  | .error e => .error e
  | .ok (st, bi) =>
    match inputsOf st bi, st.getB bi with
    | .ok ws, .ok r => .ok (st.setB bi { r with tracked := ws.map some }, bi)
    | .error e, _ => .error e
    | _, .error e => .error e

def demoProg : List TCmd :=
  [.add (demoGate 2) [.idx 0, .idx 1] [("k", .int 1)], .untrack 1, .add (demoGate 1) [.idx 0] [], .setTrackedOutputs]

end HugrVerif.Build.Tracked
