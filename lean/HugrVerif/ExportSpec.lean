/-
  C12 — the SPECIFICATION of a faithful, well scoped model export, as executable predicates relating a
  HUGR (the store) and a hugr-model module.  Written from the property text and the Rust reference, not
  from `export.py`:

    * `hugr-core/src/export.rs:158-171`  `make_ports(node, direction, num_ports)`: the first `num_ports` ports;
      `:458-479`  `num_ports` = the number of VALUE ports of the dataflow signature (blocks: 1 input, one output
      per sum row; nodes without dataflow signature: none);
      `:575-660`  `export_dfg`: Input/Output become sources/targets, order edges between exported children
      become `core.order_hint.order` region metadata; `:664-730` `export_cfg`: source = the entry block's
      control INPUT, targets = the exit block's one input, blocks keep their order;
      `:733-747` conditional: one region per `Case`, in order;  `:1033-1067` node metadata + `core.order_hint.key`;
      `:240-250` `Const`, `Input`, `Output`, `ExitBlock`, `Case` are not exported as nodes.
    * `hugr-core/src/import.rs:262-301`  `link_ports`: a link is realisable iff it has one producer-side or one
      consumer-side port ("would require hyperedge" otherwise); region sources count as producers, targets as
      consumers (`import.rs` `record_links` of the Input node's outgoing / Output node's incoming ports).
    * DESIGN.md §4.1 port layout (value ports · static port · order port).

  A model module does not say which HUGR node a model node came from; the predicates walk the hierarchy
  of the store and the module in parallel (`mirror…`, structural recursion on the module) — the walk itself
  is `RegionsMirror` — and collect the *listing*: which port of the HUGR each listed link name stands for.
-/
import HugrVerif.Export

namespace HugrVerif.ExportSpec
open HugrVerif HugrVerif.Model HugrVerif.Export

/-- Port layout of an operation (§4.1): value inputs, value outputs (control-flow ports for blocks),
    static inputs.  `none`: the operation is incomplete (not a valid HUGR). -/
def layout : Op → Option (Nat × Nat × Nat)
  | .input ts => some (0, ts.length, 0)
  | .output (some ts) => some (ts.length, 0, 0)
  | .custom _ sig _ _ _ => some (sig.inp.length, sig.out.length, 0)
  | .extOp _ (some sig) _ => some (sig.inp.length, sig.out.length, 0)
  | .extOp d none _ => d.polyFunc.map fun p => (p.body.inp.length, p.body.out.length, 0)
  | .makeTuple (some ts) => some (ts.length, 1, 0)
  | .unpackTuple (some ts) => some (1, ts.length, 0)
  | .noop (some _) => some (1, 1, 0)
  | .tag t s => (Ty.pyIndex s.rows t).map fun row => (row.length, 1, 0)
  | .dfg i (some o) _ => some (i.length, o.length, 0)
  | .cfg i (some o) => some (i.length, o.length, 0)
  | .dataflowBlock _ (some s) _ _ => some (1, s.rows.length, 0)
  | .exitBlock _ => some (1, 0, 0)
  | .const _ => some (0, 0, 0)
  | .loadConst (some _) => some (0, 1, 1)
  | .conditional _ oi (some o) => some (1 + oi.length, o.length, 0)
  | .case .. => some (0, 0, 0)
  | .tailLoop ji rest (some jo) _ => some (ji.length + rest.length, jo.length + rest.length, 0)
  | .funcDefn .. => some (0, 0, 0)
  | .funcDecl .. => some (0, 0, 0)
  | .module => some (0, 0, 0)
  | .call _ inst _ => some (inst.inp.length, inst.out.length, 1)
  | .callIndirect (some s) => some (1 + s.inp.length, s.out.length, 0)
  | .loadFunc .. => some (0, 1, 1)
  | .aliasDecl .. => some (0, 0, 0)
  | .aliasDefn .. => some (0, 0, 0)
  | _ => none

/-- Is the model operation the one the HUGR operation must be exported as? -/
def expectOp : Op → Operation → Bool
  | .dfg .., .dfg => true
  | .cfg .., .cfg => true
  | .dataflowBlock .., .block => true
  | .funcDefn .., .defineFunc _ => true
  | .funcDecl .., .declareFunc _ => true
  | .aliasDecl .., .declareAlias _ => true
  | .aliasDefn .., .defineAlias _ _ => true
  | .tailLoop .., .tailLoop => true
  | .conditional .., .conditional => true
  | .dfg .., _ | .cfg .., _ | .dataflowBlock .., _ | .funcDefn .., _ | .funcDecl .., _ | .aliasDecl .., _
  | .aliasDefn .., _ | .tailLoop .., _ | .conditional .., _ => false
  | _, .custom _ => true
  | _, _ => false

/-- a listed link name: the HUGR port it stands for, the name, producer side? -/
structure Entry where
  port : DPort
  name : String
  producer : Bool

structure Acc where
  mirror : Bool := true          -- RegionsMirror
  ports : Bool := true           -- PortsPerSignature
  metaOk : Bool := true          -- MetaCarried
  listing : List Entry := []
  exported : List (Nat × Node) := []
  regions : List (Nat × Region) := []     -- dataflow regions with the HUGR node whose children they hold

def Acc.failMirror (a : Acc) : Acc := { a with mirror := false }

def entries (mk : Nat → DPort) (producer : Bool) (names : List String) (k : Nat) : List Entry :=
  ((List.range k).zip names).map fun (i, nm) => ⟨mk i, nm, producer⟩

/-- a text denotes a JSON value: either rendering the exporters use -/
def denotes (t : String) (v : Json) : Bool := t == jsonText true v || t == jsonText false v

/-- the `compat.meta_json` entries of a meta list -/
def metaJsonEntries : List Term → List (String × String)
  | [] => []
  | .apply "compat.meta_json" [.literal (.str k), .literal (.str t)] :: rest => (k, t) :: metaJsonEntries rest
  | _ :: rest => metaJsonEntries rest

/-- every metadata item appears, and nothing else does (as a multiset: by removing matches) -/
def metaMatches : List (String × Json) → List (String × String) → Bool
  | [], have_ => have_.isEmpty
  | (k, v) :: rest, have_ =>
    match have_.findIdx? (fun (e : String × String) => e.1 == k && denotes e.2 v) with
    | some i => metaMatches rest (have_.eraseIdx i)
    | none => false

mutual
  /-- does the term denote the constant (constants are inlined into their loads) -/
  def valueMatches : Value → Term → Bool
    | .sum tag _ vals, .apply "core.const.adt" [_, _, .literal (.int t), .tuple vs] =>
      t == (tag : Int) && valuesMatch vals vs
    | .tuple vals, .apply "core.const.adt" [_, _, .literal (.int t), .tuple vs] => t == 0 && valuesMatch vals vs
    | .ext name _ payload _, .apply "compat.const_json" [_, .literal (.str t)] =>
      denotes t (.obj [("c", .str name), ("v", payload)])
    | .function .., .func _ => true
    | _, _ => false
  def valuesMatch : List Value → List Term → Bool
    | [], [] => true
    | v :: vs, t :: ts => valueMatches v t && valuesMatch vs ts
    | _, _ => false
end

/-- the node behind the static input of a call or load -/
def staticSrc (s : St) (n : Nat) (op : Op) : Option Nat :=
  match layout op with
  | some (li, _, 1) => ((Store.linkedIn s (n, (li : Int))).head?).map (·.1)
  | _ => none

def childIdxs (s : St) (n : Nat) : List Nat :=
  match Store.getNode s n with
  | .ok d => d.children.map (·.1)
  | .error _ => []

def opOf (s : St) (n : Nat) : Option Op := (getOp s n).toOption

def isConst : Op → Bool | .const _ => true | _ => false
def isBlock : Op → Bool | .dataflowBlock .. => true | _ => false
def isExit : Op → Bool | .exitBlock _ => true | _ => false

def opIs (s : St) (p : Op → Bool) (n : Nat) : Bool :=
  match opOf s n with
  | some op => p op
  | none => false

/-- ports of a node: counts per signature, and the listing -/
def nodePorts (s : St) (n : Nat) (ins outs : List String) (a : Acc) : Acc :=
  match (opOf s n).bind layout with
  | none => { a with ports := false }
  | some (li, lo, _) =>
    { a with
      ports := a.ports && ins.length == li && outs.length == lo
      listing := a.listing ++ entries (inPort n) false ins li ++ entries (outPort n) true outs lo }

def constInlined (s : St) (n : Nat) (op : Op) (o : Operation) : Bool :=
  match op with
  | .loadConst _ =>
    match o, (staticSrc s n op).bind (opOf s) with
    | .custom (.apply "core.load_const" [_, v]), some (.const c) => valueMatches c v
    | _, _ => false
  | _ => true

mutual
  /-- a HUGR node and the model node it is exported as -/
  def mirrorNode (s : St) (n : Nat) : Node → Acc → Acc
    | .mk o ins outs regions metas sig, a =>
      let a := { a with exported := a.exported ++ [(n, .mk o ins outs regions metas sig)] }
      match Store.getNode s n with
      | .error _ => a.failMirror
      | .ok d =>
        if !expectOp d.op o then a.failMirror else
        let a := nodePorts s n ins outs a
        let a := { a with metaOk := a.metaOk && metaMatches d.md (metaJsonEntries metas) }
        let a := if constInlined s n d.op o then a else a.failMirror
        match d.op with
        | .dfg .. | .tailLoop .. | .funcDefn .. | .dataflowBlock .. => mirrorOneDfg s n regions a
        | .conditional .. => mirrorCases s (d.children.map (·.1)) regions a
        | .cfg .. => mirrorOneCfg s n regions a
        | _ => if regions.isEmpty then a else a.failMirror
  def mirrorOneDfg (s : St) (p : Nat) : List Region → Acc → Acc
    | [r], a => mirrorDfg s p r a
    | _, a => a.failMirror
  def mirrorOneCfg (s : St) (p : Nat) : List Region → Acc → Acc
    | [r], a => mirrorCfg s p r a
    | _, a => a.failMirror
  /-- one region per case, in order -/
  def mirrorCases (s : St) : List Nat → List Region → Acc → Acc
    | [], [], a => a
    | c :: cs, r :: rs, a => mirrorCases s cs rs (mirrorDfg s c r a)
    | _, _, a => a.failMirror
  /-- the children of `p` as a dataflow region: Input/Output → sources/targets, constants are not exported -/
  def mirrorDfg (s : St) (p : Nat) : Region → Acc → Acc
    | .mk kind sources targets children metas sig, a =>
      let a := if kind == .dataFlow then a else a.failMirror
      let a := { a with regions := a.regions ++ [(p, .mk kind sources targets children metas sig)] }
      let kids := childIdxs s p
      let a := match kids.find? (opIs s isInput) with
        | none => a
        | some i =>
          match opOf s i with
          | some (.input ts) =>
            { a with ports := a.ports && sources.length == ts.length
                     listing := a.listing ++ entries (outPort i) true sources ts.length }
          | _ => a
      let a := match kids.find? (opIs s isOutput) with
        | none => a
        | some i =>
          match opOf s i with
          | some (.output (some ts)) =>
            { a with ports := a.ports && targets.length == ts.length
                     listing := a.listing ++ entries (inPort i) false targets ts.length }
          | _ => { a with ports := false }
      mirrorNodes s (kids.filter fun c => !(opIs s isInput c || opIs s isOutput c || opIs s isConst c)) children a
  /-- the children of `p` as a control-flow region: source = the entry block's control input,
      target = the exit block's input, blocks in order -/
  def mirrorCfg (s : St) (p : Nat) : Region → Acc → Acc
    | .mk kind sources targets children _ _, a =>
      let a := if kind == .controlFlow then a else a.failMirror
      let kids := childIdxs s p
      let blocks := kids.filter (opIs s isBlock)
      let a := match sources, blocks with
        | [src], b :: _ => { a with listing := a.listing ++ [⟨inPort b 0, src, true⟩] }
        | [_], [] => a
        | _, _ => { a with ports := false }
      let a := match kids.find? (opIs s isExit) with
        | none => a
        | some e =>
          match targets with
          | [t] => { a with listing := a.listing ++ [⟨inPort e 0, t, false⟩] }
          | [] => { a with ports := false }
          | t :: _ => { a with ports := false, listing := a.listing ++ [⟨inPort e 0, t, false⟩] }
      mirrorNodes s blocks children a
  def mirrorNodes (s : St) : List Nat → List Node → Acc → Acc
    | [], [], a => a
    | c :: cs, nd :: nds, a => mirrorNodes s cs nds (mirrorNode s c nd a)
    | _, _, a => a.failMirror
end

/-- the whole module against the store: the root's children, constants dropped -/
def mirrorModule (s : St) (m : Module) : Acc :=
  match m.root with
  | .mk kind sources targets children _ _ =>
    let a : Acc := {}
    let a := if kind == .module && sources.isEmpty && targets.isEmpty then a else a.failMirror
    mirrorNodes s ((childIdxs s s.root).filter fun c => !opIs s isConst c) children a

/-! ### LinkFaithful / NoHyperedge -/

def linkPorts (l : Port × Port) : DPort × DPort := (⟨.out, l.1.1, l.1.2⟩, ⟨.inc, l.2.1, l.2.2⟩)

/-- one round of the closure: ports joined by an edge to a port already in `comp` -/
def expand (links : List (Port × Port)) (comp : List DPort) : List DPort :=
  links.foldl (fun acc l =>
    let (a, b) := linkPorts l
    if acc.contains a && !acc.contains b then acc ++ [b]
    else if acc.contains b && !acc.contains a then acc ++ [a]
    else acc) comp

/-- the connected component of a port in the port graph (closure under the edges) -/
def component (links : List (Port × Port)) : Nat → List DPort → List DPort
  | 0, comp => comp
  | fuel + 1, comp =>
    let next := expand links comp
    if next.length == comp.length then comp else component links fuel next

def connected (links : List (Port × Port)) (p q : DPort) : Bool :=
  p == q || (component links (links.length + 1) [p]).contains q

/-- the listing grouped by link name (groups and members in order of first occurrence) -/
def addToGroup (e : Entry) : List (String × List Entry) → List (String × List Entry)
  | [] => [(e.name, [e])]
  | (nm, es) :: rest => if nm == e.name then (nm, es ++ [e]) :: rest else (nm, es) :: addToGroup e rest

def groupByName (listing : List Entry) : List (String × List Entry) :=
  listing.foldl (fun gs e => addToGroup e gs) []

/-- a name group with the connected component of its first port -/
structure Group where
  name : String
  entries : List Entry
  comp : List DPort

def groups (links : List (Port × Port)) (listing : List Entry) : List Group :=
  (groupByName listing).map fun (nm, es) =>
    ⟨nm, es, match es with
      | [] => []
      | e :: _ => component links (links.length + 1) [e.port]⟩

/-- no later group lies in the component of an earlier one -/
def groupsApart : List Group → Bool
  | [] => true
  | g :: rest =>
    rest.all (fun h => match h.entries with
      | [] => true
      | e :: _ => !g.comp.contains e.port) && groupsApart rest

/-- `LinkFaithful`: two listed ports carry the same name iff an edge of the HUGR joins them
    (transitively).  Connectivity is an equivalence, so this is decided per name: all ports carrying a name
    lie in the component of the first of them (same name ⇒ joined), and the components of different names
    are different (joined ⇒ same name). -/
def linkFaithful (gs : List Group) : Bool :=
  gs.all (fun g => g.entries.all fun e => g.comp.contains e.port) && groupsApart gs

def dedup {α : Type} [BEq α] : List α → List α
  | [] => []
  | x :: xs => if (dedup xs).contains x then dedup xs else x :: dedup xs

/-- `NoHyperedge` (import.rs `link_ports`): no name with ≥ 2 producer-side and ≥ 2 consumer-side ports -/
def noHyperedge (gs : List Group) : Bool :=
  gs.all fun g =>
    let prod := dedup ((g.entries.filter (·.producer)).map (·.port))
    let cons := dedup ((g.entries.filter (! ·.producer)).map (·.port))
    !(prod.length ≥ 2 && cons.length ≥ 2)

/-! ### CallsResolve -/

mutual
  /-- names of the symbols defined or declared as functions anywhere in the module -/
  def funcSymbolsNode : Node → List String
    | .mk o _ _ regions _ _ =>
      (match o with
        | .defineFunc sym | .declareFunc sym => [sym.name]
        | _ => []) ++ funcSymbolsRegions regions
  def funcSymbolsRegion : Region → List String
    | .mk _ _ _ children _ _ => funcSymbolsNodes children
  def funcSymbolsNodes : List Node → List String
    | [] => []
    | n :: ns => funcSymbolsNode n ++ funcSymbolsNodes ns
  def funcSymbolsRegions : List Region → List String
    | [] => []
    | r :: rs => funcSymbolsRegion r ++ funcSymbolsRegions rs
end

/-- the symbol a call / function load applies -/
def appliedSymbol : Op → Operation → Option String
  | .call .., .custom (.apply "core.call" [_, _, .apply f _]) => some f
  | .loadFunc .., .custom (.apply "core.load_const" [_, .apply f _]) => some f
  | _, _ => none

def symbolOfNode (exported : List (Nat × Node)) (f : Nat) : Option String :=
  match exported.find? (·.1 == f) with
  | some (_, nd) =>
    match nd.operation with
    | .defineFunc sym | .declareFunc sym => some sym.name
    | _ => none
  | none => none

/-- `CallsResolve`: the applied symbol is a function symbol of the module, namely the one exported for the
    node the function edge comes from. -/
def callsResolve (s : St) (present : List String) (exported : List (Nat × Node)) : Bool :=
  exported.all fun (n, nd) =>
    match opOf s n with
    | some op =>
      match op with
      | .call .. | .loadFunc .. =>
        match appliedSymbol op nd.operation with
        | none => false
        | some f =>
          present.contains f &&
            (match (staticSrc s n op).bind (symbolOfNode exported) with
             | some g => g == f
             | none => true)
      | _ => true
    | none => true

/-! ### OrderHints -/

def orderKeys : List Term → List Int
  | [] => []
  | .apply "core.order_hint.key" [.literal (.int k)] :: rest => k :: orderKeys rest
  | _ :: rest => orderKeys rest

def keyOf (nd : Node) : Option Int :=
  match orderKeys nd.metas with
  | [k] => some k
  | _ => none

def hasHint (metas : List Term) (a b : Int) : Bool :=
  metas.any fun
    | .apply "core.order_hint.order" [.literal (.int x), .literal (.int y)] => x == a && y == b
    | _ => false

def parentOf (s : St) (n : Nat) : Option Nat := (Store.getNode s n).toOption.bind (·.parent)

/-- `OrderHints`: every state-order edge (offset −1 on both sides in the store) between two exported siblings
    appears as a hint on their region, with the keys the two nodes carry; keys are unique within a region. -/
def orderHints (s : St) (a : Acc) : Bool :=
  (Store.linksList s).all (fun (l : Port × Port) =>
    if l.1.2 == -1 && l.2.2 == -1 then
      let src := l.1.1
      let dst := l.2.1
      match a.exported.find? (·.1 == src), a.exported.find? (·.1 == dst), parentOf s src with
      | some (_, ns), some (_, nd), some p =>
        if parentOf s dst == some p then
          match a.regions.find? (·.1 == p), keyOf ns, keyOf nd with
          | some (_, r), some ks, some kd => hasHint r.metas ks kd
          | none, _, _ => true
          | _, _, _ => false
        else true
      | _, _, _ => true
    else true)
  && a.regions.all (fun (_, r) =>
    let ks := r.children.filterMap keyOf
    (dedup ks).length == ks.length)

/-! ### the verdicts -/

def verdicts (s : St) (m : Module) : List (String × Bool) :=
  let a := mirrorModule s m
  let gs := groups (Store.linksList s) a.listing
  [("RegionsMirror", a.mirror),
   ("PortsPerSignature", a.ports),
   ("LinkFaithful", linkFaithful gs),
   ("NoHyperedge", noHyperedge gs),
   ("CallsResolve", callsResolve s (funcSymbolsRegion m.root) a.exported),
   ("OrderHints", orderHints s a),
   ("MetaCarried", a.metaOk)]

/-- all specification predicates hold -/
def holds (s : St) (m : Module) : Bool := (verdicts s m).all (·.2)

end HugrVerif.ExportSpec
