/-
  L2: the container types of `hugr/std/collections/{array,list,static_array}.py`.

  `Array`, `List`, `StaticArray` are subclasses of `ExtType` whose constructor fixes the type
  definition (regenerated into `Gen/StdTypeDefs.lean` from the bundled extension files) and the
  argument list, and which OVERRIDE `type_bound()` by `self.ty.type_bound()`, where `ty` reads
  `self.args[k]` (asserting that it is a `TypeTypeArg`).  An instance is therefore modelled as the
  ordinary `Ty.extType def args`; `arrayTypeBound` etc. model the overriding method, and
  `Props/C07.lean` proves that it coincides with the generic `Ty.bound` on every constructed instance.
-/
import HugrVerif.Tys
import HugrVerif.Gen.StdTypeDefs

namespace HugrVerif.Std
open HugrVerif Gen.StdTypeDefs

/-- outcome of a raising constructor -/
inductive CtorErr where
  | valueError     -- the documented rejection
  | indexError     -- the element type's own `type_bound()` raised
deriving Repr, DecidableEq

/-- `Array.__init__(ty, size)` after `int` sizes have been wrapped in `BoundedNatArg`:
    the size must be a bounded natural or a variable declared as one. -/
def mkArray (ty : Ty) (size : TypeArg) : Except CtorErr Ty :=
  match size with
  | .boundedNat _ => pure (.extType arrayDef [size, .type ty])
  | .variable _ (.boundedNat _) => pure (.extType arrayDef [size, .type ty])
  | _ => throw .valueError

/-- `List.__init__(ty)` -/
def mkList (ty : Ty) : Ty := .extType listDef [.type ty]

/-- `StaticArray.__init__(ty)`:
    `if TypeBound.join(ty.type_bound(), TypeBound.Copyable) != TypeBound.Copyable: raise ValueError` -/
def mkStaticArray (ty : Ty) : Except CtorErr Ty :=
  match Ty.bound ty with
  | .error _ => throw .indexError
  | .ok b =>
    if Bound.join [b, .copyable] ≠ .copyable then throw .valueError
    else pure (.extType staticArrayDef [.type ty])

/-- outcome of the overriding `type_bound` -/
inductive OvErr where
  | assertion      -- `assert isinstance(self.args[k], TypeTypeArg)` fails
  | indexError     -- `self.args[k]` out of range, or the element's `type_bound()` raised
deriving Repr, DecidableEq

/-- `self.ty.type_bound()` with `ty = self.args[k].ty` -/
def elemTypeBound (k : Nat) : Ty → Except OvErr Bound
  | .extType _ args =>
    match args[k]? with
    | some (.type t) =>
      match Ty.bound t with
      | .ok b => pure b
      | .error _ => throw .indexError
    | some _ => throw .assertion
    | none => throw .indexError
  | _ => throw .assertion

/-- `Array.type_bound`, `List.type_bound`, `StaticArray.type_bound` -/
def arrayTypeBound : Ty → Except OvErr Bound := elemTypeBound arrayTyIndex
def listTypeBound : Ty → Except OvErr Bound := elemTypeBound listTyIndex
def staticArrayTypeBound : Ty → Except OvErr Bound := elemTypeBound staticArrayTyIndex

/-- the generic computation, with the error class of the override -/
def genericBound (t : Ty) : Except OvErr Bound :=
  match Ty.bound t with
  | .ok b => pure b
  | .error _ => throw .indexError

end HugrVerif.Std
