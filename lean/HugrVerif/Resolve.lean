/-
  Extension resolution (property C11) — `resolve` of `hugr/tys.py` and `hugr/ops.py`,
  `Hugr.resolve_extensions` (`hugr/hugr/base.py`), the registry lookups of `hugr/ext.py`, and the
  hugr-model term a type is exported as (`to_model` of `hugr/tys.py`).
  Import-free apart from the shared model layers (`Tys`, `Ops`, `Ext`, `Store`).

  The model follows the REPAIRED code:
    [F10] `Opaque.resolve` resolves its own type arguments (found or not found);
    [F11] `Opaque.to_model` emits `"<extension>.<id>"` like `ExtType.to_model`.

  * `Registry`            `ExtensionRegistry.extensions : dict[ExtensionId, Extension]`
  * `getExtension`        `ExtensionRegistry.get_extension` (`KeyError` → `ExtensionNotFound`)
  * `getType` / `getOp`   `Extension.get_type` / `get_op` (`KeyError` → `TypeNotFound` / `OperationNotFound`)
  * `resolveTy/Arg/…`     `resolve` per class: `Sum`, `FunctionType`, `PolyFuncType`, `Opaque`,
                          `TypeTypeArg`, `SequenceArg` recurse; `UnitSum.resolve` returns `self`; every other
                          class inherits `Type.resolve` / `TypeArg.resolve` (`return self`) — in particular an
                          `ExtType` is returned as it is, its arguments are not visited
  * `resolveOp`           `Custom.resolve`; `Hugr.resolve_extensions` calls it on `Custom` nodes only
  * `resolveStore`        `Hugr.resolve_extensions`
  * `toModel`             `to_model()` of types and type arguments
-/
import HugrVerif.Ext
import HugrVerif.Ops
import HugrVerif.Store

namespace HugrVerif.Resolve
open HugrVerif HugrVerif.Py

/-! ### the registry -/

/-- `ExtensionRegistry`: extensions indexed by name (a Python `dict`). -/
structure Registry where
  extensions : Dict String Ext.Extension

/-- the three `NotFound` exception classes of `ext.py` -/
inductive NotFound where
  | extension     -- `ExtensionRegistry.ExtensionNotFound`
  | type          -- `Extension.TypeNotFound`
  | operation     -- `Extension.OperationNotFound`
deriving DecidableEq, Repr

/-- `ExtensionRegistry.get_extension(name)` -/
def getExtension (r : Registry) (name : String) : Except NotFound Ext.Extension :=
  match Dict.get name r.extensions with
  | some e => .ok e
  | none => .error .extension

/-- `Extension.get_type(name)` -/
def getType (e : Ext.Extension) (name : String) : Except NotFound Ext.TypeDef :=
  match Dict.get name e.types with
  | some td => .ok td
  | none => .error .type

/-- `Extension.get_op(name)` -/
def getOp (e : Ext.Extension) (name : String) : Except NotFound Ext.OpDef :=
  match Dict.get name e.operations with
  | some od => .ok od
  | none => .error .operation

/-- `registry.get_extension(ext).get_type(id)` inside `try … except (ExtensionNotFound, TypeNotFound)`:
    `none` = one of the two caught exceptions (no other exception can arise, `lookupType_error`). -/
def lookupType (r : Registry) (ext id : String) : Option Ext.TypeDef :=
  match getExtension r ext with
  | .error _ => none
  | .ok e =>
    match getType e id with
    | .error _ => none
    | .ok td => some td

/-- `registry.get_extension(ext).get_op(name)` inside `try … except (OperationNotFound, ExtensionNotFound)` -/
def lookupOp (r : Registry) (ext name : String) : Option Ext.OpDef :=
  match getExtension r ext with
  | .error _ => none
  | .ok e =>
    match getOp e name with
    | .error _ => none
    | .ok od => some od

/-- What an `ExtType` refers to of its `TypeDef`.  `TypeDefRef.ext` is the name of the owning
    extension (`type_def._extension.name`); a definition without owner (only constructible by writing
    into the `types` dict by hand; `_to_serial` then fails its assertion) is outside `RegistryWf` and
    outside the modelled fragment — the driver refuses such registries. -/
def typeDefRef (td : Ext.TypeDef) : TypeDefRef :=
  { ext := match td.owner with | some o => o | none => "",
    name := td.name, description := td.description, params := td.params, bound := td.bound }

def polyOf (p : Ext.Poly) : Poly := ⟨p.params, ⟨p.inp, p.out, p.reqs⟩⟩

/-- What an `ExtOp` refers to of its `OpDef`. -/
def opDefRef (od : Ext.OpDef) : OpDefRef :=
  { ext := od.owner, name := od.name, description := od.description, polyFunc := od.sig.poly.map polyOf }

/-! ### resolution of types and type arguments -/

mutual
  /-- `Type.resolve(registry)` per class -/
  def resolveTy (r : Registry) : Ty → Ty
    -- `Sum([[ty.resolve(registry) for ty in row] for row in self.variant_rows])`
    | .sum rows => .sum (resolveRows r rows)
    -- `FunctionType(input=[…], output=[…], runtime_reqs=self.runtime_reqs)`
    | .function i o rq => .function (resolveRow r i) (resolveRow r o) rq
    -- `PolyFuncType(params=self.params, body=self.body.resolve(registry))`
    | .poly ps i o rq => .poly ps (resolveRow r i) (resolveRow r o) rq
    -- [F10] `args = [arg.resolve(registry) for arg in self.args]`, then the lookup:
    -- found → `ExtType(type_def, args)`, not found → `Opaque(self.id, self.bound, args, self.extension)`
    | .opaque id b args ext =>
      match lookupType r ext id with
      | some td => .extType (typeDefRef td) (resolveArgs r args)
      | none => .opaque id b (resolveArgs r args) ext
    -- `UnitSum.resolve`: `return self`; `Variable`, `RowVariable`, `USize`, `Alias`, `ExtType`, `Qubit`
    -- inherit `Type.resolve`: `return self`
    | t => t
  def resolveRow (r : Registry) : List Ty → List Ty
    | [] => []
    | t :: ts => resolveTy r t :: resolveRow r ts
  def resolveRows (r : Registry) : List (List Ty) → List (List Ty)
    | [] => []
    | row :: rows => resolveRow r row :: resolveRows r rows
  /-- `TypeArg.resolve(registry)` per class -/
  def resolveArg (r : Registry) : TypeArg → TypeArg
    -- `TypeTypeArg(self.ty.resolve(registry))`
    | .type t => .type (resolveTy r t)
    -- `SequenceArg([arg.resolve(registry) for arg in self.elems])`
    | .sequence es => .sequence (resolveArgs r es)
    -- the other classes inherit `TypeArg.resolve`: `return self`
    | a => a
  def resolveArgs (r : Registry) : List TypeArg → List TypeArg
    | [] => []
    | a :: as => resolveArg r a :: resolveArgs r as
end

/-- `FunctionType.resolve` on a signature -/
def resolveSig (r : Registry) (s : Sig) : Sig := ⟨resolveRow r s.inp, resolveRow r s.out, s.reqs⟩

/-! ### resolution of operations and of a HUGR -/

/-- `Hugr.resolve_extensions` on one node: `if isinstance(op, Custom): op.resolve(registry)`;
    `Custom.resolve`: look the definition up (not found → `self`); `signature.resolve`; the arguments
    resolved; `ExtOp(op_def, signature, args)`. -/
def resolveOp (r : Registry) : Op → Op
  | .custom n sig d e args =>
    match lookupOp r e n with
    | some od => .extOp (opDefRef od) (some (resolveSig r sig)) (resolveArgs r args)
    | none => .custom n sig d e args
  | op => op

/-- the `for node in self:` loop over the node slots: deleted slots are not iterated -/
def resolveNodes {μ : Type} (r : Registry) : List (Option (Store.NodeData Op μ)) → List (Option (Store.NodeData Op μ))
  | [] => []
  | none :: rest => none :: resolveNodes r rest
  | some d :: rest => some { d with op := resolveOp r d.op } :: resolveNodes r rest

/-- `Hugr.resolve_extensions(registry)` (in place; returns the HUGR) -/
def resolveStore {μ : Type} (r : Registry) (s : Store Op μ) : Store Op μ :=
  { s with nodes := resolveNodes r s.nodes }

/-! ### the hugr-model term of a type (`to_model`) -/

/-- `hugr.model` terms as far as types produce them (`Splice` is a sequence part, not a term:
    it only occurs as an element of a `List`). -/
inductive MTerm where
  | apply (symbol : String) (args : List MTerm)
  | list (parts : List MTerm)
  | litInt (n : Int)
  | litStr (s : String)
  | var (name : String)
  | splice (seq : MTerm)

inductive MErr where
  | typeError    -- `PolyFuncType.to_model`: "PolyFuncType used as a Type"
deriving DecidableEq, Repr

/-- the exported name of an extension type: `f"{extension}.{name}"` -/
def qualName (ext name : String) : String := ext ++ "." ++ name

/-- `toModelName`: the symbol a type is exported under, for the two forms of an extension type
    ([F11]: the opaque form is qualified like the definition-backed one). -/
def toModelName : Ty → Option String
  | .opaque id _ _ ext => some (qualName ext id)
  | .extType d _ => some (qualName d.ext d.name)
  | _ => none

mutual
  /-- `Type.to_model()` -/
  def toModel : Ty → Except MErr MTerm
    | .sum rows => do pure (.apply "core.adt" [.list (← toModelRows rows)])
    -- `UnitSum` inherits `Sum.to_model`: `variant_rows = [[]] * size`
    | .unitSum n => pure (.apply "core.adt" [.list (List.replicate n (.list []))])
    | .variable i _ => pure (.var (toString i))
    | .rowVariable i _ => pure (.splice (.var (toString i)))
    | .usize => pure (.apply "prelude.usize" [])
    | .alias n _ => pure (.apply n [])
    | .function i o _ => do
      let mi ← toModelRow i
      let mo ← toModelRow o
      pure (.apply "core.fn" [.list mi, .list mo])
    | .poly _ _ _ _ => throw .typeError
    | .extType d args => do pure (.apply (qualName d.ext d.name) (← toModelArgs args))
    | .opaque id _ args ext => do pure (.apply (qualName ext id) (← toModelArgs args))
    | .qubit => pure (.apply "prelude.qubit" [])
  def toModelRow : List Ty → Except MErr (List MTerm)
    | [] => pure []
    | t :: ts => do pure ((← toModel t) :: (← toModelRow ts))
  def toModelRows : List (List Ty) → Except MErr (List MTerm)
    | [] => pure []
    | r :: rs => do pure (.list (← toModelRow r) :: (← toModelRows rs))
  /-- `TypeArg.to_model()` -/
  def toModelArg : TypeArg → Except MErr MTerm
    | .type t => toModel t
    | .boundedNat n => pure (.litInt n)
    | .string s => pure (.litStr s)
    | .sequence es => do pure (.list (← toModelArgs es))
    | .extensions _ => pure (.apply "compat.ext_set" [])
    | .variable i _ => pure (.var (toString i))
  def toModelArgs : List TypeArg → Except MErr (List MTerm)
    | [] => pure []
    | a :: as => do pure ((← toModelArg a) :: (← toModelArgs as))
end

/-! ### the hypotheses of the property, as executable checks -/

def allDict {α : Type} (p : String → α → Bool) : Dict String α → Bool
  | [] => true
  | (k, v) :: rest => p k v && allDict p rest

/-- keys equal extension names; definition dict keys equal definition names; definitions are owned
    by the extension that holds them (what `add_extension`, `add_type_def`, `add_op_def` establish) -/
def registryWfB (r : Registry) : Bool :=
  allDict (fun k e =>
    e.name == k
    && allDict (fun n (td : Ext.TypeDef) => td.name == n && td.owner == some e.name) e.types
    && allDict (fun n (od : Ext.OpDef) => od.name == n && od.owner == some e.name) e.operations) r.extensions

mutual
  /-- every opaque type (at a position resolution reaches) that names a known definition stores the
      bound that definition computes for its arguments -/
  def consistentTy (r : Registry) : Ty → Bool
    | .sum rows => consistentRows r rows
    | .function i o _ => consistentRow r i && consistentRow r o
    | .poly _ i o _ => consistentRow r i && consistentRow r o
    | .opaque id b args ext =>
      consistentArgs r args &&
      (match lookupType r ext id with
        | some td =>
          (match Ty.bound (.extType (typeDefRef td) args) with
            | .ok b' => b' == b
            | .error _ => false)
        | none => true)
    | _ => true
  def consistentRow (r : Registry) : List Ty → Bool
    | [] => true
    | t :: ts => consistentTy r t && consistentRow r ts
  def consistentRows (r : Registry) : List (List Ty) → Bool
    | [] => true
    | row :: rows => consistentRow r row && consistentRows r rows
  def consistentArg (r : Registry) : TypeArg → Bool
    | .type t => consistentTy r t
    | .sequence es => consistentArgs r es
    | _ => true
  def consistentArgs (r : Registry) : List TypeArg → Bool
    | [] => true
    | a :: as => consistentArg r a && consistentArgs r as
end

/-- the same for the types an operation is resolved together with -/
def consistentOp (r : Registry) : Op → Bool
  | .custom _ sig _ _ args => consistentRow r sig.inp && consistentRow r sig.out && consistentArgs r args
  | _ => true

/-! ### the opaque types an expression holds at the positions resolution reaches -/

mutual
  /-- `(extension, id)` of every opaque type at a position `resolve` reaches -/
  def opaques : Ty → List (String × String)
    | .sum rows => opaquesRows rows
    | .function i o _ => opaquesRow i ++ opaquesRow o
    | .poly _ i o _ => opaquesRow i ++ opaquesRow o
    | .opaque id _ args ext => (ext, id) :: opaquesArgs args
    | _ => []
  def opaquesRow : List Ty → List (String × String)
    | [] => []
    | t :: ts => opaques t ++ opaquesRow ts
  def opaquesRows : List (List Ty) → List (String × String)
    | [] => []
    | r :: rs => opaquesRow r ++ opaquesRows rs
  def opaquesArg : TypeArg → List (String × String)
    | .type t => opaques t
    | .sequence es => opaquesArgs es
    | _ => []
  def opaquesArgs : List TypeArg → List (String × String)
    | [] => []
    | a :: as => opaquesArg a ++ opaquesArgs as
end

end HugrVerif.Resolve
