/-
  Executable checks of the store hypotheses under which the rendering theorems (Props/C20.lean) are
  stated: the hierarchy invariants `HierInv`, `RootInv`, `ParentBelow` and the port-count bound
  `PortBound`.  The driver evaluates them on every store it renders, so the correspondence run also
  establishes that the stores obtained from builder-built documents satisfy the hypotheses; soundness
  (`… = true → the invariant`) is proved in `Proofs/Render.lean`.  Import-free apart from Render.
-/
import HugrVerif.Render

namespace HugrVerif.Render
open HugrVerif

def nodupB : List Nat → Bool
  | [] => true
  | x :: xs => !xs.contains x && nodupB xs

/-- every child is live and points back to `p` -/
def childrenOkB (s : St) (p : Nat) (dp : Store.NodeData Op Serial.Meta) : Bool :=
  dp.children.all fun h =>
    match Store.getNode s h.1 with
    | .ok dc => dc.parent == some p
    | .error _ => false

/-- the parent is live and lists `c` among its children -/
def parentOkB (s : St) (c : Nat) (dc : Store.NodeData Op Serial.Meta) : Bool :=
  match dc.parent with
  | none => true
  | some p =>
    match Store.getNode s p with
    | .ok dp => (dp.children.map (·.1)).contains c
    | .error _ => false

def forLive (s : St) (f : Nat → Store.NodeData Op Serial.Meta → Bool) : Bool :=
  (List.range s.nodes.length).all fun i =>
    match Store.getNode s i with
    | .ok d => f i d
    | .error _ => true

def hierB (s : St) : Bool :=
  forLive s fun i d => childrenOkB s i d && parentOkB s i d && nodupB (d.children.map (·.1))

def rootB (s : St) : Bool :=
  (match Store.getNode s s.root with
   | .ok d => d.parent.isNone
   | .error _ => false) &&
  forLive s fun i d => d.parent.isSome || i == s.root

def parentBelowB (s : St) : Bool :=
  forLive s fun i d => d.children.all fun h => decide (i < h.1) && decide (h.1 < s.nodes.length)

def portBoundB (s : St) : Bool :=
  (Store.linksList s).all fun l =>
    (match Store.getNode s l.1.1 with
     | .ok d => decide (-1 ≤ l.1.2) && decide (l.1.2 + 1 ≤ (d.numOuts : Int))
     | .error _ => false) &&
    (match Store.getNode s l.2.1 with
     | .ok d => decide (-1 ≤ l.2.2) && decide (l.2.2 + 1 ≤ (d.numInps : Int))
     | .error _ => false)

/-- all hypotheses of the theorems of C20 that are decidable -/
def hypsB (s : St) : Bool := hierB s && rootB s && parentBelowB s && portBoundB s

end HugrVerif.Render
