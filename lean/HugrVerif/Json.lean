/-
  JSON trees (model layer L3).  Import-free.

  * `int` carries every number with an integral value (JSON Schema: `1.0` is an integer);
    `num` carries the literal text of any other number — never computed with.
  * `obj` is an ordered association list.  The translators and the harness emit objects with
    pairwise distinct keys; `canon` sorts the keys (stable insertion sort, recursively) and
    `eqv a b := beq (canon a) (canon b)` is JSON equality (objects compared as unordered maps).
  * `deriving DecidableEq` fails on this nested inductive: `beq` is the Boolean structural
    equality, `beq_sound`/`beq_refl` show it decides `=`, and `instance : DecidableEq Json` is
    built from them, so `decide +kernel` can discharge equalities of concrete trees.
-/
namespace HugrVerif

inductive Json where
  | null
  | bool (b : Bool)
  | int (i : Int)
  | num (lit : String)
  | str (s : String)
  | arr (xs : List Json)
  | obj (kvs : List (String × Json))
deriving Repr, Inhabited

namespace Json

/-! ### Structural equality -/

mutual
  def beq : Json → Json → Bool
    | .null, .null => true
    | .bool a, .bool b => a == b
    | .int a, .int b => a == b
    | .num a, .num b => a == b
    | .str a, .str b => a == b
    | .arr xs, .arr ys => beqList xs ys
    | .obj xs, .obj ys => beqFields xs ys
    | _, _ => false
  def beqList : List Json → List Json → Bool
    | [], [] => true
    | x :: xs, y :: ys => beq x y && beqList xs ys
    | _, _ => false
  def beqFields : List (String × Json) → List (String × Json) → Bool
    | [], [] => true
    | (k, x) :: xs, (l, y) :: ys => k == l && beq x y && beqFields xs ys
    | _, _ => false
end

mutual
  theorem beq_sound : ∀ (a b : Json), beq a b = true → a = b
    | .null, b, h => by cases b <;> simp_all [beq]
    | .bool _, b, h => by cases b <;> simp_all [beq]
    | .int _, b, h => by cases b <;> simp_all [beq]
    | .num _, b, h => by cases b <;> simp_all [beq]
    | .str _, b, h => by cases b <;> simp_all [beq]
    | .arr xs, b, h => by
      cases b <;> simp [beq] at h
      rename_i ys
      exact congrArg _ (beqList_sound xs ys h)
    | .obj xs, b, h => by
      cases b <;> simp [beq] at h
      rename_i ys
      exact congrArg _ (beqFields_sound xs ys h)
  theorem beqList_sound : ∀ (xs ys : List Json), beqList xs ys = true → xs = ys
    | [], ys, h => by cases ys <;> simp_all [beqList]
    | x :: xs, ys, h => by
      cases ys with
      | nil => simp [beqList] at h
      | cons y ys =>
        simp [beqList] at h
        rw [beq_sound x y h.1, beqList_sound xs ys h.2]
  theorem beqFields_sound : ∀ (xs ys : List (String × Json)), beqFields xs ys = true → xs = ys
    | [], ys, h => by cases ys <;> simp_all [beqFields]
    | (k, x) :: xs, ys, h => by
      cases ys with
      | nil => simp [beqFields] at h
      | cons y ys =>
        obtain ⟨l, y⟩ := y
        simp [beqFields] at h
        rw [h.1.1, beq_sound x y h.1.2, beqFields_sound xs ys h.2]
end

mutual
  theorem beq_refl : ∀ (a : Json), beq a a = true
    | .null => by simp [beq]
    | .bool _ => by simp [beq]
    | .int _ => by simp [beq]
    | .num _ => by simp [beq]
    | .str _ => by simp [beq]
    | .arr xs => by simp [beq, beqList_refl xs]
    | .obj xs => by simp [beq, beqFields_refl xs]
  theorem beqList_refl : ∀ (xs : List Json), beqList xs xs = true
    | [] => by simp [beqList]
    | x :: xs => by simp [beqList, beq_refl x, beqList_refl xs]
  theorem beqFields_refl : ∀ (xs : List (String × Json)), beqFields xs xs = true
    | [] => by simp [beqFields]
    | (k, x) :: xs => by simp [beqFields, beq_refl x, beqFields_refl xs]
end

theorem beq_iff (a b : Json) : beq a b = true ↔ a = b :=
  ⟨beq_sound a b, fun h => h ▸ beq_refl a⟩

instance : DecidableEq Json := fun a b =>
  if h : beq a b = true then isTrue (beq_sound a b h)
  else isFalse (fun e => h (e ▸ beq_refl a))

/-! ### Canonical form: object keys sorted -/

/-- Insert a field before the first field with a strictly greater key (stable). -/
def insertField (k : String) (v : Json) : List (String × Json) → List (String × Json)
  | [] => [(k, v)]
  | (l, w) :: rest => if k < l then (k, v) :: (l, w) :: rest else (l, w) :: insertField k v rest

mutual
  def canon : Json → Json
    | .arr xs => .arr (canonList xs)
    | .obj kvs => .obj (canonFields kvs)
    | j => j
  def canonList : List Json → List Json
    | [] => []
    | x :: xs => canon x :: canonList xs
  /-- Sorted by key; built back to front so that equal keys keep their order. -/
  def canonFields : List (String × Json) → List (String × Json)
    | [] => []
    | (k, v) :: rest => insertField k (canon v) (canonFields rest)
end

/-- JSON equality: equal up to the order of object members. -/
def eqv (a b : Json) : Bool := beq (canon a) (canon b)

theorem eqv_iff (a b : Json) : eqv a b = true ↔ canon a = canon b := beq_iff _ _

theorem eqv_refl (a : Json) : eqv a a = true := beq_refl _

theorem eqv_symm (a b : Json) : eqv a b = eqv b a := by
  cases h : eqv a b <;> cases h' : eqv b a <;> try rfl
  · rw [eqv_iff] at h'; rw [← h, (eqv_iff a b).2 h'.symm]
  · rw [eqv_iff] at h; rw [← h', (eqv_iff b a).2 h.symm]

theorem eqv_trans (a b c : Json) (h1 : eqv a b = true) (h2 : eqv b c = true) : eqv a c = true := by
  rw [eqv_iff] at *; exact h1.trans h2

theorem eqv_of_eq {a b : Json} (h : a = b) : eqv a b = true := h ▸ eqv_refl a

/-- Swapping two adjacent members with different keys does not change the canonical form:
    `eqv` really ignores member order. -/
theorem insertField_comm (k l : String) (v w : Json) (h : k ≠ l) (fs : List (String × Json)) :
    insertField k v (insertField l w fs) = insertField l w (insertField k v fs) := by
  induction fs with
  | nil =>
    simp only [insertField]
    by_cases h1 : k < l <;> by_cases h2 : l < k
    · exact absurd h2 (String.lt_asymm h1)
    · simp [h1, h2]
    · simp [h1, h2]
    · exact absurd (String.le_antisymm (String.not_lt.mp h2) (String.not_lt.mp h1)) h
  | cons f fs ih =>
    obtain ⟨m, u⟩ := f
    simp only [insertField]
    by_cases h1 : k < m <;> by_cases h2 : l < m <;> simp only [h1, h2, if_true, if_false, insertField]
    · by_cases h3 : k < l <;> by_cases h4 : l < k
      · exact absurd h4 (String.lt_asymm h3)
      · simp [h3, h4]
      · simp [h3, h4]
      · exact absurd (String.le_antisymm (String.not_lt.mp h4) (String.not_lt.mp h3)) h
    · have h3 : k < l := Std.lt_of_lt_of_le h1 (String.not_lt.mp h2)
      simp [String.lt_asymm h3]
    · have h3 : l < k := Std.lt_of_lt_of_le h2 (String.not_lt.mp h1)
      simp [String.lt_asymm h3]
    · rw [ih]

theorem eqv_swap (k l : String) (v w : Json) (h : k ≠ l) (pre post : List (String × Json)) :
    eqv (.obj (pre ++ (k, v) :: (l, w) :: post)) (.obj (pre ++ (l, w) :: (k, v) :: post)) = true := by
  rw [eqv_iff]
  simp only [canon]
  congr 1
  induction pre with
  | nil => simp only [List.nil_append, canonFields]; exact insertField_comm k l _ _ h _
  | cons p pre ih => obtain ⟨m, u⟩ := p; simp only [List.cons_append, canonFields, ih]

end Json
end HugrVerif
