/-
  Operation codecs for `Serial.lean`:
  * `labelCodec` — the three operations used by the raw store histories of C04/C08/C02/C03
    (`Module`, `Const(TRUE)`, `Custom("n<k>", extension="verif")`), identified by a label;
  * `opsCodec`   — the full operation layer (`Ops.lean`).
-/
import HugrVerif.Serial
import HugrVerif.Ops

namespace HugrVerif.Serial
open HugrVerif

def boolJson : Json := .obj [("t", .str "Sum"), ("s", .str "Unit"), ("size", .int 2)]

/-- number of value ports (each way) of the labelled `Custom` operations -/
def labelPorts : Nat := 4

def labelSigJson : Json :=
  .obj [("t", .str "G"), ("input", .arr (List.replicate labelPorts boolJson)),
        ("output", .arr (List.replicate labelPorts boolJson)), ("runtime_reqs", .arr [])]

def trueJson : Json :=
  .obj [("v", .str "Sum"), ("tag", .int 1),
        ("typ", .obj [("t", .str "Sum"), ("s", .str "Unit"), ("size", .int 2)]), ("vs", .arr [])]

/-- Labels: `"module"`, `"const"`, anything else is the name of a `Custom` operation of extension
    `verif` with `labelPorts` Bool inputs and outputs. -/
def labelCodec : OpCodec String where
  enc := fun l p =>
    if l = "module" then .ok (.obj [("parent", .int p), ("op", .str "Module")])
    else if l = "const" then .ok (.obj [("parent", .int p), ("op", .str "Const"), ("v", trueJson)])
    else .ok (.obj [("parent", .int p), ("op", .str "Extension"), ("extension", .str "verif"),
      ("name", .str l), ("signature", labelSigJson), ("description", .str ""), ("args", .arr [])])
  dec := fun j =>
    match j with
    | .obj kvs =>
      match fld "parent" kvs, fld "op" kvs with
      | some (.int p), some (.str "Module") => .ok ("module", p)
      | some (.int p), some (.str "Const") => .ok ("const", p)
      | some (.int p), some (.str "Extension") =>
        match fld "name" kvs with
        | some (.str n) => .ok (n, p)
        | _ => .error "ValidationError"
      | _, _ => .error "ValidationError"
    | _ => .error "ValidationError"
  orderOff := fun l _ =>
    if l = "module" ∨ l = "const" then .ok none else .ok (some labelPorts)

def opErrName : OpErr → String
  | .incompleteOp => "IncompleteOp"
  | .invalidPort => "InvalidPort"
  | .valueError => "ValueError"
  | .indexError => "IndexError"
  | .noConcreteFunc => "NoConcreteFunc"
  | .assertion => "AssertionError"
  | .validationError => "ValidationError"
  | .noMethod => "AttributeError"

/-- `Hugr._order_port_offset` (base.py): Call → instantiation (+ static input); DataflowOp → outer
    signature (+ static input for LoadConst / LoadFunc); anything else has no order port. -/
def opOrderOff (op : Op) (incoming : Bool) : Except String (Option Nat) :=
  match op with
  | .call _ inst _ => .ok (some (if incoming then inst.inp.length + 1 else inst.out.length))
  | _ =>
    if Op.isDataflowOp op then
      match Op.outerSig op with
      | .error e => .error (opErrName e)
      | .ok sig =>
        let staticIn := match op with | .loadConst _ | .loadFunc .. => 1 | _ => 0
        .ok (some (if incoming then sig.inp.length + staticIn else sig.out.length))
    else .ok none

def opsCodec (fuel : Nat) : OpCodec Op where
  enc := fun op p => match Op.encOp op p with
    | .ok j => .ok j
    | .error e => .error (opErrName e)
  dec := fun j => match Op.decOp fuel j with
    | .ok r => .ok r
    | .error _ => .error "ValidationError"
  orderOff := opOrderOff

end HugrVerif.Serial
