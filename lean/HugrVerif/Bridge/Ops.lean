/-
  Bridge: operations (and the constant values they carry) ↔ s-expression.

    O ::= (input R) | (output R?) | (custom "name" SIG "desc" "ext" (A…)) | (extop DEF SIG? (A…))
        | (maketuple R?) | (unpacktuple R?) | (noop T?) | (tag n SUM) | (dfg R R? ("req"…)) | (cfg R R?)
        | (block R SUM? R? ("req"…)) | (exit R?) | (const V) | (loadconst T?) | (cond SUM R R?)
        | (case R R?) | (tailloop R R R? ("req"…)) | (funcdefn "name" R (P…) R?) | (funcdecl "name" POLY)
        | module | (call POLY SIG (A…)) | (callind SIG?) | (loadfunc POLY SIG (A…))
        | (aliasdecl "name" B) | (aliasdefn "name" T)
    constructor forms (run `_CallOrLoad.__init__`; only accepted where a constructed op is asked for):
        (mkcall POLY SIG? (A…)?) | (mkloadfunc POLY SIG? (A…)?)
        | (some R) | (left R R) | (right R R) | (continue R R) | (break R R)
    X?   ::= none | X
    SUM  ::= (gsum (R…)) | (usum n)
    SIG  ::= (fn R R ("req"…))            POLY ::= (poly (P…) R R ("req"…))      (as in Bridge/Tys)
    DEF  ::= (opdef none|"ext" "name" "desc" none|POLY)
    V    ::= (vsum tag T (V…)) | (vtuple (V…)) | (vfn R R ("req"…) JSON) | (vext "name" T JSON ("ext"…))
    JSON as in Bridge/Json.
  T, R, A, P, B as in Bridge/Tys.
-/
import HugrVerif.Bridge.Json
import HugrVerif.Bridge.Tys
import HugrVerif.Ops

namespace HugrVerif.Bridge.Ops
open HugrVerif HugrVerif.Bridge

/-! ### Json → sexp (inverse of `jsonOfSexp`) -/
partial def jsonSexp : Json → Sexp
  | .null => .atom "null"
  | .bool b => .atom (if b then "true" else "false")
  | .int i => .list [.atom "i", Sexp.ofInt i]
  | .num lit => .list [.atom "n", .str lit]
  | .str s => .list [.atom "s", .str s]
  | .arr xs => .list (.atom "a" :: xs.map jsonSexp)
  | .obj kvs => .list (.atom "o" :: kvs.map fun (k, v) => .list [.str k, jsonSexp v])

/-! ### values -/
partial def valueOfSexp : Sexp → Option Value
  | .list [.atom "vsum", tag, t, .list vs] => do
    some (.sum (← tag.toNat?) (← tyOfSexp t) (← vs.mapM valueOfSexp))
  | .list [.atom "vtuple", .list vs] => do some (.tuple (← vs.mapM valueOfSexp))
  | .list [.atom "vfn", i, o, r, body] => do
    some (.function (← rowOfSexp i) (← rowOfSexp o) (← strsOfSexp r) (← jsonOfSexp body))
  | .list [.atom "vext", n, t, payload, es] => do
    some (.ext (← n.text?) (← tyOfSexp t) (← jsonOfSexp payload) (← strsOfSexp es))
  | _ => none

partial def valueSexp : Value → Sexp
  | .sum tag t vs => .list [.atom "vsum", Sexp.ofNat tag, tySexp t, .list (vs.map valueSexp)]
  | .tuple vs => .list [.atom "vtuple", .list (vs.map valueSexp)]
  | .function i o r body => .list [.atom "vfn", rowSexp i, rowSexp o, .list (r.map .str), jsonSexp body]
  | .ext n t payload es => .list [.atom "vext", .str n, tySexp t, jsonSexp payload, .list (es.map .str)]

/-! ### signatures -/
def sigOfSexp (s : Sexp) : Option Sig :=
  match tyOfSexp s with
  | some (.function i o r) => some ⟨i, o, r⟩
  | _ => none

def polyOfSexp (s : Sexp) : Option Poly :=
  match tyOfSexp s with
  | some (.poly ps i o r) => some ⟨ps, ⟨i, o, r⟩⟩
  | _ => none

def sigSexp (s : Sig) : Sexp := tySexp s.toTy
def polySexp (p : Poly) : Sexp := tySexp p.toTy

def optOf {α : Type} (f : Sexp → Option α) : Sexp → Option (Option α)
  | .atom "none" => some none
  | s => (f s).map some

def optSexp {α : Type} (f : α → Sexp) : Option α → Sexp
  | none => .atom "none"
  | some a => f a

def sumOfSexp : Sexp → Option SumTy
  | .list [.atom "gsum", .list rows] => (rows.mapM rowOfSexp).map .general
  | .list [.atom "usum", n] => n.toNat?.map .unit
  | _ => none

def sumSexp : SumTy → Sexp
  | .general rows => .list [.atom "gsum", .list (rows.map rowSexp)]
  | .unit n => .list [.atom "usum", Sexp.ofNat n]

def opDefOfSexp : Sexp → Option OpDefRef
  | .list [.atom "opdef", e, n, d, p] => do
    some { ext := ← optOf Sexp.text? e, name := ← n.text?, description := ← d.text?,
           polyFunc := ← optOf polyOfSexp p }
  | _ => none

def opDefSexp (d : OpDefRef) : Sexp :=
  .list [.atom "opdef", optSexp .str d.ext, .str d.name, .str d.description, optSexp polySexp d.polyFunc]

def argsOfSexp : Sexp → Option (List TypeArg)
  | .list as => as.mapM argOfSexp
  | _ => none

def argsSexp (as : List TypeArg) : Sexp := .list (as.map argSexp)

def paramsOfSexp : Sexp → Option (List TypeParam)
  | .list ps => ps.mapM paramOfSexp
  | _ => none

/-! ### operations -/
def opOfSexp : Sexp → Option Op
  | .list [.atom "input", r] => (rowOfSexp r).map .input
  | .list [.atom "output", r] => (optOf rowOfSexp r).map .output
  | .list [.atom "custom", n, s, d, e, a] => do
    some (.custom (← n.text?) (← sigOfSexp s) (← d.text?) (← e.text?) (← argsOfSexp a))
  | .list [.atom "extop", d, s, a] => do some (.extOp (← opDefOfSexp d) (← optOf sigOfSexp s) (← argsOfSexp a))
  | .list [.atom "maketuple", r] => (optOf rowOfSexp r).map .makeTuple
  | .list [.atom "unpacktuple", r] => (optOf rowOfSexp r).map .unpackTuple
  | .list [.atom "noop", t] => (optOf tyOfSexp t).map .noop
  | .list [.atom "tag", n, s] => do some (.tag (← n.toInt?) (← sumOfSexp s))
  | .list [.atom "dfg", i, o, d] => do some (.dfg (← rowOfSexp i) (← optOf rowOfSexp o) (← strsOfSexp d))
  | .list [.atom "cfg", i, o] => do some (.cfg (← rowOfSexp i) (← optOf rowOfSexp o))
  | .list [.atom "block", i, s, oo, d] => do
    some (.dataflowBlock (← rowOfSexp i) (← optOf sumOfSexp s) (← optOf rowOfSexp oo) (← strsOfSexp d))
  | .list [.atom "exit", o] => (optOf rowOfSexp o).map .exitBlock
  | .list [.atom "const", v] => (valueOfSexp v).map .const
  | .list [.atom "loadconst", t] => (optOf tyOfSexp t).map .loadConst
  | .list [.atom "cond", s, oi, o] => do some (.conditional (← sumOfSexp s) (← rowOfSexp oi) (← optOf rowOfSexp o))
  | .list [.atom "case", i, o] => do some (.case (← rowOfSexp i) (← optOf rowOfSexp o))
  | .list [.atom "tailloop", ji, rest, jo, d] => do
    some (.tailLoop (← rowOfSexp ji) (← rowOfSexp rest) (← optOf rowOfSexp jo) (← strsOfSexp d))
  | .list [.atom "funcdefn", n, i, ps, o] => do
    some (.funcDefn (← n.text?) (← rowOfSexp i) (← paramsOfSexp ps) (← optOf rowOfSexp o))
  | .list [.atom "funcdecl", n, p] => do some (.funcDecl (← n.text?) (← polyOfSexp p))
  | .atom "module" => some .module
  | .list [.atom "call", p, s, a] => do some (.call (← polyOfSexp p) (← sigOfSexp s) (← argsOfSexp a))
  | .list [.atom "callind", s] => (optOf sigOfSexp s).map .callIndirect
  | .list [.atom "loadfunc", p, s, a] => do some (.loadFunc (← polyOfSexp p) (← sigOfSexp s) (← argsOfSexp a))
  | .list [.atom "aliasdecl", n, b] => do some (.aliasDecl (← n.text?) (← boundOfSexp b))
  | .list [.atom "aliasdefn", n, t] => do some (.aliasDefn (← n.text?) (← tyOfSexp t))
  | _ => none

/-- A constructed operation: a plain `O`, or one of the constructor forms. -/
def ctorOfSexp : Sexp → Option (Except OpErr Op)
  | .list [.atom "mkcall", p, s, a] => do
    some (Op.mkCall (← polyOfSexp p) (← optOf sigOfSexp s) (← optOf argsOfSexp a))
  | .list [.atom "mkloadfunc", p, s, a] => do
    some (Op.mkLoadFunc (← polyOfSexp p) (← optOf sigOfSexp s) (← optOf argsOfSexp a))
  | .list [.atom "some", r] => do some (.ok (Op.tagSome (← rowOfSexp r)))
  | .list [.atom "left", l, r] => do some (.ok (Op.tagLeft (← rowOfSexp l) (← rowOfSexp r)))
  | .list [.atom "right", l, r] => do some (.ok (Op.tagRight (← rowOfSexp l) (← rowOfSexp r)))
  | .list [.atom "continue", l, r] => do some (.ok (Op.tagContinue (← rowOfSexp l) (← rowOfSexp r)))
  | .list [.atom "break", l, r] => do some (.ok (Op.tagBreak (← rowOfSexp l) (← rowOfSexp r)))
  | s => (opOfSexp s).map .ok

def opSexp : Op → Sexp
  | .input ts => .list [.atom "input", rowSexp ts]
  | .output ts => .list [.atom "output", optSexp rowSexp ts]
  | .custom n s d e a => .list [.atom "custom", .str n, sigSexp s, .str d, .str e, argsSexp a]
  | .extOp d s a => .list [.atom "extop", opDefSexp d, optSexp sigSexp s, argsSexp a]
  | .makeTuple ts => .list [.atom "maketuple", optSexp rowSexp ts]
  | .unpackTuple ts => .list [.atom "unpacktuple", optSexp rowSexp ts]
  | .noop t => .list [.atom "noop", optSexp tySexp t]
  | .tag n s => .list [.atom "tag", Sexp.ofInt n, sumSexp s]
  | .dfg i o d => .list [.atom "dfg", rowSexp i, optSexp rowSexp o, .list (d.map .str)]
  | .cfg i o => .list [.atom "cfg", rowSexp i, optSexp rowSexp o]
  | .dataflowBlock i s oo d =>
    .list [.atom "block", rowSexp i, optSexp sumSexp s, optSexp rowSexp oo, .list (d.map .str)]
  | .exitBlock o => .list [.atom "exit", optSexp rowSexp o]
  | .const v => .list [.atom "const", valueSexp v]
  | .loadConst t => .list [.atom "loadconst", optSexp tySexp t]
  | .conditional s oi o => .list [.atom "cond", sumSexp s, rowSexp oi, optSexp rowSexp o]
  | .case i o => .list [.atom "case", rowSexp i, optSexp rowSexp o]
  | .tailLoop ji rest jo d =>
    .list [.atom "tailloop", rowSexp ji, rowSexp rest, optSexp rowSexp jo, .list (d.map .str)]
  | .funcDefn n i ps o =>
    .list [.atom "funcdefn", .str n, rowSexp i, .list (ps.map paramSexp), optSexp rowSexp o]
  | .funcDecl n p => .list [.atom "funcdecl", .str n, polySexp p]
  | .module => .atom "module"
  | .call p s a => .list [.atom "call", polySexp p, sigSexp s, argsSexp a]
  | .callIndirect s => .list [.atom "callind", optSexp sigSexp s]
  | .loadFunc p s a => .list [.atom "loadfunc", polySexp p, sigSexp s, argsSexp a]
  | .aliasDecl n b => .list [.atom "aliasdecl", .str n, boundSexp b]
  | .aliasDefn n t => .list [.atom "aliasdefn", .str n, tySexp t]

def errName : OpErr → String
  | .incompleteOp => "IncompleteOp"
  | .invalidPort => "InvalidPort"
  | .valueError => "ValueError"
  | .indexError => "IndexError"
  | .noConcreteFunc => "NoConcreteFunc"
  | .assertion => "AssertionError"
  | .validationError => "ValidationError"
  | .noMethod => "NoMethod"

def decErrName : Op.DecOpErr → String
  | .validation => "ValidationError"
  | .fuel => "!fuel"
  | .noConcreteFunc => "NoConcreteFunc"

def kindSexp : Kind → Sexp
  | .value t => .list [.atom "value", tySexp t]
  | .const t => .list [.atom "const", tySexp t]
  | .function p => .list [.atom "function", polySexp p]
  | .cf => .atom "cf"
  | .order => .atom "order"

end HugrVerif.Bridge.Ops
