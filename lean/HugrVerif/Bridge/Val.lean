/-
  Bridge: constant values and constant-building expressions ↔ s-expression.

  Values (what `Value` is, printed by `valueSexp`, read by `valueOfSexp`):
    V ::= (vsum tag T (V…)) | (vtuple (V…)) | (vfn (T…) (T…) ("req"…) J) | (vext "name" T J ("ext"…))
  Expressions (`StdConsts.CExpr`, read by `exprOfSexp`): the four forms above with expressions as
  children, and
    E ::= (some (E…)) | (none (T…)) | (left (E…) (T…)) | (right (T…) (E…)) | (unitsum tag size)
        | (bool true|false) | unit
        | (int v width) | (float J) | (string "s") | (array (E…) T) | (list (E…) T) | (sarray (E…) T "name")
  T as in Bridge/Tys.lean, J as in Bridge/Json.lean.  `jsonSexp` prints a `Json` in the J syntax.
-/
import HugrVerif.Bridge.Json
import HugrVerif.Bridge.Tys
import HugrVerif.Val
import HugrVerif.Std.Consts

namespace HugrVerif.Bridge
open HugrVerif

partial def jsonSexp : Json → Sexp
  | .null => .atom "null"
  | .bool b => .atom (if b then "true" else "false")
  | .int i => .list [.atom "i", Sexp.ofInt i]
  | .num lit => .list [.atom "n", .str lit]
  | .str s => .list [.atom "s", .str s]
  | .arr xs => .list (.atom "a" :: xs.map jsonSexp)
  | .obj kvs => .list (.atom "o" :: kvs.map fun (k, v) => .list [.str k, jsonSexp v])

partial def valueSexp : Value → Sexp
  | .sum tag typ vals => .list [.atom "vsum", Sexp.ofNat tag, tySexp typ, .list (vals.map valueSexp)]
  | .tuple vals => .list [.atom "vtuple", .list (vals.map valueSexp)]
  | .function i o r body => .list [.atom "vfn", rowSexp i, rowSexp o, .list (r.map .str), jsonSexp body]
  | .ext name typ payload exts =>
    .list [.atom "vext", .str name, tySexp typ, jsonSexp payload, .list (exts.map .str)]

partial def valueOfSexp : Sexp → Option Value
  | .list [.atom "vsum", tag, t, .list vs] => do
    some (.sum (← tag.toNat?) (← tyOfSexp t) (← vs.mapM valueOfSexp))
  | .list [.atom "vtuple", .list vs] => do some (.tuple (← vs.mapM valueOfSexp))
  | .list [.atom "vfn", i, o, r, j] => do
    some (.function (← rowOfSexp i) (← rowOfSexp o) (← strsOfSexp r) (← jsonOfSexp j))
  | .list [.atom "vext", n, t, j, es] => do
    some (.ext (← n.text?) (← tyOfSexp t) (← jsonOfSexp j) (← strsOfSexp es))
  | _ => none

open StdConsts in
partial def exprOfSexp : Sexp → Option CExpr
  | .list [.atom "vsum", tag, t, .list vs] => do
    some (.sum (← tag.toNat?) (← tyOfSexp t) (← vs.mapM exprOfSexp))
  | .list [.atom "vtuple", .list vs] => do some (.tuple (← vs.mapM exprOfSexp))
  | .list [.atom "vfn", i, o, r, j] => do
    some (.function (← rowOfSexp i) (← rowOfSexp o) (← strsOfSexp r) (← jsonOfSexp j))
  | .list [.atom "vext", n, t, j, es] => do
    some (.ext (← n.text?) (← tyOfSexp t) (← jsonOfSexp j) (← strsOfSexp es))
  | .list [.atom "some", .list vs] => do some (.some (← vs.mapM exprOfSexp))
  | .list [.atom "none", ts] => do some (.none (← rowOfSexp ts))
  | .list [.atom "left", .list vs, ts] => do some (.left (← vs.mapM exprOfSexp) (← rowOfSexp ts))
  | .list [.atom "right", ts, .list vs] => do some (.right (← rowOfSexp ts) (← vs.mapM exprOfSexp))
  | .list [.atom "unitsum", tag, size] => do some (.unitSum (← tag.toNat?) (← size.toNat?))
  | .list [.atom "bool", .atom "true"] => some (.bool true)
  | .list [.atom "bool", .atom "false"] => some (.bool false)
  | .atom "unit" => some .unit
  | .list [.atom "int", v, w] => do some (.intVal (← v.toInt?) (← w.toInt?))
  | .list [.atom "float", j] => do some (.floatVal (← jsonOfSexp j))
  | .list [.atom "string", s] => do some (.stringVal (← s.text?))
  | .list [.atom "array", .list vs, t] => do some (.arrayVal (← vs.mapM exprOfSexp) (← tyOfSexp t))
  | .list [.atom "list", .list vs, t] => do some (.listVal (← vs.mapM exprOfSexp) (← tyOfSexp t))
  | .list [.atom "sarray", .list vs, t, n] => do
    some (.staticArrayVal (← vs.mapM exprOfSexp) (← tyOfSexp t) (← n.text?))
  | _ => none

end HugrVerif.Bridge
