/-
  Bridge for the rendering model: configuration from s-expressions, `RenderOut` as a JSON tree
  (the canonical dump both sides of the correspondence check produce), and the instantiation of the
  Python string conversions with `PyStr.lean`.

  config sexp:   (<palette> <qualify>)   palette = "default" | "nb" | "zx" | any other name (→ KeyError)
                                                 | (custom bg node edge dark const discard node_border port_border)
                                                 | none  (no configuration given: `RenderConfig()`)
                                         qualify = true | false
  dump:  {"name", "graph": {attr: value}, "root": ITEM, "edges": [EDGE]}
         ITEM = {"node": NODE} | {"cluster": "cluster<i>", "attrs": {…}, "body": [ITEM]}
         NODE = {"id", "name", "in": [CELL], "out": [CELL], "meta": [line], "fill", "border", "font", "attrs": {…}}
         CELL = {"port", "text", "bg", "border", "font"}
         EDGE = {"src", "dst", "label", "attrs": {…}}
-/
import HugrVerif.Sexp
import HugrVerif.Render
import HugrVerif.PyStr

namespace HugrVerif.Bridge.Render
open HugrVerif HugrVerif.Render

def parsePalette : Sexp → Option (Option Palette)
  | .list [.atom "custom", a, b, c, d, e, f, g, h] => do
    some (some ⟨← a.text?, ← b.text?, ← c.text?, ← d.text?, ← e.text?, ← f.text?, ← g.text?, ← h.text?⟩)
  | .str name => some (Palette.named name)
  | .atom "none" => some (some Palette.default)      -- `render_dot()` without a configuration
  | _ => none

def parseBool : Sexp → Option Bool
  | .atom "true" => some true
  | .atom "false" => some false
  | _ => none

/-- `none`: malformed; `some none`: `Palette.named` raises `KeyError` -/
def parseConfig : Sexp → Option (Option RenderConfig)
  | .list [p, q] => do
    let pal ← parsePalette p
    let q ← parseBool q
    some (pal.map fun pal => { palette := pal, qualifyOpName := q })
  | _ => none

def strObj (kvs : List (String × String)) : Json := .obj (kvs.map fun (k, v) => (k, .str v))

def cellJson (c : Cell) : Json :=
  .obj [("port", .str c.portId), ("text", .str c.text), ("bg", .str c.bg), ("border", .str c.border),
        ("font", .str c.font)]

def nodeJson (n : NodeStmt) : Json :=
  .obj [("id", .str n.id), ("name", .str n.name), ("in", .arr (n.inCells.map cellJson)),
        ("out", .arr (n.outCells.map cellJson)), ("meta", .arr (n.metaLines.map .str)),
        ("fill", .str n.fill), ("border", .str n.border), ("font", .str n.font),
        ("attrs", strObj nodeAttrs)]

mutual
  def itemJson : Item → Json
    | .node n => .obj [("node", nodeJson n)]
    | .cluster i col body =>
      .obj [("cluster", .str (Item.clusterName i)), ("attrs", strObj (clusterAttrs ++ [("color", col)])),
            ("body", .arr (itemsJson body))]
  def itemsJson : List Item → List Json
    | [] => []
    | it :: its => itemJson it :: itemsJson its
end

def edgeJson (e : EdgeStmt) : Json :=
  .obj [("src", .str e.srcName), ("dst", .str e.dstName), ("label", .str e.label),
        ("attrs", strObj (edgeAttrs ++ [("color", e.color)]))]

def dump (o : RenderOut) : Json :=
  .obj [("name", .str o.name), ("graph", strObj (graphAttrs ++ [("bgcolor", o.bgcolor)])),
        ("root", itemJson o.root), ("edges", .arr (o.edges.map edgeJson))]

/-- The Python string conversions (`PyStr.lean`); unmodelled values print as `""` — the driver checks
    `supported` first and never shows them. -/
def pyStrs (np : List Nat) : Strs where
  tyStr := fun t => (PyStr.tyStr np t).getD ""
  argsStr := fun as => ((PyStr.argsStr np as).map PyStr.commaSep).getD ""
  valStr := fun v => (PyStr.valRepr np v).getD ""
  mdStr := PyStr.jsonStr np

/-- every string the renderer will ask for is modelled -/
def supported (np : List Nat) (s : St) : Bool :=
  (Store.liveNodes s).all (fun i =>
    match Store.getNode s i with
    | .ok d =>
      match d.op with
      | .const v => (PyStr.valRepr np v).isSome
      | .extOp _ _ args => (PyStr.argsStr np args).isSome
      | _ => true
    | .error _ => true) &&
  (Store.linksList s).all (fun l =>
    match Store.getNode s l.1.1 with
    | .ok d =>
      match Op.hugrPortKind d.op .out l.1.2 with
      | .ok (.value t) => (PyStr.tyStr np t).isSome
      | _ => true
    | .error _ => true)

end HugrVerif.Bridge.Render
