/-
  Bridge: builder programs (harness/progs.py `prog_sexp`) ↔ `Build.Cmd`.

    PROG ::= ("encoder" (CMD…))
    NR   ::= (n "name") | (b "B") | (input "B") | (output "B") | (entry "C") | (exit "C") | (root "B")
           | (cond_node "B") | (raw idx)
    W    ::= (out NR k) | (idx NR k) | (in "B" k) | (node NR)          CW ::= W | (t i)
    OPX  ::= (ok O-or-constructor-form) | (raise Cls)                   (Bridge/Ops.lean)
    META ::= none | (("key" JSON)…)                                     X? ::= none | X
    CMD  ::= (Dfg "B" R) | (Function "B" "name" R (P…)) | (Module "B") | (Cfg "B" R) | (Conditional "B" SUM R)
           | (TailLoop "B" R R) | (TrackedDfg "B" R true|false)
           | (add_op "B" "n" OPX (W…) META) | (add "B" "n" OPX (CW…) META) | (extend "B" ("n"…) ((OPX (CW…))…))
           | (load "B" "n" (val V NR?)) | (load "B" "n" (const NR)) | (add_const "B" "n" V NR?)
           | (add_alias_defn "B" "n" "name" T NR?) | (add_alias_decl "B" "n" "name" BOUND)
           | (call "B" "n" NR (W…) SIG? (A…)?) | (load_function "B" "n" NR SIG? (A…)?)
           | (add_nested "B" "B2" (W…)) | (insert_nested "B" "n" "B2" (W…)) | (add_cfg …) | (insert_cfg …)
           | (add_conditional "B" "C" W (W…)) | (insert_conditional "B" "n" "C" W (W…)) | (add_if "B" "I" W (W…))
           | (add_else "I" "E") | (add_tail_loop "B" "T" (W…) (W…)) | (insert_tail_loop "B" "n" "T" (W…) (W…))
           | (define_function "B" "F" "name" R R? (P…)? NR?) | (define_main "M" "F" R)
           | (declare_function "M" "n" "name" POLY) | (declare_outputs "F" R) | (add_state_order "B" NR NR)
           | (set_outputs "B" (W…)) | (set_block_outputs "B" W (W…)) | (set_single_succ_outputs "B" (W…))
           | (set_loop_outputs "B" W (W…)) | (add_entry "C" "B") | (add_block "C" "B" R) | (add_successor "C" "B" W)
           | (branch "C" W NR) | (branch_exit "C" W) | (add_case "C" "B" k) | (exit_conditional "C")
           | (track_wire "B" W) | (track_wires "B" (W…)) | (track_inputs "B") | (untrack_wire "B" i)
           | (tracked_wire "B" i) | (set_indexed_outputs "B" (CW…)) | (set_tracked_outputs "B") | (to_json "B")
-/
import HugrVerif.Build
import HugrVerif.Bridge.Ops
import HugrVerif.Bridge.Json

namespace HugrVerif.Bridge.Prog
open HugrVerif HugrVerif.Bridge HugrVerif.Bridge.Ops HugrVerif.Build

def nodeRefOfSexp : Sexp → Option NodeRef
  | .list [.atom "n", x] => x.text?.map .var
  | .list [.atom "b", x] => x.text?.map .builder
  | .list [.atom "input", x] => x.text?.map .input
  | .list [.atom "output", x] => x.text?.map .output
  | .list [.atom "entry", x] => x.text?.map .entry
  | .list [.atom "exit", x] => x.text?.map .exit
  | .list [.atom "root", x] => x.text?.map .root
  | .list [.atom "cond_node", x] => x.text?.map .condNode
  | .list [.atom "raw", i] => i.toNat?.map .raw
  | _ => none

def wireOfSexp : Sexp → Option WireRef
  | .list [.atom "out", n, k] => do some (.out (← nodeRefOfSexp n) (← k.toInt?))
  | .list [.atom "idx", n, k] => do some (.idx (← nodeRefOfSexp n) (← k.toNat?))
  | .list [.atom "in", b, k] => do some (.inp (← b.text?) (← k.toNat?))
  | .list [.atom "node", n] => do some (.node (← nodeRefOfSexp n))
  | _ => none

def cwOfSexp : Sexp → Option CWRef
  | .list [.atom "t", i] => i.toNat?.map .tracked
  | s => (wireOfSexp s).map .wire

def wiresOfSexp : Sexp → Option (List WireRef)
  | .list ws => ws.mapM wireOfSexp
  | _ => none

def cwsOfSexp : Sexp → Option (List CWRef)
  | .list ws => ws.mapM cwOfSexp
  | _ => none

def errOfName : String → BuildErr
  | "NoSiblingAncestor" => .noSiblingAncestor
  | "NotInSameCfg" => .notInSameCfg
  | "ConditionalError" => .conditionalError
  | "MismatchedExit" => .mismatchedExit
  | "ValueError" => .valueError
  | "NoConcreteFunc" => .noConcreteFunc
  | "IndexError" => .indexError
  | "IncompleteOp" => .incompleteOp
  | "InvalidPort" => .invalidPort
  | "AssertionError" => .assertionError
  | "KeyError" => .keyError
  | "ParentBeforeChild" => .parentBeforeChild
  | "ValidationError" => .validationError
  | _ => .other

/-- `(ok O)` / `(raise Cls)`: the operation, or the exception its construction raised. -/
def opxOfSexp : Sexp → Option (Except BuildErr Op)
  | .list [.atom "ok", o] =>
    match ctorOfSexp o with
    | some (.ok op) => some (.ok op)
    | some (.error e) => some (.error (ofOpErr e))
    | none => none
  | .list [.atom "raise", c] => c.text?.map fun n => .error (errOfName n)
  | _ => none

def metaOfSexp : Sexp → Option Serial.Meta
  | .atom "none" => some []
  | .list kvs => kvs.mapM fun (kv : Sexp) => match kv with
    | Sexp.list [k, v] => do some (← k.text?, ← jsonOfSexp v)
    | _ => none
  | _ => none

def namesOfSexp : Sexp → Option (List String)
  | .list xs => xs.mapM Sexp.text?
  | _ => none

def boolOfSexp : Sexp → Option Bool
  | .atom "true" => some true
  | .atom "false" => some false
  | _ => none

/-- operations of an `extend`: all constructed first; the first failure is the command's failure -/
def comsOfSexp (xs : List Sexp) : Option (Except BuildErr (List (Op × List CWRef))) := do
  let parsed ← xs.mapM fun (x : Sexp) => match x with
    | Sexp.list [o, ws] => do some (← opxOfSexp o, ← cwsOfSexp ws)
    | _ => none
  let rec go : List (Except BuildErr Op × List CWRef) → Except BuildErr (List (Op × List CWRef))
    | [] => .ok []
    | (.error e, _) :: _ => .error e
    | (.ok op, ws) :: rest =>
      match go rest with
      | .error e => .error e
      | .ok l => .ok ((op, ws) :: l)
  some (go parsed)

def cmdOfSexp : Sexp → Option Cmd
  | .list [.atom "Dfg", b, r] => do some (.newDfg (← b.text?) (← rowOfSexp r))
  | .list [.atom "Function", b, n, r, ps] => do
    some (.newFunction (← b.text?) (← n.text?) (← rowOfSexp r) (← paramsOfSexp ps))
  | .list [.atom "Module", b] => do some (.newModule (← b.text?))
  | .list [.atom "Cfg", b, r] => do some (.newCfg (← b.text?) (← rowOfSexp r))
  | .list [.atom "Conditional", b, s, r] => do some (.newConditional (← b.text?) (← sumOfSexp s) (← rowOfSexp r))
  | .list [.atom "TailLoop", b, r1, r2] => do some (.newTailLoop (← b.text?) (← rowOfSexp r1) (← rowOfSexp r2))
  | .list [.atom "TrackedDfg", b, r, t] => do some (.newTracked (← b.text?) (← rowOfSexp r) (← boolOfSexp t))
  | .list [.atom "add_op", b, n, o, ws, m] => do
    let b ← b.text?; let n ← n.text?; let ws ← wiresOfSexp ws; let m ← metaOfSexp m
    match ← opxOfSexp o with
    | .ok op => some (.addOp b n op ws m)
    | .error e => some (.fail e)
  | .list [.atom "add", b, n, o, ws, m] => do
    let b ← b.text?; let n ← n.text?; let ws ← cwsOfSexp ws; let m ← metaOfSexp m
    match ← opxOfSexp o with
    | .ok op => some (.add b n op ws m)
    | .error e => some (.fail e)
  | .list [.atom "extend", b, ns, .list coms] => do
    let b ← b.text?; let ns ← namesOfSexp ns
    match ← comsOfSexp coms with
    | .ok cs => some (.extend b ns cs)
    | .error e => some (.fail e)
  | .list [.atom "load", b, n, .list [.atom "val", v, p]] => do
    some (.load (← b.text?) (← n.text?) (.val (← Ops.valueOfSexp v) (← optOf nodeRefOfSexp p)))
  | .list [.atom "load", b, n, .list [.atom "const", c]] => do
    some (.load (← b.text?) (← n.text?) (.const (← nodeRefOfSexp c)))
  | .list [.atom "add_const", b, n, v, p] => do
    some (.addConst (← b.text?) (← n.text?) (← Ops.valueOfSexp v) (← optOf nodeRefOfSexp p))
  | .list [.atom "add_alias_defn", b, n, name, t, p] => do
    some (.addAliasDefn (← b.text?) (← n.text?) (← name.text?) (← tyOfSexp t) (← optOf nodeRefOfSexp p))
  | .list [.atom "add_alias_decl", b, n, name, bd] => do
    some (.addAliasDecl (← b.text?) (← n.text?) (← name.text?) (← boundOfSexp bd))
  | .list [.atom "call", b, n, f, ws, inst, targs] => do
    some (.call (← b.text?) (← n.text?) (← nodeRefOfSexp f) (← wiresOfSexp ws) (← optOf sigOfSexp inst)
      (← optOf argsOfSexp targs))
  | .list [.atom "load_function", b, n, f, inst, targs] => do
    some (.loadFunction (← b.text?) (← n.text?) (← nodeRefOfSexp f) (← optOf sigOfSexp inst)
      (← optOf argsOfSexp targs))
  | .list [.atom "add_nested", b, nb, ws] => do some (.addNested (← b.text?) (← nb.text?) (← wiresOfSexp ws))
  | .list [.atom "insert_nested", b, n, o, ws] => do
    some (.insertNested (← b.text?) (← n.text?) (← o.text?) (← wiresOfSexp ws))
  | .list [.atom "insert_cfg", b, n, o, ws] => do
    some (.insertNested (← b.text?) (← n.text?) (← o.text?) (← wiresOfSexp ws))
  | .list [.atom "add_cfg", b, nb, ws] => do some (.addCfg (← b.text?) (← nb.text?) (← wiresOfSexp ws))
  | .list [.atom "add_conditional", b, nb, w, ws] => do
    some (.addConditional (← b.text?) (← nb.text?) (← wireOfSexp w) (← wiresOfSexp ws))
  | .list [.atom "insert_conditional", b, n, o, w, ws] => do
    some (.insertConditional (← b.text?) (← n.text?) (← o.text?) (← wireOfSexp w) (← wiresOfSexp ws))
  | .list [.atom "add_if", b, nb, w, ws] => do
    some (.addIf (← b.text?) (← nb.text?) (← wireOfSexp w) (← wiresOfSexp ws))
  | .list [.atom "add_else", b, nb] => do some (.addElse (← b.text?) (← nb.text?))
  | .list [.atom "add_tail_loop", b, nb, ji, rest] => do
    some (.addTailLoop (← b.text?) (← nb.text?) (← wiresOfSexp ji) (← wiresOfSexp rest))
  | .list [.atom "insert_tail_loop", b, n, o, ji, rest] => do
    some (.insertTailLoop (← b.text?) (← n.text?) (← o.text?) (← wiresOfSexp ji) (← wiresOfSexp rest))
  | .list [.atom "define_function", b, nb, name, ins, outs, ps, p] => do
    some (.defineFunction (← b.text?) (← nb.text?) (← name.text?) (← rowOfSexp ins) (← optOf rowOfSexp outs)
      (← optOf paramsOfSexp ps) (← optOf nodeRefOfSexp p))
  | .list [.atom "define_main", b, nb, ins] => do some (.defineMain (← b.text?) (← nb.text?) (← rowOfSexp ins))
  | .list [.atom "declare_function", b, n, name, p] => do
    some (.declareFunction (← b.text?) (← n.text?) (← name.text?) (← polyOfSexp p))
  | .list [.atom "declare_outputs", b, outs] => do some (.declareOutputs (← b.text?) (← rowOfSexp outs))
  | .list [.atom "add_state_order", b, s, d] => do
    some (.addStateOrder (← b.text?) (← nodeRefOfSexp s) (← nodeRefOfSexp d))
  | .list [.atom "set_outputs", b, ws] => do some (.setOutputs (← b.text?) (← wiresOfSexp ws))
  | .list [.atom "set_block_outputs", b, w, ws] => do
    some (.setBlockOutputs (← b.text?) (← wireOfSexp w) (← wiresOfSexp ws))
  | .list [.atom "set_single_succ_outputs", b, ws] => do some (.setSingleSuccOutputs (← b.text?) (← wiresOfSexp ws))
  | .list [.atom "set_loop_outputs", b, w, ws] => do
    some (.setLoopOutputs (← b.text?) (← wireOfSexp w) (← wiresOfSexp ws))
  | .list [.atom "add_entry", c, nb] => do some (.addEntry (← c.text?) (← nb.text?))
  | .list [.atom "add_block", c, nb, r] => do some (.addBlock (← c.text?) (← nb.text?) (← rowOfSexp r))
  | .list [.atom "add_successor", c, nb, w] => do some (.addSuccessor (← c.text?) (← nb.text?) (← wireOfSexp w))
  | .list [.atom "branch", c, w, d] => do some (.branch (← c.text?) (← wireOfSexp w) (← nodeRefOfSexp d))
  | .list [.atom "branch_exit", c, w] => do some (.branchExit (← c.text?) (← wireOfSexp w))
  | .list [.atom "add_case", c, nb, k] => do some (.addCase (← c.text?) (← nb.text?) (← k.toInt?))
  | .list [.atom "exit_conditional", c] => do some (.exitConditional (← c.text?))
  | .list [.atom "track_wire", b, w] => do some (.trackWire (← b.text?) (← wireOfSexp w))
  | .list [.atom "track_wires", b, ws] => do some (.trackWires (← b.text?) (← wiresOfSexp ws))
  | .list [.atom "track_inputs", b] => do some (.trackInputs (← b.text?))
  | .list [.atom "untrack_wire", b, i] => do some (.untrackWire (← b.text?) (← i.toNat?))
  | .list [.atom "tracked_wire", b, i] => do some (.trackedWire (← b.text?) (← i.toNat?))
  | .list [.atom "set_indexed_outputs", b, ws] => do some (.setIndexedOutputs (← b.text?) (← cwsOfSexp ws))
  | .list [.atom "set_tracked_outputs", b] => do some (.setTrackedOutputs (← b.text?))
  | .list [.atom "to_json", b] => do some (.toJson (← b.text?))
  | _ => none

def progOfSexp : Sexp → Option (String × List Cmd)
  | .list [enc, .list cmds] => do some (← enc.text?, ← cmds.mapM cmdOfSexp)
  | _ => none

end HugrVerif.Bridge.Prog
