/-
  Bridge: hugr-model module → structural dump as a JSON tree (the same shape `harness/props/C12.py`
  produces from the Python dataclasses):

    term   ::= ["wildcard"] | ["var", name] | ["apply", symbol, [term…]] | ["splice", term] | ["list", [term…]]
             | ["tuple", [term…]] | ["lit", "i", int] | ["lit", "s", str] | ["lit", "f", text] | ["lit", "b", [byte…]]
             | ["func", region]
    symbol ::= ["symbol", name, [["param", name, term]…], [term…], term]
    op     ::= [Class] | [Class, symbol] | ["DefineAlias", symbol, term] | ["CustomOp", term] | ["Import", name]
    node   ::= ["node", op, [str…], [str…], [region…], [term…], term | null]
    region ::= ["region", "DATA_FLOW" | "CONTROL_FLOW" | "MODULE", [str…], [str…], [node…], [term…], term | null]
    module ::= ["module", region]
-/
import HugrVerif.Bridge.Json
import HugrVerif.Model

namespace HugrVerif.Bridge.Model
open HugrVerif HugrVerif.Model

def strs (xs : List String) : Json := .arr (xs.map .str)

def kindName : RegionKind → String
  | .dataFlow => "DATA_FLOW"
  | .controlFlow => "CONTROL_FLOW"
  | .module => "MODULE"

def litJson : Lit → Json
  | .int i => .arr [.str "lit", .str "i", .int i]
  | .str s => .arr [.str "lit", .str "s", .str s]
  | .float t => .arr [.str "lit", .str "f", .str t]
  | .bytes b => .arr [.str "lit", .str "b", .arr (b.map fun (n : Nat) => Json.int n)]

mutual
  partial def termJson : Term → Json
    | .wildcard => .arr [.str "wildcard"]
    | .var n => .arr [.str "var", .str n]
    | .apply s args => .arr [.str "apply", .str s, .arr (args.map termJson)]
    | .splice t => .arr [.str "splice", termJson t]
    | .list ps => .arr [.str "list", .arr (ps.map termJson)]
    | .tuple ps => .arr [.str "tuple", .arr (ps.map termJson)]
    | .literal l => litJson l
    | .func r => .arr [.str "func", regionJson r]
  partial def symbolJson : Symbol → Json
    | .mk name params constraints sig =>
      .arr [.str "symbol", .str name,
        .arr (params.map fun p => match p with | .mk n t => Json.arr [.str "param", .str n, termJson t]),
        .arr (constraints.map termJson), termJson sig]
  partial def opJson : Operation → Json
    | .invalid => .arr [.str "InvalidOp"]
    | .dfg => .arr [.str "Dfg"]
    | .cfg => .arr [.str "Cfg"]
    | .block => .arr [.str "Block"]
    | .tailLoop => .arr [.str "TailLoop"]
    | .conditional => .arr [.str "Conditional"]
    | .defineFunc s => .arr [.str "DefineFunc", symbolJson s]
    | .declareFunc s => .arr [.str "DeclareFunc", symbolJson s]
    | .declareAlias s => .arr [.str "DeclareAlias", symbolJson s]
    | .declareConstructor s => .arr [.str "DeclareConstructor", symbolJson s]
    | .declareOperation s => .arr [.str "DeclareOperation", symbolJson s]
    | .defineAlias s v => .arr [.str "DefineAlias", symbolJson s, termJson v]
    | .custom t => .arr [.str "CustomOp", termJson t]
    | .import_ n => .arr [.str "Import", .str n]
  partial def nodeJson : Node → Json
    | .mk op ins outs regions metas sig =>
      .arr [.str "node", opJson op, strs ins, strs outs, .arr (regions.map regionJson), .arr (metas.map termJson),
        match sig with | none => .null | some t => termJson t]
  partial def regionJson : Region → Json
    | .mk kind sources targets children metas sig =>
      .arr [.str "region", .str (kindName kind), strs sources, strs targets, .arr (children.map nodeJson),
        .arr (metas.map termJson), match sig with | none => .null | some t => termJson t]
end

def moduleJson (m : Module) : Json := .arr [.str "module", regionJson m.root]

end HugrVerif.Bridge.Model

/-! ### the inverse: a dumped module (of the implementation) → `Module` -/
namespace HugrVerif.Bridge.Model
open HugrVerif HugrVerif.Model

def strsOf : Json → Option (List String)
  | .arr xs => xs.mapM fun | .str s => some s | _ => none
  | _ => none

def kindOf : String → Option RegionKind
  | "DATA_FLOW" => some .dataFlow
  | "CONTROL_FLOW" => some .controlFlow
  | "MODULE" => some .module
  | _ => none

mutual
  partial def termOf : Json → Option Term
    | .arr [.str "wildcard"] => some .wildcard
    | .arr [.str "var", .str n] => some (.var n)
    | .arr [.str "apply", .str s, .arr args] => do some (.apply s (← args.mapM termOf))
    | .arr [.str "splice", t] => do some (.splice (← termOf t))
    | .arr [.str "list", .arr ps] => do some (.list (← ps.mapM termOf))
    | .arr [.str "tuple", .arr ps] => do some (.tuple (← ps.mapM termOf))
    | .arr [.str "lit", .str "i", .int i] => some (.literal (.int i))
    | .arr [.str "lit", .str "s", .str s] => some (.literal (.str s))
    | .arr [.str "lit", .str "f", .str s] => some (.literal (.float s))
    | .arr [.str "lit", .str "b", .arr bs] => do
      some (.literal (.bytes (← bs.mapM fun | .int i => some i.toNat | _ => none)))
    | .arr [.str "func", r] => do some (.func (← regionOf r))
    | _ => none
  partial def symbolOf : Json → Option Symbol
    | .arr [.str "symbol", .str name, .arr ps, .arr cs, sig] => do
      let params ← ps.mapM fun
        | .arr [.str "param", .str n, t] => do some (Param.mk n (← termOf t))
        | _ => none
      some (.mk name params (← cs.mapM termOf) (← termOf sig))
    | _ => none
  partial def opOf : Json → Option Operation
    | .arr [.str "InvalidOp"] => some .invalid
    | .arr [.str "Dfg"] => some .dfg
    | .arr [.str "Cfg"] => some .cfg
    | .arr [.str "Block"] => some .block
    | .arr [.str "TailLoop"] => some .tailLoop
    | .arr [.str "Conditional"] => some .conditional
    | .arr [.str "DefineFunc", s] => do some (.defineFunc (← symbolOf s))
    | .arr [.str "DeclareFunc", s] => do some (.declareFunc (← symbolOf s))
    | .arr [.str "DeclareAlias", s] => do some (.declareAlias (← symbolOf s))
    | .arr [.str "DeclareConstructor", s] => do some (.declareConstructor (← symbolOf s))
    | .arr [.str "DeclareOperation", s] => do some (.declareOperation (← symbolOf s))
    | .arr [.str "DefineAlias", s, v] => do some (.defineAlias (← symbolOf s) (← termOf v))
    | .arr [.str "CustomOp", t] => do some (.custom (← termOf t))
    | .arr [.str "Import", .str n] => some (.import_ n)
    | _ => none
  partial def optTermOf : Json → Option (Option Term)
    | .null => some none
    | t => do some (some (← termOf t))
  partial def nodeOf : Json → Option Node
    | .arr [.str "node", op, ins, outs, .arr regions, .arr metas, sig] => do
      some (.mk (← opOf op) (← strsOf ins) (← strsOf outs) (← regions.mapM regionOf) (← metas.mapM termOf)
        (← optTermOf sig))
    | _ => none
  partial def regionOf : Json → Option Region
    | .arr [.str "region", .str kind, sources, targets, .arr children, .arr metas, sig] => do
      some (.mk (← kindOf kind) (← strsOf sources) (← strsOf targets) (← children.mapM nodeOf)
        (← metas.mapM termOf) (← optTermOf sig))
    | _ => none
end

def moduleOf : Json → Option Module
  | .arr [.str "module", r] => do some ⟨← regionOf r⟩
  | _ => none

end HugrVerif.Bridge.Model
