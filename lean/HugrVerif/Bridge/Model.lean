/-
  Bridge: hugr-model module → structural dump as a JSON tree (the same shape `harness/props/C12.py`
  produces from the Python dataclasses):

    term   ::= ["wildcard"] | ["var", name] | ["apply", symbol, [term…]] | ["splice", term] | ["list", [term…]]
             | ["tuple", [term…]] | ["lit", "i", int] | ["lit", "s", str] | ["lit", "f", text] | ["lit", "b", [byte…]]
             | ["func", region]
    symbol ::= ["symbol", name, [["param", name, term]…], [term…], term]
    op     ::= [Class] | [Class, symbol] | ["DefineAlias", symbol, term] | ["CustomOp", term] | ["Import", name]
    node   ::= ["node", op, [str…], [str…], [region…], [term…], term | null]
    region ::= ["region", "DATA_FLOW" | "CONTROL_FLOW" | "MODULE", [str…], [str…], [node…], [term…], term | null]
    module ::= ["module", region]
-/
import HugrVerif.Bridge.Json
import HugrVerif.Model

namespace HugrVerif.Bridge.Model
open HugrVerif HugrVerif.Model

def strs (xs : List String) : Json := .arr (xs.map .str)

def kindName : RegionKind → String
  | .dataFlow => "DATA_FLOW"
  | .controlFlow => "CONTROL_FLOW"
  | .module => "MODULE"

def litJson : Lit → Json
  | .int i => .arr [.str "lit", .str "i", .int i]
  | .str s => .arr [.str "lit", .str "s", .str s]
  | .float t => .arr [.str "lit", .str "f", .str t]
  | .bytes b => .arr [.str "lit", .str "b", .arr (b.map fun (n : Nat) => Json.int n)]

mutual
  partial def termJson : Term → Json
    | .wildcard => .arr [.str "wildcard"]
    | .var n => .arr [.str "var", .str n]
    | .apply s args => .arr [.str "apply", .str s, .arr (args.map termJson)]
    | .splice t => .arr [.str "splice", termJson t]
    | .list ps => .arr [.str "list", .arr (ps.map termJson)]
    | .tuple ps => .arr [.str "tuple", .arr (ps.map termJson)]
    | .literal l => litJson l
    | .func r => .arr [.str "func", regionJson r]
  partial def symbolJson : Symbol → Json
    | .mk name params constraints sig =>
      .arr [.str "symbol", .str name,
        .arr (params.map fun p => match p with | .mk n t => Json.arr [.str "param", .str n, termJson t]),
        .arr (constraints.map termJson), termJson sig]
  partial def opJson : Operation → Json
    | .invalid => .arr [.str "InvalidOp"]
    | .dfg => .arr [.str "Dfg"]
    | .cfg => .arr [.str "Cfg"]
    | .block => .arr [.str "Block"]
    | .tailLoop => .arr [.str "TailLoop"]
    | .conditional => .arr [.str "Conditional"]
    | .defineFunc s => .arr [.str "DefineFunc", symbolJson s]
    | .declareFunc s => .arr [.str "DeclareFunc", symbolJson s]
    | .declareAlias s => .arr [.str "DeclareAlias", symbolJson s]
    | .declareConstructor s => .arr [.str "DeclareConstructor", symbolJson s]
    | .declareOperation s => .arr [.str "DeclareOperation", symbolJson s]
    | .defineAlias s v => .arr [.str "DefineAlias", symbolJson s, termJson v]
    | .custom t => .arr [.str "CustomOp", termJson t]
    | .import_ n => .arr [.str "Import", .str n]
  partial def nodeJson : Node → Json
    | .mk op ins outs regions metas sig =>
      .arr [.str "node", opJson op, strs ins, strs outs, .arr (regions.map regionJson), .arr (metas.map termJson),
        match sig with | none => .null | some t => termJson t]
  partial def regionJson : Region → Json
    | .mk kind sources targets children metas sig =>
      .arr [.str "region", .str (kindName kind), strs sources, strs targets, .arr (children.map nodeJson),
        .arr (metas.map termJson), match sig with | none => .null | some t => termJson t]
end

def moduleJson (m : Module) : Json := .arr [.str "module", regionJson m.root]

end HugrVerif.Bridge.Model
